package aquahash

// C14 harnesses: a proof-of-work seal is accepted exactly when it meets the
// target.  Executed symbolically by /verif/engine with the hash functions
// replaced by uninterpreted functions (suite overrides redirect
// argon2.IDKey, sha3.Keccak256, sha3.NewKeccak256, rlp.Encode and the ethash
// entry points to the c14* stubs below); compiled natively for replay, where
// the same helpers evaluate the real functions, so that every assertion is
// meaningful in both worlds.

import (
	"bytes"
	"hash"
	"io"
	"math/big"

	"gitlab.com/aquachain/aquachain/common"
	"gitlab.com/aquachain/aquachain/common/log"
	"gitlab.com/aquachain/aquachain/consensus/aquahash/ethashdag"
	"gitlab.com/aquachain/aquachain/core/types"
	"gitlab.com/aquachain/aquachain/crypto"
	"gitlab.com/aquachain/aquachain/crypto/sha3"
	vs "gitlab.com/aquachain/aquachain/internal/verifsym"
	"gitlab.com/aquachain/aquachain/params"
	"gitlab.com/aquachain/aquachain/rlp"
	"golang.org/x/crypto/argon2"
)

// ---------------------------------------------------------------------------
// hash primitives: uninterpreted under the engine, real natively

func c14cat(data [][]byte) []byte {
	var b []byte
	for _, d := range data {
		b = append(b, d...)
	}
	return b
}

// c14Keccak256: redirect target of crypto/sha3.Keccak256.
func c14Keccak256(data ...[]byte) []byte {
	if !vs.Symbolic() {
		return sha3.Keccak256(data...)
	}
	return vs.UF("keccak256", 32, c14cat(data))
}

// c14IDKey: redirect target of golang.org/x/crypto/argon2.IDKey.  One
// uninterpreted function per (time, memory, threads) parameter set.
func c14IDKey(password, salt []byte, time, memory uint32, threads uint8, keyLen uint32) []byte {
	if !vs.Symbolic() {
		return argon2.IDKey(password, salt, time, memory, threads, keyLen)
	}
	if len(password) == 40 {
		ethashdag.VerifC14Tick() // a proof-of-work evaluation (40-byte seed), not a header hash
	}
	name := "argon2id"
	for _, p := range []uint32{time, memory, uint32(threads)} {
		name += "_" + c14itoa(p)
	}
	// ".nat": big.Int.SetBytes of the whole result is an Int-valued companion function (engine/big.go)
	return vs.UF(name+".nat", int(keyLen), password, salt)
}

func c14itoa(v uint32) string {
	if v == 0 {
		return "0"
	}
	s := ""
	for ; v > 0; v /= 10 {
		s = string(rune('0'+v%10)) + s
	}
	return s
}

// c14Hasher: redirect target of crypto/sha3.NewKeccak256 (collects the input, Sum = c14Keccak256).
type c14Hasher struct{ buf []byte }

func (h *c14Hasher) Write(p []byte) (int, error) { h.buf = append(h.buf, p...); return len(p), nil }
func (h *c14Hasher) Sum(b []byte) []byte         { return append(b, c14Keccak256(h.buf)...) }
func (h *c14Hasher) Reset()                      { h.buf = nil }
func (h *c14Hasher) Size() int                   { return 32 }
func (h *c14Hasher) BlockSize() int              { return 136 }

func c14NewKeccak256() hash.Hash { return &c14Hasher{} }

// c14Encode: the RLP encoding of a header or of a field list.  Natively the
// real encoder; under the engine an uninterpreted function of the encoded
// values (the reflection-driven encoder is outside the engine: C11).
func c14Encode(x interface{}) []byte {
	if !vs.Symbolic() {
		b, err := rlp.EncodeToBytes(x)
		if err != nil {
			return nil // rlpHash ignores encoder errors as well
		}
		return b
	}
	var list []interface{}
	switch v := x.(type) {
	case []interface{}:
		list = v
	case *types.Header: // all fields but Version (tagged rlp:"-")
		list = []interface{}{v.ParentHash, v.UncleHash, v.Coinbase, v.Root, v.TxHash, v.ReceiptHash, v.Bloom,
			v.Difficulty, v.Number, v.GasLimit, v.GasUsed, v.Time, v.Extra, v.MixDigest, v.Nonce}
	default:
		panic("c14Encode: unexpected value")
	}
	flat := make([]interface{}, 0, len(list))
	for _, e := range list {
		switch f := e.(type) {
		case common.Hash:
			flat = append(flat, f[:])
		case common.Address:
			flat = append(flat, f[:])
		case types.Bloom:
			flat = append(flat, f[:])
		case types.BlockNonce:
			flat = append(flat, f[:])
		case []byte:
			flat = append(flat, f)
		case uint64:
			flat = append(flat, f)
		case *big.Int:
			flat = append(flat, f)
		default:
			panic("c14Encode: unexpected element")
		}
	}
	return vs.UFX("rlp", 32, flat...)
}

// c14RlpEncode: redirect target of rlp.Encode.
func c14RlpEncode(w io.Writer, val interface{}) error {
	_, err := w.Write(c14Encode(val))
	return err
}

// c14Logger: redirect target of log.New (the miner logs through a Logger value).
type c14Logger struct{}

func (c14Logger) New(ctx ...interface{}) log.LoggerI   { return c14Logger{} }
func (c14Logger) GetHandler() log.Handler              { return nil }
func (c14Logger) SetHandler(h log.Handler)             {}
func (c14Logger) Trace(msg string, ctx ...interface{}) {}
func (c14Logger) Debug(msg string, ctx ...interface{}) {}
func (c14Logger) Info(msg string, ctx ...interface{})  {}
func (c14Logger) Warn(msg string, ctx ...interface{})  {}
func (c14Logger) Error(msg string, ctx ...interface{}) {}
func (c14Logger) Crit(msg string, ctx ...interface{})  {}

func c14NewLogger(ctx ...interface{}) log.LoggerI { return c14Logger{} }

// ---------------------------------------------------------------------------
// specification side

// c14PowHash: the proof-of-work function of algorithm version v (2..4) as the
// property states it: argon2id, one pass, one lane, 1/16/32 KiB.
func c14PowHash(v int, seed []byte) []byte {
	mem := map[int]uint32{2: 1, 3: 16, 4: 32}[v]
	return c14IDKey(seed, nil, 1, mem, 1, 32)
}

// c14HeaderHashFn: the function block/header hashes of version v are computed with.
func c14HeaderHash(v int, enc []byte) []byte {
	if v == 1 {
		return c14Keccak256(enc)
	}
	return c14PowHash(v, enc)
}

var c14two256 = new(big.Int).Lsh(big.NewInt(1), 256)

// c14Header: a header with symbolic content (small extra data, full-width hashes).
func c14Header(v int) *types.Header {
	h := &types.Header{
		Difficulty: vs.Big("difficulty"),
		Number:     new(big.Int).SetUint64(vs.U64("number")),
		GasLimit:   vs.U64("gaslimit"),
		GasUsed:    vs.U64("gasused"),
		Time:       vs.BigU("time", 256),
		Extra:      vs.Bytes("extra", vs.Param("extra")),
		Version:    params.HeaderVersion(v),
	}
	copy(h.ParentHash[:], vs.BytesN("parenthash", 32))
	copy(h.UncleHash[:], vs.BytesN("unclehash", 32))
	copy(h.Coinbase[:], vs.BytesN("coinbase", 20))
	copy(h.Root[:], vs.BytesN("root", 32))
	copy(h.TxHash[:], vs.BytesN("txhash", 32))
	copy(h.ReceiptHash[:], vs.BytesN("receipthash", 32))
	copy(h.Bloom[:8], vs.BytesN("bloom", 8))
	copy(h.MixDigest[:], vs.BytesN("mix", 32))
	copy(h.Nonce[:], vs.BytesN("nonce", 8))
	return h
}

// c14Seed: seal hash followed by the nonce (an integer, stored big endian in
// the header) in little-endian byte order.
func c14Seed(sealHash common.Hash, nonce types.BlockNonce) []byte {
	seed := make([]byte, 0, 40)
	seed = append(seed, sealHash[:]...)
	n := nonce.Uint64()
	for i := 0; i < 8; i++ {
		seed = append(seed, byte(n>>(8*uint(i))))
	}
	return seed
}

// c14Meets: hash value (big endian, unsigned) is at most 2^256 / difficulty,
// stated multiplicatively.
func c14Meets(result []byte, difficulty *big.Int) bool {
	r := new(big.Int).SetBytes(result)
	return new(big.Int).Mul(r, difficulty).Cmp(c14two256) <= 0
}

// VerifC14_Seal: VerifySeal(header) == nil  <=>  difficulty > 0, mix digest is
// the expected one and hash(seal hash ‖ nonce) * difficulty <= 2^256, for the
// argon2id versions (2,3,4) and the invalid versions 0 and 5.
func VerifC14_Seal() {
	v := []int{2, 3, 4, 0, 5}[vs.Choice("version", 5)]
	header := c14Header(v)
	vs.Assume(header.Number.Cmp(big.NewInt(2048*30000)) < 0) // below the ethash epoch table limit (61.44M)
	label := ""
	if vs.Choice("unitdifficulty", 2) == 1 {
		// difficulty 1: every hash value meets the target, so findings that do
		// not hinge on the hash value replay natively with the real functions
		header.Difficulty = big.NewInt(1)
		label = " (difficulty 1)"
	}
	engine := &Aquahash{config: &Config{PowMode: ModeNormal}}

	var err error
	panicked := vs.NoPanic(func() { err = engine.VerifySeal(nil, header) })
	accepted := !panicked && err == nil

	if v == 0 || v == 5 {
		vs.Reach("invalid-version")
		vs.Assert(!accepted, "header with an unknown algorithm version accepted"+label)
		vs.Assert(panicked == (header.Difficulty.Sign() > 0), "unknown version with a positive difficulty panics (documented)"+label)
		return
	}
	vs.Assert(!panicked, "VerifySeal panicked"+label)
	result := c14PowHash(v, c14Seed(header.HashNoNonce(), header.Nonce))
	want := header.Difficulty.Sign() > 0 && header.MixDigest == (common.Hash{}) && c14Meets(result, header.Difficulty)
	if accepted {
		vs.Reach("accept")
	} else {
		vs.Reach("reject")
	}
	vs.Assert(accepted == want, "accepted iff difficulty positive, mix digest zero and hash*difficulty <= 2^256"+label)
}

// VerifC14_VersionHash: crypto.VersionHash(v, data) is keccak256 for v = 1 and
// argon2id with 1/16/32 KiB for v = 2/3/4 (byte-for-byte), and panics otherwise.
func VerifC14_VersionHash() {
	v := vs.Choice("version", 7)
	data := vs.BytesN("data", 40)
	var got []byte
	panicked := vs.NoPanic(func() { got = crypto.VersionHash(byte(v), data) })
	if v < 1 || v > 4 {
		vs.Assert(panicked, "VersionHash of an unknown version must not return a hash")
		return
	}
	vs.Assert(!panicked, "VersionHash panicked")
	vs.Assert(bytes.Equal(got, c14HeaderHash(v, data)), "VersionHash uses the function of its version")
}

// VerifC14_HeaderHash: Header.Hash is the version's function of the header
// encoding; HashNoNonce is keccak256 (argon2id-16K for version 3) of the
// 13-field seal-free list; SetVersion sets the version and returns Hash.
func VerifC14_HeaderHash() {
	v := vs.Choice("version", 5)
	h := c14Header(v)
	if v == 0 {
		vs.Assert(vs.NoPanic(func() { h.Hash() }), "hashing a header without version must panic")
	} else {
		want := c14HeaderHash(v, c14Encode(h))
		got := h.Hash()
		vs.Assert(bytes.Equal(got[:], want), "Header.Hash uses the function of the header's version")
	}
	nv := 1
	if v == 3 {
		nv = 3
	}
	fields := []interface{}{h.ParentHash, h.UncleHash, h.Coinbase, h.Root, h.TxHash, h.ReceiptHash, h.Bloom,
		h.Difficulty, h.Number, h.GasLimit, h.GasUsed, h.Time, h.Extra}
	wantNN := c14HeaderHash(nv, c14Encode(fields))
	gotNN := h.HashNoNonce()
	vs.Assert(bytes.Equal(gotNN[:], wantNN), "HashNoNonce: keccak256 (argon2id-16K for version 3) of the seal-free field list")

	if v != 0 {
		// the block wrapper: same hash as its header; MinerHash is the version's function of seal hash and nonce
		b := types.NewBlockWithHeader(h)
		vs.Assert(b.Hash() == h.Hash() && b.HashNoNonce() == gotNN, "Block.Hash / Block.HashNoNonce are the header's")
		mh := b.MinerHash()
		vs.Assert(bytes.Equal(mh[:], c14HeaderHash(v, c14Seed(gotNN, h.Nonce))), "MinerHash: the version's function of seal hash and little-endian nonce")
	}

	nv2 := 1 + vs.Choice("setversion", 4)
	h2 := types.CopyHeader(h)
	got2 := h2.SetVersion(byte(nv2))
	vs.Assert(h2.Version == params.HeaderVersion(nv2), "SetVersion stores the version")
	vs.Assert(bytes.Equal(got2[:], c14HeaderHash(nv2, c14Encode(h))), "SetVersion returns the hash under the new version")
}

// VerifC14_BlockVersion: GetBlockVersion(h) is 1 below HF5, 2 from HF5, 3 from
// HF8, 4 from HF9, on every built-in schedule, for every height.
func VerifC14_BlockVersion() {
	cfg, sched := c13Builtin(vs.Choice("net", 6))
	n := vs.BigU("height", 64)
	got := int(cfg.GetBlockVersion(n))
	want := 1
	if sched.on(5, n) {
		want = 2
	}
	if sched.on(8, n) {
		want = 3
	}
	if sched.on(9, n) {
		want = 4
	}
	vs.Observe("version", got)
	vs.Assert(got == want, "algorithm version follows the fork schedule")
}

// VerifC14_SealEthash: version 1: accepted iff difficulty > 0, the ethash
// verification is available, the mix digest equals the ethash digest and
// result * difficulty <= 2^256 (digest/result uninterpreted).
func VerifC14_SealEthash() {
	if !vs.Symbolic() {
		return // depends on engine-only stubs (suite: no_native); nothing to run natively
	}
	header := c14Header(1)
	vs.Assume(header.Number.Cmp(big.NewInt(2048*30000)) < 0)
	engine := &Aquahash{config: &Config{PowMode: ModeNormal}}
	if vs.Choice("dag", 2) == 1 {
		engine.ethashdag = new(ethashdag.EthashDAG) // else: created on demand (ethashdag.New is a no-op here)
	}
	ethashdag.VerifC14EthashUnavailable = vs.Bool("ethash_unavailable")
	var err error
	vs.Assert(!vs.NoPanic(func() { err = engine.VerifySeal(nil, header) }), "VerifySeal panicked")
	digest, result := ethashdag.VerifC14Hashimoto(header.HashNoNonce().Bytes(), header.Nonce.Uint64())
	want := header.Difficulty.Sign() > 0 && !ethashdag.VerifC14EthashUnavailable &&
		bytes.Equal(header.MixDigest[:], digest) && c14Meets(result, header.Difficulty)
	if err == nil {
		vs.Reach("accept")
	} else {
		vs.Reach("reject")
	}
	vs.Assert((err == nil) == want, "accepted iff difficulty positive, mix digest is the ethash digest and result*difficulty <= 2^256")
}

// VerifC14_Mine: the miner's nonce loop, bounded to a few consecutive nonces
// from an arbitrary start: whatever it returns passes VerifySeal and differs
// from the work only in nonce and mix digest; if it gives up, none of the
// nonces it tried meets the target.  Precondition (established by Finalize and
// Prepare): header.Version is the version mined with, difficulty > 0.
func VerifC14_Mine() {
	if !vs.Symbolic() {
		return // depends on engine-only stubs (suite: no_native); nothing to run natively
	}
	v := 1 + vs.Choice("version", 4)
	header := c14Header(v)
	header.MixDigest, header.Nonce = common.Hash{}, types.BlockNonce{}
	vs.Assume(header.Difficulty.Sign() > 0)
	vs.Assume(header.Number.Cmp(big.NewInt(2048*30000)) < 0)
	engine := &Aquahash{config: &Config{PowMode: ModeNormal}, ethashdag: new(ethashdag.EthashDAG)}
	block := types.NewBlockWithHeader(header)
	start := vs.U64("startnonce")
	tries := vs.Param("nonces")
	abort, found := make(chan struct{}, 1), make(chan *types.Block, 1)

	// the abort token appears during evaluation number tries+1, so the first
	// `tries` nonces are processed completely
	ethashdag.VerifC14Abort, ethashdag.VerifC14Budget = abort, tries+1
	engine.mine(params.HeaderVersion(v), block, 0, start, abort, found)
	ethashdag.VerifC14Abort = nil

	sealHash := header.HashNoNonce()
	pow := func(nonce uint64) (digest, result []byte) {
		if v == 1 {
			return ethashdag.VerifC14Hashimoto(sealHash[:], nonce)
		}
		return make([]byte, 32), c14PowHash(v, c14Seed(sealHash, types.EncodeNonce(nonce)))
	}
	if len(found) == 0 {
		vs.Reach("exhausted")
		for i := 0; i < tries; i++ {
			_, result := pow(start + uint64(i))
			vs.Assert(!c14Meets(result, header.Difficulty), "miner skipped a nonce that meets the target")
		}
		return
	}
	vs.Reach("found")
	sealed := (<-found).Header()
	vs.Assert(engine.VerifySeal(nil, sealed) == nil, "a seal returned by the miner passes VerifySeal")
	vs.Assert(sealed.Version == params.HeaderVersion(v), "sealed header carries the version mined with")
	vs.Assert(sealed.HashNoNonce() == sealHash, "sealing changes nothing but nonce and mix digest")
	vs.Assert(sealed.Nonce.Uint64()-start <= uint64(tries), "nonce is one of those tried")
	digest, _ := pow(sealed.Nonce.Uint64())
	vs.Assert(bytes.Equal(sealed.MixDigest[:], digest), "mix digest is the one of the winning nonce")
}
