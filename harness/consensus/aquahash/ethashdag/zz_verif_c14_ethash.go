package ethashdag

// C14: stand-ins for the ethash entry points (the DAG and hashimoto are outside
// the claim).  Digest and result are uninterpreted functions of (seal hash,
// nonce); the light (verification) and full (mining) evaluations are the same
// function, which is what ethash guarantees by construction.

import (
	"errors"

	"gitlab.com/aquachain/aquachain/core/types"
	vs "gitlab.com/aquachain/aquachain/internal/verifsym"
)

// VerifC14Hashimoto: ethash (mix digest, result) of a seal hash and a nonce.
func VerifC14Hashimoto(hash []byte, nonce uint64) (digest, result []byte) {
	n := make([]byte, 8)
	for i := 0; i < 8; i++ {
		n[i] = byte(nonce >> (8 * uint(i)))
	}
	// ".nat": big.Int.SetBytes of the whole result is an Int-valued companion function (engine/big.go)
	return vs.UF("hashimoto-digest", 32, hash, n), vs.UF("hashimoto-result.nat", 32, hash, n)
}

// VerifC14EthashUnavailable: the verification cache cannot be produced (VerifySeal returns an error).
var VerifC14EthashUnavailable bool

// VerifC14VerifySeal: redirect target of (*EthashDAG).VerifySeal.
func VerifC14VerifySeal(d *EthashDAG, number uint64, header *types.Header) (*cache, []byte, []byte, error) {
	if VerifC14EthashUnavailable {
		return nil, nil, nil, errors.New("invalid startVersion for use with ethash")
	}
	VerifC14Tick()
	digest, result := VerifC14Hashimoto(header.HashNoNonce().Bytes(), header.Nonce.Uint64())
	return nil, digest, result, nil
}

// VerifC14HashimotoFull: redirect target of hashimotoFull (the miner's evaluation).
func VerifC14HashimotoFull(dataset []uint32, hash []byte, nonce uint64) ([]byte, []byte) {
	VerifC14Tick()
	return VerifC14Hashimoto(hash, nonce)
}

// Bounded nonce search for the miner harness: after VerifC14Budget proof-of-work
// evaluations a token is put into VerifC14Abort (the miner's abort channel).
var (
	VerifC14Abort  chan struct{}
	VerifC14Budget int
)

func VerifC14Tick() {
	if VerifC14Abort == nil {
		return
	}
	VerifC14Budget--
	if VerifC14Budget == 0 {
		VerifC14Abort <- struct{}{}
	}
}
