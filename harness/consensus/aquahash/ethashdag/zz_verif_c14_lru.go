package ethashdag

// C14: acceptance of a version-1 seal is a function of header, nonce,
// difficulty and version alone.  The ethash verification cache / mining
// dataset an engine evaluates a header with is selected by the header's epoch
// (block / epochLength) through a small LRU with a pre-created 'future item'.
// Whatever the engine looked at before, the item handed out for a block must
// be the one built for that block's epoch - otherwise the same header is
// accepted by one node and rejected ("invalid mix digest") by another one,
// depending on their histories.
//
// Lemma decided here: for EVERY history of 1..calls requests with symbolic
// epochs (equal, consecutive, decreasing, far apart, up to the last epoch of
// the table) every request returns an item built for exactly the requested
// epoch, and the pre-created future item, if one is returned, was built for
// the requested epoch + 1.  Real lru.get + real hashicorp simplelru; three
// drivers: a bare lru with a recording constructor (any capacity 0..2), the
// engine's verification caches through (*EthashDAG).cache(block), and the
// engine's mining datasets (New's lru with the real newDataset).

import (
	vs "gitlab.com/aquachain/aquachain/internal/verifsym"
)

// c14LruItem remembers the epoch it was built for.
type c14LruItem struct{ epoch uint64 }

func VerifC14_LruEpochItems() {
	calls := vs.Param("calls")
	mode := vs.Choice("driver", 3)
	n := 1 + vs.Choice("history", calls) // 1..calls requests
	switch mode {
	case 0:
		built := 0
		l := newlru("cache", vs.Choice("maxItems", 3), func(epoch uint64) interface{} {
			built++
			return &c14LruItem{epoch: epoch}
		})
		for i := 0; i < n; i++ {
			e := vs.U64("epoch")
			vs.Assume(e < MaxEpoch)
			itemI, futureI := l.get(e)
			item, ok := itemI.(*c14LruItem)
			vs.Assert(ok && item != nil, "lru.get always returns an item")
			vs.Assert(item.epoch == e, "lru.get(epoch) returns an item built for exactly the requested epoch, whatever was requested before")
			if futureI != nil {
				fut, ok := futureI.(*c14LruItem)
				vs.Assert(ok && fut != nil && fut.epoch == e+1, "the pre-created future item is built for the requested epoch + 1")
				vs.Reach("future")
			} else {
				vs.Reach("no-future")
			}
			vs.Observe("item.epoch", item.epoch)
		}
		vs.Observe("built", uint64(built))
	case 1:
		d := New(&Config{CachesInMem: 1 + vs.Choice("cachesInMem", 2), PowMode: ModeTest})
		for i := 0; i < n; i++ {
			block := vs.U64("block")
			vs.Assume(block < MaxEpoch*epochLength)
			c := d.cache(block)
			vs.Assert(c != nil, "EthashDAG.cache always returns a cache")
			vs.Assert(c.epoch == block/epochLength, "the verification cache used for a block is the one of the block's own epoch, whatever was verified before")
			vs.Observe("cache.epoch", c.epoch)
		}
		vs.Reach("caches")
	case 2:
		d := New(&Config{DatasetsInMem: 1 + vs.Choice("datasetsInMem", 2), PowMode: ModeTest})
		for i := 0; i < n; i++ {
			e := vs.U64("epoch")
			vs.Assume(e < MaxEpoch)
			itemI, futureI := d.datasets.get(e)
			item, ok := itemI.(*dataset)
			vs.Assert(ok && item != nil, "datasets.get always returns a dataset")
			vs.Assert(item.epoch == e, "the mining dataset handed out for an epoch is the one of that epoch, whatever was requested before")
			if futureI != nil {
				fut, ok := futureI.(*dataset)
				vs.Assert(ok && fut != nil && fut.epoch == e+1, "the pre-created future dataset is the one of the requested epoch + 1")
			}
			vs.Observe("dataset.epoch", item.epoch)
		}
		vs.Reach("datasets")
	}
}
