package aquahash

// C05 lemma L1: accumulateRewards issues exactly the scheduled amount.

import (
	"math/big"

	"gitlab.com/aquachain/aquachain/aquadb"
	"gitlab.com/aquachain/aquachain/common"
	"gitlab.com/aquachain/aquachain/core/state"
	"gitlab.com/aquachain/aquachain/core/types"
	vs "gitlab.com/aquachain/aquachain/internal/verifsym"
	"gitlab.com/aquachain/aquachain/params"
)

type c05Credit struct {
	addr   common.Address
	amount *big.Int
}

// credits recorded under the engine, where (*state.StateDB).AddBalance is
// redirected to c05AddBalance; natively the real trie-backed StateDB is used and
// the totals are read back with GetBalance (all accounts start empty).
var c05Credits []c05Credit

func c05AddBalance(s *state.StateDB, addr common.Address, amount *big.Int) {
	// the amount is copied at call time, as the real AddBalance does (accumulateRewards reuses its scratch integer)
	c05Credits = append(c05Credits, c05Credit{addr, new(big.Int).Set(amount)})
}

func c05Total(st *state.StateDB, a common.Address) *big.Int {
	if !vs.Symbolic() {
		return st.GetBalance(a)
	}
	t := new(big.Int)
	for _, c := range c05Credits {
		if c.addr == a {
			t.Add(t, c.amount)
		}
	}
	return t
}

var c05Addrs = []common.Address{
	common.HexToAddress("0x00000000000000000000000000000000000b0001"),
	common.HexToAddress("0x00000000000000000000000000000000000b0002"),
	common.HexToAddress("0x00000000000000000000000000000000000b0003"),
}

// who mines what: partitions of {block miner, uncle 1 miner, uncle 2 miner}
var c05Who = [][3]int{{0, 1, 2}, {0, 0, 2}, {0, 1, 0}, {0, 1, 1}, {0, 0, 0}}

func VerifC05_Rewards() {
	var st *state.StateDB
	if vs.Symbolic() {
		st = new(state.StateDB)
	} else {
		st, _ = state.New(common.Hash{}, state.NewDatabase(aquadb.NewMemDatabase()))
	}
	c05Credits = nil
	who := c05Who[vs.Choice("who", len(c05Who))]
	n := vs.Big("number")
	vs.Assume(n.Sign() >= 0)
	header := &types.Header{Number: n, Coinbase: c05Addrs[who[0]]}
	k := vs.Choice("uncles", 3) // VerifyUncles admits at most two
	var uncles []*types.Header
	for i := 0; i < k; i++ {
		u := vs.Big("uncle.number")
		// VerifyUncles: the uncle's parent is one of the 7 ancestors and not the block's own parent: n-6 <= u <= n-1
		vs.Assume(new(big.Int).Add(u, big.NewInt(6)).Cmp(n) >= 0 && u.Cmp(n) < 0)
		uncles = append(uncles, &types.Header{Number: u, Coinbase: c05Addrs[who[1+i]]})
	}
	n0 := new(big.Int).Set(n)

	accumulateRewards(params.TestChainConfig, st, header, uncles)

	vs.Assert(header.Number.Cmp(n0) == 0, "header number untouched")
	aqua := new(big.Int).Exp(big.NewInt(10), big.NewInt(18), nil)
	vs.Assert(BlockReward.Cmp(aqua) == 0, "block reward constant untouched (1 AQUA)")
	// schedule
	want := []*big.Int{new(big.Int), new(big.Int), new(big.Int)}
	if n0.Cmp(big.NewInt(42000000)) < 0 {
		vs.Reach("rewarding")
		want[who[0]].Add(want[who[0]], aqua)
		for i, u := range uncles {
			// (8 + uncleHeight - height)/8 AQUA to the uncle's miner, 1/32 AQUA to the block's miner
			r := new(big.Int).Add(u.Number, big.NewInt(8))
			r.Sub(r, n0)
			r.Mul(r, aqua)
			r.Div(r, big.NewInt(8))
			vs.Assert(r.Sign() > 0, "uncle reward positive")
			want[who[1+i]].Add(want[who[1+i]], r)
			want[who[0]].Add(want[who[0]], new(big.Int).Div(aqua, big.NewInt(32)))
		}
	} else {
		vs.Reach("fees-only")
	}
	total, wantTotal := new(big.Int), new(big.Int)
	for i, a := range c05Addrs {
		got := c05Total(st, a)
		vs.Observe("credited", got)
		vs.Assert(got.Cmp(want[i]) == 0, "account credited exactly its scheduled reward")
		total.Add(total, got)
		wantTotal.Add(wantTotal, want[i])
	}
	vs.Assert(total.Cmp(wantTotal) == 0, "issuance = 1 AQUA + sum of uncle rewards + uncles/32 AQUA, or 0 from block 42,000,000")
	if vs.Symbolic() {
		for _, c := range c05Credits {
			vs.Assert(c.amount.Sign() >= 0, "every credit non-negative")
			vs.Assert(c.addr == c05Addrs[0] || c.addr == c05Addrs[1] || c.addr == c05Addrs[2], "only the miners are credited")
		}
	}
}
