package aquahash

// C13 harnesses: headers and uncles are accepted iff they satisfy the
// consensus rules.  Executed symbolically by /verif/engine; compiled natively
// for replay.  The reference predicate / reference difficulty formula below
// are restatements of the property statement, params/protocol_params.go and
// the hard-fork notes in params/config.go; they share no code with
// consensus.go / difficulty.go.

import (
	"context"
	"math/big"
	"time"

	"gitlab.com/aquachain/aquachain/common"
	"gitlab.com/aquachain/aquachain/consensus"
	"gitlab.com/aquachain/aquachain/core/types"
	"gitlab.com/aquachain/aquachain/params"
	vs "gitlab.com/aquachain/aquachain/internal/verifsym"
)

// ---------------------------------------------------------------------------
// reference data (restated, not read from params)

// c13Sched: activation height of HF1..HF10, nil = never.
type c13Sched struct {
	hf      [11]*big.Int
	mainnet bool // chain id is the main network's (pre-HF2 minimum applies)
}

func c13b(v int64) *big.Int { return big.NewInt(v) }

// built-in networks, restated from the hard-fork notes
func c13Builtin(net int) (*params.ChainConfig, *c13Sched) {
	s := &c13Sched{}
	var cfg *params.ChainConfig
	set := func(hs ...int64) {
		for i := 0; i+1 < len(hs); i += 2 {
			s.hf[hs[i]] = c13b(hs[i+1])
		}
	}
	switch net {
	case 0: // mainnet; HF8 is flag-activated (absent in the built-in map)
		cfg, s.mainnet = params.MainnetChainConfig, true
		set(1, 3600, 2, 7200, 3, 13026, 4, 21800, 5, 22800, 6, 36000, 7, 36050)
	case 1: // testnet2
		cfg = params.Testnet2ChainConfig
		set(5, 0, 6, 0, 7, 0, 8, 8, 9, 19)
	case 2: // public testnet
		cfg = params.TestnetChainConfig
		set(1, 1, 2, 2, 3, 3, 4, 4, 5, 5, 6, 6, 7, 25, 8, 650)
	case 3: // testnet3
		cfg = params.Testnet3ChainConfig
		set(5, 0, 7, 0)
	case 4: // test suite
		cfg = params.TestChainConfig
		set(1, 1, 2, 2, 3, 3, 4, 4, 5, 5, 6, 6, 7, 7)
	default: // "dev": everything up to HF7 from genesis
		cfg = params.AllAquahashProtocolChanges
		set(1, 0, 2, 0, 3, 0, 4, 0, 5, 0, 6, 0, 7, 0)
	}
	// the configuration under test must describe the same schedule (concrete check)
	for i := 1; i <= 10; i++ {
		have := cfg.HF[i]
		if (have == nil) != (s.hf[i] == nil) || (have != nil && have.Cmp(s.hf[i]) != 0) {
			vs.Assert(false, "built-in fork map differs from the documented schedule")
		}
	}
	vs.Assert(s.mainnet == (cfg.ChainId.Cmp(c13b(61717561)) == 0), "main network chain id")
	return cfg, s
}

func (s *c13Sched) on(i int, n *big.Int) bool { return s.hf[i] != nil && s.hf[i].Cmp(n) <= 0 }
func (s *c13Sched) at(i int, n *big.Int) bool { return s.hf[i] != nil && s.hf[i].Cmp(n) == 0 }

var (
	c13MinGenesis = c13b(99999999)
	c13MinHF1     = c13b(100001792)
	c13MinHF3     = c13b(30959185800)
	c13MinHF5     = c13b(46039386)
)

// c13ActiveMin: the minimum difficulty in force at height n.
func (s *c13Sched) activeMin(n *big.Int) *big.Int {
	switch {
	case s.on(5, n):
		return c13MinHF5
	case s.on(3, n):
		return c13MinHF3
	case s.on(1, n):
		return c13MinHF1
	}
	return c13MinGenesis
}

func c13max(a, b *big.Int) *big.Int {
	if a.Cmp(b) < 0 {
		return b
	}
	return a
}

// c13RefDifficulty: the fork-scheduled difficulty of a block at height
// pnum+1 with timestamp t on top of a parent (pt, pd, pnum) and grandparent
// (gt, gd; gp == false: unknown).  Heights of distinct forks are assumed
// distinct unless zero.
func (s *c13Sched) refDifficulty(t, pt, pd, pnum *big.Int, gp bool, gt, gd *big.Int) *big.Int {
	next := new(big.Int).Add(pnum, c13b(1))
	// HF10: adjust from the parent/grandparent spacing
	if s.on(10, next) {
		if !gp {
			return new(big.Int).Set(pd)
		}
		div := c13b(16)
		if s.on(8, pnum) {
			div = c13b(1024)
		}
		x := new(big.Int).Sub(pt, gt)
		x.Div(x, c13b(240))
		x.Sub(c13b(1), x)
		x = c13max(x, c13b(-99))
		r := new(big.Int).Div(gd, div)
		r.Mul(r, x)
		r.Add(r, gd)
		return c13max(r, c13MinHF5)
	}
	// difficulty resets at the HF8, HF5, HF3 fork blocks
	if s.at(8, next) || s.at(5, next) {
		return c13MinHF5
	}
	if s.at(3, next) {
		return c13MinHF3
	}
	if s.on(2, next) {
		// HF2 "simple" algorithm: one step up or down
		div := c13b(2048)
		switch {
		case s.on(8, next):
			div = c13b(1024)
		case s.on(6, next):
			div = c13b(128)
		case s.on(5, next):
			div = c13b(16)
		}
		limit := c13b(240)
		if s.on(6, next) {
			limit = c13b(180)
		}
		adj := new(big.Int).Div(pd, div)
		d := new(big.Int)
		if new(big.Int).Sub(t, pt).Cmp(limit) < 0 {
			d.Add(pd, adj)
		} else {
			d.Sub(pd, adj)
		}
		return c13max(d, s.activeMin(next))
	}
	// HF1 fork block: reset
	if s.at(1, next) {
		return c13MinHF1
	}
	// original (homestead-style) algorithm, without the bomb; minimum on the main network only
	x := new(big.Int).Sub(t, pt)
	x.Div(x, c13b(10))
	x.Sub(c13b(1), x)
	x = c13max(x, c13b(-99))
	r := new(big.Int).Div(pd, c13b(2048))
	r.Mul(r, x)
	r.Add(r, pd)
	if s.mainnet {
		if s.on(1, next) {
			return c13max(r, c13MinHF1)
		}
		return c13max(r, c13MinGenesis)
	}
	return r
}

// ---------------------------------------------------------------------------
// chain stub (interface-typed collaborator)

type c13Chain struct {
	cfg *params.ChainConfig
	gp  *types.Header // returned for every header lookup
}

func (c *c13Chain) Config() *params.ChainConfig                           { return c.cfg }
func (c *c13Chain) GetContext() context.Context                           { return nil }
func (c *c13Chain) CurrentHeader() *types.Header                          { return nil }
func (c *c13Chain) GetHeader(h common.Hash, n uint64) *types.Header       { return c.gp }
func (c *c13Chain) GetHeaderByNumber(n uint64) *types.Header              { return nil }
func (c *c13Chain) GetHeaderByHash(h common.Hash) *types.Header           { return nil }
func (c *c13Chain) GetBlock(h common.Hash, n uint64) *types.Block         { return nil }

// ---------------------------------------------------------------------------
// clock: under the engine time.Now is redirected to c13Now (suite override);
// natively the real clock is read and header times are taken relative to it.

var c13Clock int64

func c13Now() time.Time { return time.Unix(c13Clock, 0) }

var (
	c13two63  = new(big.Int).Lsh(big.NewInt(1), 63)
	c13two64  = new(big.Int).Lsh(big.NewInt(1), 64)
	c13two256 = new(big.Int).Lsh(big.NewInt(1), 256)
)

// c13ValidParent: symbolic header satisfying the invariants of an accepted header.
func c13ValidHeader(pfx string) *types.Header {
	h := &types.Header{
		Number:     vs.BigU(pfx+"num", 64),
		Time:       vs.BigU(pfx+"time", 63),
		Difficulty: vs.Big(pfx + "diff"),
		GasLimit:   vs.U64(pfx + "gaslimit"),
	}
	vs.Assume(h.Difficulty.Sign() > 0)
	vs.Assume(h.GasLimit >= 5000 && h.GasLimit <= 0x7fffffffffffffff)
	return h
}

// c13Time: the candidate timestamp.  Mode 0: any value in [0,2^64); mode 1:
// any negative value; mode 2: from 2^64 up (block headers: any such value;
// uncles: [2^64, 2^65), the class of the recorded truncation finding).
func c13Time(uncle bool, modes int) *big.Int {
	switch vs.Choice("timemode", modes) {
	case 0:
		return new(big.Int).SetUint64(vs.U64("time"))
	case 1:
		t := vs.Big("negtime")
		vs.Assume(t.Sign() < 0)
		return t
	}
	if uncle {
		return new(big.Int).Add(c13two64, new(big.Int).SetUint64(vs.U64("timelow")))
	}
	t := vs.Big("bigtime")
	vs.Assume(t.Cmp(c13two64) >= 0)
	return t
}

const (
	c13Full       = iota // every field symbolic at every height
	c13Rules             // every field symbolic, heights above the last scheduled fork
	c13Difficulty        // every height; extra data, gas fields and number valid by construction
)

// c13HeaderCase: verifyHeader(header, parent) == nil  <=>  reference predicate.
func c13HeaderCase(mode int) {
	cfg, sched := c13Builtin(vs.Choice("net", vs.Param("nets")))
	uncle := vs.Choice("uncle", 2) == 1

	parent := c13ValidHeader("p")
	if mode == c13Rules {
		last := c13b(0)
		for _, h := range sched.hf {
			if h != nil {
				last = c13max(last, h)
			}
		}
		vs.Assume(parent.Number.Cmp(last) >= 0)
	}
	now := vs.I64("now")
	vs.Assume(now >= 0 && now < 1<<32)
	c13Clock = now
	// latest admissible block timestamp: 15 s ahead of the clock (time package arithmetic)
	latest := c13Now().Add(15 * time.Second).Unix()
	timeModes := 3
	if mode == c13Difficulty {
		timeModes = 1
	}
	htime := c13Time(uncle, timeModes)
	if !vs.Symbolic() && !uncle {
		// native replay runs under the real clock: translate all times by the
		// clock difference (every rule depends on time differences only)
		c13Clock = time.Now().Unix()
		shift := big.NewInt(c13Clock - now)
		latest = c13Now().Add(15 * time.Second).Unix()
		htime.Add(htime, shift)
		parent.Time.Add(parent.Time, shift)
		if parent.Time.Sign() < 0 || parent.Time.Cmp(c13two63) >= 0 {
			return // translated parent leaves the valid range: not comparable
		}
	}

	header := &types.Header{Time: htime, Difficulty: vs.Big("diff")}
	extraLen := 0
	if mode == c13Difficulty {
		header.Number = new(big.Int).Add(parent.Number, c13b(1))
		header.GasLimit = parent.GasLimit
	} else {
		extraLen = vs.Int("extralen")
		vs.Assume(extraLen >= 0 && extraLen <= 64)
		header.Number = vs.Big("num")
		header.GasLimit = vs.U64("gaslimit")
		header.GasUsed = vs.U64("gasused")
		header.Extra = make([]byte, 64)[:extraLen]
	}
	chain := &c13Chain{cfg: cfg}
	engine := &Aquahash{}

	vs.Known("C13-uncle-time-ge-2^64", uncle && htime.Cmp(c13two64) >= 0)

	err := engine.verifyHeader(chain, header, parent, nil, uncle, false)
	if !vs.Symbolic() && !uncle && time.Now().Unix() != c13Clock {
		return // the second ticked during a native run: not comparable
	}

	// reference predicate, every rule but the difficulty
	numberOK := new(big.Int).Sub(header.Number, parent.Number).Cmp(c13b(1)) == 0
	extraOK := extraLen <= 32
	timeOK := htime.Cmp(parent.Time) > 0
	if !uncle {
		timeOK = timeOK && htime.Cmp(big.NewInt(latest)) <= 0
	}
	var delta uint64
	if header.GasLimit > parent.GasLimit {
		delta = header.GasLimit - parent.GasLimit
	} else {
		delta = parent.GasLimit - header.GasLimit
	}
	gasOK := header.GasUsed <= header.GasLimit && header.GasLimit <= 0x7fffffffffffffff &&
		header.GasLimit >= 5000 && delta < parent.GasLimit/1024
	if !(extraOK && timeOK && gasOK && numberOK) {
		vs.Reach("reject")
		vs.Assert(err != nil, "accepted although a rule other than the difficulty rule is broken")
		return
	}
	// the difficulty rule
	want := sched.refDifficulty(htime, parent.Time, parent.Difficulty, parent.Number, false, nil, nil)
	if header.Difficulty.Cmp(want) == 0 {
		vs.Reach("accept")
		vs.Assert(err == nil, "rejected although every rule is satisfied")
	} else {
		vs.Reach("reject-difficulty")
		vs.Assert(err != nil, "accepted although the difficulty is not the scheduled one")
	}
}

// VerifC13_HeaderRules: all header fields symbolic, heights above the last fork of each schedule.
func VerifC13_HeaderRules() { c13HeaderCase(c13Rules) }

// VerifC13_HeaderDifficulty: the timestamp and difficulty rules at every
// height of every schedule (remaining fields valid by construction).
func VerifC13_HeaderDifficulty() { c13HeaderCase(c13Difficulty) }

// VerifC13_HeaderFull: all header fields symbolic at every height of every schedule.
func VerifC13_HeaderFull() { c13HeaderCase(c13Full) }

// VerifC13_Difficulty: CalcDifficulty == reference formula at every height of
// every built-in schedule, and never below the active minimum.
func VerifC13_Difficulty() {
	cfg, sched := c13Builtin(vs.Choice("net", vs.Param("nets")))
	parent := c13ValidHeader("p")
	t := vs.U64("time")
	bt := new(big.Int).SetUint64(t)
	vs.Assume(bt.Cmp(parent.Time) > 0)
	got := CalcDifficulty(cfg, t, parent, nil)
	vs.Observe("difficulty", got)
	want := sched.refDifficulty(bt, parent.Time, parent.Difficulty, parent.Number, false, nil, nil)
	vs.Assert(got.Cmp(want) == 0, "CalcDifficulty equals the scheduled formula")
	next := new(big.Int).Add(parent.Number, c13b(1))
	// the original algorithm has a floor on the main network only: chains that
	// never schedule HF2 (testnet2, testnet3) keep it for ever
	vs.Assume(parent.Difficulty.Cmp(sched.activeMin(parent.Number)) >= 0) // inductive: the parent respects its own minimum
	vs.Known("C13-no-minimum-before-HF2-off-mainnet", !sched.mainnet && !sched.on(2, next))
	vs.Assert(got.Cmp(sched.activeMin(next)) >= 0, "difficulty never below the active minimum")
}

// ---------------------------------------------------------------------------
// uncles

// Block identity model for the uncle and batch harnesses: a header's hash is
// its Root field (suite override redirects (*types.Header).Hash to
// c13IdentityHash), which is injective on the block trees built here.
func c13IdentityHash(h *types.Header) common.Hash { return h.Root }

func c13ID(id byte) (h common.Hash) { h[31] = id; return h }

type c13Tree struct {
	cfg    *params.ChainConfig
	blocks []*types.Block
}

func (c *c13Tree) Config() *params.ChainConfig                     { return c.cfg }
func (c *c13Tree) GetContext() context.Context                     { return nil }
func (c *c13Tree) CurrentHeader() *types.Header                    { return nil }
func (c *c13Tree) GetHeaderByNumber(n uint64) *types.Header        { return nil }
func (c *c13Tree) GetHeaderByHash(h common.Hash) *types.Header     { return nil }
func (c *c13Tree) GetHeader(h common.Hash, n uint64) *types.Header {
	if b := c.GetBlock(h, n); b != nil {
		return b.Header()
	}
	return nil
}
func (c *c13Tree) GetBlock(h common.Hash, n uint64) *types.Block {
	for _, b := range c.blocks {
		if b.Hash() == h && b.NumberU64() == n {
			return b
		}
	}
	return nil
}

// c13UncleCalls records what VerifyUncles asks verifyHeader (redirected to c13UncleHeaderStub).
type c13UncleCall struct {
	uncle, parent, grandparent *types.Header
	isUncle, seal              bool
}

var c13UncleCalls []c13UncleCall

// c13UncleHeaderStub stands for verifyHeader inside VerifyUncles: an uncle is
// header-valid iff its GasUsed field is zero (any validity pattern is explored).
func c13UncleHeaderStub(a *Aquahash, chain consensus.ChainReader, header, parent, grandparent *types.Header, uncle bool, seal bool) error {
	c13UncleCalls = append(c13UncleCalls, c13UncleCall{header, parent, grandparent, uncle, seal})
	if header.GasUsed != 0 {
		return errInvalidPoW
	}
	return nil
}

// c13UncleNets: schedules of the uncle harness (indices of c13Builtin): main
// network, public testnet, test suite (HF5 at 22800 / 5 / 5), testnet2 (HF5 from genesis).
var c13UncleNets = []int{0, 2, 4, 1}

// c13UncleHeights: block heights explored per schedule: one below, at and one
// above HF5, and one far above every fork.
func c13UncleHeights(sched *c13Sched) []uint64 {
	hs := []uint64{50000}
	if h := sched.hf[5]; h != nil && h.Sign() > 0 {
		hs = append([]uint64{h.Uint64() - 1, h.Uint64(), h.Uint64() + 1}, hs...)
	}
	return hs
}

// VerifC13_Uncles: VerifyUncles(block) == nil <=> at most 2 uncles (1 from
// HF5 on, fork block included), each one not yet included, not an ancestor,
// not the block, child of one of the (up to) 7 ancestors other than the
// block's parent, and header-valid.
//
// The structure (height, number of uncles, identity and parent of every uncle,
// validity) is chosen by the solver.  Under the engine the block tree is
// abstract (identity hashes, verifyHeader a recording stub); natively the same
// structure is realised with real headers built in dependency order (real
// hashes, difficulty from CalcDifficulty, fake-PoW seal) and the same
// predicate is asserted on the real VerifyUncles.
func VerifC13_Uncles() {
	cfg, sched := c13Builtin(c13UncleNets[vs.Choice("net", vs.Param("nets"))])
	heights := c13UncleHeights(sched)
	n := heights[vs.Choice("height", len(heights))]
	// below the hard-coded historical exceptions (blocks <= 15008) only
	// well-formed uncle sets are explored: the verdict hinges on the count
	low := n <= 15008
	nanc := vs.Param("ancestors") // generations reachable from the block (genesis may come first)
	if uint64(nanc) > n {
		nanc = int(n)
	}
	has20, has21 := nanc >= 4, nanc >= 6 // ancestors 2 and 4 carry an uncle (ids 20, 21: children of ancestors 4 and 6)
	kmax := vs.Param("maxuncles")
	if low {
		kmax = 3
	}
	k := vs.Choice("uncles", kmax+1)
	ids, pids, valid := make([]byte, k), make([]byte, k), make([]bool, k)
	for j := 0; j < k; j++ {
		ids[j], pids[j] = vs.U8("uncle"), vs.U8("uncleparent")
		valid[j] = vs.Bool("unclevalid")
		vs.Assume(pids[j] != 9) // an uncle cannot name the including block as parent (hash circularity)
	}
	// reference predicate
	max := 2
	if sched.on(5, new(big.Int).SetUint64(n)) {
		max = 1
	}
	ok := k <= max
	for j := 0; j < k; j++ {
		fresh := !(has20 && ids[j] == 20) && !(has21 && ids[j] == 21) && ids[j] != 9
		for i := 0; i < j; i++ {
			fresh = fresh && ids[j] != ids[i]
		}
		notAncestor := !(ids[j] >= 1 && int(ids[j]) <= nanc)
		recent := pids[j] >= 2 && int(pids[j]) <= nanc // child of an ancestor other than the block's parent
		wellFormed := fresh && notAncestor && recent && valid[j]
		if low {
			vs.Assume(wellFormed)
		}
		ok = ok && wellFormed
	}

	var err error
	if vs.Symbolic() {
		err = c13UnclesAbstract(cfg, n, nanc, has20, has21, ids, pids, valid)
	} else {
		var constructible bool
		if err, constructible = c13UnclesReal(cfg, n, nanc, has20, has21, ids, pids, valid); !constructible {
			return
		}
	}
	if err == nil {
		vs.Reach("accept")
	} else {
		vs.Reach("reject")
	}
	if n == heights[0] || (len(heights) > 1 && n == heights[1]) {
		vs.Reach("fork-boundary")
	}
	vs.Assert((err == nil) == ok, "uncles accepted iff count, recency, uniqueness, non-ancestry and header validity hold")
	for _, c := range c13UncleCalls {
		vs.Assert(c.isUncle && c.seal, "uncle headers are verified in uncle mode with their seal")
		vs.Assert(c.parent != nil && c.parent.Root == c.uncle.ParentHash, "uncle verified against the ancestor it names as parent")
		vs.Assert(c.grandparent == nil || c.grandparent.Root == c.parent.ParentHash, "grandparent is the parent's parent")
	}
}

// c13UnclesAbstract: the block tree with identity hashes (engine side).
func c13UnclesAbstract(cfg *params.ChainConfig, n uint64, nanc int, has20, has21 bool, ids, pids []byte, valid []bool) error {
	version := cfg.GetBlockVersion(new(big.Int).SetUint64(n))
	tree := &c13Tree{cfg: cfg}
	mk := func(id, parent byte, num uint64, uncles []*types.Header) *types.Block {
		h := &types.Header{Root: c13ID(id), ParentHash: c13ID(parent), Number: new(big.Int).SetUint64(num),
			Time: new(big.Int), Difficulty: new(big.Int), Version: version}
		return types.NewBlockWithHeader(h).WithBody(nil, uncles)
	}
	uncleHdr := func(id, parent common.Hash, gasUsed uint64) *types.Header {
		return &types.Header{Root: id, ParentHash: parent, Number: new(big.Int).SetUint64(n - 1),
			Time: new(big.Int), Difficulty: new(big.Int), GasUsed: gasUsed}
	}
	for g := 1; g <= nanc; g++ {
		var us []*types.Header
		if g == 2 && has20 {
			us = []*types.Header{uncleHdr(c13ID(20), c13ID(4), 0)}
		}
		if g == 4 && has21 {
			us = []*types.Header{uncleHdr(c13ID(21), c13ID(6), 0)}
		}
		tree.blocks = append(tree.blocks, mk(byte(g), byte(g+1), n-uint64(g), us))
	}
	var uncles []*types.Header
	for j := range ids {
		g := uint64(0)
		if !valid[j] {
			g = 1 // the verifyHeader stub rejects headers with GasUsed != 0
		}
		uncles = append(uncles, uncleHdr(c13ID(ids[j]), c13ID(pids[j]), g))
	}
	block := mk(9, 1, n, uncles)
	engine := &Aquahash{config: &Config{PowMode: ModeNormal}}
	c13UncleCalls = nil
	return engine.VerifyUncles(tree, block)
}

// c13RealChain: in-memory chain of real blocks (native side).
type c13RealChain struct {
	cfg    *params.ChainConfig
	blocks map[common.Hash]*types.Block
}

func (c *c13RealChain) Config() *params.ChainConfig                 { return c.cfg }
func (c *c13RealChain) GetContext() context.Context                 { return context.Background() }
func (c *c13RealChain) CurrentHeader() *types.Header                { return nil }
func (c *c13RealChain) GetHeaderByNumber(uint64) *types.Header      { return nil }
func (c *c13RealChain) GetHeaderByHash(h common.Hash) *types.Header { return nil }
func (c *c13RealChain) GetHeader(h common.Hash, n uint64) *types.Header {
	if b := c.GetBlock(h, n); b != nil {
		return b.Header()
	}
	return nil
}
func (c *c13RealChain) GetBlock(h common.Hash, n uint64) *types.Block {
	if b := c.blocks[h]; b != nil && b.NumberU64() == n {
		return b
	}
	return nil
}

// c13Child: a consensus-valid header on top of parent, made distinct by tag.
func c13Child(cfg *params.ChainConfig, parent *types.Header, tag string) *types.Header {
	num := new(big.Int).Add(parent.Number, c13b(1))
	tm := new(big.Int).Add(parent.Time, c13b(10))
	return &types.Header{ParentHash: parent.Hash(), Number: num, Time: tm, GasLimit: parent.GasLimit, Extra: []byte(tag),
		Difficulty: CalcDifficulty(cfg, tm.Uint64(), parent, nil), Version: cfg.GetBlockVersion(num)}
}

// c13UnclesReal: the same structure with real headers (native side).  Reports
// constructible == false for structures no real block can have (an uncle that
// is the including block itself).
func c13UnclesReal(cfg *params.ChainConfig, n uint64, nanc int, has20, has21 bool, ids, pids []byte, valid []bool) (err error, constructible bool) {
	chain := &c13RealChain{cfg: cfg, blocks: map[common.Hash]*types.Block{}}
	// oldest stored ancestor (generation nanc); its own parent is not stored
	num := new(big.Int).SetUint64(n - uint64(nanc))
	oldest := &types.Header{Number: num, Time: c13b(1000), GasLimit: params.GenesisGasLimit,
		Difficulty: new(big.Int).Set(params.MinimumDifficultyHF3), Version: cfg.GetBlockVersion(num)}
	if num.Sign() > 0 {
		oldest.ParentHash = common.Hash{0xAA}
	}
	anc := make([]*types.Header, nanc+1) // anc[g]: generation g, anc[1] = the block's parent
	var u20, u21 *types.Header
	for g := nanc; g >= 1; g-- {
		var hdr *types.Header
		if g == nanc {
			hdr = oldest
		} else {
			hdr = c13Child(cfg, anc[g+1], "main")
		}
		var us []*types.Header
		if g == 2 && has20 {
			u20 = c13Child(cfg, anc[4], "past-uncle-20")
			us = []*types.Header{u20}
		}
		if g == 4 && has21 {
			u21 = c13Child(cfg, anc[6], "past-uncle-21")
			us = []*types.Header{u21}
		}
		b := types.NewBlock(hdr, nil, us, nil)
		anc[g] = b.Header()
		chain.blocks[b.Hash()] = b
	}
	var uncles []*types.Header
	for j := range ids {
		var u *types.Header
		dup := -1
		for i := 0; i < j; i++ {
			if ids[i] == ids[j] {
				dup = i
			}
		}
		switch id := ids[j]; {
		case dup >= 0:
			u = types.CopyHeader(uncles[dup])
		case id == 9:
			return nil, false
		case id >= 1 && int(id) <= nanc:
			u = types.CopyHeader(anc[id])
		case id == 20 && has20:
			u = types.CopyHeader(u20)
		case id == 21 && has21:
			u = types.CopyHeader(u21)
		case pids[j] >= 1 && int(pids[j]) <= nanc:
			u = c13Child(cfg, anc[pids[j]], "uncle-"+string(rune('A'+j))+"-"+string(rune('a'+int(id)%26))+string(rune('a'+int(id)/26)))
			if !valid[j] {
				u.Difficulty = new(big.Int).Add(u.Difficulty, c13b(1)) // breaks the difficulty rule (fresh value: CalcDifficulty may return a shared parameter)
			}
		default: // parent unknown to the chain
			u = &types.Header{ParentHash: common.Hash{0xEE, pids[j]}, Number: new(big.Int).SetUint64(n - 1), Time: c13b(2000),
				GasLimit: params.GenesisGasLimit, Difficulty: c13b(1), Extra: []byte{id}, Version: cfg.GetBlockVersion(new(big.Int).SetUint64(n - 1))}
		}
		uncles = append(uncles, u)
	}
	block := types.NewBlock(c13Child(cfg, anc[1], "main"), nil, uncles, nil)
	c13UncleCalls = nil
	return NewFaker().VerifyUncles(chain, block), true
}

// ---------------------------------------------------------------------------
// batch verification: the data part of "batch = one by one"

// VerifC13_BatchWorker: for a contiguous batch (what ValidateHeaderChain
// admits) verifyHeaderWorker(index) reaches the same verdict, and hands
// verifyHeader the same parent, grandparent and seal flag, as VerifyHeader
// does when the preceding headers of the batch have been verified and stored
// one by one.  verifyHeader itself is a recording stub (suite override).
func VerifC13_BatchWorker() {
	cfg, _ := c13Builtin(0)
	n0 := []uint64{1, 2, 3, 4, 1000}[vs.Choice("first", 5)]
	L := vs.Param("batch")
	index := vs.Choice("index", L)
	base := &c13Tree{cfg: cfg}
	mk := func(id, parent byte, num uint64) *types.Block {
		return types.NewBlockWithHeader(&types.Header{Root: c13ID(id), ParentHash: c13ID(parent), Number: new(big.Int).SetUint64(num),
			Time: new(big.Int), Difficulty: new(big.Int), Version: 1})
	}
	// stored chain: the batch's parent (id 1) and grandparent (id 2) as far as
	// they exist; mode 1: the parent is unknown; mode 2: the first header is already stored
	mode := vs.Choice("chain", 3)
	var seals []bool
	for i := 0; i < L; i++ {
		seals = append(seals, vs.Bool("seal"))
	}
	if mode == 1 {
		vs.Assume(index == 0) // first failure is at index 0; later results are not compared
	}
	if !vs.Symbolic() {
		// native: the same batch as real, consensus-valid headers on an in-memory
		// chain (fake-PoW seal); only the verdicts can be compared
		c13BatchReal(cfg, n0, L, index, mode, seals)
		return
	}
	if mode != 1 {
		base.blocks = append(base.blocks, mk(1, 2, n0-1))
		if n0 >= 2 {
			base.blocks = append(base.blocks, mk(2, 3, n0-2))
		}
	}
	var headers []*types.Header
	for i := 0; i < L; i++ {
		b := mk(byte(10+i), byte(10+i-1), n0+uint64(i))
		if i == 0 {
			b = mk(10, 1, n0)
		}
		headers = append(headers, b.Header())
		if mode == 2 && i == 0 {
			base.blocks = append(base.blocks, b)
		}
	}
	engine := &Aquahash{config: &Config{PowMode: ModeNormal}}

	c13UncleCalls = nil
	werr := engine.verifyHeaderWorker(base, headers, seals, index)
	wcalls := c13UncleCalls

	// one by one: headers before index have been verified and stored
	seq := &c13Tree{cfg: cfg, blocks: append([]*types.Block{}, base.blocks...)}
	for i := 0; i < index; i++ {
		seq.blocks = append(seq.blocks, types.NewBlockWithHeader(headers[i]))
	}
	c13UncleCalls = nil
	serr := engine.VerifyHeader(seq, headers[index], seals[index])
	scalls := c13UncleCalls

	vs.Assert((werr == nil) == (serr == nil), "batch worker and one-by-one verification agree on the verdict")
	vs.Assert(len(wcalls) == len(scalls) && len(wcalls) <= 1, "both verify the header body at most once, or neither does")
	if len(wcalls) == 1 && len(scalls) == 1 {
		vs.Reach("verified")
		w, s := wcalls[0], scalls[0]
		vs.Assert(w.uncle.Root == s.uncle.Root && w.uncle.Root == headers[index].Root, "same header")
		vs.Assert(w.parent != nil && s.parent != nil && w.parent.Root == s.parent.Root, "same parent")
		vs.Assert((w.grandparent == nil) == (s.grandparent == nil), "grandparent present in both or in neither")
		if w.grandparent != nil && s.grandparent != nil {
			vs.Assert(w.grandparent.Root == s.grandparent.Root, "same grandparent")
		}
		vs.Assert(!w.isUncle && !s.isUncle && w.seal == seals[index] && s.seal == seals[index], "block mode, requested seal flag")
	} else {
		vs.Reach("not-verified")
	}
}

// ---------------------------------------------------------------------------
// symbolic fork schedules (covers the flag-activated HF8 of the main network
// and the HF9/HF10 code paths that no built-in map schedules)

// c13Shapes: which forks a schedule contains (negative: present from genesis).
// Heights of the listed forks are symbolic and strictly increasing.
var c13Shapes = [][]int{
	{1, 2, 3, 4, 5, 6, 7, 8},        // main network with HF8 activated by flag
	{1, 2, 3, 4, 5, 6, 7, 8, 9, 10}, // everything
	{-5, -6, -7, 8, 9},              // testnet2-like
	{1, 2, 3, 4, 5, 6, 7, 8, 9},
	{1, 2, 3, 4, 5, 6, 7, 10},
	{1, 2, 3, 4, 5, 6, 7},
	{1, 2, 3, 4, 5, 6},
	{1, 2, 3, 4, 5},
	{1, 2, 3},
	{1, 2},
	{1},
	{},
	{-1, -2, -3, -4, -5, -6, -7, 8, 10},
}

// VerifC13_DifficultySchedules: CalcDifficulty == reference formula for
// symbolic fork heights, with and without a grandparent.
func VerifC13_DifficultySchedules() {
	shape := c13Shapes[vs.Choice("shape", vs.Param("shapes"))]
	sched := &c13Sched{mainnet: vs.Choice("mainnet", 2) == 1}
	hf := params.ForkMap{}
	var prev *big.Int
	for _, i := range shape {
		var h *big.Int
		if i < 0 {
			i, h = -i, c13b(0)
		} else {
			h = vs.BigU("hf", 64)
			if prev != nil {
				vs.Assume(h.Cmp(prev) > 0)
			}
			prev = h
		}
		sched.hf[i], hf[i] = h, new(big.Int).Set(h)
	}
	cfg := &params.ChainConfig{ChainId: c13b(999), HF: hf}
	if sched.mainnet {
		cfg.ChainId = c13b(61717561)
	}
	parent := c13ValidHeader("p")
	t := vs.U64("time")
	bt := new(big.Int).SetUint64(t)
	vs.Assume(bt.Cmp(parent.Time) > 0)
	var gp *types.Header
	gt, gd := new(big.Int), new(big.Int)
	if vs.Choice("grandparent", 2) == 1 {
		gp = c13ValidHeader("g")
		vs.Assume(gp.Time.Cmp(parent.Time) < 0) // a valid chain: the parent is later than its own parent
		gt, gd = gp.Time, gp.Difficulty
	}
	got := CalcDifficulty(cfg, t, parent, gp)
	want := sched.refDifficulty(bt, parent.Time, parent.Difficulty, parent.Number, gp != nil, gt, gd)
	vs.Observe("difficulty", got)
	vs.Assert(got.Cmp(want) == 0, "CalcDifficulty equals the scheduled formula")
}

// c13BatchReal: native side of VerifC13_BatchWorker.
func c13BatchReal(cfg *params.ChainConfig, n0 uint64, L, index, mode int, seals []bool) {
	base := &c13RealChain{cfg: cfg, blocks: map[common.Hash]*types.Block{}}
	first := uint64(0) // oldest header built: the grandparent where it exists
	if n0 >= 2 {
		first = n0 - 2
	}
	num := new(big.Int).SetUint64(first)
	cur := &types.Header{Number: num, Time: c13b(1000), GasLimit: params.GenesisGasLimit,
		Difficulty: new(big.Int).Set(params.MinimumDifficultyHF3), Version: cfg.GetBlockVersion(num)}
	if first > 0 {
		cur.ParentHash = common.Hash{0xAA}
	}
	store := func(c *c13RealChain, h *types.Header) *types.Header {
		b := types.NewBlock(h, nil, nil, nil)
		c.blocks[b.Hash()] = b
		return b.Header()
	}
	var chainHdrs []*types.Header // grandparent (if any), parent
	cur = types.NewBlock(cur, nil, nil, nil).Header()
	chainHdrs = append(chainHdrs, cur)
	for cur.Number.Uint64() < n0-1 {
		cur = types.NewBlock(c13Child(cfg, cur, "main"), nil, nil, nil).Header()
		chainHdrs = append(chainHdrs, cur)
	}
	if mode != 1 {
		for _, h := range chainHdrs {
			store(base, h)
		}
	}
	var headers []*types.Header
	for i := 0; i < L; i++ {
		cur = types.NewBlock(c13Child(cfg, cur, "main"), nil, nil, nil).Header()
		headers = append(headers, cur)
	}
	if mode == 2 {
		store(base, headers[0])
	}
	engine := NewFaker()
	werr := engine.verifyHeaderWorker(base, headers, seals, index)
	seq := &c13RealChain{cfg: cfg, blocks: map[common.Hash]*types.Block{}}
	for k, b := range base.blocks {
		seq.blocks[k] = b
	}
	for i := 0; i < index; i++ {
		store(seq, headers[i])
	}
	serr := engine.VerifyHeader(seq, headers[index], seals[index])
	vs.Assert((werr == nil) == (serr == nil), "batch worker and one-by-one verification agree on the verdict")
	vs.Assert((werr == nil) == (mode != 1), "a valid contiguous batch on a known parent is accepted at every index; an unknown parent is reported")
	vs.Reach("verified")
}
