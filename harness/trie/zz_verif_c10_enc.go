package trie

// C10 harness E: the three key encodings of trie/encoding.go (KEYBYTES, HEX,
// COMPACT = hex-prefix of the Yellow Paper, appendix C) round-trip and match
// their specification for every nibble string up to a bound.
// Executed symbolically by /verif/engine; compiled natively for replay.

import (
	vs "gitlab.com/aquachain/aquachain/internal/verifsym"
)

// c10Nibbles returns n symbolic nibbles (each < 16).
func c10Nibbles(name string, n int) []byte {
	h := vs.BytesN(name, n)
	for i := range h {
		vs.Assume(h[i] < 16)
	}
	return h
}

func c10Same(a, b []byte) bool {
	if len(a) != len(b) {
		return false
	}
	same := true
	for i := range a {
		if a[i] != b[i] {
			same = false
		}
	}
	return same
}

// VerifC10_HexPrefix: hexToCompact is the hex-prefix function HP(x, t):
//
//	even ||x||: (16*f(t),        16*x[0]+x[1], 16*x[2]+x[3], ...)
//	odd  ||x||: (16*(f(t)+1)+x[0], 16*x[1]+x[2], ...)       f(t) = 2 if t else 0
//
// and compactToHex inverts it (terminator restored).
func VerifC10_HexPrefix() {
	n := vs.Choice("n", vs.Param("N")+1)
	term := vs.Choice("term", 2)
	x := c10Nibbles("x", n)
	hex := make([]byte, n, n+1)
	copy(hex, x)
	if term == 1 {
		hex = append(hex, 16)
	}
	orig := make([]byte, len(hex))
	copy(orig, hex)

	c := hexToCompact(hex)
	vs.Assert(c10Same(hex, orig), "hexToCompact does not modify its argument")
	vs.Assert(len(c) == n/2+1, "compact length is floor(n/2)+1")
	flag := byte(2 * term)
	if n%2 == 1 {
		vs.Assert(c[0] == 16*(flag+1)+x[0], "odd: first byte is 16*(f(t)+1)+x[0]")
		ok := true
		for i := 1; i < len(c); i++ {
			if c[i] != 16*x[2*i-1]+x[2*i] {
				ok = false
			}
		}
		vs.Assert(ok, "odd: remaining bytes pack x[1..] two nibbles per byte")
	} else {
		vs.Assert(c[0] == 16*flag, "even: first byte is 16*f(t), low nibble zero")
		ok := true
		for i := 1; i < len(c); i++ {
			if c[i] != 16*x[2*i-2]+x[2*i-1] {
				ok = false
			}
		}
		vs.Assert(ok, "even: remaining bytes pack x two nibbles per byte")
	}
	vs.Observe("compact", c)

	back := compactToHex(c)
	vs.Assert(c10Same(back, orig), "compactToHex(hexToCompact(x)) == x")
	vs.Assert(hasTerm(back) == (term == 1), "terminator flag survives the round trip")
}

// VerifC10_CompactDecode: compactToHex read as a decoder: for every canonical
// compact string (flag nibble 0..3, padding nibble zero when even) the decoded
// hex key has the specified nibbles and re-encodes to the same bytes, i.e. the
// two functions are mutually inverse bijections between hex keys and canonical
// compact strings.
func VerifC10_CompactDecode() {
	m := 1 + vs.Choice("m", vs.Param("M")) // 1..M bytes
	c := vs.BytesN("c", m)
	f := c[0] >> 4
	vs.Assume(f < 4)
	odd := f&1 == 1
	if !odd {
		vs.Assume(c[0]&15 == 0)
	}
	orig := make([]byte, m)
	copy(orig, c)
	hex := compactToHex(c)
	term := f >= 2
	n := 2 * (m - 1)
	if odd {
		n++
	}
	want := n
	if term {
		want++
	}
	vs.Assert(len(hex) == want, "decoded length is 2*(m-1) + odd + terminator")
	vs.Assert(hasTerm(hex) == term, "terminator iff flag bit 1")
	ok := true
	for i := 0; i < n; i++ {
		// nibble i of the key: skip the flag nibble, and the padding nibble when even
		k := i + 1
		if !odd {
			k = i + 2
		}
		b := orig[k/2]
		nb := b >> 4
		if k%2 == 1 {
			nb = b & 15
		}
		if hex[i] != nb {
			ok = false
		}
	}
	vs.Assert(ok, "decoded nibbles are the packed nibbles after the flag (and padding)")
	vs.Assert(c10Same(hexToCompact(hex), orig), "hexToCompact(compactToHex(c)) == c for canonical c")
}

// VerifC10_Keybytes: keybytesToHex yields the nibbles of every byte, most
// significant first, followed by the terminator; hexToKeybytes inverts it with
// or without the terminator; odd-length hex keys are refused by panic.
func VerifC10_Keybytes() {
	k := vs.Bytes("k", vs.Param("K"))
	hex := keybytesToHex(k)
	vs.Assert(len(hex) == 2*len(k)+1, "hex length is 2*len+1")
	vs.Assert(hex[len(hex)-1] == 16 && hasTerm(hex), "terminator appended")
	ok := true
	for i := range k {
		if hex[2*i] != k[i]>>4 || hex[2*i+1] != k[i]&15 {
			ok = false
		}
	}
	vs.Assert(ok, "nibbles are the high and low halves of each byte")
	vs.Assert(c10Same(hexToKeybytes(hex), k), "hexToKeybytes(keybytesToHex(k)) == k")
	vs.Assert(c10Same(hexToKeybytes(hex[:len(hex)-1]), k), "hexToKeybytes without terminator")
	if len(k) > 0 {
		odd := hex[1:]
		vs.Assert(vs.NoPanic(func() { hexToKeybytes(odd) }), "odd-length hex key refused")
	}
	vs.Observe("hex", hex)
}

// VerifC10_PrefixLen: prefixLen is the length of the longest common prefix.
func VerifC10_PrefixLen() {
	a := vs.Bytes("a", vs.Param("P"))
	b := vs.Bytes("b", vs.Param("P"))
	p := prefixLen(a, b)
	vs.Assert(p >= 0 && p <= len(a) && p <= len(b), "within both")
	ok := true
	for i := 0; i < len(a) && i < len(b); i++ {
		if i < p && a[i] != b[i] {
			ok = false
		}
	}
	vs.Assert(ok, "common prefix agrees")
	if p < len(a) && p < len(b) {
		vs.Assert(a[p] != b[p], "maximal")
	}
	vs.Observe("p", p)
}
