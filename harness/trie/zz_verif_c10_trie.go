package trie

// C10 harness S: shape and content of the in-memory Merkle-Patricia trie.
//
// A sequence of update / overwrite / delete operations with symbolic keys is
// applied to the real Trie (no database: every node stays in memory, the
// hasher is never called).  Every operation carries its own symbolic key, so
// "same key again", "key is a prefix of another key", "keys diverge at nibble
// i" all arise by forking inside the real insert/delete code.  Checked after
// the sequence:
//   (1) canonical shape (the invariants that make the MPT of a content unique),
//   (2) content: TryGet agrees with a reference association list, and the
//       number of value nodes equals the number of live keys,
//   (3) history independence: tries built from the final content alone, in
//       permuted insertion orders, are structurally identical (deep compare).

import (
	vs "gitlab.com/aquachain/aquachain/internal/verifsym"
)

// c10InAlpha: nibble alphabet of the bound. The shape of a trie depends on the
// equality pattern of nibbles only; the value selects the child slot.
func c10InAlpha(n byte, alpha int) bool {
	switch alpha {
	case 2:
		return n < 2
	case 3:
		return n < 2 || n == 15
	case 4:
		return n < 2 || n >= 14
	}
	return true
}

// c10Key: a symbolic key of minLen..maxLen bytes over the nibble alphabet.
func c10Key(name string, minLen, maxLen, alpha int) []byte {
	k := vs.BytesN(name, minLen+vs.Choice(name+".len", maxLen-minLen+1))
	for i := range k {
		vs.Assume(c10InAlpha(k[i]>>4, alpha))
		vs.Assume(c10InAlpha(k[i]&15, alpha))
	}
	return k
}

type c10Op struct {
	key []byte
	val []byte // nil: delete
}

// c10Value: symbolic non-empty value; both sides of the 32-byte embedding
// threshold occur (1 byte for even op indices, 33 bytes for odd ones).
func c10Value(i int) []byte {
	if i%2 == 0 {
		return vs.BytesN("v", 1)
	}
	return vs.BytesN("w", 33)
}

// c10Apply draws n operations and applies them to t with the real API.
// firstUpd: the first operation is an update (a delete on the empty trie is a
// no-op, so those sequences are the sequences with one operation less).
func c10Apply(t *Trie, n, minLen, maxLen, alpha int, firstUpd bool) []c10Op {
	ops := make([]c10Op, n)
	for i := 0; i < n; i++ {
		ops[i].key = c10Key("k", minLen, maxLen, alpha)
		var err error
		if (i == 0 && firstUpd) || vs.Choice("del", 2) == 0 {
			ops[i].val = c10Value(i)
			err = t.TryUpdate(ops[i].key, ops[i].val)
		} else if i%2 == 0 {
			err = t.TryDelete(ops[i].key)
		} else {
			err = t.TryUpdate(ops[i].key, []byte{}) // empty value means delete
		}
		vs.Assert(err == nil, "in-memory operation cannot fail")
	}
	return ops
}

// c10Live: operation i determines the final content of its key (it is an
// update and no later operation has the same key).
func c10Live(ops []c10Op, i int) bool {
	if ops[i].val == nil {
		return false
	}
	live := true
	for j := i + 1; j < len(ops); j++ {
		if c10Same(ops[i].key, ops[j].key) {
			live = false
		}
	}
	return live
}

// c10CheckRead asserts that got is what the reference association list (last
// operation on a key wins, delete removes) holds for key q.  Written without
// harness-side case splits: hit(i) = "operation i is the last one on q".
func c10CheckRead(ops []c10Op, q, got []byte, what string) (present bool) {
	ok := true
	for i := range ops {
		hit := c10Same(ops[i].key, q)
		for j := i + 1; j < len(ops); j++ {
			if c10Same(ops[j].key, q) {
				hit = false
			}
		}
		if ops[i].val == nil {
			continue
		}
		if hit {
			present = true
			if !c10Same(got, ops[i].val) {
				ok = false // present key must read its last value
			}
		}
	}
	if present == (got == nil) {
		ok = false // nil exactly for absent or deleted keys
	}
	vs.Assert(ok, what+" returns the reference content (last value of a live key, nil for an absent or deleted key)")
	return present
}

// c10Shape asserts the canonical-shape invariants below n and returns the
// number of value nodes.
func c10Shape(n node, underShort bool) int {
	switch n := n.(type) {
	case *shortNode:
		vs.Assert(!underShort, "no short node directly below a short node")
		vs.Assert(len(n.Key) > 0, "no empty short-node key")
		ok := true
		for i := 0; i+1 < len(n.Key); i++ {
			if n.Key[i] >= 16 {
				ok = false
			}
		}
		vs.Assert(ok && n.Key[len(n.Key)-1] <= 16, "short-node key is a nibble string, terminator only last")
		if hasTerm(n.Key) {
			v, isVal := n.Val.(valueNode)
			vs.Assert(isVal, "terminated key leads to a value node")
			vs.Assert(len(v) > 0, "no empty value")
			return 1
		}
		fn, isFull := n.Val.(*fullNode)
		vs.Assert(isFull, "extension (unterminated key) leads to a branch")
		return c10Shape(fn, true)
	case *fullNode:
		children, values := 0, 0
		for i := 0; i < 16; i++ {
			c := n.Children[i]
			if c == nil {
				continue
			}
			children++
			switch c.(type) {
			case *shortNode, *fullNode:
			default:
				vs.Assert(false, "value nodes only behind a terminator")
			}
			values += c10Shape(c, false)
		}
		if n.Children[16] != nil {
			v, isVal := n.Children[16].(valueNode)
			vs.Assert(isVal, "slot 16 holds a value node")
			vs.Assert(len(v) > 0, "no empty value")
			children++
			values++
		}
		vs.Assert(children >= 2, "no branch with fewer than two children")
		return values
	default:
		vs.Assert(false, "nil, hash or bare value node inside an in-memory trie")
	}
	return 0
}

// c10Equal asserts that two tries are structurally identical.
func c10Equal(a, b node) {
	switch a := a.(type) {
	case nil:
		vs.Assert(b == nil, "same structure: both empty")
	case valueNode:
		bv, ok := b.(valueNode)
		vs.Assert(ok, "same structure: value node")
		vs.Assert(c10Same(a, bv), "same structure: equal values")
	case *shortNode:
		bs, ok := b.(*shortNode)
		vs.Assert(ok, "same structure: short node")
		vs.Assert(c10Same(a.Key, bs.Key), "same structure: equal short-node keys")
		c10Equal(a.Val, bs.Val)
	case *fullNode:
		bf, ok := b.(*fullNode)
		vs.Assert(ok, "same structure: branch node")
		for i := range a.Children {
			c10Equal(a.Children[i], bf.Children[i])
		}
	default:
		vs.Assert(false, "unexpected node type")
	}
}

// c10Perms returns up to max permutations of 0..n-1 other than the identity,
// starting with the reversal (all of them when max is large enough).
func c10Perms(n, max int) [][]int {
	var out [][]int
	rev := make([]int, n)
	for i := range rev {
		rev[i] = n - 1 - i
	}
	isRev := func(p []int) bool {
		for i := range p {
			if p[i] != rev[i] {
				return false
			}
		}
		return true
	}
	out = append(out, rev)
	cur := make([]int, n)
	for i := range cur {
		cur[i] = i
	}
	for {
		// next lexicographic permutation
		i := n - 2
		for i >= 0 && cur[i] > cur[i+1] {
			i--
		}
		if i < 0 {
			break
		}
		j := n - 1
		for cur[j] < cur[i] {
			j--
		}
		cur[i], cur[j] = cur[j], cur[i]
		for l, r := i+1, n-1; l < r; l, r = l+1, r-1 {
			cur[l], cur[r] = cur[r], cur[l]
		}
		if len(out) >= max {
			break
		}
		if !isRev(cur) {
			out = append(out, append([]int(nil), cur...))
		}
	}
	return out
}

// VerifC10_TrieOps: shape, content and history independence after a sequence
// of operations.
func VerifC10_TrieOps() { c10TrieOps() }

// VerifC10_TrieOpsDeep: the same check, registered with more operations on
// shorter keys (bounds are per suite entry).
func VerifC10_TrieOpsDeep() { c10TrieOps() }

func c10TrieOps() {
	n := vs.Param("ops")
	t := &Trie{}
	ops := c10Apply(t, n, vs.Param("minlen"), vs.Param("keylen"), vs.Param("alpha"), vs.Param("firstupd") == 1)

	// final content
	live := make([]bool, n)
	nlive := 0
	for i := range ops {
		if c10Live(ops, i) {
			live[i] = true
			nlive++
		}
	}

	// (1) shape, (2) content
	if nlive == 0 {
		vs.Assert(t.root == nil, "empty content is the empty trie")
		vs.Reach("empty")
	} else {
		vs.Assert(t.root != nil, "non-empty content is a non-empty trie")
		vs.Assert(c10Shape(t.root, false) == nlive, "exactly one value node per live key")
	}
	for i := range ops {
		got, err := t.TryGet(ops[i].key)
		vs.Assert(err == nil, "in-memory lookup cannot fail")
		c10CheckRead(ops, ops[i].key, got, "TryGet")
	}
	vs.Observe("nlive", nlive)

	// (3) history independence
	for _, perm := range c10Perms(n, vs.Param("perms")) {
		tb := &Trie{}
		for _, i := range perm {
			if live[i] {
				vs.Assert(tb.TryUpdate(ops[i].key, ops[i].val) == nil, "in-memory operation cannot fail")
			}
		}
		c10Equal(t.root, tb.root)
	}
	if nlive >= 2 {
		vs.Reach("two-live")
	}
	if nlive >= 3 {
		vs.Reach("three-live")
	}
}

// VerifC10_TrieLookup: after a sequence of operations, looking up a further
// symbolic key (TryGet, and the proof walker `get`) agrees with the reference.
func VerifC10_TrieLookup() {
	n := vs.Param("ops")
	t := &Trie{}
	ops := c10Apply(t, n, vs.Param("minlen"), vs.Param("keylen"), vs.Param("alpha"), vs.Param("firstupd") == 1)
	q := c10Key("q", 0, vs.Param("keylen"), vs.Param("alpha"))
	before := t.root
	got, err := t.TryGet(q)
	vs.Assert(err == nil, "in-memory lookup cannot fail")
	vs.Assert(t.root == before, "lookup does not replace the root")
	if c10CheckRead(ops, q, got, "TryGet") {
		vs.Reach("hit")
	} else {
		vs.Reach("miss")
	}
	// the proof verifier's walker over the same structure
	_, cld := get(t.root, keybytesToHex(q))
	var pv []byte
	switch c := cld.(type) {
	case nil:
	case valueNode:
		pv = c
	default:
		vs.Assert(false, "proof walker ends in nil or a value node on an in-memory trie")
	}
	c10CheckRead(ops, q, pv, "proof walker")
}
