package trie

// C10 harness P: a Merkle proof produced for ANY key verifies against the root
// to that key's content - the value of a present key, absence (nil value, nil
// error) for an absent key.
//
// The REAL code runs end to end: Trie.TryUpdate builds the trie from symbolic
// keys (so "key is a prefix of a key", "keys diverge at nibble i", "same key
// again" arise by forking inside the real insert code), Trie.Hash() gives the
// root, Trie.Prove(q) fills a proof store for a further symbolic key q, and
// VerifyProof(root, q, store) - decodeNode, compactToHex, the walker get() -
// reads it back.  Optionally the trie is first committed into the memory layer
// of a trie.Database and reopened from the root, so that Prove walks through
// hash references (resolveHash / decodeNode).
//
// Lemma (completeness of Prove w.r.t. VerifyProof, from the property text):
//   for every content J within the bounds and every key q,
//     Prove(q) returns no error,
//     VerifyProof(Hash(), q, proof) returns no error and the value J(q)
//     (nil when q is not a key of J).
//
// Only keccak-256 is replaced (natively the real keccak), by a function that is
// collision-free on the inputs met (see c10pKeccakOf): the proof store and the
// node database are keyed by hash, so without collision-freeness "another node
// has the same hash" would be a (spurious) counterexample to any statement
// about them.

import (
	"hash"

	"gitlab.com/aquachain/aquachain/common"
	"gitlab.com/aquachain/aquachain/crypto"
	vs "gitlab.com/aquachain/aquachain/internal/verifsym"
)

// --- keccak -------------------------------------------------------------------

// c10pHashed: every distinct input keccak was applied to on the current path,
// with its result.
var c10pHashed []c10Stored

// c10pKeccakOf: natively the real keccak.  Under the engine keccak is modelled
// as a collision-free function on the inputs met on the path: an input equal to
// an earlier one (a case split over the symbolic bytes, not an assumption) gets
// the earlier result - which is what a function does; a new input gets a new
// result, different from all earlier ones, from the zero hash ("no root") and
// from KEC(RLP("")) (root of the empty trie) - which is the collision-freeness
// assumption.  The results are fixed 32-byte tags: the code under test uses a
// node hash only as an opaque name (copied into the parent's encoding, compared
// for equality / used as a map or store key), so which 32 bytes name a node is
// immaterial; that choice keeps every store lookup decidable without the solver
// (equality of applications of an uninterpreted function to 30..600-byte strings
// is what z3 answers "unknown" to).
func c10pKeccakOf(b []byte) []byte {
	if !vs.Symbolic() {
		return crypto.Keccak256(b)
	}
	for _, e := range c10pHashed {
		if c10Same(e.enc, b) {
			return append([]byte(nil), e.hash...)
		}
	}
	h := make([]byte, 32)
	for i := range h {
		h[i] = 0x5a
	}
	h[0], h[1], h[2], h[3] = 0xc1, 0x0a, byte(len(c10pHashed)+1), byte(len(b))
	c10pHashed = append(c10pHashed, c10Stored{h, append([]byte(nil), b...)})
	return append([]byte(nil), h...)
}

type c10pKeccak struct{ buf []byte }

func (k *c10pKeccak) Write(p []byte) (int, error) { k.buf = append(k.buf, p...); return len(p), nil }
func (k *c10pKeccak) Sum(b []byte) []byte         { return append(b, c10pKeccakOf(k.buf)...) }
func (k *c10pKeccak) Reset()                      { k.buf = nil }
func (k *c10pKeccak) Size() int                   { return 32 }
func (k *c10pKeccak) BlockSize() int              { return 136 }

// c10pNewKeccak is the redirect target of sha3.NewKeccak256 for this harness.
func c10pNewKeccak() hash.Hash { return &c10pKeccak{} }

// --- proof store -------------------------------------------------------------

// c10pStore: a key/value store (aquadb.Putter for Prove, DatabaseReader for
// VerifyProof) kept as an association list; lookup compares whole keys.
type c10pStore struct{ keys, vals [][]byte }

func (s *c10pStore) Put(key, value []byte) error {
	for i := range s.keys {
		if c10Same(s.keys[i], key) {
			s.vals[i] = append([]byte(nil), value...)
			return nil
		}
	}
	s.keys = append(s.keys, append([]byte(nil), key...))
	s.vals = append(s.vals, append([]byte(nil), value...))
	return nil
}

func (s *c10pStore) Get(key []byte) ([]byte, error) {
	for i := range s.keys {
		if c10Same(s.keys[i], key) {
			return append([]byte(nil), s.vals[i]...), nil
		}
	}
	return nil, nil // like the proof stores in use, a miss is "no data"
}

func (s *c10pStore) Has(key []byte) (bool, error) {
	v, _ := s.Get(key)
	return v != nil, nil
}

// --- harness -----------------------------------------------------------------

// c10pValLens: value lengths on both sides of the 32-byte embed-or-hash
// threshold of a node reference (2: leaves are embedded in their parent; 33: every
// leaf is a hash-addressed node of its own).
var c10pValLens = []int{2, 33}

// VerifC10_ProveVerifies: see the file comment.  Param "modes" = how many of
// the following states of the trie the proof is taken from:
//
//	0: in memory, after Hash() (node hashes cached);
//	1: in memory, never hashed (Prove computes every hash itself; the root is
//	   taken afterwards);
//	2: committed into a trie.Database and reopened from the root (all nodes
//	   behind hash references, resolved from the database while proving).
func VerifC10_ProveVerifies() {
	c10pHashed = nil
	nkeys := 1 + vs.Choice("nkeys", vs.Param("keys"))
	keylen, alpha := vs.Param("keylen"), vs.Param("alpha")
	mode := vs.Choice("mode", vs.Param("modes"))

	var db *Database
	t := &Trie{}
	if mode == 2 {
		db = NewDatabase(nil)
		var err error
		t, err = New(common.Hash{}, db)
		vs.Assert(err == nil, "empty trie opens")
	}
	ops := make([]c10Op, nkeys)
	for i := range ops {
		ops[i].key = c10Key("k", 0, keylen, alpha)
		ops[i].val = vs.BytesN("v", c10pValLens[vs.Choice("vlen", len(c10pValLens))])
		vs.Assert(t.TryUpdate(ops[i].key, ops[i].val) == nil, "in-memory operation cannot fail")
	}
	var root common.Hash
	switch mode {
	case 0:
		root = t.Hash()
	case 2:
		var err error
		root, err = t.Commit(nil)
		vs.Assert(err == nil, "commit to the memory layer cannot fail")
		t, err = New(root, db)
		vs.Assert(err == nil, "trie reopens at the committed root")
		vs.Reach("reopened")
	}

	// any key: present, absent, prefix of a key, extension of a key
	q := c10Key("q", 0, keylen, alpha)

	proof := &c10pStore{}
	var perr error
	vs.Assert(!vs.NoPanic(func() { perr = t.Prove(q, 0, proof) }), "Prove does not panic")
	vs.Assert(perr == nil, "Prove returns no error")
	if mode == 1 {
		root = t.Hash()
		vs.Reach("unhashed")
	} else {
		vs.Assert(t.Hash() == root, "Prove does not change the root")
	}

	var val []byte
	var verr error
	vs.Assert(!vs.NoPanic(func() { val, verr, _ = VerifyProof(root, q, proof) }), "VerifyProof does not panic on a produced proof")
	vs.Assert(verr == nil, "the proof Prove produced for a key verifies against the root (value proof or absence proof)")
	if c10CheckRead(ops, q, val, "the produced proof verifies to the content of the key: VerifyProof") {
		vs.Reach("value-proof")
	} else {
		vs.Reach("absence-proof")
	}
	vs.Observe("proof-nodes", len(proof.keys))
}
