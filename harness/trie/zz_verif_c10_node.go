package trie

// C10 harness D: decodeNode (node.go) on symbolic byte strings.  Whenever it
// accepts (err == nil) the decoded node is well-formed at the level the rest
// of the package relies on (tryGet, get, insert, delete and the hasher switch
// over exactly these shapes and panic with "invalid node" otherwise), and
// decoding inverts the specified node encoding (harness-side RLP of the
// hex-prefix key and the children).
//
// decodeNode is lenient: it accepts encodings no canonical trie produces.
// These are recorded as reachability observations ("obs:..."), not asserted:
// proof and database nodes are addressed by their hash, so C10 does not claim
// that decodeNode rejects them.  The same holds for its one panic (empty
// compact key, DESIGN section 6 item 9).

import (
	"strings"

	vs "gitlab.com/aquachain/aquachain/internal/verifsym"
)

// c10WellFormed asserts the structural well-formedness of a decoded node.
func c10WellFormed(n node, top bool, gen uint16) {
	switch n := n.(type) {
	case *shortNode:
		ok := true
		for i := 0; i+1 < len(n.Key); i++ {
			if n.Key[i] >= 16 {
				ok = false
			}
		}
		vs.Assert(ok, "decoded short key: nibbles below 16 before the last position")
		if len(n.Key) == 0 {
			vs.Reach("obs:empty-short-key-accepted")
		} else {
			vs.Assert(n.Key[len(n.Key)-1] <= 16, "decoded short key: last position is a nibble or the terminator")
		}
		vs.Assert(n.flags.gen == gen && !n.flags.dirty, "decoded node is clean and carries the cache generation")
		if hasTerm(n.Key) {
			v, isVal := n.Val.(valueNode)
			vs.Assert(isVal && v != nil, "terminated key holds a value node")
			if len(v) == 0 {
				vs.Reach("obs:empty-value-accepted")
			}
			return
		}
		switch c := n.Val.(type) {
		case nil:
			vs.Reach("obs:extension-without-child-accepted")
		case hashNode:
			vs.Assert(len(c) == 32, "hash reference has 32 bytes")
		case *shortNode:
			vs.Reach("obs:short-below-short-accepted")
			c10WellFormed(c, false, gen)
		case *fullNode:
			c10WellFormed(c, false, gen)
		default:
			vs.Assert(false, "unterminated key holds nil, a hash or an embedded node")
		}
	case *fullNode:
		vs.Assert(n.flags.gen == gen && !n.flags.dirty, "decoded node is clean and carries the cache generation")
		children := 0
		for i := 0; i < 16; i++ {
			switch c := n.Children[i].(type) {
			case nil:
				continue
			case hashNode:
				vs.Assert(len(c) == 32, "hash reference has 32 bytes")
			case *shortNode, *fullNode:
				c10WellFormed(c, false, gen)
			default:
				vs.Assert(false, "branch slot holds nil, a hash or an embedded node")
			}
			children++
		}
		if n.Children[16] != nil {
			v, isVal := n.Children[16].(valueNode)
			vs.Assert(isVal && len(v) > 0, "branch value slot holds a non-empty value node")
			children++
		}
		if children < 2 {
			vs.Reach("obs:branch-with-fewer-than-two-children-accepted")
		}
	default:
		vs.Assert(false, "decodeNode returns a short or a branch node")
	}
}

// c10Walk: the proof verifier's walker terminates without panic on every
// accepted node, for a symbolic one-byte key (first nibble restricted to the
// given slots when slots != nil: the other slots of the harness are identical).
func c10Walk(n node, slots ...int) {
	qb := vs.BytesN("q", 1)
	if slots != nil {
		in := false
		for _, s := range slots {
			if qb[0]>>4 == byte(s) {
				in = true
			}
		}
		vs.Assume(in)
	}
	q := keybytesToHex(qb)
	var cld node
	vs.Assert(!vs.NoPanic(func() { _, cld = get(n, q) }), "proof walker does not panic on an accepted node")
	switch cld.(type) {
	case nil, hashNode, valueNode:
	default:
		vs.Assert(false, "proof walker ends in nil, a hash or a value")
	}
}

// c10Decode runs decodeNode.  A panic is tolerated, as an observation, only
// if it is the documented one: compactToHex indexing an empty compact key
// (possibly of an embedded node); any other panic fails the check.
func c10Decode(buf []byte) (n node, err error, panicked bool) {
	orig := make([]byte, len(buf))
	copy(orig, buf)
	panicked = vs.NoPanic(func() { n, err = decodeNode(nil, buf, 7) })
	vs.Assert(c10Same(buf, orig), "decodeNode does not modify its input")
	if panicked {
		vs.Assert(strings.Contains(vs.LastPanic(), "index out of range"), "decodeNode panics only by indexing an empty compact key")
		vs.Reach("obs:panic-on-empty-compact-key")
	}
	return
}

// VerifC10_DecodeAny: every byte string of up to B bytes.
func VerifC10_DecodeAny() {
	buf := vs.Bytes("b", vs.Param("B"))
	n, err, panicked := c10Decode(buf)
	if panicked {
		return
	}
	if err != nil {
		vs.Reach("reject")
		return
	}
	vs.Reach("accept")
	c10WellFormed(n, true, 7)
	c10Walk(n)
}

// --- specification-side RLP (strings and lists below 56 / 256 bytes) -------

func c10RlpString(b []byte) []byte {
	if len(b) == 1 && b[0] < 0x80 {
		return []byte{b[0]}
	}
	if len(b) < 56 {
		return append([]byte{0x80 + byte(len(b))}, b...)
	}
	return append([]byte{0xb8, byte(len(b))}, b...)
}

func c10RlpList(items ...[]byte) []byte {
	var payload []byte
	for _, it := range items {
		payload = append(payload, it...)
	}
	if len(payload) < 56 {
		return append([]byte{0xc0 + byte(len(payload))}, payload...)
	}
	return append([]byte{0xf8, byte(len(payload))}, payload...)
}

// c10Item: a symbolic list element: either arbitrary bytes of 1..free bytes
// (which may parse as anything, including several elements or garbage), or a
// string element with a 32- or 33-byte symbolic content (hash-sized / oversized).
func c10Item(name string, free int) []byte {
	c := vs.Choice(name+".kind", free+2)
	if c < free {
		return vs.BytesN(name, c+1)
	}
	return c10RlpString(vs.BytesN(name+".s", 32+c-free))
}

// VerifC10_DecodeShort: two-element-list-shaped inputs: list header computed
// from the payload, first element a string of 0..KB symbolic bytes, second
// element a symbolic item.
func VerifC10_DecodeShort() {
	kb := vs.Bytes("key", vs.Param("KB"))
	keyItem := c10RlpString(kb)
	valItem := c10Item("val", vs.Param("F"))
	buf := c10RlpList(keyItem, valItem)
	n, err, panicked := c10Decode(buf)
	if panicked {
		return
	}
	vs.Assert(len(kb) > 0 || err != nil, "an empty compact key is never accepted")
	if err != nil {
		vs.Reach("reject")
		return
	}
	vs.Reach("accept")
	c10WellFormed(n, true, 7)
	sn, isShort := n.(*shortNode)
	if isShort {
		// the element boundaries are the ones the harness built (no other parse
		// of a two-element list exists), so the key is the decoded compact key
		vs.Assert(c10Same(sn.Key, compactToHex(kb)), "decoded key is the hex form of the compact key")
		if f := kb[0] >> 4; f >= 4 || (f&1 == 0 && kb[0]&15 != 0) {
			vs.Reach("obs:non-canonical-compact-key-accepted")
		} else {
			vs.Assert(c10Same(hexToCompact(sn.Key), kb), "canonical compact key re-encodes to itself")
		}
		if h, isHash := sn.Val.(hashNode); isHash {
			vs.Assert(len(valItem) == 33 && c10Same(h, valItem[1:]), "hash reference is the 32-byte string content")
			vs.Reach("hash-child")
		}
		if v, isVal := sn.Val.(valueNode); isVal && len(valItem) >= 33 {
			vs.Assert(c10Same(v, valItem[len(valItem)-len(v):]), "value is the string content")
			vs.Reach("long-value")
		}
	}
	c10Walk(n)
}

// c10RefItem: a symbolic, self-delimiting list element (it cannot swallow the
// elements after it, which would only multiply RLP framing cases already
// covered by C11): the empty string, a string of 1..2, 32 or 33 symbolic bytes,
// a list with an arbitrary payload of 1..free bytes (embedded node or garbage),
// or a list with a 33-byte payload (oversized embedded node).
func c10RefItem(name string, free int) []byte {
	c := vs.Choice(name+".kind", 6+free)
	switch c {
	case 0:
		return []byte{0x80}
	case 1, 2:
		return c10RlpString(vs.BytesN(name+".s", c))
	case 3, 4:
		return c10RlpString(vs.BytesN(name+".s", 29+c))
	case 5:
		return append([]byte{0xc0 + 33}, vs.BytesN(name+".l", 33)...)
	}
	n := c - 5
	return append([]byte{0xc0 + byte(n)}, vs.BytesN(name+".l", n)...)
}

// VerifC10_DecodeFull: seventeen-element-list-shaped inputs: all slots empty
// (0x80) except slot a in {0, 9, 15} (symbolic self-delimiting item),
// optionally slot (a+5)%16 (a 32-byte string with symbolic content), and a
// value slot of 0..V arbitrary bytes.
func VerifC10_DecodeFull() {
	a := []int{0, 9, 15}[vs.Choice("slot", 3)]
	b := (a + 5) % 16
	items := make([][]byte, 17)
	for i := range items {
		items[i] = []byte{0x80}
	}
	items[a] = c10RefItem("x", vs.Param("F"))
	if vs.Choice("second", 2) == 1 {
		items[b] = c10RlpString(vs.BytesN("y", 32))
	}
	items[16] = vs.Bytes("v", vs.Param("V"))
	buf := c10RlpList(items...)
	n, err, panicked := c10Decode(buf)
	if panicked {
		return
	}
	if err != nil {
		vs.Reach("reject")
		return
	}
	vs.Reach("accept")
	c10WellFormed(n, true, 7)
	if fn, isFull := n.(*fullNode); isFull {
		if h, isHash := fn.Children[a].(hashNode); isHash && len(items[a]) == 33 {
			vs.Assert(c10Same(h, items[a][1:]), "hash reference is the 32-byte string content")
			vs.Reach("hash-child")
		}
		if _, isShort := fn.Children[a].(*shortNode); isShort {
			vs.Reach("embedded-child")
		}
	}
	c10Walk(n, a, b, (a+1)%16)
}

// --- decode inverts the specified encoding --------------------------------

// c10LeafEnc: encoding of a leaf/extension with hex key and an already
// encoded child reference.
func c10ShortEnc(hexKey []byte, childEnc []byte) []byte {
	return c10RlpList(c10RlpString(hexToCompact(hexKey)), childEnc)
}

// VerifC10_DecodeRoundTrip: for every canonical short node (leaf with a value
// of 1..VL bytes, extension with a hash child) and every branch node with hash
// / embedded-leaf / empty slots, decodeNode(encode(node)) is that node.
func VerifC10_DecodeRoundTrip() {
	nn := vs.Choice("n", vs.Param("N")+1)
	x := c10Nibbles("x", nn)
	switch vs.Choice("shape", 3) {
	case 0: // leaf
		key := append(append([]byte{}, x...), 16)
		val := vs.BytesN("val", 1+vs.Choice("vl", vs.Param("VL")))
		n, err := decodeNode(nil, c10ShortEnc(key, c10RlpString(val)), 7)
		vs.Assert(err == nil, "leaf encoding accepted")
		sn, ok := n.(*shortNode)
		vs.Assert(ok, "leaf decodes to a short node")
		vs.Assert(c10Same(sn.Key, key), "leaf key round-trips")
		v, isVal := sn.Val.(valueNode)
		vs.Assert(isVal && c10Same(v, val), "leaf value round-trips")
		c10WellFormed(n, true, 7)
	case 1: // extension
		if nn == 0 {
			return // canonical extensions have a non-empty key
		}
		h := vs.BytesN("h", 32)
		n, err := decodeNode(nil, c10ShortEnc(x, c10RlpString(h)), 7)
		vs.Assert(err == nil, "extension encoding accepted")
		sn, ok := n.(*shortNode)
		vs.Assert(ok, "extension decodes to a short node")
		vs.Assert(c10Same(sn.Key, x), "extension key round-trips")
		hn, isHash := sn.Val.(hashNode)
		vs.Assert(isHash && c10Same(hn, h), "extension child hash round-trips")
		c10WellFormed(n, true, 7)
	case 2: // branch: slot a = hash, slot b = embedded leaf with key x, value slot
		a := vs.Choice("slot", 16)
		b := (a + 5) % 16
		items := make([][]byte, 17)
		for i := range items {
			items[i] = []byte{0x80}
		}
		h := vs.BytesN("h", 32)
		items[a] = c10RlpString(h)
		lkey := append(append([]byte{}, x...), 16)
		lval := vs.BytesN("lval", 1)
		leaf := c10ShortEnc(lkey, c10RlpString(lval))
		items[b] = leaf
		bval := vs.Bytes("bval", 2)
		items[16] = c10RlpString(bval)
		n, err := decodeNode(nil, c10RlpList(items...), 7)
		vs.Assert(err == nil, "branch encoding accepted")
		fn, ok := n.(*fullNode)
		vs.Assert(ok, "branch decodes to a full node")
		for i := 0; i < 16; i++ {
			if i != a && i != b {
				vs.Assert(fn.Children[i] == nil, "empty slot round-trips")
			}
		}
		hn, isHash := fn.Children[a].(hashNode)
		vs.Assert(isHash && c10Same(hn, h), "hash slot round-trips")
		sn, isShort := fn.Children[b].(*shortNode)
		vs.Assert(isShort, "embedded leaf slot round-trips")
		vs.Assert(c10Same(sn.Key, lkey), "embedded leaf key round-trips")
		v, isVal := sn.Val.(valueNode)
		vs.Assert(isVal && c10Same(v, lval), "embedded leaf value round-trips")
		if len(bval) == 0 {
			vs.Assert(fn.Children[16] == nil, "empty value slot round-trips")
		} else {
			bv, isVal := fn.Children[16].(valueNode)
			vs.Assert(isVal && c10Same(bv, bval), "branch value round-trips")
		}
		c10WellFormed(n, true, 7)
	}
}
