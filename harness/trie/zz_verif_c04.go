package trie

// C04-H3 (trie part): a failing disk write inside trie.Database.Commit /
// Dereference / Reference is never followed by a deadlock: every hold taken on
// Database.lock is released on every return path.
//
// The database under the write layer is a fake whose n-th batch.Write() fails
// (n chosen by the harness, 0 = never) and whose batches may report a value
// size above IdealBatchSize (so that the mid-loop flushes happen).  The write
// layer holds a small DAG of cached nodes and 0..2 preimages.  After Commit
// returns (error or not) the harness asks the lock itself - TryLock, which the
// engine answers from the hold count of its sequential lock model and the Go
// runtime answers natively - and then keeps using the database.

import (
	"errors"

	"gitlab.com/aquachain/aquachain/aquadb"
	"gitlab.com/aquachain/aquachain/common"
	vs "gitlab.com/aquachain/aquachain/internal/verifsym"
)

// VerifLockFree reports whether no hold is left on the database lock.
func (db *Database) VerifLockFree() bool {
	if !db.lock.TryLock() {
		return false
	}
	db.lock.Unlock()
	return true
}

var c04ErrDiskFull = errors.New("disk full")
var c04ErrNotFound = errors.New("not found")

type c04DB struct {
	m      map[string][]byte
	failAt int // the n-th batch.Write() fails (1-based); 0 = never
	writes int
	big    bool // batches report a value size above IdealBatchSize once non-empty
	puts   []string
}

func (d *c04DB) Put(k, v []byte) error {
	d.m[string(k)] = common.CopyBytes(v)
	d.puts = append(d.puts, string(k))
	return nil
}
func (d *c04DB) Delete(k []byte) error { delete(d.m, string(k)); return nil }
func (d *c04DB) Get(k []byte) ([]byte, error) {
	if v, ok := d.m[string(k)]; ok {
		return common.CopyBytes(v), nil
	}
	return nil, c04ErrNotFound
}
func (d *c04DB) Has(k []byte) (bool, error) { _, ok := d.m[string(k)]; return ok, nil }
func (d *c04DB) Close()                     {}
func (d *c04DB) NewBatch() aquadb.Batch     { return &c04Batch{db: d} }

type c04KV struct{ k, v []byte }

type c04Batch struct {
	db   *c04DB
	ops  []c04KV
	size int
}

func (b *c04Batch) Put(k, v []byte) error {
	b.ops = append(b.ops, c04KV{common.CopyBytes(k), common.CopyBytes(v)})
	b.size += len(v)
	return nil
}
func (b *c04Batch) Delete(k []byte) error { return nil }
func (b *c04Batch) ValueSize() int {
	if b.db.big && len(b.ops) > 0 {
		return aquadb.IdealBatchSize + 1
	}
	return b.size
}
func (b *c04Batch) Write() error {
	b.db.writes++
	if b.db.failAt != 0 && b.db.writes == b.db.failAt {
		return c04ErrDiskFull
	}
	for _, op := range b.ops {
		b.db.Put(op.k, op.v)
	}
	return nil
}
func (b *c04Batch) Reset() { b.ops = b.ops[:0]; b.size = 0 }

func c04Hash(i byte) (h common.Hash) {
	h[0], h[31] = 0xc4, i
	return h
}

// VerifC04_TrieCommitReleasesLock: see the file comment.
func VerifC04_TrieCommitReleasesLock() {
	disk := &c04DB{m: map[string][]byte{}}
	disk.failAt = vs.Choice("failAt", vs.Param("W")+1)
	disk.big = vs.Choice("big", 2) == 1
	db := NewDatabase(disk)

	// content of the write layer: root -> c1 (-> c2), preimages
	npre := vs.Choice("preimages", 3)
	db.lock.Lock()
	for i := 0; i < npre; i++ {
		db.insertPreimage(c04Hash(byte(0x80+i)), []byte{byte(i), 1, 2, 3})
	}
	db.lock.Unlock()
	root, c1, c2 := c04Hash(1), c04Hash(2), c04Hash(3)
	depth := vs.Choice("depth", 3)
	db.Insert(root, []byte{1})
	if depth >= 1 {
		db.Insert(c1, []byte{2})
		db.Reference(c1, root)
	}
	if depth >= 2 {
		db.Insert(c2, []byte{3})
		db.Reference(c2, c1)
	}
	db.Reference(root, common.Hash{})
	vs.Assert(db.VerifLockFree(), "fixture: lock free before Commit")

	err := db.Commit(root, false)

	if err != nil {
		vs.Reach("commit-failed")
	} else {
		vs.Reach("commit-ok")
	}
	vs.Assert(db.VerifLockFree(), "Database.lock is not held after Commit returns")

	if err == nil {
		// flushed: children before parents, everything of the trie on disk
		vs.Assert(disk.failAt == 0 || disk.failAt > disk.writes, "Commit reports the failed write")
		pos := func(h common.Hash) int {
			for i, k := range disk.puts {
				if k == string(h[:]) {
					return i
				}
			}
			return -1
		}
		vs.Assert(pos(root) >= 0, "root on disk after Commit")
		if depth >= 1 {
			vs.Assert(pos(c1) >= 0 && pos(c1) < pos(root), "child written before its parent")
		}
		if depth >= 2 {
			vs.Assert(pos(c2) >= 0 && pos(c2) < pos(c1), "grandchild written before the child")
		}
	}
	// the database stays usable: none of these may block
	db.Reference(root, common.Hash{})
	db.Dereference(root, common.Hash{})
	_, _ = db.Node(root)
	_ = db.Size()
	vs.Assert(db.VerifLockFree(), "Database.lock is not held after Reference/Dereference/Node/Size")
	vs.Observe("writes", disk.writes)
}
