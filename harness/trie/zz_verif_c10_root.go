package trie

// C10 harness H: the root hash equals the root the specification defines.
//
// The REAL Trie.Hash() runs (hasher.hash / hashChildren / store, the node
// types' RLP encoding through the reflective rlp.Encode, hexToCompact).  Only
// keccak-256 is replaced: under the engine the sponge the trie's hasher uses
// (sha3.NewKeccak256, redirected to c10NewKeccak by the suite) and the
// reference both apply the same deterministic uninterpreted function to the
// bytes hashed; natively both use the real keccak, so a counterexample replays
// as a real root mismatch.
//
// The reference is written from the Yellow Paper, appendix D (functions c, n
// and HP; TRIE(J) = KEC(c(J, 0))), over a sorted key/value list, and shares no
// code with the trie: own hex-prefix function, own RLP framing.
//
// Contents: concrete keys (the shape is fixed per content), symbolic value
// bytes, value lengths chosen so that node encodings of 31, 32 and 33 bytes
// occur for leaves below a branch, for a branch below an extension and for a
// branch below a branch (the embed-or-hash threshold of n()).

import (
	"hash"

	"gitlab.com/aquachain/aquachain/common"
	"gitlab.com/aquachain/aquachain/crypto"
	vs "gitlab.com/aquachain/aquachain/internal/verifsym"
)

// --- keccak -----------------------------------------------------------------

func c10KeccakOf(b []byte) []byte {
	if vs.Symbolic() {
		return vs.UF("keccak256", 32, b)
	}
	return crypto.Keccak256(b)
}

// c10Keccak replaces the sha3 sponge of the trie's hasher under the engine.
type c10Keccak struct{ buf []byte }

func (k *c10Keccak) Write(p []byte) (int, error) { k.buf = append(k.buf, p...); return len(p), nil }
func (k *c10Keccak) Sum(b []byte) []byte         { return append(b, c10KeccakOf(k.buf)...) }
func (k *c10Keccak) Reset()                      { k.buf = nil }
func (k *c10Keccak) Size() int                   { return 32 }
func (k *c10Keccak) BlockSize() int              { return 136 }

// c10NewKeccak is the redirect target of sha3.NewKeccak256 (suite override).
func c10NewKeccak() hash.Hash { return &c10Keccak{} }

// --- specification (Yellow Paper, appendix C and D) -------------------------

type c10KV struct {
	hex []byte // key as a nibble sequence (no terminator)
	val []byte
}

// c10HP: hex-prefix encoding HP(x, t).
func c10HP(x []byte, t bool) []byte {
	f := byte(0)
	if t {
		f = 2
	}
	var out []byte
	if len(x)%2 == 0 {
		out = append(out, 16*f)
	} else {
		out = append(out, 16*(f+1)+x[0])
		x = x[1:]
	}
	for i := 0; i < len(x); i += 2 {
		out = append(out, 16*x[i]+x[i+1])
	}
	return out
}

// c10SpecC: the structural composition c(J, i): the RLP of the node that holds
// the set J, all of whose keys agree on their first i nibbles.
func c10SpecC(J []c10KV, i int, col *[]c10Stored) []byte {
	if len(J) == 1 {
		return c10RlpList(c10RlpString(c10HP(J[0].hex[i:], true)), c10RlpString(J[0].val)) // leaf
	}
	// j = length of the longest prefix common to all keys of J
	j := len(J[0].hex)
	for _, kv := range J[1:] {
		k := 0
		for k < j && k < len(kv.hex) && kv.hex[k] == J[0].hex[k] {
			k++
		}
		j = k
	}
	if j > i {
		return c10RlpList(c10RlpString(c10HP(J[0].hex[i:j], false)), c10SpecN(J, j, col)) // extension
	}
	items := make([][]byte, 17) // branch
	for nib := 0; nib < 16; nib++ {
		var sub []c10KV
		for _, kv := range J {
			if len(kv.hex) > i && int(kv.hex[i]) == nib {
				sub = append(sub, kv)
			}
		}
		items[nib] = c10SpecN(sub, i+1, col)
	}
	items[16] = []byte{0x80}
	for _, kv := range J {
		if len(kv.hex) == i {
			items[16] = c10RlpString(kv.val)
		}
	}
	return c10RlpList(items...)
}

// c10SpecN: the node reference n(J, i) as a list element: empty string for the
// empty set, the node itself if its RLP is shorter than 32 bytes, else the
// string of its keccak.
func c10SpecN(J []c10KV, i int, col *[]c10Stored) []byte {
	if len(J) == 0 {
		return []byte{0x80}
	}
	c := c10SpecC(J, i, col)
	if len(c) < 32 {
		return c
	}
	h := c10KeccakOf(c)
	if col != nil {
		*col = append(*col, c10Stored{h, c})
	}
	return c10RlpString(h)
}

// c10Stored: a node the specification addresses by hash (KEC(enc) -> enc).
type c10Stored struct{ hash, enc []byte }

// c10SpecRoot: TRIE(J) = KEC(c(J, 0)) for non-empty J; col (optional) collects
// every hash-addressed node, the root last.
func c10SpecRoot(J []c10KV, col *[]c10Stored) []byte {
	c := c10SpecC(J, 0, col)
	h := c10KeccakOf(c)
	if col != nil {
		*col = append(*col, c10Stored{h, c})
	}
	return h
}

// --- contents ---------------------------------------------------------------

// first key carries the value whose length sweeps the threshold
var c10RootContents = [][][]byte{
	{{0x12}},                         // one leaf (root is always hashed)
	{{0x10}, {0x20}},                 // branch, two leaves (keys diverge at the first nibble)
	{{0x12, 0x34}, {0x12, 0x56}},     // extension -> branch -> two leaves
	{{0x12, 0x34}, {0x12}},           // extension -> branch with a value and one leaf (key is a prefix of a key)
	{{0x10}, {0x11}, {0x20}},         // branch -> (branch -> two leaves with empty key remainder), leaf
	{{0x12, 0x34}, {0x12, 0x35}, {}}, // branch with value (empty key) -> extension -> branch -> two leaves
}

// 2..4: small (a branch of small leaves is embedded); 6..8: a branch of two
// one-nibble leaves is 31/32/33 bytes with a 2-byte second value; 27..33: a
// one-nibble leaf is 30..36 bytes (31/32/33 at 28/29/30), a leaf with empty or
// two-nibble remainder crosses at 27..31.
var c10RootLens = []int{2, 3, 4, 6, 7, 8, 9, 10, 27, 28, 29, 30, 31, 32, 33}

func c10Hex(key []byte) []byte {
	var h []byte
	for _, b := range key {
		h = append(h, b>>4, b&15)
	}
	return h
}

// c10RootContent draws a content: concrete keys, symbolic values.
func c10RootContent() (keys, vals [][]byte) {
	keys = c10RootContents[vs.Choice("content", len(c10RootContents))]
	vals = make([][]byte, len(keys))
	lens := c10RootLens
	if vs.Param("reduced") == 1 {
		lens = []int{7, 29, 30} // 32-byte branch below an extension; 32- and 33-byte one-nibble leaf
	}
	vals[0] = vs.BytesN("v0", lens[vs.Choice("len0", len(lens))])
	if len(keys) > 1 {
		vals[1] = vs.BytesN("v1", []int{2, 29}[vs.Choice("len1", 2)])
	}
	if len(keys) > 2 {
		vals[2] = vs.BytesN("v2", 2)
	}
	return
}

// VerifC10_RootEqualsSpec: Hash() of a trie built with the real API equals the
// specification root of its content, for every value content of the chosen
// lengths; also after an intermediate Hash() (cached node hashes) and for both
// insertion orders.
func VerifC10_RootEqualsSpec() {
	keys, vals := c10RootContent()
	t := &Trie{}
	reverse := vs.Choice("reverse", 2) == 1
	mid := vs.Choice("midhash", 2) == 1
	for n := range keys {
		i := n
		if reverse {
			i = len(keys) - 1 - n
		}
		vs.Assert(t.TryUpdate(keys[i], vals[i]) == nil, "in-memory operation cannot fail")
		if mid && n == 0 {
			t.Hash() // intermediate hashing: caches node hashes
		}
	}
	got := t.Hash()

	var J []c10KV
	for i := range keys {
		J = append(J, c10KV{c10Hex(keys[i]), vals[i]})
	}
	want := c10SpecRoot(J, nil)
	vs.Assert(c10Same(got[:], want), "Hash() equals the specification root TRIE(J) = KEC(c(J,0))")
	again := t.Hash()
	vs.Assert(again == got, "Hash() is stable (cached root)")
}

// VerifC10_CommitEqualsSpec: Commit into a trie.Database (memory layer only, no
// disk database) returns the specification root and stores exactly the nodes
// the specification addresses by hash, each under its hash with its RLP as the
// blob; the trie reopened at that root (resolveHash / decodeNode on the stored
// blobs) returns the content.  Assumption (uninterpreted keccak): distinct
// node encodings have distinct hashes, different from the zero hash and from
// the empty-trie root KEC(0x80).
func VerifC10_CommitEqualsSpec() {
	keys, vals := c10RootContent()
	var J []c10KV
	for i := range keys {
		J = append(J, c10KV{c10Hex(keys[i]), vals[i]})
	}
	var stored []c10Stored
	want := c10SpecRoot(J, &stored)
	zero := make([]byte, 32)
	vs.Assume(!c10Same(want, emptyRoot[:])) // KEC of a node differs from KEC(RLP("")), the root of the empty trie
	for i := range stored {
		vs.Assume(!c10Same(stored[i].hash, zero))
		for j := 0; j < i; j++ {
			vs.Assume(c10Same(stored[i].enc, stored[j].enc) || !c10Same(stored[i].hash, stored[j].hash))
		}
	}

	db := NewDatabase(nil)
	t, err := New(common.Hash{}, db)
	vs.Assert(err == nil, "empty trie opens")
	for i := range keys {
		vs.Assert(t.TryUpdate(keys[i], vals[i]) == nil, "in-memory operation cannot fail")
	}
	root, err := t.Commit(nil)
	vs.Assert(err == nil, "commit to the memory layer cannot fail")
	vs.Assert(c10Same(root[:], want), "Commit() returns the specification root")
	for _, sn := range stored {
		cn := db.nodes[common.BytesToHash(sn.hash)]
		vs.Assert(cn != nil, "every hash-addressed node of the specification is stored under its hash")
		vs.Assert(c10Same(cn.blob, sn.enc), "stored blob is the node's RLP")
	}
	vs.Assert(len(db.nodes) <= 1+len(stored), "nothing else is stored (embedded nodes are not)")
	vs.Assert(t.Hash() == root, "Hash() after Commit is the committed root")

	re, err := New(root, db)
	vs.Assert(err == nil, "trie reopens at the committed root")
	for i := range keys {
		got, err := re.TryGet(keys[i])
		vs.Assert(err == nil, "lookup in the reopened trie cannot fail")
		vs.Assert(c10Same(got, vals[i]), "reopened trie returns the content")
	}
}
