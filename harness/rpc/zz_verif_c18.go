package rpc

// C18 harness, gate part (O2): no RPC endpoint offers a signing-capable method
// unless that transport was opted in.
//
// The real Server.RegisterName is executed.  The method table c18Methods is
// generated from the current source tree on every run (engine generator
// "rpcapi": every exported method of every receiver type stored into
// rpc.API.Service or passed to RegisterName).  Natively the receiver is a
// generated dummy type with exactly that method and the real, reflection-based
// suitableCallbacks runs; under the engine suitableCallbacks is redirected to
// c18SuitableCallbacks (reflection over method sets is not modelled).
//
// The transport is the function RegisterName is called from (that is how the
// code under test decides): c18node.startInProc/startIPC/startHTTP/startWS and
// c18Other below.  The engine answers stack.Caller from its own frame stack.

import (
	"reflect"

	vs "gitlab.com/aquachain/aquachain/internal/verifsym"
)

// C18Method is one exported method of a registered service type.
type C18Method struct {
	NS      string      // namespace of (one of) its registrations
	Recv    string      // "pkg.Type"
	Name    string      // Go method name
	MaySign bool        // the static call graph (VTA) reaches a keystore/Wallet signing entry point
	Decided bool        // its body is executed by VerifC18_Reach (internal/aquaapi), which also runs the gate for it
	Dummy   interface{} // value of a generated type with exactly this method (native reflection)
}

// filled by the generated file zz_verif_c18_gen.go
var c18Methods []C18Method

// C18Reg is one registration of the node's API list: namespace, real receiver
// type (by name), all its exported method names and a generated receiver type
// carrying exactly those method names.
type C18Reg struct {
	NS    string
	Recv  string
	Names []string
	Dummy interface{}
}

// c18Order: the registrations in the order node start-up performs them
// (generated: walk of Node.startRPC and the []rpc.API functions it calls).
var c18Order []C18Reg

// transports
const (
	C18InProc = iota
	C18IPC
	C18HTTP
	C18WS
	C18Other
	C18NTransports
)

// C18Flags are the five opt-in flags: [0..3] per transport (same index as the
// transport), [4] = UNSAFE_RPC_SIGNING (allow_all_rpc_signing).
type C18Flags [5]bool

type c18node struct{}

//go:noinline
func (c18node) startInProc(s *Server, ns string, rcvr interface{}) ([]string, error) {
	return s.RegisterName(ns, rcvr)
}

//go:noinline
func (c18node) startIPC(s *Server, ns string, rcvr interface{}) ([]string, error) {
	return s.RegisterName(ns, rcvr)
}

//go:noinline
func (c18node) startHTTP(s *Server, ns string, rcvr interface{}) ([]string, error) {
	return s.RegisterName(ns, rcvr)
}

//go:noinline
func (c18node) startWS(s *Server, ns string, rcvr interface{}) ([]string, error) {
	return s.RegisterName(ns, rcvr)
}

// any other caller (plugins, tests, rpc.NewServer itself, ...)
//
//go:noinline
func c18Other(s *Server, ns string, rcvr interface{}) ([]string, error) {
	return s.RegisterName(ns, rcvr)
}

func c18RegisterFrom(tr int, s *Server, ns string, rcvr interface{}) ([]string, error) {
	switch tr {
	case C18InProc:
		return c18node{}.startInProc(s, ns, rcvr)
	case C18IPC:
		return c18node{}.startIPC(s, ns, rcvr)
	case C18HTTP:
		return c18node{}.startHTTP(s, ns, rcvr)
	case C18WS:
		return c18node{}.startWS(s, ns, rcvr)
	}
	return c18Other(s, ns, rcvr)
}

// engine only: the exported method names of the receiver being registered
var c18CurNames []string

// c18SuitableCallbacks stands in for suitableCallbacks under the engine
// (suite override): one plain callback per name in c18CurNames.
func c18SuitableCallbacks(rcvr reflect.Value, typ reflect.Type) (callbacksmap, subscriptionsmap) {
	cbs := make(callbacksmap)
	for _, n := range c18CurNames {
		cbs[formatName(n)] = &callback{rcvr: rcvr, method: reflect.Method{Name: n}, errPos: -1}
	}
	return cbs, make(subscriptionsmap)
}

// C18Decoy is a harmless service registered first under the same namespace in
// half of the runs (exercises the merge branch of RegisterName).
type C18Decoy struct{}

func (C18Decoy) C18Ping() {}

func c18SetFlags(f C18Flags) {
	allow_sign_inProc = f[C18InProc]
	allow_sign_ipc = f[C18IPC]
	allow_sign_http = f[C18HTTP]
	allow_sign_ws = f[C18WS]
	allow_all_rpc_signing = f[4]
}

// C18OptedIn: the opt-in of *that* transport; an unknown caller has none.
func C18OptedIn(tr int, f C18Flags) bool {
	return tr >= 0 && tr < C18Other && f[tr]
}

// VerifC18GateRegistered runs the real registration of rcvr under ns from the
// start function of transport tr with the given flags and reports whether
// method is offered afterwards.  names = exported method names of rcvr's type
// (used by the engine stand-in of suitableCallbacks only).
func VerifC18GateRegistered(tr int, f C18Flags, preexisting bool, ns string, rcvr interface{}, names []string, method string) bool {
	c18SetFlags(f)
	s := &Server{services: make(serviceRegistry)}
	if preexisting {
		c18CurNames = []string{"C18Ping"}
		if _, err := c18RegisterFrom(tr, s, ns, C18Decoy{}); err != nil {
			vs.Assert(false, "decoy service registers")
		}
	}
	c18CurNames = names
	_, err := c18RegisterFrom(tr, s, ns, rcvr)
	if err != nil {
		// nothing suitable left under this receiver (all methods removed) is the only acceptable error
		vs.Reach("register-error")
	}
	svc, ok := s.services[ns]
	if !ok {
		return false
	}
	_, offered := svc.callbacks[formatName(method)]
	return offered
}

// VerifC18_Gate: for every exported method name of every registered service
// type, every calling start function, fresh namespace or namespace that already
// has a service (merge branch) and every combination of the five flags: a
// method that may sign is offered - in the server's final service map - only if
// that transport's flag is set.
func VerifC18_Gate() {
	vs.Assert(len(c18Methods) > 0, "generated method table present")
	m := c18Methods[vs.Choice("method", len(c18Methods))]
	tr := vs.Choice("transport", C18NTransports)
	pre := vs.Choice("preexisting", 2) == 1
	var f C18Flags
	f[C18InProc] = vs.Bool("allow_sign_inProc")
	f[C18IPC] = vs.Bool("allow_sign_ipc")
	f[C18HTTP] = vs.Bool("allow_sign_http")
	f[C18WS] = vs.Bool("allow_sign_ws")
	f[4] = vs.Bool("allow_all_rpc_signing")
	offered := VerifC18GateRegistered(tr, f, pre, m.NS, m.Dummy, []string{m.Name}, m.Name)
	vs.Observe("method", m.NS+" "+m.Recv+"."+m.Name)
	vs.Observe("offered", offered)
	if offered {
		vs.Reach("offered")
	} else {
		vs.Reach("removed")
	}
	// Every MaySign method counts as signing-capable here: the ones whose body is
	// executed (Decided) are confirmed signers - VerifC18_Reach faults unless each
	// of them exhibits a signing path (reach_pairs) - the others are undetermined.
	if m.MaySign {
		vs.Reach("treated-as-signing")
		// Known finding (exactly these three methods): StartMining on a clique
		// chain authorises the keystore's CliqueSigner and the miner then seals
		// blocks through KeyStore.SignHashAllowed.  The engine cannot execute
		// these bodies (miner goroutines), so they are not refuted; any other
		// undetermined method stays an ordinary violation.
		vs.Known("C18-mining-clique-seal", c18KnownMining(m.Recv, m.Name))
		vs.Assert(!offered || C18OptedIn(tr, f), "treated as signing-capable and offered on a transport that is not opted in: "+m.NS+" "+m.Recv+"."+m.Name)
	}
}

func c18KnownMining(recv, name string) bool {
	return (recv == "aqua.PrivateMinerAPI" && name == "Start") ||
		(recv == "aqua.PublicMinerAPI" && name == "GetWork") ||
		(recv == "aqua.PublicTestingAPI" && name == "GetBlockTemplate")
}

// VerifC18_NodeOrder: the whole API list is registered on one server in the
// node's real order (c18Order) from one start function; afterwards the final
// callback set of the method's namespace, read from the server's service map,
// must not offer a signing-capable method unless that transport is opted in.
func VerifC18_NodeOrder() {
	vs.Assert(len(c18Methods) > 0 && len(c18Order) > 0, "generated tables present")
	m := c18Methods[vs.Choice("method", len(c18Methods))]
	if !m.MaySign {
		return
	}
	tr := vs.Choice("transport", C18NTransports)
	var f C18Flags
	f[C18InProc] = vs.Bool("allow_sign_inProc")
	f[C18IPC] = vs.Bool("allow_sign_ipc")
	f[C18HTTP] = vs.Bool("allow_sign_http")
	f[C18WS] = vs.Bool("allow_sign_ws")
	f[4] = vs.Bool("allow_all_rpc_signing")
	c18SetFlags(f)
	s := &Server{services: make(serviceRegistry)}
	seen := false
	for _, r := range c18Order {
		c18CurNames = r.Names
		c18RegisterFrom(tr, s, r.NS, r.Dummy) // an error (nothing suitable left) registers nothing
		if r.NS == m.NS && r.Recv == m.Recv {
			seen = true
		}
	}
	vs.Assert(seen, "the method's service is part of the registration sequence")
	offered := false
	if svc, ok := s.services[m.NS]; ok {
		_, offered = svc.callbacks[formatName(m.Name)]
	}
	vs.Observe("method", m.NS+" "+m.Recv+"."+m.Name)
	vs.Observe("offered", offered)
	if offered {
		vs.Reach("offered")
	} else {
		vs.Reach("removed")
	}
	vs.Known("C18-mining-clique-seal", c18KnownMining(m.Recv, m.Name))
	vs.Assert(!offered || C18OptedIn(tr, f), "signing-capable method offered after registering the node's API list in order, transport not opted in: "+m.NS+" "+m.Recv+"."+m.Name)
}
