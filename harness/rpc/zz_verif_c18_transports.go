package rpc

// C18, transport binding: helpers in package rpc for the harness
// node.VerifC18_Transports (harness/node/zz_verif_c18_transports.go).  That
// harness runs the real (*node.Node).startInProc/startIPC/startHTTP/startWS, so
// the real rpc.NewServer and the real Server.RegisterName are executed with the
// node's functions as callers; only what package node cannot reach (the opt-in
// flags, the server's service map, the generated API tables) is exported here.

import (
	"reflect"
)

// VerifC18SetFlags writes the five opt-in flags (read from the environment by
// the package initialiser) into the package variables.
func VerifC18SetFlags(f C18Flags) { c18SetFlags(f) }

// VerifC18Order is the node's API list in registration order (generated from
// the current source tree, see C18Reg).  Under the engine it also fills the
// method-name table of the suitableCallbacks stand-in below.
func VerifC18Order() []C18Reg {
	c18tNames = map[string][]string{"RPCService": {"Modules"}}
	for _, r := range c18Order {
		c18tNames[reflect.TypeOf(r.Dummy).Name()] = r.Names
	}
	return c18Order
}

// VerifC18Signers: every registered method from which the static call graph
// reaches a keystore / Wallet signing entry point (generated, see C18Method).
func VerifC18Signers() []C18Method {
	var out []C18Method
	for _, m := range c18Methods {
		if m.MaySign {
			out = append(out, m)
		}
	}
	return out
}

// VerifC18KnownMining is the class predicate of known finding C18-mining-clique-seal.
func VerifC18KnownMining(recv, name string) bool { return c18KnownMining(recv, name) }

// VerifC18Offers: does server s (nil = no endpoint) offer ns_method, read from
// the service map the dispatcher uses.
func VerifC18Offers(s *Server, ns, method string) bool {
	if s == nil {
		return false
	}
	svc, ok := s.services[ns]
	if !ok {
		return false
	}
	_, offered := svc.callbacks[formatName(method)]
	return offered
}

// engine only: exported method names by receiver type name (generated dummy
// types C18T_<n> and rpc.RPCService, which NewServer registers itself)
var c18tNames map[string][]string

// c18tSuitableCallbacks stands in for suitableCallbacks under the engine in
// VerifC18_Transports (harness override): one plain callback per exported
// method name of the receiver's type.  The registrations happen inside the node
// code, so the names are looked up by the receiver's type name (the same
// reflect calls RegisterName itself makes).  A receiver type without a table
// entry is refused (panic => the run faults, never passes).
func c18tSuitableCallbacks(rcvr reflect.Value, typ reflect.Type) (callbacksmap, subscriptionsmap) {
	tn := reflect.Indirect(rcvr).Type().Name()
	names, ok := c18tNames[tn]
	if !ok {
		panic("c18 transports: no method-name table for receiver type " + tn)
	}
	cbs := make(callbacksmap)
	for _, n := range names {
		cbs[formatName(n)] = &callback{rcvr: rcvr, method: reflect.Method{Name: n}, errPos: -1}
	}
	return cbs, make(subscriptionsmap)
}
