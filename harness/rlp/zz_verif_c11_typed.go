package rlp

// C11, typed part: the reflection-driven decoders and encoders of
// decode.go / encode.go / typecache.go, executed for real over symbolic input
// (the engine models package reflect: engine/intr_reflect_rlp.go; natively the
// real package reflect runs, so counterexamples replay against the real build).
//
// (a) VerifC11T_DecEnc*: for EVERY byte string b with len(b) <= N and each
//     target type below, DecodeBytes(b, &x) either returns an error or x
//     re-encodes (EncodeToBytes) to exactly b; nothing panics; decoded
//     containers are not longer than the input.
// (b) VerifC11T_EncDec*: for every value in the bound, EncodeToBytes succeeds
//     and DecodeBytes of the result gives the same value back (modulo the
//     documented pointer rules: a nil pointer encodes as the zero value of its
//     element type, decode.go/encode.go package comments).
//
// Known-finding classes (genuine, natively reproduced, see the C11 report):
//   C11-niltag-empty-other-kind      `rlp:"nil"` accepts 0x80 and 0xC0 alike
//   C11-bytearray1-zero-not-rearmed  [1]byte{0} inside a list cannot be decoded

import (
	"bytes"
	"errors"
	"io"
	"math/big"

	vs "gitlab.com/aquachain/aquachain/internal/verifsym"
)

const (
	c11tKnownNil  = "C11-niltag-empty-other-kind"
	c11tKnownArr1 = "C11-bytearray1-zero-not-rearmed"
)

// ---------------------------------------------------------------------------
// target types

type c11tAB struct {
	A uint
	B []byte
}

type c11tInner struct{ X uint8 }

// pointer fields with the "nil" tag: element kinds that encode nil as 0x80 ...
type c11tNilUint struct {
	A *uint `rlp:"nil"`
}

// ... the shape of core/types.txdata.Recipient (*common.Address `rlp:"nil"`) ...
type c11tNilArr struct {
	A *[2]byte `rlp:"nil"`
	B uint8
}

// ... and an element kind that encodes nil as 0xC0.
type c11tNilStruct struct {
	A *c11tInner `rlp:"nil"`
}

type c11tTail struct {
	A    uint8
	Tail []uint16 `rlp:"tail"`
}

type c11tIgn struct {
	A    uint8
	Skip uint32 `rlp:"-"`
	priv uint16
	B    []byte
}

type c11tNested struct {
	H c11tInner
	P *c11tInner
	L []c11tInner
}

type c11tPtrUint struct{ P *uint }

type c11tBigs struct {
	I big.Int
	P *big.Int
}

type c11tArr1Pair struct {
	A [1]byte
	B [1]byte
}

// custom codec, value-receiver Encoder / pointer-receiver Decoder
type c11tCustom struct{ v uint16 }

var errC11tRange = errors.New("c11t: value out of range")

func (c *c11tCustom) DecodeRLP(s *Stream) error {
	u, err := s.Uint()
	if err != nil {
		return err
	}
	if u > 0xffff {
		return errC11tRange
	}
	c.v = uint16(u)
	return nil
}

func (c c11tCustom) EncodeRLP(w io.Writer) error { return Encode(w, uint64(c.v)) }

// custom codec, both with pointer receivers (writeEncoderNoPtr / decodeDecoderNoPtr)
type c11tCustomP struct{ v uint16 }

func (c *c11tCustomP) DecodeRLP(s *Stream) error {
	u, err := s.Uint()
	if err != nil {
		return err
	}
	if u > 0xffff {
		return errC11tRange
	}
	c.v = uint16(u)
	return nil
}

func (c *c11tCustomP) EncodeRLP(w io.Writer) error { return Encode(w, uint64(c.v)) }

type c11tCustoms struct {
	C c11tCustom
	D *c11tCustom
	E c11tCustomP
}

// ---------------------------------------------------------------------------
// (a) decode-then-encode

func c11tInput() []byte { return vs.Bytes("b", vs.Param("N")) }

// c11tReencode states property (a) for one decoded value v (what is handed to
// EncodeToBytes: the value, or a pointer to it where the encoder needs an
// addressable value).
func c11tReencode(b []byte, err error, v interface{}) {
	vs.Observe("accepted", err == nil)
	if err != nil {
		vs.Reach("reject")
		return
	}
	vs.Reach("accept")
	enc, err2 := EncodeToBytes(v)
	vs.Assert(err2 == nil, "decoded value encodes without error")
	vs.Observe("enc", enc)
	vs.Assert(bytes.Equal(enc, b), "re-encoding of the decoded value equals the input (one encoding per value)")
}

func VerifC11T_DecEncUint8() {
	b := c11tInput()
	var x uint8
	err := DecodeBytes(b, &x)
	c11tReencode(b, err, x)
}

func VerifC11T_DecEncUint16() {
	b := c11tInput()
	var x uint16
	err := DecodeBytes(b, &x)
	c11tReencode(b, err, x)
}

func VerifC11T_DecEncUint32() {
	b := c11tInput()
	var x uint32
	err := DecodeBytes(b, &x)
	c11tReencode(b, err, x)
}

func VerifC11T_DecEncUint64() {
	b := c11tInput()
	var x uint64
	err := DecodeBytes(b, &x)
	c11tReencode(b, err, x)
}

func VerifC11T_DecEncBool() {
	b := c11tInput()
	var x bool
	err := DecodeBytes(b, &x)
	c11tReencode(b, err, x)
}

func VerifC11T_DecEncBig() {
	b := c11tInput()
	x := new(big.Int)
	err := DecodeBytes(b, x)
	if err == nil {
		vs.Assert(x.Sign() >= 0, "decoded big integer is not negative")
	}
	c11tReencode(b, err, x)
}

func VerifC11T_DecEncBigs() {
	b := c11tInput()
	var x c11tBigs
	err := DecodeBytes(b, &x)
	if err == nil {
		vs.Assert(x.P != nil, "pointer field allocated")
	}
	c11tReencode(b, err, x)
}

func VerifC11T_DecEncBytes() {
	b := c11tInput()
	var x []byte
	err := DecodeBytes(b, &x)
	if err == nil {
		vs.Assert(len(x) <= len(b), "decoded byte string not longer than the input")
	}
	c11tReencode(b, err, x)
}

func VerifC11T_DecEncString() {
	b := c11tInput()
	var x string
	err := DecodeBytes(b, &x)
	if err == nil {
		vs.Assert(len(x) <= len(b), "decoded string not longer than the input")
	}
	c11tReencode(b, err, x)
}

func VerifC11T_DecEncArr4() {
	b := c11tInput()
	var x [4]byte
	err := DecodeBytes(b, &x)
	c11tReencode(b, err, x)
}

func VerifC11T_DecEncArr1() {
	b := c11tInput()
	var x [1]byte
	err := DecodeBytes(b, &x)
	c11tReencode(b, err, x)
}

func VerifC11T_DecEncArr1Pair() {
	b := c11tInput()
	var x c11tArr1Pair
	err := DecodeBytes(b, &x)
	if err == nil && len(b) >= 2 {
		// a 0x00 in the first [1]byte position is not consumed and is read again
		// for the second one: C1 00 is accepted as {0,0}
		vs.Known(c11tKnownArr1, b[1] == 0)
	}
	c11tReencode(b, err, x)
}

func VerifC11T_DecEncRaw() {
	b := c11tInput()
	var x RawValue
	err := DecodeBytes(b, &x)
	c11tReencode(b, err, x)
}

func VerifC11T_DecEncUint16Slice() {
	b := c11tInput()
	var x []uint16
	err := DecodeBytes(b, &x)
	if err == nil {
		vs.Assert(len(x) <= len(b), "decoded list not longer than the input")
	}
	c11tReencode(b, err, x)
}

func VerifC11T_DecEncUint16Arr2() {
	b := c11tInput()
	var x [2]uint16
	err := DecodeBytes(b, &x)
	c11tReencode(b, err, x)
}

func VerifC11T_DecEncAB() {
	b := c11tInput()
	var x c11tAB
	err := DecodeBytes(b, &x)
	c11tReencode(b, err, x)
}

func VerifC11T_DecEncNilUint() {
	b := c11tInput()
	var x c11tNilUint
	err := DecodeBytes(b, &x)
	if err == nil && len(b) >= 2 {
		vs.Known(c11tKnownNil, b[1] == 0xC0)
	}
	c11tReencode(b, err, x)
}

func VerifC11T_DecEncNilArr() {
	b := c11tInput()
	var x c11tNilArr
	err := DecodeBytes(b, &x)
	if err == nil && len(b) >= 2 {
		vs.Known(c11tKnownNil, b[1] == 0xC0)
	}
	c11tReencode(b, err, x)
}

func VerifC11T_DecEncNilStruct() {
	b := c11tInput()
	var x c11tNilStruct
	err := DecodeBytes(b, &x)
	if err == nil && len(b) >= 2 {
		vs.Known(c11tKnownNil, b[1] == 0x80)
	}
	c11tReencode(b, err, x)
}

func VerifC11T_DecEncTail() {
	b := c11tInput()
	var x c11tTail
	err := DecodeBytes(b, &x)
	c11tReencode(b, err, x)
}

func VerifC11T_DecEncIgn() {
	b := c11tInput()
	var x c11tIgn
	err := DecodeBytes(b, &x)
	vs.Assert(x.Skip == 0 && x.priv == 0, "ignored and unexported fields are never written")
	c11tReencode(b, err, x)
}

func VerifC11T_DecEncNested() {
	b := c11tInput()
	var x c11tNested
	err := DecodeBytes(b, &x)
	if err == nil {
		vs.Assert(x.P != nil, "plain pointer field allocated")
	}
	c11tReencode(b, err, x)
}

func VerifC11T_DecEncCustoms() {
	b := c11tInput()
	var x c11tCustoms
	err := DecodeBytes(b, &x)
	c11tReencode(b, err, &x)
}

func VerifC11T_DecEncIface() {
	b := c11tInput()
	var x interface{}
	err := DecodeBytes(b, &x)
	if err == nil {
		vs.Assert(x != nil, "decoded interface value is set")
	}
	c11tReencode(b, err, x)
}

// ---------------------------------------------------------------------------
// (b) encode-then-decode

func c11tEncode(v interface{}) []byte {
	enc, err := EncodeToBytes(v)
	vs.Assert(err == nil, "value encodes without error")
	vs.Observe("enc", enc)
	return enc
}

func VerifC11T_EncDecScalars() {
	switch vs.Choice("type", 6) {
	case 0:
		x := vs.U8("x")
		var y uint8
		err := DecodeBytes(c11tEncode(x), &y)
		vs.Assert(err == nil && y == x, "uint8 round trip")
	case 1:
		x := vs.U16("x")
		var y uint16
		err := DecodeBytes(c11tEncode(x), &y)
		vs.Assert(err == nil && y == x, "uint16 round trip")
	case 2:
		x := vs.U32("x")
		var y uint32
		err := DecodeBytes(c11tEncode(x), &y)
		vs.Assert(err == nil && y == x, "uint32 round trip")
	case 3:
		x := vs.U64("x")
		var y uint64
		err := DecodeBytes(c11tEncode(x), &y)
		vs.Assert(err == nil && y == x, "uint64 round trip")
	case 4:
		x := vs.Bool("x")
		var y bool
		err := DecodeBytes(c11tEncode(x), &y)
		vs.Assert(err == nil && y == x, "bool round trip")
	case 5:
		x := vs.BigU("x", 8*vs.Param("M"))
		y := new(big.Int)
		err := DecodeBytes(c11tEncode(x), y)
		vs.Assert(err == nil, "big integer decodes")
		vs.Assert(y.Cmp(x) == 0, "big integer round trip")
	}
}

func VerifC11T_EncDecStrings() {
	switch vs.Choice("type", 5) {
	case 4:
		x := string(vs.Bytes("s", vs.Param("M")))
		var y string
		err := DecodeBytes(c11tEncode(x), &y)
		vs.Assert(err == nil, "string decodes")
		vs.Assert(x == y, "string round trip")
	case 0:
		x := vs.Bytes("x", vs.Param("M"))
		var y []byte
		err := DecodeBytes(c11tEncode(x), &y)
		vs.Assert(err == nil, "[]byte decodes")
		vs.Assert(bytes.Equal(x, y), "[]byte round trip")
	case 1:
		var x, y [4]byte
		copy(x[:], vs.BytesN("x", 4))
		err := DecodeBytes(c11tEncode(x), &y)
		vs.Assert(err == nil, "[4]byte decodes")
		vs.Assert(x == y, "[4]byte round trip")
	case 2:
		var x, y [1]byte
		copy(x[:], vs.BytesN("x", 1))
		err := DecodeBytes(c11tEncode(x), &y)
		vs.Assert(err == nil, "[1]byte decodes")
		vs.Assert(x == y, "[1]byte round trip")
	case 3:
		var x, y c11tArr1Pair
		x.A[0] = vs.U8("a")
		x.B[0] = vs.U8("b")
		enc := c11tEncode(x)
		vs.Known(c11tKnownArr1, x.A[0] == 0 || x.B[0] == 0)
		err := DecodeBytes(enc, &y)
		vs.Assert(err == nil, "pair of [1]byte decodes")
		vs.Assert(x == y, "pair of [1]byte round trip")
	}
}

func VerifC11T_EncDecLists() {
	switch vs.Choice("type", 3) {
	case 0:
		n := vs.Choice("n", 4)
		x := make([]uint16, n)
		for i := range x {
			x[i] = vs.U16("x")
		}
		var y []uint16
		err := DecodeBytes(c11tEncode(x), &y)
		vs.Assert(err == nil, "[]uint16 decodes")
		vs.Assert(len(y) == n, "[]uint16 length")
		for i := 0; i < n && i < len(y); i++ {
			vs.Assert(y[i] == x[i], "[]uint16 element")
		}
	case 1:
		var x, y [2]uint16
		x[0], x[1] = vs.U16("x"), vs.U16("x")
		err := DecodeBytes(c11tEncode(x), &y)
		vs.Assert(err == nil, "[2]uint16 decodes")
		vs.Assert(x == y, "[2]uint16 round trip")
	case 2:
		x := c11tTail{A: vs.U8("a")}
		n := vs.Choice("n", 3)
		for i := 0; i < n; i++ {
			x.Tail = append(x.Tail, vs.U16("t"))
		}
		var y c11tTail
		err := DecodeBytes(c11tEncode(x), &y)
		vs.Assert(err == nil, "tail struct decodes")
		vs.Assert(y.A == x.A && len(y.Tail) == n, "tail struct head and length")
		for i := 0; i < n && i < len(y.Tail); i++ {
			vs.Assert(y.Tail[i] == x.Tail[i], "tail element")
		}
	}
}

func VerifC11T_EncDecStructs() {
	switch vs.Choice("type", 6) {
	case 5:
		// plain pointers: nil encodes as the zero value of the element type
		// (encode.go package comment) and therefore decodes as a pointer to it
		var x, y c11tPtrUint
		v := uint(vs.U64("a"))
		if vs.Choice("nil", 2) == 0 {
			x.P = &v
		}
		err := DecodeBytes(c11tEncode(x), &y)
		vs.Assert(err == nil, "pointer struct decodes")
		if x.P == nil {
			vs.Assert(y.P != nil && *y.P == 0, "nil plain pointer comes back as the zero value")
		} else {
			vs.Assert(y.P != nil && *y.P == v, "plain pointer round trip")
		}
	case 0:
		x := c11tAB{A: uint(vs.U64("a")), B: vs.Bytes("b", vs.Param("M"))}
		var y c11tAB
		err := DecodeBytes(c11tEncode(x), &y)
		vs.Assert(err == nil, "struct decodes")
		vs.Assert(y.A == x.A, "struct uint field")
		vs.Assert(bytes.Equal(y.B, x.B), "struct bytes field")
	case 1:
		// "nil" tag: documented rule - an input of size zero decodes as nil, so a
		// pointer to the zero value comes back as nil; everything else comes back
		// as a pointer to an equal value.
		var x, y c11tNilUint
		v := uint(vs.U64("a"))
		if vs.Choice("nil", 2) == 0 {
			x.A = &v
		}
		err := DecodeBytes(c11tEncode(x), &y)
		vs.Assert(err == nil, "nil-tag struct decodes")
		if x.A == nil {
			vs.Assert(y.A == nil, "nil pointer round trip")
		} else {
			vs.Assert((v == 0 && y.A == nil) || (v != 0 && y.A != nil && *y.A == v), "non-nil tagged pointer round trip")
		}
	case 2:
		var x, y c11tNilArr
		var a [2]byte
		copy(a[:], vs.BytesN("a", 2))
		x.B = vs.U8("b")
		if vs.Choice("nil", 2) == 0 {
			x.A = &a
		}
		err := DecodeBytes(c11tEncode(x), &y)
		vs.Assert(err == nil, "nil-tag array struct decodes")
		vs.Assert(y.B == x.B, "field after the tagged pointer")
		if x.A == nil {
			vs.Assert(y.A == nil, "nil array pointer round trip")
		} else {
			vs.Assert(y.A != nil && *y.A == a, "array pointer round trip")
		}
	case 3:
		var x, y c11tNested
		x.H.X = vs.U8("h")
		in := c11tInner{X: vs.U8("p")}
		x.P = &in // (a nil *struct encodes as C0, which only a "nil"-tagged field accepts: documented, not asserted)
		n := vs.Choice("n", 3)
		for i := 0; i < n; i++ {
			x.L = append(x.L, c11tInner{X: vs.U8("l")})
		}
		err := DecodeBytes(c11tEncode(x), &y)
		vs.Assert(err == nil, "nested struct decodes")
		vs.Assert(y.H == x.H && len(y.L) == n, "nested struct head and list length")
		vs.Assert(y.P != nil && *y.P == in, "plain pointer round trip")
		for i := 0; i < n && i < len(y.L); i++ {
			vs.Assert(y.L[i] == x.L[i], "nested list element")
		}
	case 4:
		x := c11tIgn{A: vs.U8("a"), Skip: vs.U32("skip"), priv: vs.U16("priv"), B: vs.Bytes("b", 2)}
		var y c11tIgn
		err := DecodeBytes(c11tEncode(x), &y)
		vs.Assert(err == nil, "struct with ignored fields decodes")
		vs.Assert(y.A == x.A && y.Skip == 0 && y.priv == 0, "ignored fields are not transported")
		vs.Assert(bytes.Equal(y.B, x.B), "field after the ignored ones")
	}
}

func VerifC11T_EncDecCustoms() {
	var x, y c11tCustoms
	x.C.v = vs.U16("c")
	d := c11tCustom{v: vs.U16("d")}
	x.D = &d
	x.E.v = vs.U16("e")
	err := DecodeBytes(c11tEncode(&x), &y)
	vs.Assert(err == nil, "custom codec struct decodes")
	vs.Assert(y.C == x.C && y.E == x.E, "custom codec fields")
	vs.Assert(y.D != nil && *y.D == d, "custom codec pointer field")
}
