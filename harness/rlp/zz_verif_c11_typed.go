package rlp

// C11, typed part: the reflection-driven decoders and encoders of
// decode.go / encode.go / typecache.go executed for real over symbolic input
// (the engine models package reflect: engine/intr_reflect_rlp.go).
//
// (a) VerifC11T_DecEnc*: for EVERY byte string b with len(b) <= N, and for each
//     target type of the list below, DecodeBytes(b, &x) either returns an error
//     or x re-encodes (EncodeToBytes) to exactly b; nothing panics.
// (b) VerifC11T_EncDec*: for every value in the bound, EncodeToBytes succeeds
//     and DecodeBytes of the result gives the same value back.

import (
	"bytes"
	"math/big"

	vs "gitlab.com/aquachain/aquachain/internal/verifsym"
)

type c11tAB struct {
	A uint
	B []byte
}

type c11tNilUint struct {
	A *uint `rlp:"nil"`
}

func c11tInput() []byte { return vs.Bytes("b", vs.Param("N")) }

// c11tReencode states property (a) for one decoded value.
func c11tReencode(b []byte, err error, v interface{}) {
	vs.Observe("accepted", err == nil)
	if err != nil {
		vs.Reach("reject")
		return
	}
	vs.Reach("accept")
	enc, err2 := EncodeToBytes(v)
	vs.Assert(err2 == nil, "decoded value encodes without error")
	vs.Observe("enc", enc)
	vs.Assert(bytes.Equal(enc, b), "re-encoding of the decoded value equals the input (one encoding per value)")
}

func VerifC11T_DecEncUint64() {
	b := c11tInput()
	var x uint64
	err := DecodeBytes(b, &x)
	c11tReencode(b, err, x)
}

func VerifC11T_DecEncBytes() {
	b := c11tInput()
	var x []byte
	err := DecodeBytes(b, &x)
	c11tReencode(b, err, x)
}

func VerifC11T_DecEncAB() {
	b := c11tInput()
	var x c11tAB
	err := DecodeBytes(b, &x)
	c11tReencode(b, err, x)
}

func VerifC11T_DecEncNilUint() {
	b := c11tInput()
	var x c11tNilUint
	err := DecodeBytes(b, &x)
	c11tReencode(b, err, x)
}

func VerifC11T_DecEncBig() {
	b := c11tInput()
	x := new(big.Int)
	err := DecodeBytes(b, x)
	c11tReencode(b, err, x)
}
