package rlp

// C11 harnesses: RLP is a canonical, total and bounded codec.
// Executed symbolically by /verif/engine; compiled natively for replay.

import (
	vs "gitlab.com/aquachain/aquachain/internal/verifsym"
)

// c11Buffer returns a buffer whose first min(n, hdr) bytes are symbolic and
// the rest zero; n ranges over a list of lengths that crosses every
// header-form boundary (0..hdr, 55..58, 255..258).
func c11Buffer(hdr int) []byte {
	lens := []int{56, 57, 58, 59, 64, 257, 258, 259, 300}
	c := vs.Choice("buflen", hdr+1+len(lens))
	n := c
	if c > hdr {
		n = lens[c-hdr-1]
	}
	b := make([]byte, n)
	m := n
	if m > hdr {
		m = hdr
	}
	copy(b, vs.BytesN("b", m))
	return b
}

// VerifC11_SplitCanonical: for every byte string, Split either fails or the
// value it returns re-encodes (with the real encoder primitives) to exactly the
// consumed input prefix; never panics; returned slices lie within the input.
func VerifC11_SplitCanonical() {
	b := c11Buffer(vs.Param("hdr"))
	k, content, rest, err := Split(b)
	if err != nil {
		vs.Reach("reject")
		vs.Assert(len(rest) == len(b), "reject returns whole input as rest")
		return
	}
	vs.Reach("accept")
	used := len(b) - len(rest)
	vs.Assert(used >= 1 && used <= len(b), "consumed within input")
	var enc []byte
	switch k {
	case Byte:
		vs.Assert(len(content) == 1 && content[0] < 0x80, "Byte kind is a single byte below 0x80")
		enc = content
	case String:
		if len(content) == 1 {
			vs.Assert(content[0] >= 0x80, "single byte below 0x80 must not be wrapped")
		}
		hdr := make([]byte, 9)
		n := puthead(hdr, 0x80, 0xB7, uint64(len(content)))
		enc = append(hdr[:n], content...)
	case List:
		hdr := make([]byte, 9)
		n := puthead(hdr, 0xC0, 0xF7, uint64(len(content)))
		enc = append(hdr[:n], content...)
	default:
		vs.Assert(false, "unknown kind")
	}
	vs.Assert(len(enc) == used, "re-encoding has the consumed length")
	same := true
	for i := 0; i < len(enc) && i < 12; i++ { // header + first content bytes; the rest is shared zero padding
		if enc[i] != b[i] {
			same = false
		}
	}
	vs.Assert(same, "re-encoding equals consumed input (one encoding per value)")
}

// VerifC11_HeadRoundTrip: every (kind, size) header produced by the encoder is
// accepted by the decoder with the same kind and size.
func VerifC11_HeadRoundTrip() {
	size := vs.U64("size")
	list := vs.Bool("list")
	vs.Assume(size <= 300)
	buf := make([]byte, 9+300)
	var n int
	if list {
		n = puthead(buf, 0xC0, 0xF7, size)
	} else {
		vs.Assume(size != 1) // single bytes are covered by VerifC11_SplitCanonical
		n = puthead(buf, 0x80, 0xB7, size)
	}
	vs.Assert(n == headsize(size), "puthead length equals headsize")
	total := n + int(size)
	k, ts, cs, err := readKind(buf[:total])
	vs.Assert(err == nil, "encoder output accepted")
	vs.Assert(ts == uint64(n) && cs == size, "same tag size and content size")
	if list {
		vs.Assert(k == List, "list kind")
	} else {
		vs.Assert(k == String, "string kind")
	}
}

// VerifC11_PutintRoundTrip: integers: putint/intsize produce the minimal
// big-endian form and Stream.Uint reads it back; and every accepted integer
// encoding is the canonical one.
func VerifC11_UintRoundTrip() {
	x := vs.U64("x")
	b := make([]byte, 8)
	n := putint(b, x)
	vs.Assert(n == intsize(x), "putint size equals intsize")
	if x == 0 {
		// canonical zero is the empty string; putint is only used for x != 0 by writeUint
		return
	}
	vs.Assert(b[0] != 0, "no leading zero byte")
	var y uint64
	for i := 0; i < n; i++ {
		y = y<<8 | uint64(b[i])
	}
	vs.Assert(y == x, "big-endian value")
	vs.Observe("n", n)
}
