package p2p

// C17 harnesses (devp2p message level): the handlers that take a message after
// RLPx framing - Peer.handle on an established connection and
// readProtocolHandshake before the protocol handshake - with attacker-chosen
// code, announced size and payload bytes.  The typed RLP decoding (disconnect
// reason list, protoHandshake) is the REAL reflection-driven decoder, executed
// through the engine's reflect model; nothing is stubbed here.  Natively the same
// code runs unchanged, so every counterexample replays.

import (
	"bytes"
	"crypto/ecdsa"
	"io"

	vs "gitlab.com/aquachain/aquachain/internal/verifsym"
	"gitlab.com/aquachain/aquachain/p2p/discover"
)

// c17Transport is the transport behind Peer.rw: it swallows what the peer
// writes (the pong that Peer.handle sends from a goroutine).
type c17Transport struct{}

func (c17Transport) doEncHandshake(prv *ecdsa.PrivateKey, d *discover.Node) (discover.NodeID, error) {
	return discover.NodeID{}, nil
}
func (c17Transport) doProtoHandshake(our *protoHandshake) (*protoHandshake, error) { return nil, nil }
func (c17Transport) ReadMsg() (Msg, error)                                         { return Msg{}, io.EOF }
func (c17Transport) WriteMsg(m Msg) error                                          { return m.Discard() }
func (c17Transport) close(err error)                                               {}

type c17MsgReader struct{ msg Msg }

func (r *c17MsgReader) ReadMsg() (Msg, error) { return r.msg, nil }

// c17DiscSpec: the reason a disconnect payload names, by the wire format
// [reason]: a list whose first element is a canonical unsigned integer.  ok is
// false for every other payload (the handlers then fall back to DiscRequested
// or to whatever the decoder had stored; only "an error is returned" is
// required of them).
func c17DiscSpec(p []byte) (reason uint64, ok bool) {
	if len(p) == 2 && p[0] == 0xC1 && p[1] < 0x80 {
		return uint64(p[1]), true
	}
	if len(p) == 2 && p[0] == 0xC1 && p[1] == 0x80 {
		return 0, true
	}
	return 0, false
}

// VerifC17_PeerHandle: Peer.handle with symbolic message code, announced size
// and payload (0..N bytes), two running sub-protocols (codes 16..23, 24..27).
//   - never panics;
//   - ping: no error; disconnect: always returns a DiscReason error (the reason
//     named by a well-formed [reason] payload); other base-protocol codes are
//     ignored; sub-protocol codes are queued for exactly the protocol whose
//     range contains the code, with code, size and payload untouched; codes
//     outside every range give an error.
func VerifC17_PeerHandle() {
	code := vs.U64("code")
	size := vs.U32("size")
	payload := vs.Bytes("payload", vs.Param("payload"))
	pa := &protoRW{Protocol: Protocol{Name: "a", Version: 1, Length: 8}, offset: baseProtocolLength, in: make(chan Msg, 1)}
	pb := &protoRW{Protocol: Protocol{Name: "b", Version: 1, Length: 4}, offset: baseProtocolLength + 8, in: make(chan Msg, 1)}
	p := &Peer{rw: &conn{transport: c17Transport{}}, running: map[string]*protoRW{"a": pa, "b": pb}, closed: make(chan struct{})}
	rd := bytes.NewReader(payload)

	err := p.handle(Msg{Code: code, Size: size, Payload: rd})

	switch {
	case code == pingMsg:
		vs.Assert(err == nil, "ping is answered, not an error")
		vs.Reach("ping")
	case code == discMsg:
		r, isReason := err.(DiscReason)
		vs.Assert(err != nil && isReason, "disconnect message returns a DiscReason error")
		if want, ok := c17DiscSpec(payload); ok {
			vs.Assert(uint64(r) == want, "well-formed disconnect payload: the named reason")
			vs.Reach("disc-wellformed")
		} else {
			vs.Reach("disc-malformed")
		}
	case code < baseProtocolLength:
		vs.Assert(err == nil, "other base protocol messages are ignored")
		vs.Reach("base-ignored")
	case code < baseProtocolLength+8:
		vs.Assert(err == nil && len(pa.in) == 1 && len(pb.in) == 0, "code in the first protocol's range is queued there")
		m := <-pa.in
		vs.Assert(m.Code == code && m.Size == size && m.Payload == io.Reader(rd) && rd.Len() == len(payload), "queued message is the received one, payload unread")
		vs.Reach("proto-a")
	case code < baseProtocolLength+12:
		vs.Assert(err == nil && len(pb.in) == 1 && len(pa.in) == 0, "code in the second protocol's range is queued there")
		m := <-pb.in
		vs.Assert(m.Code == code && m.Size == size, "queued message is the received one")
		vs.Reach("proto-b")
	default:
		vs.Assert(err != nil && len(pa.in) == 0 && len(pb.in) == 0, "code outside every protocol range is an error")
		vs.Reach("out-of-range")
	}
}

// VerifC17_ProtoHandshake: readProtocolHandshake with symbolic message code,
// announced size and payload (0..N bytes; a complete handshake needs > 70
// bytes, so the handshake branch is exercised on truncated/garbage input).
//   - never panics;
//   - returns exactly one of (handshake, error);
//   - announced size above baseProtocolMaxMsgSize: error, payload not touched;
//   - disconnect message: a DiscReason error; any other code: an error.
func VerifC17_ProtoHandshake() {
	code := vs.U64("code")
	size := vs.U32("size")
	payload := vs.Bytes("payload", vs.Param("payload"))
	rd := bytes.NewReader(payload)

	hs, err := readProtocolHandshake(&c17MsgReader{msg: Msg{Code: code, Size: size, Payload: rd}}, &protoHandshake{Version: baseProtocolVersion})

	vs.Assert((hs == nil) != (err == nil), "exactly one of handshake and error")
	switch {
	case size > baseProtocolMaxMsgSize:
		vs.Assert(err != nil && rd.Len() == len(payload), "oversized handshake message rejected before its payload is read")
		vs.Reach("too-big")
	case code == discMsg:
		_, isReason := err.(DiscReason)
		vs.Assert(err != nil && isReason, "disconnect before the handshake returns a DiscReason error")
		vs.Reach("disc")
	case code != handshakeMsg:
		vs.Assert(err != nil, "anything but a handshake is an error")
		vs.Reach("not-handshake")
	default:
		vs.Assert(err != nil, "a payload shorter than a node ID cannot be a handshake")
		vs.Reach("handshake-garbage")
	}
}

// VerifC17_DiscReasonText: the disconnect reason is chosen by the remote (any
// uint64 the RLP integer can carry) and is formatted by the logging calls that
// report the disconnect (Server.run "Removing p2p peer", SetupConn "Failed proto
// handshake"): DiscReason.Error() must not panic for any value.
func VerifC17_DiscReasonText() {
	r := vs.U64("reason")
	d := DiscReason(r)
	// class of the finding C17-discreason-text-oob (off-by-one and sign in the table bound check)
	vs.Known("C17-discreason-text-oob", r == uint64(len(discReasonToString)) || r >= 1<<63)
	_ = d.Error() // obligation: no panic
	if r < uint64(len(discReasonToString)) {
		vs.Reach("named")
	} else {
		vs.Reach("unknown")
	}
}
