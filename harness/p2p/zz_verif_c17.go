package p2p

// C17 harnesses (RLPx framing): bytes from the wire are delivered only after
// both MAC checks, never crash the reader, never make it allocate beyond the
// frame-size limit; what WriteMsg frames, ReadMsg delivers.
//
// Executed symbolically by /verif/engine; compiled natively for replay.
//
// The cryptographic collaborators of rlpxFrameRW are interfaces (hash.Hash,
// cipher.Block, cipher.Stream, io.ReadWriter); the harness passes its own
// implementations:
//   c17Hash   keccak MAC state: remembers everything written, Sum = uninterpreted
//             function of the whole history (so Write(a);Write(b) == Write(a||b))
//   c17Block  AES block: uninterpreted function of the 16-byte input
//   c17Stream AES-CTR: XOR with a key stream of symbolic bytes indexed by position
//   c17Conn   the socket: reads from a symbolic byte string, collects writes
// Engine-only redirects (natively the real functions run, which agree on the
// values that occur): (*rlp.Stream).Decode -> c17DecodeUint (the non-reflective
// Stream.Uint path), rlp.EncodeToBytes -> c17EncodeUint.
//
// Uninterpreted values are tied to named ghost inputs (c17UF), so that a
// counterexample carries the solver's interpretation and the native replay
// uses exactly these values: the native run follows the engine's path.

import (
	"bytes"
	"errors"
	"io"
	"io/ioutil"

	vs "gitlab.com/aquachain/aquachain/internal/verifsym"
	"gitlab.com/aquachain/aquachain/rlp"
)

// c17UF: uninterpreted function whose results are recorded as ghost inputs.
func c17UF(name string, n int, args ...[]byte) []byte {
	g := vs.BytesN("uf:"+name, n)
	if !vs.Symbolic() {
		return g // native: the interpretation chosen by the solver
	}
	out := vs.UF(name, n, args...)
	var acc byte
	for i := 0; i < n; i++ {
		acc |= out[i] ^ g[i]
	}
	vs.Assume(acc == 0) // ghost definition, does not constrain real inputs
	return out
}

type c17Hash struct {
	hist []byte   // seed || everything written
	sums [][]byte // every Sum result, in call order
}

func newC17Hash(seed []byte) *c17Hash {
	return &c17Hash{hist: append([]byte(nil), seed...)}
}
func (h *c17Hash) Write(b []byte) (int, error) {
	h.hist = append(h.hist, b...)
	return len(b), nil
}
func (h *c17Hash) Sum(in []byte) []byte {
	s := c17UF("keccak-mac", 32, h.hist)
	h.sums = append(h.sums, s)
	return append(in, s...)
}
func (h *c17Hash) Reset()         { panic("c17Hash.Reset: not used by rlpxFrameRW") }
func (h *c17Hash) Size() int      { return 32 }
func (h *c17Hash) BlockSize() int { return 136 }

type c17Block struct{}

func (c17Block) BlockSize() int { return 16 }
func (c17Block) Encrypt(dst, src []byte) {
	copy(dst[:16], c17UF("aes-block", 16, src[:16]))
}
func (c17Block) Decrypt(dst, src []byte) { panic("c17Block.Decrypt: not used by rlpxFrameRW") }

type c17Stream struct {
	ks  []byte
	pos int
}

func (s *c17Stream) XORKeyStream(dst, src []byte) {
	if len(dst) < len(src) {
		panic("c17Stream: output smaller than input") // same requirement as crypto/cipher
	}
	for i := 0; i < len(src); i++ {
		dst[i] = src[i] ^ s.ks[s.pos+i]
	}
	s.pos += len(src)
}

type c17Conn struct {
	in    []byte
	avail int // the peer's stream ends after in[:avail] (symbolic in VerifC17_ReadMsg)
	pos   int
	out   []byte
}

// maximal read buffer rlpxFrameRW may allocate: 24-bit frame size rounded up to 16
const c17MaxAlloc = 1<<24 + 15

func (c *c17Conn) Read(p []byte) (int, error) {
	vs.Assert(len(p) <= c17MaxAlloc, "read buffer (frame allocation) within 2^24+15 bytes")
	if c.pos >= c.avail {
		return 0, io.EOF
	}
	n := copy(p, c.in[c.pos:c.avail])
	c.pos += n
	return n, nil
}
func (c *c17Conn) Write(p []byte) (int, error) {
	c.out = append(c.out, p...)
	return len(p), nil
}

// ---- engine-only redirects -------------------------------------------------

var errC17NotUint = errors.New("c17: message code stub: not *uint64")

func c17DecodeUint(s *rlp.Stream, val interface{}) error {
	p, ok := val.(*uint64)
	if !ok {
		return errC17NotUint
	}
	v, err := s.Uint()
	if err != nil {
		return err
	}
	*p = v
	return nil
}

// c17EncodeUint: canonical RLP of an unsigned integer (RLP itself is property C11).
func c17EncodeUint(val interface{}) ([]byte, error) {
	v, ok := val.(uint64)
	if !ok {
		return nil, errC17NotUint
	}
	switch {
	case v == 0:
		return []byte{0x80}, nil
	case v < 0x80:
		return []byte{byte(v)}, nil
	}
	n := 8
	for n > 1 && v>>(8*uint(n-1)) == 0 {
		n--
	}
	out := make([]byte, 1+n)
	out[0] = 0x80 + byte(n)
	for i := 0; i < n; i++ {
		out[1+i] = byte(v >> (8 * uint(n-1-i)))
	}
	return out, nil
}

// c17Pin returns x; under the engine the result is a constant on each path
// (make forks over the feasible values of its length), which keeps the index
// arithmetic of the oracle concrete.
func c17Pin(x int) int { return len(make([]byte, x)) }

func c17Eq(a, b []byte) bool {
	if len(a) != len(b) {
		return false
	}
	var acc byte
	for i := range a {
		acc |= a[i] ^ b[i]
	}
	return acc == 0
}

// VerifC17_ReadMsg: rlpxFrameRW.ReadMsg on an arbitrary byte stream of symbolic
// length (0..wire bytes), arbitrary MAC/cipher functions and key stream.
//   - never panics; terminates with an error when the stream ends early;
//   - never asks the connection for more than 2^24+15 bytes at once (the frame
//     buffer it allocates);
//   - a message is delivered only if the header MAC and the frame MAC on the
//     wire equal the values computed by the ingress MAC, the ingress MAC has
//     absorbed exactly the frame bytes that were on the wire, and the delivered
//     payload is the decryption of exactly those bytes.
func VerifC17_ReadMsg() {
	L := vs.Param("wire")
	wire := vs.BytesN("wire", L)
	avail := vs.Int("avail") // the stream is wire[:avail]; symbolic, so one path covers every length that reads the same
	vs.Assume(avail >= 0 && avail <= L)
	seed := vs.BytesN("macseed", 4)
	ks := vs.BytesN("ks", 16+L)
	conn := &c17Conn{in: append([]byte(nil), wire...), avail: avail}
	mac := newC17Hash(seed)
	rw := &rlpxFrameRW{conn: conn, enc: &c17Stream{ks: ks}, dec: &c17Stream{ks: ks},
		macCipher: c17Block{}, egressMAC: newC17Hash(seed), ingressMAC: mac}

	msg, err := rw.ReadMsg()

	if err != nil {
		vs.Reach("reject")
		return
	}
	vs.Reach("deliver")
	vs.Assert(avail >= 32, "delivery needs a complete header")
	vs.Assert(len(mac.sums) == 5, "both MACs were computed (two updateMAC rounds and the frame seed)")
	vs.Assert(c17Eq(wire[16:32], mac.sums[1][:16]), "delivered only if the header MAC matched")
	hdr := []byte{wire[0] ^ ks[0], wire[1] ^ ks[1], wire[2] ^ ks[2]}
	fsize := c17Pin(int(readInt24(hdr)))
	rsize := fsize
	if fsize%16 != 0 {
		rsize += 16 - fsize%16
	}
	vs.Assert(avail >= 32+rsize+16, "delivery needs the complete frame and its MAC")
	frame := wire[32 : 32+rsize]
	vs.Assert(c17Eq(wire[32+rsize:32+rsize+16], mac.sums[4][:16]), "delivered only if the frame MAC matched")
	// history of the ingress MAC: seed, 16 bytes (header round), frame, 16 bytes (frame round)
	vs.Assert(len(mac.hist) == len(seed)+16+rsize+16, "ingress MAC absorbed header round, frame, frame round")
	vs.Assert(c17Eq(mac.hist[len(seed)+16:len(seed)+16+rsize], frame), "the MAC covers exactly the frame bytes on the wire")
	// delivered content = decryption of the authenticated frame
	vs.Assert(int(msg.Size) <= fsize && fsize-int(msg.Size) >= 1 && fsize-int(msg.Size) <= 9, "payload size is frame size minus the code")
	payload, rerr := ioutil.ReadAll(msg.Payload)
	vs.Assert(rerr == nil && len(payload) == int(msg.Size), "payload has the announced size")
	off := c17Pin(fsize - int(msg.Size))
	same := true
	for i := 0; i < len(payload); i++ {
		if payload[i] != frame[off+i]^ks[16+off+i] {
			same = false
		}
	}
	vs.Assert(same, "payload is the decryption of the authenticated frame bytes")
}

// VerifC17_FrameRoundTrip: WriteMsg then ReadMsg over the same secrets (same
// MAC seed, same MAC cipher, same key stream) returns the same code, size and
// payload, for every code and every payload up to the bound; the frame on the
// wire has the RLPx layout (32-byte header, frame padded to 16, 16-byte MAC).
func VerifC17_FrameRoundTrip() {
	maxp := vs.Param("payload")
	code := vs.U64("code")
	payload := vs.Bytes("payload", maxp)
	seed := vs.BytesN("macseed", 4)
	ks := vs.BytesN("ks", 16+16+maxp+16)
	conn := &c17Conn{}
	rw := &rlpxFrameRW{conn: conn, enc: &c17Stream{ks: ks}, dec: &c17Stream{ks: ks},
		macCipher: c17Block{}, egressMAC: newC17Hash(seed), ingressMAC: newC17Hash(seed)}

	err := rw.WriteMsg(Msg{Code: code, Size: uint32(len(payload)), Payload: bytes.NewReader(payload)})
	vs.Assert(err == nil, "WriteMsg succeeds")
	wire := conn.out
	vs.Assert(len(wire) >= 48 && (len(wire)-48)%16 == 0, "wire layout: 32-byte header, padded frame, 16-byte MAC")
	vs.Assert(len(wire)-48 >= 1+len(payload) && len(wire)-48 <= 9+len(payload)+15, "frame holds code and payload, padded to 16")
	conn.in, conn.avail = append([]byte(nil), wire...), len(wire)

	msg, err := rw.ReadMsg()
	vs.Assert(err == nil, "ReadMsg accepts what WriteMsg framed")
	vs.Assert(conn.pos == len(wire), "ReadMsg consumes exactly one frame")
	vs.Assert(msg.Code == code, "same code")
	vs.Assert(int(msg.Size) == len(payload), "same size")
	got, rerr := ioutil.ReadAll(msg.Payload)
	vs.Assert(rerr == nil && c17Eq(got, payload), "same payload")
	vs.Reach("roundtrip")
}
