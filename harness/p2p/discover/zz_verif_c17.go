package discover

// C17 harnesses (discovery side): datagrams from the network are authenticated
// or rejected, and never fatal.
//
// Executed symbolically by /verif/engine; compiled natively for replay.
//
// Engine-only stubs (suite "overrides", redirect:) — natively the real
// functions run:
//   crypto/sha3.Keccak256        -> c17Keccak256   (uninterpreted function)
//   crypto.Ecrecover             -> c17Ecrecover   (uninterpreted function + validity bit)
//   crypto.Sign                  -> c17Sign        (uninterpreted function)
//   rlp.NewStream                -> c17NewStream   (captures the body handed to the typed decoder)
//   (*rlp.Stream).Decode         -> c17StreamDecode (nondeterministic success/failure; reflection-driven code is outside)
//   rlp.Encode                   -> c17RlpEncode   (writes an arbitrary body)
//
// Because hash and signature are uninterpreted under the engine, a model found
// by the solver carries hash/signature bytes that match the *solver's*
// interpretation, not real keccak/secp256k1.  The harness therefore has ghost
// inputs describing the authentication outcome of the path (XOR difference
// between the transmitted and the correct hash; signature valid or not); under
// the engine they are tied to the stubbed predicates with Assume, natively
// c17Complete rebuilds hash and signature of the datagram with real crypto
// (fixed test key) so that the native run has the same outcome and reaches the
// same program point.

import (
	"bytes"
	"errors"
	"io"
	"net"
	"time"

	"github.com/btcsuite/btcd/btcec/v2"
	"gitlab.com/aquachain/aquachain/crypto"
	vs "gitlab.com/aquachain/aquachain/internal/verifsym"
	"gitlab.com/aquachain/aquachain/rlp"
)

var (
	errC17BadSig = errors.New("c17: stub signature invalid")
	errC17Rlp    = errors.New("c17: stub rlp error")

	c17Body     []byte // body handed to rlp.NewStream by decodePacket (engine only)
	c17BodySet  bool
	c17DecodeOK bool   // the typed-decoder stub reported success (engine only)
	c17EncBody  []byte // body written by the rlp.Encode stub (engine only)
)

// ---- engine-only stubs -----------------------------------------------------

func c17Keccak256(data ...[]byte) []byte { return vs.UF("keccak256", 32, data...) }

func c17Ecrecover(hash, sig []byte) ([]byte, error) {
	r := vs.UF("ecrecover", 66, hash, sig)
	if r[0]&1 == 0 {
		return nil, errC17BadSig
	}
	pub := make([]byte, 65)
	copy(pub, r[1:])
	return pub, nil
}

func c17Sign(hash []byte, prv *btcec.PrivateKey) ([]byte, error) {
	return vs.UF("sign", 65, hash), nil
}

func c17NewStream(r io.Reader, limit uint64) *rlp.Stream {
	br := r.(*bytes.Reader)
	b := make([]byte, br.Len())
	br.Read(b)
	c17Body, c17BodySet = b, true
	return new(rlp.Stream)
}

func c17StreamDecode(s *rlp.Stream, val interface{}) error {
	if vs.Bool("rlp_body_ok") {
		c17DecodeOK = true
		return nil
	}
	return errC17Rlp
}

func c17RlpEncode(w io.Writer, val interface{}) error {
	c17EncBody = vs.Bytes("encbody", vs.Param("body"))
	_, err := w.Write(c17EncBody)
	return err
}

// ---- native completion -----------------------------------------------------

func c17TestKey() *btcec.PrivateKey {
	k := make([]byte, 32)
	for i := range k {
		k[i] = byte(0x11 + 7*i)
	}
	priv, _ := btcec.PrivKeyFromBytes(k)
	return priv
}

// c17Complete (native runs only) rewrites signature and hash of the datagram so
// that real keccak / secp256k1 give the outcome the engine path had: signature
// valid iff sigOK; transmitted hash = correct hash XOR diff.
func c17Complete(buf []byte, diff []byte, sigOK bool) {
	if len(buf) < headSize+1 {
		return
	}
	if sigOK {
		sig, err := crypto.Sign(crypto.Keccak256(buf[headSize:]), c17TestKey())
		if err != nil {
			panic("c17Complete: " + err.Error())
		}
		copy(buf[macSize:headSize], sig)
	} else {
		for i := macSize; i < headSize; i++ {
			buf[i] = 0 // r = s = 0 is never a valid signature
		}
	}
	real := crypto.Keccak256(buf[macSize:])
	for i := 0; i < macSize; i++ {
		buf[i] = real[i] ^ diff[i]
	}
}

// c17Kind is the specification of the type byte: aqua types 134..137 in both
// modes, additionally 1..4 in netcompat mode. -1 = not a packet type.
func c17Kind(netcompat bool, wire byte) int {
	if wire >= aquapingPacket && wire <= aquaneighborsPacket {
		return int(wire - aquapingPacket)
	}
	if netcompat && wire >= ethpingPacket && wire <= ethneighborsPacket {
		return int(wire - ethpingPacket)
	}
	return -1
}

func c17KindOf(p packet) int {
	switch p.(type) {
	case *ping:
		return 0
	case *pong:
		return 1
	case *findnode:
		return 2
	case *neighbors:
		return 3
	}
	return -1
}

// VerifC17_DecodePacket: a datagram of symbolic length and symbolic bytes goes
// through the real decodePacket, for both netcompat settings.
//   - never panics (an unrecovered panic is a failure of kind=panic);
//   - anything shorter than hash+signature+type byte is rejected;
//   - a packet is returned only if the hash matched and the signature was
//     recovered; the reported sender is the recovered key, the reported hash is
//     the transmitted one, the packet type is the one the type byte names and
//     the typed decoder gets exactly the bytes after the type byte (and the
//     4-byte network tag in aqua mode).
func VerifC17_DecodePacket() {
	netcompat := vs.Choice("netcompat", 2) == 1
	buf := vs.Bytes("dgram", vs.Param("maxlen"))
	if len(buf) < headSize+1 {
		req, _, _, err := decodePacket(netcompat, buf)
		vs.Assert(err != nil, "short datagram rejected")
		vs.Assert(req == nil, "short datagram yields no packet")
		vs.Reach("short")
		return
	}
	sp := c17Prepare(netcompat, buf, false)

	req, id, hash, err := decodePacket(netcompat, buf)

	if req != nil {
		vs.Assert(sp.hashOK, "typed packet only after the hash matched")
		vs.Assert(sp.sigOK, "typed packet only after signature recovery")
	}
	if err != nil {
		vs.Reach("reject")
		return
	}
	vs.Reach("accept")
	vs.Assert(sp.hashOK, "accepted only if the hash matched")
	vs.Assert(sp.sigOK, "accepted only if the signature was recovered")
	vs.Assert(req != nil, "accepted datagram yields a packet")
	vs.Assert(id == sp.wantID, "sender is the recovered key")
	vs.Assert(bytes.Equal(hash, sp.sentHash), "reported hash is the transmitted hash")
	k := c17Kind(netcompat, sp.wire)
	vs.Assert(k >= 0, "accepted only for a known packet type")
	vs.Assert(c17KindOf(req) == k, "packet type is the one named by the type byte")
	if vs.Symbolic() {
		vs.Assert(c17BodySet, "typed decoder invoked")
		vs.Assert(sp.wantBody != nil && bytes.Equal(c17Body, sp.wantBody), "typed decoder gets exactly the bytes after type byte and network tag")
	}
}

// c17Spec is the specification-side view of a datagram of at least
// headSize+1 bytes, taken before the code under test sees (and rewrites) it.
type c17Spec struct {
	hashOK, sigOK bool
	wantID        NodeID // key recovered from the signature (valid if sigOK)
	sentHash      []byte // copy of the transmitted hash
	wire          byte   // transmitted type byte
	wantBody      []byte // copy of the bytes after type byte (and network tag); nil if the datagram ends before
}

// c17Prepare introduces the ghost inputs, completes the datagram natively,
// evaluates the specification and marks the known-finding class.  killBody
// (native runs of the handlePacket harness only) overwrites the first body
// byte with 0x00, which no typed decoder accepts, so that the real per-type
// handlers (stubbed under the engine) are never entered natively.
func c17Prepare(netcompat bool, buf []byte, killBody bool) c17Spec {
	diff := vs.BytesN("ghost_hashdiff", macSize)
	sigOK := vs.Bool("ghost_sig_ok")
	bodyOff := headSize + 1
	if !netcompat {
		bodyOff += 4
	}
	if !vs.Symbolic() {
		if killBody && len(buf) > bodyOff {
			buf[bodyOff] = 0
		}
		c17Complete(buf, diff, sigOK)
	}
	var sp c17Spec
	want := crypto.Keccak256(buf[macSize:])
	var acc, nz byte
	for i := 0; i < macSize; i++ {
		acc |= buf[i] ^ want[i] ^ diff[i]
		nz |= diff[i]
	}
	vs.Assume(acc == 0) // ghost definition: diff = transmitted hash XOR correct hash
	sp.hashOK = nz == 0
	var rerr error
	sp.wantID, rerr = recoverNodeID(crypto.Keccak256(buf[headSize:]), buf[macSize:headSize])
	vs.Assume(sigOK == (rerr == nil)) // ghost definition
	sp.sigOK = sigOK
	sp.sentHash = append([]byte(nil), buf[:macSize]...)
	sp.wire = buf[headSize]
	if len(buf) >= bodyOff {
		sp.wantBody = append([]byte{}, buf[bodyOff:]...)
	}
	// Class of the recorded finding C17-aqua-short-sigdata (effective only while
	// the lead lists it as open in known_findings.json): aqua mode, correctly
	// hashed and signed, known packet type, fewer than 4 bytes after the type byte.
	vs.Known("C17-aqua-short-sigdata", !netcompat && len(buf) < headSize+1+4 && sp.hashOK && sp.sigOK &&
		sp.wire >= aquapingPacket && sp.wire <= aquaneighborsPacket)
	return sp
}

// VerifC17_EncodeDecode: what encodePacket frames, decodePacket accepts with the
// same type and body, for all four packet types and both netcompat settings
// (the body produced by the reflection-driven RLP encoder is arbitrary bytes).
// Assumes Ecrecover inverts Sign (primitive assumption).
func VerifC17_EncodeDecode() {
	netcompat := vs.Choice("netcompat", 2) == 1
	kind := vs.Choice("kind", 4)
	ptype := aquapingPacket + byte(kind)
	if netcompat {
		ptype = ethpingPacket + byte(kind)
	}
	var req interface{}
	switch kind {
	case 0:
		req = &ping{Version: Version, From: rpcEndpoint{IP: net.IP{1, 2, 3, 4}}, To: rpcEndpoint{IP: net.IP{1, 2, 3, 5}}, Expiration: vs.U64("exp")}
	case 1:
		req = &pong{To: rpcEndpoint{IP: net.IP{1, 2, 3, 4}}, ReplyTok: vs.BytesN("tok", 32), Expiration: vs.U64("exp")}
	case 2:
		req = &findnode{Expiration: vs.U64("exp")}
	default:
		req = &neighbors{Expiration: vs.U64("exp")}
	}
	priv := new(btcec.PrivateKey) // engine: never inspected (crypto.Sign is a stub)
	if !vs.Symbolic() {
		priv = c17TestKey()
	}
	pkt, hash, err := encodePacket(netcompat, priv, ptype, req)
	vs.Assert(err == nil, "encodePacket succeeds")
	vs.Assert(len(pkt) >= headSize+1 && pkt[headSize] == ptype, "type byte follows hash and signature")
	vs.Assert(bytes.Equal(hash, pkt[:macSize]), "returned hash is the packet prefix")
	if vs.Symbolic() {
		// primitive assumption: the signature made by Sign is recovered by Ecrecover
		_, rerr := crypto.Ecrecover(crypto.Keccak256(pkt[headSize:]), pkt[macSize:headSize])
		vs.Assume(rerr == nil)
	}
	wantID, _ := recoverNodeID(crypto.Keccak256(pkt[headSize:]), pkt[macSize:headSize])
	got, id, h2, derr := decodePacket(netcompat, pkt)
	if derr != nil {
		// only the (stubbed, nondeterministic) typed decoder may fail under the engine
		vs.Assert(vs.Symbolic() && derr == errC17Rlp, "decodePacket accepts what encodePacket framed")
		return
	}
	vs.Assert(got != nil && c17KindOf(got) == kind, "same packet type")
	vs.Assert(id == wantID, "sender is the signing key")
	vs.Assert(bytes.Equal(h2, hash), "same hash")
	if vs.Symbolic() {
		vs.Assert(c17BodySet && bytes.Equal(c17Body, c17EncBody), "typed decoder gets exactly the encoded body")
	}
	vs.Reach("roundtrip")
}

// ---- handlePacket dispatch ---------------------------------------------------

// engine-only: the four per-type handlers are redirected here (suite
// overrides), so that the harness sees what handlePacket dispatches.
var c17Handled struct {
	n    int
	kind int
	id   NodeID
	mac  []byte
}

func c17Handle(kind int, id NodeID, mac []byte) error {
	c17Handled.n++
	c17Handled.kind, c17Handled.id = kind, id
	c17Handled.mac = append([]byte(nil), mac...)
	if vs.Bool("handler_fails") {
		return errExpired
	}
	return nil
}
func c17HandlePing(req *ping, t *udp, from *net.UDPAddr, id NodeID, mac []byte) error {
	return c17Handle(0, id, mac)
}
func c17HandlePong(req *pong, t *udp, from *net.UDPAddr, id NodeID, mac []byte) error {
	return c17Handle(1, id, mac)
}
func c17HandleFindnode(req *findnode, t *udp, from *net.UDPAddr, id NodeID, mac []byte) error {
	return c17Handle(2, id, mac)
}
func c17HandleNeighbors(req *neighbors, t *udp, from *net.UDPAddr, id NodeID, mac []byte) error {
	return c17Handle(3, id, mac)
}

// VerifC17_HandlePacket: (*udp).handlePacket on a symbolic datagram, both
// netcompat settings: never panics; a per-type handler is entered at most once
// and only for a datagram whose hash matched, whose signature was recovered and
// whose body the typed decoder accepted, with the recovered sender, the
// transmitted hash and the handler of the named type; in every other case an
// error is returned and no handler runs.  The handlers are stubs under the
// engine; natively the datagram is made undecodable (c17Prepare killBody) so the
// real handlers, which need a live *udp, are never entered: panics inside
// decodePacket/handlePacket replay natively, dispatch assertions are
// engine-only (a counterexample to them is reported as unconfirmed = fault).
func VerifC17_HandlePacket() {
	chain := vs.Choice("netcompat", 2) // chainid 1 = netcompat
	t := &udp{chainid: uint64(chain)}
	netcompat := t.netcompat()
	buf := vs.Bytes("dgram", vs.Param("maxlen"))
	from := &net.UDPAddr{IP: net.IP{10, 0, 0, 1}, Port: 30303}
	if len(buf) < headSize+1 {
		err := t.handlePacket(from, buf)
		vs.Assert(err != nil && c17Handled.n == 0, "short datagram: error, no handler")
		vs.Reach("short")
		return
	}
	sp := c17Prepare(netcompat, buf, true)

	err := t.handlePacket(from, buf)

	vs.Assert(c17Handled.n <= 1, "at most one handler per datagram")
	if c17Handled.n == 0 {
		vs.Assert(err != nil, "no handler entered: error returned")
		vs.Reach("dropped")
		return
	}
	vs.Reach("dispatched")
	vs.Assert(sp.hashOK, "handler only after the hash matched")
	vs.Assert(sp.sigOK, "handler only after signature recovery")
	vs.Assert(c17BodySet && c17DecodeOK, "handler only after the typed decoder accepted the body")
	vs.Assert(c17Handled.id == sp.wantID, "handler gets the recovered sender")
	vs.Assert(bytes.Equal(c17Handled.mac, sp.sentHash), "handler gets the transmitted hash")
	vs.Assert(c17Handled.kind == c17Kind(netcompat, sp.wire), "handler of the named packet type")
}

// ---- expiration ------------------------------------------------------------

var c17NowSec int64

// engine-only: time.Now / time.Since are redirected here (symbolic clock with
// one-second resolution).  c17Since keeps only what expired() depends on, the
// sign of now - t (the exact saturating nanosecond arithmetic of time.Sub is
// 64-bit multiplication with overflow checks, which the solver cannot decide).
func c17Now() time.Time { return time.Unix(c17NowSec, 0) }
func c17Since(t time.Time) time.Duration {
	u := t.Unix()
	switch {
	case u > c17NowSec:
		return -time.Second
	case u == c17NowSec:
		return 0
	}
	return time.Second
}

// VerifC17_Expired: expired(ts) accepts exactly the timestamps strictly in the
// future of the clock (ts read as int64 seconds), for every ts and every clock
// value.
func VerifC17_Expired() {
	ts := vs.U64("ts")
	now := vs.I64("now")
	if !vs.Symbolic() {
		now = time.Now().Unix()
	}
	c17NowSec = now
	err := expired(ts)
	if int64(ts) > now {
		vs.Assert(err == nil, "timestamp in the future is accepted")
		vs.Reach("fresh")
	} else {
		vs.Assert(err != nil, "timestamp not in the future is rejected")
		vs.Reach("expired")
	}
}
