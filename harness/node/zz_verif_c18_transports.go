package node

// C18 harness, transport binding: the server object that ends up serving a
// transport carries the signing policy of THAT transport.
//
// Property C18: "no RPC endpoint - in-process, IPC, HTTP or WebSocket - offers
// a signing method unless that transport was opted in; opting in for one
// transport enables signing methods on that transport only".  The gate itself
// (rpc.Server.RegisterName, decided from the calling start function and the
// opt-in flags) is checked by rpc.VerifC18_Gate / VerifC18_NodeOrder with
// stand-in callers.  This harness closes the gap between those stand-ins and
// the node: it runs the REAL (*Node).startInProc, startIPC, startHTTP and
// startWS on one Node, with the node's whole API list (generated from the
// source tree: every namespace and exported method name the node and its
// services register, in registration order), and then reads, for each
// transport T, the server the node holds as T's endpoint handler
// (n.inprocHandler / n.ipcHandler / n.httpHandler / n.wsHandler).
//
// Lemma, for all 2^5 values of the opt-in flags, every signing-capable method
// ns_m of the API list and both start orders:
//
//	handler(T) offers ns_m   <=>   opt-in flag of T is set        (T = 4 transports)
//
// Every namespace is exposed on every transport (IPC/in-proc expose all; for
// HTTP and WS the module whitelist names every namespace), so "=>" is the
// security half (no signing without T's own opt-in, in particular not through
// another transport's opt-in) and "<=" the "opting in enables it" half.
//
// Sockets are not part of the lemma.  Under the engine the listeners are fakes
// and the accept/serve goroutines are not run (suite overrides); natively
// (replay/validation) the real listeners are opened on a temporary unix socket
// and on 127.0.0.1:0 and closed again at the end.

import (
	"net"
	"os"
	"path/filepath"

	"gitlab.com/aquachain/aquachain/common/log"
	vs "gitlab.com/aquachain/aquachain/internal/verifsym"
	"gitlab.com/aquachain/aquachain/p2p/netutil"
	"gitlab.com/aquachain/aquachain/rpc"
)

// c18tLog is a silent logger (Node.log is an interface-typed collaborator).
type c18tLog struct{}

func (c18tLog) New(ctx ...interface{}) log.LoggerI   { return c18tLog{} }
func (c18tLog) GetHandler() log.Handler              { return nil }
func (c18tLog) SetHandler(h log.Handler)             {}
func (c18tLog) Trace(msg string, ctx ...interface{}) {}
func (c18tLog) Debug(msg string, ctx ...interface{}) {}
func (c18tLog) Info(msg string, ctx ...interface{})  {}
func (c18tLog) Warn(msg string, ctx ...interface{})  {}
func (c18tLog) Error(msg string, ctx ...interface{}) {}
func (c18tLog) Crit(msg string, ctx ...interface{})  {}

// engine-only fakes for the listening sockets (suite overrides redirect
// rpc.CreateIPCListener and net.Listen here)
type c18tAddr struct{}

func (c18tAddr) Network() string { return "fake" }
func (c18tAddr) String() string  { return "fake" }

type c18tListener struct{}

type c18tClosed struct{}

func (c18tClosed) Error() string { return "c18 fake listener: closed" }

func (c18tListener) Accept() (net.Conn, error) { return nil, c18tClosed{} }
func (c18tListener) Close() error              { return nil }
func (c18tListener) Addr() net.Addr            { return c18tAddr{} }

func c18tIPCListen(endpoint string) (net.Listener, error)         { return c18tListener{}, nil }
func c18tNetListen(network, address string) (net.Listener, error) { return c18tListener{}, nil }

const (
	c18tInProc = rpc.C18InProc
	c18tIPC    = rpc.C18IPC
	c18tHTTP   = rpc.C18HTTP
	c18tWS     = rpc.C18WS
)

var c18tTransportName = [4]string{"in-proc", "IPC", "HTTP", "WS"}

// c18tStart runs the real start function of transport tr on n.
func c18tStart(n *Node, tr int, apis []rpc.API, modules []string, allow netutil.Netlist) error {
	switch tr {
	case c18tInProc:
		return n.startInProc(apis)
	case c18tIPC:
		return n.startIPC(apis)
	case c18tHTTP:
		return n.startHTTP("127.0.0.1:0", apis, modules, nil, nil, allow, false)
	}
	return n.startWS("127.0.0.1:0", apis, modules, nil, false, allow, false)
}

// c18tHandler: the server the node holds as the endpoint handler of transport tr.
func c18tHandler(n *Node, tr int) *rpc.Server {
	switch tr {
	case c18tInProc:
		return n.inprocHandler
	case c18tIPC:
		return n.ipcHandler
	case c18tHTTP:
		return n.httpHandler
	}
	return n.wsHandler
}

func VerifC18_Transports() {
	regs := rpc.VerifC18Order()
	signers := rpc.VerifC18Signers()
	vs.Assert(len(regs) > 0 && len(signers) > 0, "generated tables present")
	m := signers[vs.Choice("method", len(signers))]
	// 0: the order of Node.startRPC (in-proc, IPC, HTTP, WS); 1: the reverse
	reverse := vs.Choice("order", 2) == 1

	var f rpc.C18Flags
	f[rpc.C18InProc] = vs.Bool("allow_sign_inProc")
	f[rpc.C18IPC] = vs.Bool("allow_sign_ipc")
	f[rpc.C18HTTP] = vs.Bool("allow_sign_http")
	f[rpc.C18WS] = vs.Bool("allow_sign_ws")
	f[4] = vs.Bool("allow_all_rpc_signing")
	rpc.VerifC18SetFlags(f)

	// the node's API list; every namespace is whitelisted on HTTP and WS
	var apis []rpc.API
	var modules []string
	seen := false
	for _, r := range regs {
		apis = append(apis, rpc.API{Namespace: r.NS, Version: "1.0", Service: r.Dummy})
		dup := false
		for _, ns := range modules {
			if ns == r.NS {
				dup = true
			}
		}
		if !dup {
			modules = append(modules, r.NS)
		}
		if r.NS == m.NS && r.Recv == m.Recv {
			seen = true
		}
	}
	vs.Assert(seen, "the method's service is part of the API list")

	ipcPath := "/verif-c18/node.ipc"
	if !vs.Symbolic() {
		dir, err := os.MkdirTemp("", "c18t")
		if err != nil {
			panic(err)
		}
		defer os.RemoveAll(dir)
		ipcPath = filepath.Join(dir, "node.ipc")
	}
	allow := netutil.Netlist{net.IPNet{IP: net.IP{127, 0, 0, 1}, Mask: net.IPMask{255, 255, 255, 255}}}
	n := &Node{config: &Config{}, ipcEndpoint: ipcPath, log: c18tLog{}}
	if !vs.Symbolic() {
		// close the real sockets again
		defer func() {
			n.stopWS()
			n.stopHTTP()
			n.stopIPC()
			n.stopInProc()
		}()
	}

	for i := 0; i < 4; i++ {
		tr := i
		if reverse {
			tr = 3 - i
		}
		err := c18tStart(n, tr, apis, modules, allow)
		vs.Assert(err == nil, "start function succeeds: "+c18tTransportName[tr])
	}

	vs.Observe("method", m.NS+" "+m.Recv+"."+m.Name)
	anyOffered, anyRemoved := false, false
	for tr := 0; tr < 4; tr++ {
		h := c18tHandler(n, tr)
		vs.Assert(h != nil, "endpoint handler present: "+c18tTransportName[tr])
		offered := rpc.VerifC18Offers(h, m.NS, m.Name)
		vs.Observe("offered-"+c18tTransportName[tr], offered)
		if offered {
			anyOffered = true
		} else {
			anyRemoved = true
		}
		// "<=": the transport's own opt-in enables the method on it
		vs.Assert(offered || !f[tr], "transport opted in but its endpoint handler does not offer the signing method: "+c18tTransportName[tr]+" "+m.NS+" "+m.Recv+"."+m.Name)
	}
	if anyOffered {
		vs.Reach("offered")
	}
	if anyRemoved {
		vs.Reach("removed")
	}
	// "=>": see rpc.VerifC18_Gate for the known finding (three mining methods
	// whose names the gate does not protect; offered on every transport)
	vs.Known("C18-mining-clique-seal", rpc.VerifC18KnownMining(m.Recv, m.Name))
	for tr := 0; tr < 4; tr++ {
		offered := rpc.VerifC18Offers(c18tHandler(n, tr), m.NS, m.Name)
		vs.Assert(!offered || f[tr], "signing-capable method offered by the endpoint handler of a transport that is not opted in: "+c18tTransportName[tr]+" "+m.NS+" "+m.Recv+"."+m.Name)
	}
}
