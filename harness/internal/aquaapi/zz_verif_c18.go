package aquaapi

// C18 harness, reachability part (O1) joined with the gate (O2):
// for every API method whose static call graph reaches a keystore/Wallet
// signing entry point (candidate list c18Cands, generated from the current
// source tree on every run), the REAL method body is executed with symbolic
// arguments over a stub Backend, the real accounts.Manager and a recording
// Wallet.  On every path on which a Wallet.Sign* entry point is called, the
// real rpc.Server.RegisterName gate is then run for the real receiver type from
// every start function with symbolic opt-in flags:
//
//	the method is still offered  =>  that transport's opt-in flag is set.

import (
	"context"
	"errors"
	"math/big"

	aquachain "gitlab.com/aquachain/aquachain"
	"gitlab.com/aquachain/aquachain/aqua/accounts"
	"gitlab.com/aquachain/aquachain/aqua/event"
	"gitlab.com/aquachain/aquachain/aquadb"
	"gitlab.com/aquachain/aquachain/common"
	"gitlab.com/aquachain/aquachain/common/hexutil"
	"gitlab.com/aquachain/aquachain/core"
	"gitlab.com/aquachain/aquachain/core/state"
	"gitlab.com/aquachain/aquachain/core/types"
	"gitlab.com/aquachain/aquachain/core/vm"
	vs "gitlab.com/aquachain/aquachain/internal/verifsym"
	"gitlab.com/aquachain/aquachain/params"
	"gitlab.com/aquachain/aquachain/rpc"
)

// ---------------------------------------------------------------------------
// candidate table (filled by the generated file zz_verif_c18_gen.go)

type c18Cand struct {
	NS      string
	Recv    string   // type name in this package
	Name    string   // method name
	Methods []string // all exported method names of the receiver type
	Run     func(f *c18Fixture)
	Rcvr    func(f *c18Fixture) interface{}
}

var c18Cands []c18Cand

// ---------------------------------------------------------------------------
// recording wallet: the signing entry points of accounts.Wallet

var errC18Signed = errors.New("c18: signing entry point reached")

type c18Rec struct {
	signed int    // number of calls of a signing entry point (any wallet)
	last   string // the entry point called last
}

type c18Wallet struct {
	addr common.Address
	rec  *c18Rec
}

func (w *c18Wallet) URL() accounts.URL                  { return accounts.URL{Scheme: "c18", Path: "wallet"} }
func (w *c18Wallet) Status() (string, error)            { return "c18", nil }
func (w *c18Wallet) Open(passphrase string) error       { return nil }
func (w *c18Wallet) Close() error                       { return nil }
func (w *c18Wallet) Accounts() []accounts.Account       { return []accounts.Account{{Address: w.addr}} }
func (w *c18Wallet) Contains(a accounts.Account) bool   { return a.Address == w.addr }
func (w *c18Wallet) Derive(path accounts.DerivationPath, pin bool) (accounts.Account, error) {
	return accounts.Account{}, accounts.ErrNotSupported
}
func (w *c18Wallet) SelfDerive(base accounts.DerivationPath, chain aquachain.ChainStateReader) {}
func (w *c18Wallet) SignHash(a accounts.Account, hash []byte) ([]byte, error) {
	w.rec.signed++
	w.rec.last = "SignHash"
	return nil, errC18Signed
}
func (w *c18Wallet) SignTx(a accounts.Account, tx *types.Transaction, chainID *big.Int) (*types.Transaction, error) {
	w.rec.signed++
	w.rec.last = "SignTx"
	return nil, errC18Signed
}
func (w *c18Wallet) SignHashWithPassphrase(a accounts.Account, passphrase string, hash []byte) ([]byte, error) {
	w.rec.signed++
	w.rec.last = "SignHashWithPassphrase"
	return nil, errC18Signed
}
func (w *c18Wallet) SignTxWithPassphrase(a accounts.Account, passphrase string, tx *types.Transaction, chainID *big.Int) (*types.Transaction, error) {
	w.rec.signed++
	w.rec.last = "SignTxWithPassphrase"
	return nil, errC18Signed
}

// ---------------------------------------------------------------------------
// stub backend

type c18Backend struct {
	am       *accounts.Manager
	cfg      *params.ChainConfig
	head     *types.Block
	price    *big.Int
	priceErr bool
	nonce    uint64
	nonceErr bool
	sent     int
}

var errC18Backend = errors.New("c18: backend error")

func (b *c18Backend) SyncProgress() aquachain.SyncProgress { return aquachain.SyncProgress{} }
func (b *c18Backend) ProtocolVersion() int                  { return 64 }
func (b *c18Backend) SuggestPrice(ctx context.Context) (*big.Int, error) {
	if b.priceErr {
		return nil, errC18Backend
	}
	return b.price, nil
}
func (b *c18Backend) ChainDb() aquadb.Database            { return nil }
func (b *c18Backend) EventMux() *event.TypeMux            { return nil }
func (b *c18Backend) AccountManager() *accounts.Manager   { return b.am }
func (b *c18Backend) SetHead(number uint64)               {}
func (b *c18Backend) HeaderByNumber(ctx context.Context, blockNr rpc.BlockNumber) (*types.Header, error) {
	return nil, errC18Backend
}
func (b *c18Backend) BlockByNumber(ctx context.Context, blockNr rpc.BlockNumber) (*types.Block, error) {
	return nil, errC18Backend
}
func (b *c18Backend) StateAndHeaderByNumber(ctx context.Context, blockNr rpc.BlockNumber) (*state.StateDB, *types.Header, error) {
	return nil, nil, errC18Backend
}
func (b *c18Backend) GetBlock(ctx context.Context, blockHash common.Hash) (*types.Block, error) {
	return nil, errC18Backend
}
func (b *c18Backend) GetReceipts(ctx context.Context, blockHash common.Hash) (types.Receipts, error) {
	return nil, errC18Backend
}
func (b *c18Backend) GetTd(blockHash common.Hash) *big.Int { return new(big.Int) }
func (b *c18Backend) GetEVM(ctx context.Context, msg core.Message, state *state.StateDB, header *types.Header, vmCfg vm.Config) (*vm.EVM, func() error, error) {
	return nil, nil, errC18Backend
}
func (b *c18Backend) SubscribeChainEvent(ch chan<- core.ChainEvent) event.Subscription         { return nil }
func (b *c18Backend) SubscribeChainHeadEvent(ch chan<- core.ChainHeadEvent) event.Subscription { return nil }
func (b *c18Backend) SubscribeChainSideEvent(ch chan<- core.ChainSideEvent) event.Subscription { return nil }
func (b *c18Backend) SendTx(ctx context.Context, signedTx *types.Transaction) error {
	b.sent++
	return errC18Backend
}
func (b *c18Backend) GetPoolTransactions() (types.Transactions, error)            { return nil, nil }
func (b *c18Backend) GetPoolTransaction(txHash common.Hash) *types.Transaction    { return nil }
func (b *c18Backend) GetPoolNonce(ctx context.Context, addr common.Address) (uint64, error) {
	if b.nonceErr {
		return 0, errC18Backend
	}
	return b.nonce, nil
}
func (b *c18Backend) Stats() (pending int, queued int) { return 0, 0 }
func (b *c18Backend) TxPoolContent() (map[common.Address]types.Transactions, map[common.Address]types.Transactions) {
	return nil, nil
}
func (b *c18Backend) SubscribeTxPreEvent(chan<- core.TxPreEvent) event.Subscription { return nil }
func (b *c18Backend) ChainConfig() *params.ChainConfig                               { return b.cfg }
func (b *c18Backend) CurrentBlock() *types.Block                                     { return b.head }

// ---------------------------------------------------------------------------
// fixture

type c18Fixture struct {
	rec   *c18Rec
	b     *c18Backend
	nl    *AddrLocker
	shape map[string]int
}

func c18Addr(name string) common.Address {
	var a common.Address
	copy(a[:], vs.BytesN(name, common.AddressLength))
	return a
}

func c18NewFixture() *c18Fixture {
	rec := &c18Rec{}
	w := &c18Wallet{addr: c18Addr("wallet"), rec: rec}
	// a second wallet in front: Find must walk the list
	w0 := &c18Wallet{addr: c18Addr("wallet0"), rec: rec}
	b := &c18Backend{am: accounts.VerifC18Manager(w0, w)}
	// EIP155 fork block and head number symbolic: both signer kinds are covered where the code compares them
	b.cfg = &params.ChainConfig{ChainId: big.NewInt(61717561), EIP155Block: vs.BigU("eip155Block", 32)}
	b.head = types.NewBlockWithHeader(&types.Header{Number: vs.BigU("head", 32)})
	b.price = vs.BigU("price", 64)
	b.priceErr = vs.Bool("priceErr")
	b.nonce = vs.U64("poolNonce")
	b.nonceErr = vs.Bool("nonceErr")
	return &c18Fixture{rec: rec, b: b, nl: new(AddrLocker), shape: map[string]int{}}
}

// receivers (one constructor per service type of this package that has candidates)

func c18Recv_PrivateAccountAPI(f *c18Fixture) *PrivateAccountAPI {
	return NewPrivateAccountAPI(f.b, f.nl)
}

func c18Recv_PublicTransactionPoolAPI(f *c18Fixture) *PublicTransactionPoolAPI {
	return NewPublicTransactionPoolAPI(f.b, f.nl, false)
}

// arguments, by parameter type (c18Arg_<type with . replaced by _>)

func c18Arg_context_Context(f *c18Fixture, name string) context.Context { return context.Background() }

func c18Arg_string(f *c18Fixture, name string) string {
	// strings are concrete in the engine: an empty and a non-empty passphrase / text
	if vs.Choice(name, 2) == 1 {
		return "correct horse"
	}
	return ""
}

func c18Arg_common_Address(f *c18Fixture, name string) common.Address { return c18Addr(name) }

func c18Arg_hexutil_Bytes(f *c18Fixture, name string) hexutil.Bytes {
	if vs.Param("full") == 1 {
		return hexutil.Bytes(vs.Bytes(name, 2))
	}
	return hexutil.Bytes(vs.BytesN(name, 2))
}

// c18Set decides whether an optional (pointer) field is present.  With the
// suite parameter full=1 every combination is explored; with full=0 (quick
// tier) only the two extreme shapes "everything present" / "everything
// absent" (one structural choice per argument), the scalar contents staying
// symbolic in both.
func c18Set(f *c18Fixture, arg, field string) bool {
	if vs.Param("full") == 1 {
		return vs.Choice(arg+"."+field+".set", 2) == 1
	}
	sh, ok := f.shape[arg]
	if !ok {
		sh = vs.Choice(arg+".shape", 2)
		f.shape[arg] = sh
	}
	return sh == 1
}

func c18OptBytes(f *c18Fixture, arg, field string) *hexutil.Bytes {
	if vs.Param("full") == 1 {
		switch vs.Choice(arg+"."+field+".set", 3) {
		case 1:
			b := hexutil.Bytes{}
			return &b
		case 2:
			b := hexutil.Bytes(vs.BytesN(arg+"."+field, 1))
			return &b
		}
		return nil
	}
	if field == "data" == c18Set(f, arg, field) { // data present in shape 1, input in shape 0
		b := hexutil.Bytes(vs.BytesN(arg+"."+field, 1))
		return &b
	}
	return nil
}

func c18Arg_SendTxArgs(f *c18Fixture, name string) SendTxArgs {
	var a SendTxArgs
	a.From = c18Addr(name + ".from")
	if c18Set(f, name, "to") {
		to := c18Addr(name + ".to")
		a.To = &to
	}
	if c18Set(f, name, "gas") {
		g := hexutil.Uint64(vs.U64(name + ".gas"))
		a.Gas = &g
	}
	if c18Set(f, name, "gasPrice") {
		a.GasPrice = (*hexutil.Big)(vs.BigU(name+".gasPrice", 256))
	}
	if c18Set(f, name, "value") {
		a.Value = (*hexutil.Big)(vs.BigU(name+".value", 256))
	}
	if c18Set(f, name, "nonce") {
		n := hexutil.Uint64(vs.U64(name + ".nonce"))
		a.Nonce = &n
	}
	a.Data = c18OptBytes(f, name, "data")
	a.Input = c18OptBytes(f, name, "input")
	return a
}

// c18Keccak256 stands in for crypto/sha3.Keccak256 under the engine (suite
// override): the digest only travels into the recording wallet.
func c18Keccak256(data ...[]byte) []byte { return vs.UF("keccak256", 32, data...) }

// ---------------------------------------------------------------------------

func VerifC18_Reach() {
	vs.Assert(len(c18Cands) > 0, "generated candidate table present")
	c := c18Cands[vs.Choice("method", len(c18Cands))]
	id := c.NS + " " + c.Recv + "." + c.Name
	vs.Reach("cand:" + id)
	f := c18NewFixture()
	c.Run(f)
	vs.Observe("method", id)
	vs.Observe("signing-calls", f.rec.signed)
	vs.Observe("entry-point", f.rec.last)
	if f.rec.signed == 0 {
		vs.Reach("no-signing-call")
		return
	}
	vs.Reach("signs")
	vs.Reach("signs:" + id)
	tr := vs.Choice("transport", rpc.C18NTransports)
	pre := vs.Choice("preexisting", 2) == 1 // fresh namespace / namespace already has a service (merge branch)
	var fl rpc.C18Flags
	fl[rpc.C18InProc] = vs.Bool("allow_sign_inProc")
	fl[rpc.C18IPC] = vs.Bool("allow_sign_ipc")
	fl[rpc.C18HTTP] = vs.Bool("allow_sign_http")
	fl[rpc.C18WS] = vs.Bool("allow_sign_ws")
	fl[4] = vs.Bool("allow_all_rpc_signing")
	offered := rpc.VerifC18GateRegistered(tr, fl, pre, c.NS, c.Rcvr(f), c.Methods, c.Name)
	vs.Observe("offered", offered)
	if offered {
		vs.Reach("offered")
	}
	vs.Assert(!offered || rpc.C18OptedIn(tr, fl), "reaches a wallet signing entry point and is offered on a transport that is not opted in: "+id)
}
