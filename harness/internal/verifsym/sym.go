// Package verifsym is the harness-side API of the /verif symbolic executor.
//
// It is injected into the build with -overlay (it does not exist in the
// repository).  Under the engine every function below is intercepted by name
// and never executed; the bodies here are the *native replay* implementation:
// inputs come from a recorded counterexample / validation vector so that the
// very same harness source can be run against the real build.
package verifsym

import (
	"encoding/json"
	"fmt"
	"math/big"
	"os"
	"runtime"
	"strings"
	"time"
)

type vector struct {
	Harness  string            `json:"harness"`
	Kind     string            `json:"kind"`
	Label    string            `json:"label"`
	Inputs   map[string]string `json:"inputs"`
	Params   map[string]int    `json:"params"`
	Observed []string          `json:"observed"`
}

type state struct {
	v        vector
	seen     map[string]int
	observed []string
	failed   string
	lastPanic string
}

var cur *state

type assertFailed struct{ label string }
type assumeFalse struct{}

func (s *state) name(n string) string {
	k := s.seen[n]
	s.seen[n] = k + 1
	if k > 0 {
		return fmt.Sprintf("%s#%d", n, k)
	}
	return n
}

func (s *state) big(n string) *big.Int {
	full := s.name(n)
	str, ok := s.v.Inputs[full]
	if !ok {
		return new(big.Int)
	}
	b, ok := new(big.Int).SetString(str, 10)
	if !ok {
		return new(big.Int)
	}
	return b
}

func need() *state {
	if cur == nil {
		panic("verifsym: harness run outside the engine without a replay vector")
	}
	return cur
}

func U8(name string) uint8   { return uint8(need().big(name).Uint64()) }
func U16(name string) uint16 { return uint16(need().big(name).Uint64()) }
func U32(name string) uint32 { return uint32(need().big(name).Uint64()) }
func U64(name string) uint64 { return need().big(name).Uint64() }
func I64(name string) int64  { return int64(need().big(name).Uint64()) }
func Int(name string) int    { return int(need().big(name).Uint64()) }
func Bool(name string) bool  { return need().big(name).Sign() != 0 }

func BytesN(name string, n int) []byte {
	b := make([]byte, n)
	for i := range b {
		b[i] = byte(need().big(fmt.Sprintf("%s[%d]", name, i)).Uint64())
	}
	return b
}

// Bytes returns a byte string of symbolic length in [0,maxLen] (the engine
// forks over the length) and symbolic contents.
func Bytes(name string, maxLen int) []byte {
	n := Choice(name+".len", maxLen+1)
	return BytesN(name, n)
}

// Big is an arbitrary integer (Int mode: unbounded; BV mode: W-bit two's complement).
func Big(name string) *big.Int {
	return need().big(name)
}

// BigU is an integer in [0, 2^bits).
func BigU(name string, bits int) *big.Int { return need().big(name) }

// Choice is a structural choice in [0,n): the engine explores every value.
func Choice(name string, n int) int {
	v := int(need().big("choice:" + name).Int64())
	if v < 0 || v >= n {
		return 0
	}
	return v
}

// Param returns a per-tier bound defined in the suite file.
func Param(name string) int { return need().v.Params[name] }

func Assume(c bool) {
	if !c {
		panic(assumeFalse{})
	}
}

func Assert(c bool, label string) {
	if !c {
		panic(assertFailed{label})
	}
}

// Reach marks a reachability witness (vacuity guard).
func Reach(label string) {}

// Known marks the rest of the path as lying inside the class of a recorded
// known finding when cond holds (the engine forks on cond).
func Known(id string, cond bool) {}

// Symbolic reports whether the code runs under the engine.
func Symbolic() bool { return false }

func Observe(label string, v interface{}) {
	s := need()
	s.observed = append(s.observed, label+"="+render(v))
}

func render(v interface{}) string {
	switch x := v.(type) {
	case bool:
		if x {
			return "1"
		}
		return "0"
	case uint8, uint16, uint32, uint64, uint, int8, int16, int32, int64, int:
		return fmt.Sprint(x)
	case *big.Int:
		if x == nil {
			return "<nil>"
		}
		return x.String()
	case []byte:
		var sb strings.Builder
		sb.WriteString("[")
		for i, b := range x {
			if i > 0 {
				sb.WriteString(" ")
			}
			fmt.Fprint(&sb, b)
		}
		sb.WriteString("]")
		return sb.String()
	case string:
		return x
	case error:
		if x == nil {
			return "<nil>"
		}
		return "<err>"
	case nil:
		return "<nil>"
	}
	return fmt.Sprintf("<%T>", v)
}

// NoPanic runs f and reports whether it panicked (run-time error or explicit panic).
func NoPanic(f func()) (panicked bool) {
	defer func() {
		if r := recover(); r != nil {
			switch r.(type) {
			case assertFailed, assumeFalse:
				panic(r)
			}
			panicked = true
			if cur != nil {
				cur.lastPanic = fmt.Sprint(r)
			}
		}
	}()
	f()
	return false
}

func LastPanic() string { return need().lastPanic }

// UntilBlocked stands for "another goroutine runs f now, until it blocks".
// Under the engine f is executed in place and abandoned at the first channel
// operation / select that cannot proceed (its effects so far persist, deferred
// calls do not run); the result is true if f was abandoned, false if it ran to
// completion.  Natively f runs in its own goroutine and the caller waits until
// f has finished or has made no progress for a grace period; a panic of f is
// re-raised in the caller.  A goroutine reported as blocked stays parked and may
// resume later, when the rest of the harness unblocks it.
func UntilBlocked(f func()) (blocked bool) {
	done := make(chan struct{})
	var pv interface{}
	go func() {
		defer func() {
			pv = recover()
			close(done)
		}()
		f()
	}()
	finished := func() bool {
		select {
		case <-done:
			return true
		default:
			return false
		}
	}
	for i := 0; i < 200 && !finished(); i++ {
		runtime.Gosched()
	}
	for i := 0; i < 25 && !finished(); i++ {
		time.Sleep(2 * time.Millisecond)
	}
	if !finished() {
		return true
	}
	if pv != nil {
		panic(pv)
	}
	return false
}

// UF is an uninterpreted function of byte strings under the engine.  Natively
// it is a fixed but arbitrary deterministic function (FNV-style), which is one
// admissible interpretation.
func UF(name string, outLen int, args ...[]byte) []byte {
	h := uint64(1469598103934665603)
	mix := func(b byte) { h ^= uint64(b); h *= 1099511628211 }
	for i := 0; i < len(name); i++ {
		mix(name[i])
	}
	for _, a := range args {
		mix(byte(len(a)))
		for _, b := range a {
			mix(b)
		}
	}
	out := make([]byte, outLen)
	for i := range out {
		mix(byte(i))
		out[i] = byte(h >> 32)
	}
	return out
}

func UFU64(name string, args ...uint64) uint64 {
	h := uint64(1469598103934665603)
	for i := 0; i < len(name); i++ {
		h ^= uint64(name[i])
		h *= 1099511628211
	}
	for _, a := range args {
		for k := 0; k < 8; k++ {
			h ^= (a >> (8 * uint(k))) & 0xff
			h *= 1099511628211
		}
	}
	return h
}

// UFX is an uninterpreted function of mixed arguments ([]byte, *big.Int,
// integers, bool) under the engine; natively a fixed deterministic function of
// the rendered arguments.
func UFX(name string, outLen int, args ...interface{}) []byte {
	bs := make([][]byte, len(args))
	for i, a := range args {
		bs[i] = []byte(render(a))
	}
	return UF("x:"+name, outLen, bs...)
}

func BigEq(a, b *big.Int) bool { return a.Cmp(b) == 0 }

// ---------------------------------------------------------------------------
// native driver (used by the generated replay test)

type NativeItem struct {
	File     string
	Validate bool
	F        func()
}

type NativeResult struct {
	File       string `json:"file"`
	Outcome    string `json:"outcome"` // ok | assert:<label> | panic:<msg> | assume-false
	Reproduced bool   `json:"reproduced"`
	Agrees     bool   `json:"agrees"`
	Detail     string `json:"detail"`
}

func runOne(it NativeItem) (res NativeResult) {
	res.File = it.File
	b, err := os.ReadFile(it.File)
	if err != nil {
		res.Detail = err.Error()
		return
	}
	st := &state{seen: map[string]int{}}
	if err := json.Unmarshal(b, &st.v); err != nil {
		res.Detail = err.Error()
		return
	}
	cur = st
	func() {
		defer func() {
			if r := recover(); r != nil {
				switch x := r.(type) {
				case assertFailed:
					res.Outcome = "assert:" + x.label
				case assumeFalse:
					res.Outcome = "assume-false"
				default:
					res.Outcome = "panic:" + fmt.Sprint(r)
				}
			}
		}()
		it.F()
		res.Outcome = "ok"
	}()
	cur = nil
	if it.Validate {
		res.Agrees = res.Outcome == "ok"
		res.Detail = "native outcome " + res.Outcome
		if res.Agrees {
			if len(st.observed) != len(st.v.Observed) {
				res.Agrees = false
				res.Detail = fmt.Sprintf("observation count differs: native %d, engine %d", len(st.observed), len(st.v.Observed))
			} else {
				for i := range st.observed {
					if st.observed[i] != st.v.Observed[i] {
						res.Agrees = false
						res.Detail = fmt.Sprintf("observation %d differs: native %q, engine %q", i, st.observed[i], st.v.Observed[i])
						break
					}
				}
			}
		}
		return
	}
	switch st.v.Kind {
	case "assert":
		res.Reproduced = strings.HasPrefix(res.Outcome, "assert:")
	case "panic":
		res.Reproduced = strings.HasPrefix(res.Outcome, "panic:")
	}
	res.Detail = "native outcome " + res.Outcome
	return
}

// RunNative executes the items and writes one JSON result per line.
func RunNative(resultFile string, items []NativeItem) {
	f, err := os.Create(resultFile)
	if err != nil {
		panic(err)
	}
	defer f.Close()
	enc := json.NewEncoder(f)
	for _, it := range items {
		enc.Encode(runOne(it))
	}
}

// ---------------------------------------------------------------------------
// Spec256: specification-level 256-bit EVM word operations.  Under the engine
// these are SMT-LIB bit-vector operators on (_ BitVec 256) (independent of the
// Go code under test); natively they are a straightforward math/big reference.

var (
	two256  = new(big.Int).Lsh(big.NewInt(1), 256)
	two255  = new(big.Int).Lsh(big.NewInt(1), 255)
	mask256 = new(big.Int).Sub(two256, big.NewInt(1))
)

func toU(x *big.Int) *big.Int { return new(big.Int).And(x, mask256) }
func toS(x *big.Int) *big.Int {
	u := toU(x)
	if u.Cmp(two255) >= 0 {
		u.Sub(u, two256)
	}
	return u
}
func b2i(b bool) *big.Int {
	if b {
		return big.NewInt(1)
	}
	return big.NewInt(0)
}

func Spec256(op string, a ...*big.Int) *big.Int {
	u := func(i int) *big.Int { return toU(a[i]) }
	s := func(i int) *big.Int { return toS(a[i]) }
	switch op {
	case "add":
		return toU(new(big.Int).Add(u(0), u(1)))
	case "sub":
		return toU(new(big.Int).Sub(u(0), u(1)))
	case "mul":
		return toU(new(big.Int).Mul(u(0), u(1)))
	case "div":
		if u(1).Sign() == 0 {
			return big.NewInt(0)
		}
		return new(big.Int).Quo(u(0), u(1))
	case "mod":
		if u(1).Sign() == 0 {
			return big.NewInt(0)
		}
		return new(big.Int).Rem(u(0), u(1))
	case "sdiv":
		if u(1).Sign() == 0 {
			return big.NewInt(0)
		}
		return toU(new(big.Int).Quo(s(0), s(1)))
	case "smod":
		if u(1).Sign() == 0 {
			return big.NewInt(0)
		}
		return toU(new(big.Int).Rem(s(0), s(1)))
	case "addmod":
		if u(2).Sign() == 0 {
			return big.NewInt(0)
		}
		return new(big.Int).Rem(new(big.Int).Add(u(0), u(1)), u(2))
	case "mulmod":
		if u(2).Sign() == 0 {
			return big.NewInt(0)
		}
		return new(big.Int).Rem(new(big.Int).Mul(u(0), u(1)), u(2))
	case "and":
		return new(big.Int).And(u(0), u(1))
	case "or":
		return new(big.Int).Or(u(0), u(1))
	case "xor":
		return new(big.Int).Xor(u(0), u(1))
	case "not":
		return new(big.Int).Xor(u(0), mask256)
	case "lt":
		return b2i(u(0).Cmp(u(1)) < 0)
	case "gt":
		return b2i(u(0).Cmp(u(1)) > 0)
	case "slt":
		return b2i(s(0).Cmp(s(1)) < 0)
	case "sgt":
		return b2i(s(0).Cmp(s(1)) > 0)
	case "eq":
		return b2i(u(0).Cmp(u(1)) == 0)
	case "iszero":
		return b2i(u(0).Sign() == 0)
	case "shl": // (shift, value)
		if u(0).Cmp(big.NewInt(256)) >= 0 {
			return big.NewInt(0)
		}
		return toU(new(big.Int).Lsh(u(1), uint(u(0).Uint64())))
	case "shr":
		if u(0).Cmp(big.NewInt(256)) >= 0 {
			return big.NewInt(0)
		}
		return new(big.Int).Rsh(u(1), uint(u(0).Uint64()))
	case "sar":
		if u(0).Cmp(big.NewInt(256)) >= 0 {
			if s(1).Sign() < 0 {
				return new(big.Int).Set(mask256)
			}
			return big.NewInt(0)
		}
		return toU(new(big.Int).Rsh(s(1), uint(u(0).Uint64())))
	case "byte": // (index, word): index 0 = most significant byte
		if u(0).Cmp(big.NewInt(32)) >= 0 {
			return big.NewInt(0)
		}
		sh := uint(8 * (31 - u(0).Uint64()))
		return new(big.Int).And(new(big.Int).Rsh(u(1), sh), big.NewInt(0xff))
	case "signextend": // (k, x)
		if u(0).Cmp(big.NewInt(31)) >= 0 {
			return u(1)
		}
		bit := uint(8*u(0).Uint64() + 7)
		m := new(big.Int).Sub(new(big.Int).Lsh(big.NewInt(1), bit+1), big.NewInt(1))
		if u(1).Bit(int(bit)) == 1 {
			return new(big.Int).Or(u(1), new(big.Int).Xor(m, mask256))
		}
		return new(big.Int).And(u(1), m)
	}
	panic("verifsym.Spec256: unknown op " + op)
}

// Mul64 returns the 128-bit product of two 64-bit words as (hi, lo).  Under the
// engine it is a single 128-bit SMT multiplication (specification level).
func Mul64(a, b uint64) (hi, lo uint64) {
	const m32 = 1<<32 - 1
	a0, a1 := a&m32, a>>32
	b0, b1 := b&m32, b>>32
	w0 := a0 * b0
	t := a1*b0 + w0>>32
	w1, w2 := t&m32, t>>32
	w1 += a0 * b1
	hi = a1*b1 + w2 + w1>>32
	lo = a * b
	return
}

// Concretize returns x; under the engine the path forks over the feasible
// values of x so that the result is a constant (loops over it cost no queries).
func Concretize(x uint64) uint64 { return x }
