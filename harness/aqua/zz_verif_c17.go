package aqua

// C17 harness (sub-protocol side): the message-size guards of the aqua
// protocol handler.  A message whose announced size exceeds
// ProtocolMaxMsgSize is rejected before a single payload byte is read or
// decoded, both in the steady-state handler (ProtocolManager.handleMsg) and in
// the handshake (peer.readStatus).
//
// Executed symbolically by /verif/engine; compiled natively for replay.
// Engine-only redirect: (*rlp.Stream).Decode -> c17AquaStreamDecode (the
// reflection-driven typed decoder is outside; the stub records the call and
// fails, as the real decoder does on the empty payload used here).

import (
	"errors"
	"io"

	"gitlab.com/aquachain/aquachain/common"
	vs "gitlab.com/aquachain/aquachain/internal/verifsym"
	"gitlab.com/aquachain/aquachain/p2p"
	"gitlab.com/aquachain/aquachain/rlp"
)

type c17Payload struct{ reads int }

func (r *c17Payload) Read(p []byte) (int, error) {
	r.reads++
	return 0, io.EOF
}

type c17RW struct{ msg p2p.Msg }

func (rw *c17RW) ReadMsg() (p2p.Msg, error) { return rw.msg, nil }
func (rw *c17RW) WriteMsg(p2p.Msg) error    { return nil }

var (
	c17DecodeCalls int
	errC17Decode   = errors.New("c17: typed decoder stub")
)

func c17AquaStreamDecode(s *rlp.Stream, val interface{}) error {
	c17DecodeCalls++
	return errC17Decode
}

func VerifC17_MsgSizeGuard() {
	size := vs.U32("size")
	pl := &c17Payload{}
	p := &peer{id: "c17", rw: &c17RW{msg: p2p.Msg{Code: StatusMsg, Size: size, Payload: pl}}}
	if vs.Choice("entry", 2) == 0 {
		// steady state: a status message is never acceptable here, so every path
		// ends in an error; what differs is whether the payload was touched.
		pm := &ProtocolManager{}
		err := pm.handleMsg(p)
		vs.Assert(err != nil, "status message after the handshake is an error")
		if size > ProtocolMaxMsgSize {
			vs.Assert(pl.reads == 0, "handleMsg: oversized message rejected before its payload is read")
			vs.Reach("handle-too-large")
		} else {
			vs.Assert(pl.reads > 0, "handleMsg: message within the limit is drained")
			vs.Reach("handle-drained")
		}
		return
	}
	var st statusData
	err := p.readStatus(1, &st, common.Hash{})
	vs.Assert(err != nil, "empty status payload is rejected")
	if size > ProtocolMaxMsgSize {
		vs.Assert(pl.reads == 0 && c17DecodeCalls == 0, "readStatus: oversized status rejected before decoding")
		vs.Reach("status-too-large")
	} else {
		if vs.Symbolic() {
			vs.Assert(c17DecodeCalls == 1, "readStatus: status within the limit reaches the decoder")
		}
		vs.Reach("status-decoded")
	}
}
