package filters

// C16 harness: Filter.Logs splits the block range into the part answered from
// the bloom-bits index and the part scanned header by header without gap or
// overlap.  Executed symbolically by /verif/engine; compiled natively for
// replay (natively the real indexedLogs runs: with no criteria the matcher
// reports every block of the range it is given, which is the contract used
// under the engine).

import (
	"context"
	"math/big"

	"gitlab.com/aquachain/aquachain/aqua/event"
	"gitlab.com/aquachain/aquachain/aquadb"
	"gitlab.com/aquachain/aquachain/common"
	"gitlab.com/aquachain/aquachain/core"
	"gitlab.com/aquachain/aquachain/core/bloombits"
	"gitlab.com/aquachain/aquachain/core/types"
	vs "gitlab.com/aquachain/aquachain/internal/verifsym"
	"gitlab.com/aquachain/aquachain/params"
	"gitlab.com/aquachain/aquachain/rpc"
)

// c16Backend is a chain of blocks 0..head; block n holds exactly one log with
// BlockNumber n.  It records which blocks' logs were fetched.
type c16Backend struct {
	head           uint64
	size, sections uint64
	last           uint64   // number of the header handed out last
	fetched        []uint64 // block numbers whose logs were fetched (GetLogs)
}

func (b *c16Backend) ChainDb() aquadb.Database { return nil }
func (b *c16Backend) GetHeaderVersion(*big.Int) params.HeaderVersion {
	return 2
}
func (b *c16Backend) EventMux() *event.TypeMux { return nil }
func (b *c16Backend) HeaderByNumber(ctx context.Context, n rpc.BlockNumber) (*types.Header, error) {
	var num uint64
	if n == rpc.LatestBlockNumber {
		num = b.head
	} else if n < 0 || uint64(n) > b.head {
		return nil, nil
	} else {
		num = uint64(n)
	}
	b.last = num
	return &types.Header{Number: new(big.Int).SetUint64(num), Difficulty: new(big.Int), Time: new(big.Int), Version: 2}, nil
}
func (b *c16Backend) GetReceipts(ctx context.Context, blockHash common.Hash) (types.Receipts, error) {
	return nil, nil
}
func (b *c16Backend) GetLogs(ctx context.Context, blockHash common.Hash) ([][]*types.Log, error) {
	// the block is identified by the header handed out last (checkMatches fetches
	// the logs of the header it was just given)
	b.fetched = append(b.fetched, b.last)
	l := &types.Log{BlockNumber: b.last}
	l.TxHash[0] = 1
	return [][]*types.Log{{l}}, nil
}
func (b *c16Backend) SubscribeTxPreEvent(chan<- core.TxPreEvent) event.Subscription  { return nil }
func (b *c16Backend) SubscribeChainEvent(chan<- core.ChainEvent) event.Subscription   { return nil }
func (b *c16Backend) SubscribeRemovedLogsEvent(chan<- core.RemovedLogsEvent) event.Subscription {
	return nil
}
func (b *c16Backend) SubscribeLogsEvent(chan<- []*types.Log) event.Subscription { return nil }
func (b *c16Backend) BloomStatus() (uint64, uint64)                            { return b.size, b.sections }
func (b *c16Backend) ServiceFilter(ctx context.Context, session *bloombits.MatcherSession) {
	// no criteria => no bit vectors are ever requested
}

// VerifC16IndexedLogsContract stands for Filter.indexedLogs under the engine
// (the matcher pipeline is goroutines and channels).  Contract of the real
// function for a filter without criteria: every block of [f.begin, end] is a
// candidate, in increasing order; each is looked up and checked with
// checkMatches; a missing header ends the scan; f.begin ends at end+1 (or just
// after the last block looked at).
func VerifC16IndexedLogsContract(f *Filter, ctx context.Context, end uint64) ([]*types.Log, error) {
	var logs []*types.Log
	for n := uint64(f.begin); n <= end; n++ {
		f.begin = int64(n) + 1
		header, err := f.backend.HeaderByNumber(ctx, rpc.BlockNumber(n))
		if header == nil || err != nil {
			return logs, err
		}
		found, err := f.checkMatches(ctx, header)
		if err != nil {
			return logs, err
		}
		logs = append(logs, found...)
	}
	f.begin = int64(end) + 1
	return logs, nil
}

// VerifC16HeaderHash stands for (*types.Header).Hash under the engine (RLP by
// reflection + keccak; the stub backend does not look at the hash).
func VerifC16HeaderHash(h *types.Header) common.Hash { return common.Hash{} }

// VerifC16_RangeSplit: for every head, section size, number of indexed
// sections and range [begin, end] (-1 = latest on either side), Filter.Logs
// examines exactly the blocks begin'..min(end', head), each once, in increasing
// order, and returns their logs in that order, whether the range lies in the
// indexed part, the unindexed part or straddles the boundary.
func VerifC16_RangeSplit() {
	maxHead := uint64(vs.Param("H"))
	b := &c16Backend{head: vs.U64("head"), size: vs.U64("size"), sections: vs.U64("sections")}
	vs.Assume(b.head <= maxHead)
	// section sizes are multiples of 8 (Generator and Matcher work on whole bytes)
	vs.Assume(b.size >= 8 && b.size <= uint64(vs.Param("S")) && b.size%8 == 0)
	// the indexer only indexes complete sections of existing blocks
	vs.Assume(b.sections <= uint64(vs.Param("N")) && b.sections*b.size <= b.head+1)
	begin, end := vs.I64("begin"), vs.I64("end")
	vs.Assume(begin >= -1 && begin <= int64(maxHead)+1)
	// param pending = 1 adds toBlock = -2 ("pending") to the domain; the real code
	// then drops every block outside the indexed part (see report), which the
	// harness files under a known-finding class
	endLo := int64(-1)
	if vs.Param("pending") != 0 {
		endLo = -2
	}
	vs.Assume(end >= endLo && end <= int64(maxHead)+1)
	if vs.Param("pending") != 0 {
		vs.Known("C16-toBlock-pending-truncated", end == -2)
	}

	f := New(b, begin, end, nil, nil)
	logs, err := f.Logs(context.Background())
	vs.Assert(err == nil, "no error from a healthy backend")

	first := uint64(begin)
	if begin == -1 {
		first = b.head
	}
	last := uint64(end)
	if end < 0 || last > b.head {
		last = b.head
	}
	// expected: first..last, empty if first > last
	n := uint64(0)
	if first <= last {
		n = last - first + 1
	}
	vs.Assert(uint64(len(logs)) == n, "one log per block of [begin, min(end, head)]: no block skipped or visited twice")
	vs.Assert(len(b.fetched) == len(logs), "logs are fetched exactly for the blocks of the range")
	ok := true
	for i, l := range logs {
		ok = c16And(ok, l.BlockNumber == first+uint64(i))
		ok = c16And(ok, b.fetched[i] == first+uint64(i))
	}
	vs.Assert(ok, "blocks are examined in increasing order without gap or overlap at the indexed/unindexed boundary")
	if n > 0 && b.sections*b.size > first && b.sections*b.size <= last {
		vs.Reach("straddle")
	}
	vs.Observe("n", len(logs))
}
