package filters

// C16 harnesses (aqua/filters part): log queries are exact and the bloom
// pre-filter never excludes a block that holds a matching log.
// Executed symbolically by /verif/engine; compiled natively for replay.
// Keccak256 is an uninterpreted function under the engine (see core/types
// zz_verif_c16.go); natively the real hash runs.

import (
	"math/big"

	"gitlab.com/aquachain/aquachain/common"
	"gitlab.com/aquachain/aquachain/core/types"
	vs "gitlab.com/aquachain/aquachain/internal/verifsym"
)

func c16Address(name string) common.Address {
	var a common.Address
	copy(a[:], vs.BytesN(name, common.AddressLength))
	return a
}

func c16Hash(name string) common.Hash {
	var h common.Hash
	copy(h[:], vs.BytesN(name, common.HashLength))
	return h
}

// c16Logs: 0..maxL logs (structural choice), each with a symbolic address,
// 0..maxT symbolic topics (structural choice) and a symbolic block number.
func c16Logs(maxL, maxT int) []*types.Log {
	var logs []*types.Log
	nl := vs.Choice("logs", maxL+1)
	for i := 0; i < nl; i++ {
		l := &types.Log{Address: c16Address("laddr"), BlockNumber: vs.U64("lblock"), Index: uint(i)}
		nt := vs.Choice("ltopics", maxT+1)
		for t := 0; t < nt; t++ {
			l.Topics = append(l.Topics, c16Hash("ltopic"))
		}
		logs = append(logs, l)
	}
	return logs
}

// c16Criteria: 0..maxA addresses, 0..maxP topic positions with 0..maxK
// alternatives each (0 alternatives = wildcard); all structural choices, all
// values symbolic.
func c16Criteria(maxA, maxP, maxK int) ([]common.Address, [][]common.Hash) {
	var addrs []common.Address
	na := vs.Choice("addrs", maxA+1)
	for i := 0; i < na; i++ {
		addrs = append(addrs, c16Address("caddr"))
	}
	var topics [][]common.Hash
	np := vs.Choice("positions", maxP+1)
	for i := 0; i < np; i++ {
		var alts []common.Hash
		nk := vs.Choice("alts", maxK+1)
		for k := 0; k < nk; k++ {
			alts = append(alts, c16Hash("ctopic"))
		}
		topics = append(topics, alts)
	}
	return addrs, topics
}

// c16Bound is a block-range bound as the RPC layer builds it: absent, or
// big.NewInt of an int64 block number (negative values = "latest"/"pending",
// i.e. an open end).
func c16Bound(name string) *big.Int {
	if vs.Choice(name+".set", 2) == 0 {
		return nil
	}
	return big.NewInt(vs.I64(name))
}

// c16Matches is the brute-force specification of one log against the criteria.
// It is written without early exits so that it is a single expression for the
// solver (no path forks of its own).
func c16Matches(l *types.Log, from, to *big.Int, addrs []common.Address, topics [][]common.Hash) bool {
	ok := true
	if from != nil {
		f := from.Int64()
		ok = c16And(ok, c16Or(f < 0, uint64(f) <= l.BlockNumber))
	}
	if to != nil {
		t := to.Int64()
		ok = c16And(ok, c16Or(t < 0, uint64(t) >= l.BlockNumber))
	}
	if len(addrs) > 0 {
		any := false
		for _, a := range addrs {
			any = c16Or(any, a == l.Address)
		}
		ok = c16And(ok, any)
	}
	if len(topics) > len(l.Topics) {
		return false
	}
	for i, alts := range topics {
		if len(alts) == 0 {
			continue
		}
		any := false
		for _, t := range alts {
			any = c16Or(any, t == l.Topics[i])
		}
		ok = c16And(ok, any)
	}
	return ok
}

func c16And(a, b bool) bool {
	if !b {
		a = false
	}
	return a
}

func c16Or(a, b bool) bool {
	if b {
		a = true
	}
	return a
}

// VerifC16_FilterExact: filterLogs returns exactly the logs the brute-force
// specification selects, in input order, for every list of logs, criteria and
// block-range clause.
func VerifC16_FilterExact() {
	logs := c16Logs(vs.Param("L"), vs.Param("T"))
	addrs, topics := c16Criteria(vs.Param("A"), vs.Param("P"), vs.Param("K"))
	var from, to *big.Int
	if vs.Param("range") != 0 {
		from, to = c16Bound("from"), c16Bound("to")
	}
	got := filterLogs(logs, from, to, addrs, topics)
	// got must be the subsequence of logs selected by the specification
	k := 0
	for _, l := range logs {
		want := c16Matches(l, from, to, addrs, topics)
		has := k < len(got) && got[k] == l
		vs.Assert(want == has, "filterLogs selects exactly the logs matching the criteria, in order")
		if has {
			k++
		}
	}
	vs.Assert(k == len(got), "filterLogs returns nothing else")
	if len(got) > 0 {
		vs.Reach("match")
	}
	if len(got) < len(logs) {
		vs.Reach("nomatch")
	}
	vs.Observe("selected", len(got))
}

// VerifC16_FilterBloomSound: whenever filterLogs finds a matching log in a
// block, bloomFilter on the block's bloom (CreateBloom of the receipts holding
// the logs) lets the block through: the bloom pre-filter of unindexedLogs
// never hides a match.
func VerifC16_FilterBloomSound() {
	logs := c16Logs(vs.Param("L"), vs.Param("T"))
	addrs, topics := c16Criteria(vs.Param("A"), vs.Param("P"), vs.Param("K"))
	got := filterLogs(logs, nil, nil, addrs, topics)
	if len(got) == 0 {
		vs.Reach("nomatch")
		return
	}
	vs.Reach("match")
	// the logs are spread over receipts (structural choice of the split point)
	cut := vs.Choice("split", len(logs)+1)
	rs := types.Receipts{&types.Receipt{Logs: logs[:cut]}, &types.Receipt{Logs: logs[cut:]}}
	bloom := types.CreateBloom(rs)
	vs.Assert(bloomFilter(bloom, addrs, topics), "bloomFilter passes every block that holds a matching log")
}
