package accounts

// C18 support: an account manager over a fixed wallet list, without the
// update goroutine NewManager starts (the engine has no scheduler).  Find,
// Wallets and Wallet are the real methods.

import "reflect"

func VerifC18Manager(wallets ...Wallet) *Manager {
	return &Manager{
		backends: make(map[reflect.Type][]Backend),
		wallets:  wallets,
	}
}
