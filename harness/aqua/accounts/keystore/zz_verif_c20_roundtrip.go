package keystore

import (
	"bytes"
	"math/big"

	"gitlab.com/aquachain/aquachain/common/math"
	"gitlab.com/aquachain/aquachain/crypto"
	vs "gitlab.com/aquachain/aquachain/internal/verifsym"
)

// c20Encrypted: a key with arbitrary scalar D in [1,N), encrypted by the real
// EncryptKey under an arbitrary passphrase (salt and IV arbitrary: the entropy
// source is symbolic).  Natively the light scrypt parameters n=4, p=1 are real.
func c20Encrypted() (key *Key, d32 []byte, pass []byte, auth string, blob []byte) {
	D := c20Scalar("D")
	d32 = D.FillBytes(make([]byte, 32))
	key = c20NewKey(D)
	// (lemma, also the subject of VerifC20_PaddedBigBytes: stated first so that the
	// later obligations can use it)
	vs.Assert(bytes.Equal(math.PaddedBigBytes(key.PrivateKey.ToECDSA().D, 32), d32), "the 32-byte encoding EncryptKey encrypts is the scalar, leading zeros kept")
	pass = vs.Bytes("pass", vs.Param("passlen"))
	auth = c20Str(pass)
	blob, err := EncryptKey(key, auth, 4, 1)
	vs.Assert(err == nil, "EncryptKey succeeds")
	return
}

func c20SameKey(got *Key, key *Key, d32 []byte) bool {
	return got != nil && got.PrivateKey != nil && c20Eq(c20Scalar32(got.PrivateKey), d32) && got.Address == key.Address
}

// VerifC20_RoundTrip: for every key and passphrase the stored file has the
// Web3 v3 layout (aes-128-ctr, scrypt, 32-byte salt/ciphertext/MAC, 16-byte IV,
// MAC = keccak(derivedKey[16:32] || ciphertext)), and unlocking it with the same
// passphrase (KeyStore level: GetKey) yields the identical private key and address.
func VerifC20_RoundTrip() {
	key, d32, _, auth, blob := c20Encrypted()
	k3 := c20Parse(blob)
	cj := k3.Crypto
	vs.Assert(k3.Version == 3 && cj.Cipher == "aes-128-ctr" && cj.KDF == "scrypt", "version 3, aes-128-ctr, scrypt")
	iv, ct, mac := c20Unhex(cj.CipherParams.IV), c20Unhex(cj.CipherText), c20Unhex(cj.MAC)
	vs.Assert(len(iv) == 16 && len(ct) == 32 && len(mac) == 32, "16-byte IV, 32-byte ciphertext and MAC")
	salt, _ := cj.KDFParams["salt"].(string)
	vs.Assert(len(c20Unhex(salt)) == 32, "32-byte salt")
	dk, err := getKDFKey(cj, auth)
	vs.Assert(err == nil && len(dk) == 32, "the stored KDF parameters derive a 32-byte key")
	vs.Assert(c20Eq(mac, crypto.Keccak256(dk[16:32], ct)), "MAC = keccak256(derivedKey[16:32] || ciphertext)")
	vs.Assert(c20Eq(c20Unhex(k3.Address), key.Address[:]), "the file names the key's address")

	plain, _, err := decryptKeyV3(&k3, auth)
	vs.Assert(err == nil, "decryptKeyV3 accepts the file with the same passphrase")
	vs.Assert(bytes.Equal(plain, d32), "decryptKeyV3 returns the 32-byte scalar")

	file := c20Store(blob)
	got, err := keyStorePassphrase{}.GetKey(key.Address, file, auth)
	c20Unstore(file)
	vs.Assert(err == nil, "unlocking with the same passphrase succeeds")
	vs.Assert(c20SameKey(got, key, d32), "the recovered private key and address are identical")
	vs.Observe("scalar", c20Scalar32(got.PrivateKey))
}

// VerifC20_WrongPassphrase: any other passphrase fails with ErrDecrypt (under
// the ideal-KDF assumption: a different HMAC key derives a different MAC key).
// Passphrases that differ only in trailing zero bytes are the same HMAC key
// (PBKDF2-HMAC pads the key with zeros): known-finding class.
func VerifC20_WrongPassphrase() {
	c20IdealOn = true
	key, _, pass, _, blob := c20Encrypted()
	other := vs.Bytes("other", vs.Param("passlen"))
	if len(other) == len(pass) {
		vs.Assume(!c20Eq(other, pass))
	}
	vs.Known("C20-hmac-zero-padded-passphrase", c20Eq(c20Canon(other), c20Canon(pass)))
	file := c20Store(blob)
	got, err := keyStorePassphrase{}.GetKey(key.Address, file, c20Str(other))
	c20Unstore(file)
	vs.Assert(err == ErrDecrypt && got == nil, "a different passphrase gives ErrDecrypt and no key")
}

var c20TamperN = []float64{2, 8, 3, 0}

// VerifC20_Tamper: after a modification of the stored IV, ciphertext, MAC, salt
// (same length, any different content) or of n / r / p / dklen, unlocking with
// the right passphrase either fails with an error or yields the original key -
// never a different key or address.  (Malformed lengths / types: DecryptTotal.)
func VerifC20_Tamper() {
	c20IdealOn = true
	key, d32, _, auth, blob := c20Encrypted()
	k3 := c20Parse(blob)
	cj := &k3.Crypto
	target := vs.Choice("target", 8)
	opts := vs.Param("numopts") // how many alternative values per numeric parameter (1: quick, 2: all)
	differ := func(name string, old []byte) string {
		nb := vs.BytesN(name, len(old))
		vs.Assume(!c20Eq(nb, old))
		return c20Hex(nb)
	}
	switch target {
	case 0:
		cj.CipherParams.IV = differ("iv2", c20Unhex(cj.CipherParams.IV))
	case 1:
		cj.CipherText = differ("ct2", c20Unhex(cj.CipherText))
	case 2:
		cj.MAC = differ("mac2", c20Unhex(cj.MAC))
	case 3:
		salt, _ := cj.KDFParams["salt"].(string)
		cj.KDFParams["salt"] = differ("salt2", c20Unhex(salt))
	case 4:
		cj.KDFParams["n"] = c20TamperN[vs.Choice("n2", min(len(c20TamperN), 2*opts))]
	case 5:
		cj.KDFParams["r"] = []float64{1, 16}[vs.Choice("r2", min(2, opts))]
	case 6:
		cj.KDFParams["p"] = []float64{2, 6}[vs.Choice("p2", min(2, opts))]
	default:
		cj.KDFParams["dklen"] = []float64{64, 16, 33}[vs.Choice("dklen2", min(3, 1+opts))]
	}
	file := c20Store(c20FileOf(k3))
	var got *Key
	var err error
	panicked := vs.NoPanic(func() { got, err = keyStorePassphrase{}.GetKey(key.Address, file, auth) })
	c20Unstore(file)
	vs.Assert(!panicked, "GetKey does not panic on a tampered file")
	if err != nil {
		vs.Reach("error")
		vs.Assert(got == nil, "no key together with an error")
		return
	}
	vs.Reach("original-key")
	vs.Assert(c20SameKey(got, key, d32), "a tampered file never yields a different key or address")
	vs.Assert(target == 0 || target == 7, "only an IV that decrypts to the same key, or a longer/shorter dklen, can still unlock")
}

var _ = big.NewInt
