package keystore

// C20, KeyStore level: the passphrase gate.  The other C20 harnesses decide what
// the encrypting store does (keyStorePassphrase.GetKey: right passphrase => the
// identical key, any other => ErrDecrypt).  This one decides that the KeyStore
// methods that take a passphrase add nothing to and take nothing from that
// verdict, in EVERY state of the table of unlocked accounts: the account locked,
// unlocked with a running timer, unlocked indefinitely.
//
// The store behind the KeyStore is the interface-typed collaborator c20Vault,
// which has exactly the contract the other harnesses establish for the real
// store: GetKey yields (a fresh copy of) the stored key iff the passphrase is
// byte-for-byte the one the key was stored under, else ErrDecrypt.  Everything
// else - KeyStore, its account cache lookup, the unlocked table - is the real code.

import (
	"errors"
	"math/big"
	"os"
	"time"

	"github.com/btcsuite/btcd/btcec/v2"
	"github.com/pborman/uuid"
	"gitlab.com/aquachain/aquachain/aqua/accounts"
	"gitlab.com/aquachain/aquachain/common"
	"gitlab.com/aquachain/aquachain/core/types"
	"gitlab.com/aquachain/aquachain/crypto"
	vs "gitlab.com/aquachain/aquachain/internal/verifsym"
)

// c20Vault: a keyStore (key.go) holding one key under one passphrase.
type c20Vault struct {
	file    string
	pass    []byte // the passphrase the key is stored under
	d32     []byte // the stored private scalar, 32 bytes big-endian
	gets    int    // GetKey calls
	writes  int    // StoreKey / UpdateKey calls
	written *Key   // the key handed to the last write
}

// c20PassBytes: the bytes of a passphrase string (a handle under the engine).
func c20PassBytes(auth string) []byte {
	if vs.Symbolic() {
		return c20Lookup(auth)
	}
	return []byte(auth)
}

func (v *c20Vault) GetKey(addr common.Address, filename, auth string) (*Key, error) {
	v.gets++
	if filename != v.file {
		return nil, errors.New("c20Vault: no such key file")
	}
	a := c20PassBytes(auth)
	if len(a) != len(v.pass) || !c20Eq(a, v.pass) {
		return nil, ErrDecrypt
	}
	k := c20KeyFromBytes(v.d32) // a fresh object every time, as a decryption produces
	if k.Address != addr {
		return nil, errors.New("c20Vault: key content mismatch")
	}
	return k, nil
}

func (v *c20Vault) StoreKey(filename string, k *Key, auth string) error {
	return v.UpdateKey(filename, k, auth)
}

func (v *c20Vault) UpdateKey(filename string, k *Key, auth string) error {
	v.writes++
	v.written = k
	v.pass = append([]byte{}, c20PassBytes(auth)...)
	return nil
}

func (v *c20Vault) JoinPath(filename string) string { return filename }

// signing primitives (engine only; suite overrides of this harness): they record
// which key object was asked to sign.
var c20Signed []*btcec.PrivateKey

// gitlab.com/aquachain/aquachain/crypto.Sign
func c20Sign(hash []byte, prv *btcec.PrivateKey) ([]byte, error) {
	c20Signed = append(c20Signed, prv)
	return vs.UF("ecdsa-sign", 65, hash, c20KeyOf(prv, nil).b32), nil
}

// gitlab.com/aquachain/aquachain/core/types.SignTx
func c20SignTx(tx *types.Transaction, s types.Signer, prv *btcec.PrivateKey) (*types.Transaction, error) {
	c20Signed = append(c20Signed, prv)
	return tx, nil
}

// c20ScalarBytes: any private scalar in [1, N) as 32 big-endian bytes (leading
// zero bytes included) - without math/big: the KeyStore layer never computes
// with the scalar.
func c20ScalarBytes(name string) []byte {
	b := vs.BytesN(name, 32)
	n := c20N.FillBytes(make([]byte, 32))
	var any byte
	var w, nw [4]uint64
	for i, x := range b {
		any |= x
		w[i/8] = w[i/8]<<8 | uint64(x)
		nw[i/8] = nw[i/8]<<8 | uint64(n[i])
	}
	vs.Assume(any != 0)
	// b < N, word by word from the most significant
	lt, eq := false, true
	for i := 0; i < 4; i++ {
		lt = c20Or(lt, c20And(eq, w[i] < nw[i]))
		eq = c20And(eq, w[i] == nw[i])
	}
	vs.Assume(lt)
	return b
}

func c20And(a, b bool) bool {
	n := 0
	if a {
		n++
	}
	if b {
		n++
	}
	return n == 2
}

func c20KeyFromBytes(d32 []byte) *Key {
	priv, _ := btcec.PrivKeyFromBytes(append([]byte{}, d32...))
	return &Key{Id: uuid.UUID(make([]byte, 16)), Address: crypto.PubkeyToAddress(priv.PubKey()), PrivateKey: priv}
}

// EncryptKey (engine only): the sealing of a key under a passphrase is the
// subject of VerifC20_RoundTrip; here it records what Export asks to be sealed.
var c20Sealed []c20Seal

type c20Seal struct {
	key  *Key
	auth string
	n, p int
}

func c20EncryptKeyRec(key *Key, auth string, scryptN, scryptP int) ([]byte, error) {
	c20Sealed = append(c20Sealed, c20Seal{key, auth, scryptN, scryptP})
	return []byte("@sealed"), nil
}

var c20Removed []string

// os.Remove
func c20Remove(name string) error {
	c20Removed = append(c20Removed, name)
	return nil
}

func c20ChanClosed(c chan struct{}) bool {
	select {
	case <-c:
		return true
	default:
		return false
	}
}

// VerifC20_UnlockGate: a key is stored under passphrase `pass`; the KeyStore's
// table of unlocked accounts is in any of its three states for that account
// (absent / unlocked with a timer / unlocked indefinitely).  One passphrase
// operation is called with an arbitrary passphrase `other`:
//
//	other != pass  =>  the operation returns an error and nothing else: no
//	                   signature / transaction / key file comes back, the table of
//	                   unlocked accounts is exactly what it was (same entry, timer
//	                   not stopped, key not wiped), nothing is signed, the stored
//	                   key is not re-encrypted, the key file is not removed;
//	other == pass  =>  it succeeds, and the key that it unlocks / signs with /
//	                   re-encrypts is the stored key (same scalar, same address).
//
// Operations: Unlock, TimedUnlock, SignHashWithPassphrase, SignTxWithPassphrase,
// Update, Export; Delete for the refusal direction only.
func VerifC20_UnlockGate() {
	noSignMode = false // (NO_SIGN mode refuses every signature, with or without passphrase)
	d32 := c20ScalarBytes("D")
	key := c20KeyFromBytes(d32)
	addr := key.Address
	vs.Assume(addr != (common.Address{})) // accounts.Account reads the zero address as "no address given"
	pass := vs.Bytes("pass", vs.Param("passlen"))
	other := vs.Bytes("other", vs.Param("passlen"))
	newpass := vs.BytesN("newpass", 1)

	file := c20Store([]byte("{}"))
	defer c20Unstore(file)
	stored := accounts.Account{Address: addr, URL: accounts.URL{Scheme: KeyStoreScheme, Path: file}}
	vault := &c20Vault{file: file, pass: pass, d32: d32}
	ks := &KeyStore{
		storage: vault,
		cache: &accountCache{
			keydir:  "/verif-c20-keydir",
			watcher: &watcher{running: true}, // the cache is current: no directory rescan
			all:     accountsByURL{stored},
			byAddr:  map[common.Address][]accounts.Account{addr: {stored}},
			notify:  make(chan struct{}, 1),
		},
		unlocked: make(map[common.Address]*unlocked),
	}

	// the state of the unlocked table
	state := vs.Choice("unlocked-state", 3)
	var u0 *unlocked
	var abort0 chan struct{}
	var key0 *Key
	switch state {
	case 1:
		abort0 = make(chan struct{})
		u0 = &unlocked{Key: c20KeyFromBytes(d32), abort: abort0}
	case 2:
		u0 = &unlocked{Key: c20KeyFromBytes(d32)}
	}
	if u0 != nil {
		key0 = u0.Key
		ks.unlocked[addr] = u0
	}
	untouched := func() bool {
		if u0 == nil {
			return len(ks.unlocked) == 0
		}
		if len(ks.unlocked) != 1 || ks.unlocked[addr] != u0 || u0.abort != abort0 || u0.Key != key0 {
			return false
		}
		if abort0 != nil && c20ChanClosed(abort0) {
			return false
		}
		return c20Eq(c20Scalar32(key0.PrivateKey), d32) // not wiped
	}

	right := false
	if len(other) == len(pass) {
		right = c20Eq(other, pass)
	}
	auth := c20Str(other)
	newAuth := c20Str(newpass)
	who := accounts.Account{Address: addr} // by address, as the RPC layer names accounts
	op := vs.Choice("op", 7)
	if op == 6 {
		vs.Assume(!right) // Delete: refusal direction only
	}

	var (
		err  error
		sig  []byte
		tx2  *types.Transaction
		blob []byte
		hash = vs.BytesN("hash", 32)
		tx   = types.NewTransaction(7, common.Address{19: 1}, big.NewInt(1), 21000, big.NewInt(1), nil)
	)
	switch op {
	case 0:
		err = ks.Unlock(who, auth)
	case 1:
		err = ks.TimedUnlock(who, auth, time.Hour)
	case 2:
		sig, err = ks.SignHashWithPassphrase(who, auth, hash)
	case 3:
		tx2, err = ks.SignTxWithPassphrase(who, auth, tx, nil)
	case 4:
		err = ks.Update(who, auth, newAuth)
	case 5:
		blob, err = ks.Export(who, auth, newAuth)
	default:
		err = ks.Delete(who, auth)
	}
	vs.Observe("refused", err != nil)

	if !right {
		vs.Reach("refused")
		vs.Assert(err != nil, "a passphrase other than the one the key is stored under is refused with an error, whatever the unlock state")
		vs.Assert(sig == nil && tx2 == nil && blob == nil, "nothing but the error comes back")
		vs.Assert(untouched(), "a refused passphrase leaves the table of unlocked accounts exactly as it was")
		vs.Assert(vault.writes == 0, "a refused passphrase does not re-encrypt the stored key")
		if vs.Symbolic() {
			vs.Assert(len(c20Signed) == 0, "a refused passphrase signs nothing")
			vs.Assert(len(c20Sealed) == 0, "a refused passphrase exports nothing")
			vs.Assert(len(c20Removed) == 0, "a refused passphrase removes no key file")
		} else {
			_, serr := os.Stat(file)
			vs.Assert(serr == nil, "a refused passphrase removes no key file")
		}
		return
	}

	vs.Reach("accepted")
	vs.Assert(err == nil, "the passphrase the key is stored under is accepted, whatever the unlock state")
	switch op {
	case 0, 1:
		u := ks.unlocked[addr]
		vs.Assert(len(ks.unlocked) == 1 && u != nil, "the account is unlocked")
		vs.Assert(c20SameKey(u.Key, key, d32), "the unlocked key is the stored key: same scalar, same address")
		if state == 2 {
			vs.Assert(u == u0, "an indefinite unlock is not altered")
		} else {
			vs.Assert((u.abort != nil) == (op == 1), "Unlock is indefinite, TimedUnlock has a timer")
		}
	case 2:
		vs.Assert(len(sig) == 65, "a 65-byte signature comes back")
		vs.Assert(untouched(), "signing with a passphrase does not change the unlock state")
		if vs.Symbolic() {
			vs.Assert(len(c20Signed) == 1 && c20Eq(c20KeyOf(c20Signed[0], nil).b32, d32), "signed once, with the stored key")
		} else {
			pub, perr := crypto.SigToPub(hash, sig)
			vs.Assert(perr == nil && crypto.PubkeyToAddress(pub) == addr, "signed with the stored key")
		}
	case 3:
		vs.Assert(tx2 != nil, "a signed transaction comes back")
		vs.Assert(untouched(), "signing with a passphrase does not change the unlock state")
		if vs.Symbolic() {
			vs.Assert(len(c20Signed) == 1 && c20Eq(c20KeyOf(c20Signed[0], nil).b32, d32), "signed once, with the stored key")
		} else {
			from, serr := types.Sender(types.HomesteadSigner{}, tx2)
			vs.Assert(serr == nil && from == addr, "signed with the stored key")
		}
	case 4:
		vs.Assert(untouched(), "changing the passphrase does not change the unlock state")
		vs.Assert(vault.writes == 1 && c20Eq(vault.pass, newpass), "the key is stored once more, under the new passphrase")
		vs.Assert(c20SameKey(vault.written, key, d32), "the key stored under the new passphrase is the same key")
	case 5:
		vs.Assert(len(blob) > 0, "a key file comes back")
		if vs.Symbolic() {
			vs.Assert(len(c20Sealed) == 1 && c20SameKey(c20Sealed[0].key, key, d32) && c20Sealed[0].auth == newAuth, "what is exported is the stored key, sealed under the new passphrase")
		} else {
			k2, derr := DecryptKey(blob, newAuth)
			vs.Assert(derr == nil && c20SameKey(k2, key, d32), "what is exported is the stored key, sealed under the new passphrase")
		}
		vs.Assert(untouched(), "exporting does not change the unlock state")
		vs.Assert(vault.writes == 0, "exporting does not touch the stored key")
	}
}
