package keystore

import (
	"gitlab.com/aquachain/aquachain/crypto"
	vs "gitlab.com/aquachain/aquachain/internal/verifsym"
)

// ---------------------------------------------------------------------------
// totality of DecryptKey on arbitrary file content

type c20Dev struct {
	name string
	key  string      // KDF parameter touched ("" = none)
	del  bool        // parameter removed
	val  interface{} // new value
}

var c20ScryptDevs = []c20Dev{
	{name: "well-formed"},
	{name: "salt missing", key: "salt", del: true},
	{name: "salt not a string", key: "salt", val: float64(1)},
	{name: "salt not hex", key: "salt", val: c20BadHex},
	{name: "dklen missing", key: "dklen", del: true},
	{name: "dklen a string", key: "dklen", val: "32"},
	{name: "dklen 0", key: "dklen", val: float64(0)},
	{name: "dklen 16", key: "dklen", val: float64(16)},
	{name: "dklen 31", key: "dklen", val: float64(31)},
	{name: "dklen 33", key: "dklen", val: float64(33)},
	{name: "dklen 64", key: "dklen", val: float64(64)},
	{name: "dklen -1", key: "dklen", val: float64(-1)},
	{name: "dklen -64", key: "dklen", val: float64(-64)},
	{name: "n missing", key: "n", del: true},
	{name: "n a string", key: "n", val: "4"},
	{name: "n 0", key: "n", val: float64(0)},
	{name: "n 3", key: "n", val: float64(3)},
	{name: "n 2", key: "n", val: float64(2)},
	{name: "r missing", key: "r", del: true},
	{name: "r a string", key: "r", val: "1"},
	{name: "r 0", key: "r", val: float64(0)},
	{name: "r -1", key: "r", val: float64(-1)},
	{name: "p missing", key: "p", del: true},
	{name: "p a string", key: "p", val: "1"},
	{name: "p 0", key: "p", val: float64(0)},
	{name: "p -1", key: "p", val: float64(-1)},
}

var c20PbkdfDevs = []c20Dev{
	{name: "well-formed"},
	{name: "salt missing", key: "salt", del: true},
	{name: "dklen missing", key: "dklen", del: true},
	{name: "dklen 0", key: "dklen", val: float64(0)},
	{name: "dklen -64", key: "dklen", val: float64(-64)},
	{name: "c missing", key: "c", del: true},
	{name: "c a string", key: "c", val: "2"},
	{name: "c 0", key: "c", val: float64(0)},
	{name: "c -5", key: "c", val: float64(-5)},
	{name: "prf missing", key: "prf", del: true},
	{name: "prf not a string", key: "prf", val: float64(1)},
	{name: "prf unsupported", key: "prf", val: "hmac-sha1"},
}

var (
	c20IVLens  = []int{16, 0, 15, 17, 32}
	c20CTLens  = []int{32, 0, 16, 31, 33}
	c20MACLens = []int{32, 0, 31}
)

// c20Pick: with which >= 0 only part number `which` of the file may deviate from
// a well-formed one; with which < 0 every part varies independently.
func c20Pick(which, part int, name string, n int) int {
	if which >= 0 && which != part {
		return 0
	}
	return vs.Choice(name, n)
}

// The totality harnesses: DecryptKey on a version-3 or version-1 file whose IV,
// ciphertext and MAC are byte strings of various lengths, whose MAC is right
// or wrong, and whose KDF parameters are missing / of the wrong JSON type /
// out of range: it returns (an error or a key) and never panics; a wrong MAC
// always gives ErrDecrypt.  One harness per part of the file that deviates
// (so that each class of defect is reported by its own harness), plus one
// where every part varies independently (thorough tier).

func VerifC20_DecryptKDFParams()  { c20DecryptTotal(0) }
func VerifC20_DecryptIV()         { c20DecryptTotal(1) }
func VerifC20_DecryptCiphertext() { c20DecryptTotal(2) }
func VerifC20_DecryptMAC()        { c20DecryptTotal(3 + vs.Choice("which", 2)) }
func VerifC20_DecryptMalformed()  { c20DecryptTotal(-1) }

func c20DecryptTotal(which int) {
	version := vs.Choice("version", 2) // 0: v3, 1: v1
	kdf := vs.Choice("kdf", 3)         // scrypt, pbkdf2, unknown
	pass := vs.Bytes("pass", vs.Param("passlen"))
	auth := c20Str(pass)
	salt := vs.BytesN("salt", vs.Param("saltlen"))

	params := map[string]interface{}{"dklen": float64(32), "salt": c20Hex(salt)}
	var devs []c20Dev
	kdfName := "scrypt"
	switch kdf {
	case 0:
		params["n"], params["r"], params["p"] = float64(4), float64(1), float64(1)
		devs = c20ScryptDevs
	case 1:
		kdfName = "pbkdf2"
		params["c"], params["prf"] = float64(2), "hmac-sha256"
		devs = c20PbkdfDevs
	default:
		kdfName = "bcrypt"
		devs = c20ScryptDevs[:1]
	}
	dev := devs[c20Pick(which, 0, "dev", len(devs))]
	if dev.key != "" {
		if dev.del {
			delete(params, dev.key)
		} else {
			params[dev.key] = dev.val
		}
	}
	iv := vs.BytesN("iv", c20IVLens[c20Pick(which, 1, "ivlen", len(c20IVLens))])
	ct := vs.BytesN("ct", c20CTLens[c20Pick(which, 2, "ctlen", len(c20CTLens))])
	cj := cryptoJSON{Cipher: "aes-128-ctr", CipherText: c20Hex(ct), CipherParams: cipherparamsJSON{IV: c20Hex(iv)}, KDF: kdfName, KDFParams: params}
	if c20Pick(which, 4, "cipher", 2) == 1 {
		cj.Cipher = "aes-256-ctr"
	}

	// the right MAC, where the KDF parameters allow one to be computed
	var goodMAC []byte
	vs.NoPanic(func() {
		if dk, err := getKDFKey(cj, auth); err == nil {
			goodMAC = crypto.Keccak256(dk[16:32], ct)
		}
	})
	macGood := false
	var mac []byte
	if goodMAC != nil && c20Pick(which, 3, "macgood", 2) == 0 {
		mac, macGood = goodMAC, true
	} else {
		mac = vs.BytesN("mac", c20MACLens[c20Pick(which, 3, "maclen", len(c20MACLens))])
		if goodMAC != nil {
			vs.Assume(!c20Eq(mac, goodMAC))
		}
	}
	cj.MAC = c20Hex(mac)

	var file []byte
	if version == 0 {
		file = c20FileOf(encryptedKeyJSONV3{Address: "", Crypto: cj, Id: "", Version: 3})
	} else {
		file = c20FileOf(encryptedKeyJSONV1{Address: "", Crypto: cj, Id: "", Version: "1"})
	}
	var key *Key
	var err error
	panicked := vs.NoPanic(func() { key, err = DecryptKey(file, auth) })
	what := "kdf parameters: " + dev.name
	switch which {
	case 1:
		what = "iv length"
	case 2:
		what = "ciphertext length"
	case 3:
		what = "mac"
	case 4:
		what = "cipher name"
	}
	if which < 0 {
		what = "several parts malformed"
	}
	vs.Assert(!panicked, "DecryptKey panics instead of returning an error ("+what+")")
	if err != nil {
		vs.Reach("error")
		vs.Assert(key == nil, "no key is returned together with an error")
	} else {
		vs.Reach("key")
		vs.Assert(key != nil && key.PrivateKey != nil, "a key is returned when there is no error")
		vs.Assert(macGood, "a key is returned only when the MAC matches")
	}
	if goodMAC != nil && !macGood && cj.Cipher == "aes-128-ctr" {
		vs.Assert(err == ErrDecrypt, "wrong MAC gives ErrDecrypt")
	}
}
