package keystore

// C20 harnesses: keystore encryption round-trips and rejects wrong passphrases
// and tampering.  Executed symbolically by /verif/engine (suite
// /verif/suites/C20.json); the same source is compiled natively for replay.
//
// Under the engine the primitives are uninterpreted functions reached through
// redirect overrides (scrypt.Key, pbkdf2.Key, aes.NewCipher, cipher.NewCTR,
// cipher.NewCBCDecrypter, Keccak256, btcec key handling, hex, json, ReadFile,
// entropy); the stubs keep the documented contracts of the real functions that
// matter for totality (panics on bad IV length, on non-block input, the
// division by zero inside scrypt.Key for r*p == 0, the capacity of the KDF
// output buffer).  Strings are concrete in the engine, so hex strings and the
// passphrase are *handles* that the hex / KDF stubs map to symbolic byte strings;
// natively they are real hex strings / the real passphrase.

import (
	"crypto/aes"
	"crypto/cipher"
	"crypto/ecdsa"
	"crypto/elliptic"
	"encoding/hex"
	"encoding/json"
	"errors"
	"hash"
	"math/big"
	"os"

	"github.com/btcsuite/btcd/btcec/v2"
	"github.com/pborman/uuid"
	"gitlab.com/aquachain/aquachain/common/math"
	"gitlab.com/aquachain/aquachain/crypto"
	vs "gitlab.com/aquachain/aquachain/internal/verifsym"
)

// ---------------------------------------------------------------------------
// handles (engine only)

var (
	c20Blobs   = map[string][]byte{}
	c20Handles = []string{"@h0", "@h1", "@h2", "@h3", "@h4", "@h5", "@h6", "@h7", "@h8", "@h9", "@h10", "@h11", "@h12", "@h13", "@h14", "@h15", "@h16", "@h17", "@h18", "@h19"}
	c20NextH   int
)

const c20BadHex = "@not-hex"

func c20Handle(b []byte) string {
	h := c20Handles[c20NextH]
	c20NextH++
	c20Blobs[h] = append([]byte{}, b...)
	return h
}

// c20Hex: the hex string of b (handle under the engine).
func c20Hex(b []byte) string {
	if vs.Symbolic() {
		return c20Handle(b)
	}
	return hex.EncodeToString(b)
}

// c20Str: the string with bytes b (handle under the engine) - passphrases.
func c20Str(b []byte) string {
	if vs.Symbolic() {
		return c20Handle(b)
	}
	return string(b)
}

func c20Lookup(h string) []byte {
	b, ok := c20Blobs[h]
	if !ok {
		panic("c20: string is not a registered handle: " + h)
	}
	return b
}

// encoding/hex.DecodeString
func c20HexDecode(s string) ([]byte, error) {
	if s == c20BadHex {
		return nil, hex.InvalidByteError('@')
	}
	return append([]byte{}, c20Lookup(s)...), nil
}

// encoding/hex.EncodeToString
func c20HexEncode(b []byte) string { return c20Handle(b) }

// ---------------------------------------------------------------------------
// uninterpreted primitives with the "ideal primitive" assumptions: outputs of
// different inputs differ (keccak, public key), and for the KDF both halves of
// the derived key differ.

type c20Call struct {
	args [][]byte
	nums []uint64
	out  []byte
}

var c20Calls = map[string][]c20Call{}

func c20SameArgs(a, b *c20Call) bool {
	if len(a.args) != len(b.args) || len(a.nums) != len(b.nums) {
		return false
	}
	same := true
	for i := range a.nums {
		if a.nums[i] != b.nums[i] {
			return false // concrete numbers
		}
	}
	for i := range a.args {
		if len(a.args[i]) != len(b.args[i]) {
			return false
		}
		if !c20Eq(a.args[i], b.args[i]) {
			same = false
		}
	}
	return same
}

// c20Canon: b without its trailing zero bytes (what HMAC makes of a key of up
// to one hash block).
func c20Canon(b []byte) []byte {
	if len(b) > 64 {
		panic("c20: passphrases longer than the HMAC block size are not modelled")
	}
	n := len(b)
	for n > 0 && b[n-1] == 0 {
		n--
	}
	return b[:n]
}

// c20Eq: byte-string equality without branching per byte.
func c20Eq(a, b []byte) bool {
	if len(a) != len(b) {
		return false
	}
	var d byte
	for i := range a {
		d |= a[i] ^ b[i]
	}
	return d == 0
}

// c20IdealOn: harnesses whose statement depends on the primitives being
// collision-free switch the "ideal primitive" assumptions on.
var c20IdealOn bool

// c20Ideal records the call and (if c20IdealOn) assumes that, compared with
// every earlier call of the same primitive with arguments of the same shape,
// different inputs gave different outputs on the byte range [lo,hi) (and on
// [lo2,hi2) if hi2 > lo2).
func c20Ideal(prim string, c c20Call, lo, hi, lo2, hi2 int) {
	if !c20IdealOn {
		return
	}
	for i := range c20Calls[prim] {
		o := &c20Calls[prim][i]
		same := false
		if c20SameShape(o, &c) {
			same = c20SameArgs(o, &c)
		} else if prim != "kdf" {
			continue // calls of different shape are only related for the KDF (passphrases of different length)
		}
		if len(o.out) >= hi && len(c.out) >= hi && hi > lo {
			vs.Assume(c20Or(same, !c20Eq(o.out[lo:hi], c.out[lo:hi])))
		}
		if len(o.out) >= hi2 && len(c.out) >= hi2 && hi2 > lo2 {
			vs.Assume(c20Or(same, !c20Eq(o.out[lo2:hi2], c.out[lo2:hi2])))
		}
	}
	c20Calls[prim] = append(c20Calls[prim], c)
}

func c20Or(a, b bool) bool {
	n := 0
	if a {
		n++
	}
	if b {
		n++
	}
	return n > 0
}

func c20SameShape(a, b *c20Call) bool {
	if len(a.args) != len(b.args) || len(a.nums) != len(b.nums) {
		return false
	}
	for i := range a.args {
		if len(a.args[i]) != len(b.args[i]) {
			return false
		}
	}
	return true
}

// crypto/sha3.Keccak256
func c20Keccak256(data ...[]byte) []byte {
	var cat []byte
	for _, d := range data {
		cat = append(cat, d...)
	}
	out := vs.UF("keccak256", 32, cat)
	c20Ideal("keccak256", c20Call{args: [][]byte{cat}, out: out}, 0, 32, 12, 32)
	return out
}

const c20maxInt = int(^uint(0) >> 1)

// c20KDFOut: what pbkdf2.Key leaves: keyLen bytes of a buffer of ceil(keyLen/32)*32
// bytes, block i an uninterpreted function of (password, salt, parameters, i) -
// so, as with the real PBKDF2, a longer key extends a shorter one.
func c20KDFOut(name string, password, salt []byte, keyLen int, nums ...uint64) []byte {
	numBlocks := (keyLen + 32 - 1) / 32
	dk := make([]byte, 0, numBlocks*32)
	dk = dk[:numBlocks*32]
	if numBlocks > 0 {
		// HMAC pads its key with zero bytes to the hash block size: passwords that
		// differ only in trailing zero bytes are the same key (modelled for
		// passwords of up to 64 bytes, the SHA-256 block size)
		pass := c20Canon(c20Lookup(string(password)))
		for len(nums) < 3 {
			nums = append(nums, 0)
		}
		for i := 0; i < numBlocks; i++ {
			out := vs.UFX(name, 32, pass, salt, nums[0], nums[1], nums[2], uint64(i))
			copy(dk[32*i:], out)
			if i == 0 {
				c20Ideal("kdf", c20Call{args: [][]byte{[]byte(name), pass, salt}, nums: nums, out: out}, 0, 16, 16, 32)
			}
		}
	}
	return dk[:keyLen]
}

// golang.org/x/crypto/scrypt.Key (parameter checks as in x/crypto v0.37.0)
func c20Scrypt(password, salt []byte, N, r, p, keyLen int) ([]byte, error) {
	if N <= 1 || N&(N-1) != 0 {
		return nil, errors.New("scrypt: N must be > 1 and a power of 2")
	}
	if uint64(r)*uint64(p) >= 1<<30 || r > c20maxInt/128/p || r > c20maxInt/256 || N > c20maxInt/128/r {
		return nil, errors.New("scrypt: parameters are too large")
	}
	return c20KDFOut("scrypt", password, salt, keyLen, uint64(N), uint64(r), uint64(p)), nil
}

// golang.org/x/crypto/pbkdf2.Key
func c20Pbkdf2(password, salt []byte, iter, keyLen int, h func() hash.Hash) []byte {
	return c20KDFOut("pbkdf2", password, salt, keyLen, uint64(iter))
}

// --- AES

type c20Block struct{ key []byte }

func (b *c20Block) BlockSize() int          { return aes.BlockSize }
func (b *c20Block) Encrypt(dst, src []byte) { panic("c20: raw block encryption is not modelled") }
func (b *c20Block) Decrypt(dst, src []byte) { panic("c20: raw block decryption is not modelled") }

// crypto/aes.NewCipher
func c20NewCipher(key []byte) (cipher.Block, error) {
	switch len(key) {
	case 16, 24, 32:
	default:
		return nil, aes.KeySizeError(len(key))
	}
	return &c20Block{key: append([]byte{}, key...)}, nil
}

type c20CTR struct {
	key, iv []byte
	used    bool
}

func (s *c20CTR) XORKeyStream(dst, src []byte) {
	if len(dst) < len(src) {
		panic("crypto/cipher: output smaller than input")
	}
	if s.used {
		panic("c20: second XORKeyStream on one stream is not modelled")
	}
	s.used = true
	if len(src) == 0 {
		return
	}
	ks := vs.UF("aes-ctr-keystream", len(src), s.key, s.iv)
	for i := range src {
		dst[i] = src[i] ^ ks[i]
	}
}

// crypto/cipher.NewCTR
func c20NewCTR(block cipher.Block, iv []byte) cipher.Stream {
	if len(iv) != block.BlockSize() {
		panic("cipher.NewCTR: IV length must equal block size")
	}
	return &c20CTR{key: block.(*c20Block).key, iv: append([]byte{}, iv...)}
}

type c20CBC struct{ key, iv []byte }

func (c *c20CBC) BlockSize() int { return aes.BlockSize }
func (c *c20CBC) CryptBlocks(dst, src []byte) {
	if len(src)%aes.BlockSize != 0 {
		panic("crypto/cipher: input not full blocks")
	}
	if len(dst) < len(src) {
		panic("crypto/cipher: output smaller than input")
	}
	if len(src) == 0 {
		return
	}
	copy(dst, vs.UF("aes-cbc-decrypt", len(src), c.key, c.iv, src))
}

// crypto/cipher.NewCBCDecrypter
func c20NewCBCDecrypter(block cipher.Block, iv []byte) cipher.BlockMode {
	if len(iv) != block.BlockSize() {
		panic("cipher.NewCBCDecrypter: IV length must equal block size")
	}
	return &c20CBC{key: block.(*c20Block).key, iv: append([]byte{}, iv...)}
}

// --- secp256k1 keys: a private key object stands for the 32-byte big-endian
// value it was made from (btcec.PrivKeyFromBytes pads/truncates to 32 bytes;
// reduction modulo the group order is not modelled: values are below N or the
// result is only compared through the public-key function).

type c20KeyRec struct {
	priv *btcec.PrivateKey
	pub  *btcec.PublicKey
	b32  []byte
}

var c20Keys []c20KeyRec

func c20KeyOf(priv *btcec.PrivateKey, pub *btcec.PublicKey) *c20KeyRec {
	for i := range c20Keys {
		if (priv != nil && c20Keys[i].priv == priv) || (pub != nil && c20Keys[i].pub == pub) {
			return &c20Keys[i]
		}
	}
	panic("c20: key object was not created by the PrivKeyFromBytes model")
}

// btcec.PrivKeyFromBytes
func c20PrivKeyFromBytes(pk []byte) (*btcec.PrivateKey, *btcec.PublicKey) {
	if len(pk) > 32 {
		pk = pk[:32]
	}
	b32 := make([]byte, 32)
	copy(b32[32-len(pk):], pk)
	rec := c20KeyRec{priv: new(btcec.PrivateKey), pub: new(btcec.PublicKey), b32: b32}
	c20Keys = append(c20Keys, rec)
	return rec.priv, rec.pub
}

// (*secp256k1.PrivateKey).PubKey
func c20PubKey(p *btcec.PrivateKey) *btcec.PublicKey { return c20KeyOf(p, nil).pub }

type c20Curve struct{ elliptic.Curve }

func (c20Curve) Params() *elliptic.CurveParams { return &elliptic.CurveParams{BitSize: 256, Name: "secp256k1"} }

// (*secp256k1.PrivateKey).ToECDSA
func c20ToECDSA(p *btcec.PrivateKey) *ecdsa.PrivateKey {
	return &ecdsa.PrivateKey{PublicKey: ecdsa.PublicKey{Curve: c20Curve{}}, D: new(big.Int).SetBytes(c20KeyOf(p, nil).b32)}
}

// (*secp256k1.PublicKey).SerializeUncompressed
func c20SerializeUncompressed(p *btcec.PublicKey) []byte {
	b32 := c20KeyOf(nil, p).b32
	out := vs.UF("secp256k1-pubkey", 65, b32)
	c20Ideal("pubkey", c20Call{args: [][]byte{b32}, out: out}, 1, 65, 0, 0)
	out[0] = 4
	return out
}

// --- file content: JSON is bypassed, the marshalled value itself is "the file"

var c20File interface{}

// encoding/json.Marshal
func c20JSONMarshal(v interface{}) ([]byte, error) {
	c20File = v
	return []byte("@json"), nil
}

func c20JSONNumbers(m map[string]interface{}) map[string]interface{} {
	out := make(map[string]interface{}, len(m))
	for _, k := range []string{"n", "r", "p", "dklen", "salt", "c", "prf"} {
		v, ok := m[k]
		if !ok {
			continue
		}
		if i, isInt := v.(int); isInt {
			v = float64(i) // what encoding/json makes of a number
		}
		out[k] = v
	}
	return out
}

// encoding/json.Unmarshal
func c20JSONUnmarshal(data []byte, v interface{}) error {
	switch t := v.(type) {
	case *map[string]interface{}:
		switch f := c20File.(type) {
		case encryptedKeyJSONV3:
			(*t)["version"] = float64(f.Version)
		case encryptedKeyJSONV1:
			(*t)["version"] = f.Version
		default:
			return errors.New("c20: no file")
		}
		return nil
	case *encryptedKeyJSONV3:
		f, ok := c20File.(encryptedKeyJSONV3)
		if !ok {
			return errors.New("json: cannot unmarshal string into Go struct field .version of type int")
		}
		*t = f
		t.Crypto.KDFParams = c20JSONNumbers(f.Crypto.KDFParams)
		return nil
	case *encryptedKeyJSONV1:
		f, ok := c20File.(encryptedKeyJSONV1)
		if !ok {
			return errors.New("json: cannot unmarshal number into Go struct field .version of type string")
		}
		*t = f
		t.Crypto.KDFParams = c20JSONNumbers(f.Crypto.KDFParams)
		return nil
	}
	return errors.New("c20: unexpected json.Unmarshal target")
}

// io/ioutil.ReadFile
func c20ReadFile(name string) ([]byte, error) { return []byte("@json"), nil }

// randentropy.GetEntropyCSPRNG
func c20Entropy(n int) []byte { return vs.BytesN("entropy", n) }

// ---------------------------------------------------------------------------
// harness helpers

var (
	c20N, _ = new(big.Int).SetString("115792089237316195423570985008687907852837564279074904382605163141518161494337", 10)
)

// c20Scalar: any private scalar in [1, N) - including values with leading zero bytes.
func c20Scalar(name string) *big.Int {
	D := vs.BigU(name, 256)
	vs.Assume(D.Sign() > 0)
	vs.Assume(D.Cmp(c20N) < 0)
	return D
}

func c20NewKey(D *big.Int) *Key {
	priv, _ := btcec.PrivKeyFromBytes(D.FillBytes(make([]byte, 32)))
	return &Key{Id: uuid.UUID(make([]byte, 16)), Address: crypto.PubkeyToAddress(priv.PubKey()), PrivateKey: priv}
}

// c20Scalar32: the private scalar of a key as 32 big-endian bytes (independent of FromECDSA).
func c20Scalar32(k *btcec.PrivateKey) []byte {
	if vs.Symbolic() {
		return c20KeyOf(k, nil).b32
	}
	return k.Serialize()
}

// c20Store: make json "the file" ks.GetKey will read; returns the file name.
func c20Store(keyjson []byte) string {
	if vs.Symbolic() {
		return "@file"
	}
	f, err := os.CreateTemp("", "verif-c20-")
	if err != nil {
		panic(err)
	}
	f.Write(keyjson)
	f.Close()
	return f.Name()
}

func c20Unstore(name string) {
	if !vs.Symbolic() {
		os.Remove(name)
	}
}

// c20FileOf: the marshalled form of a key-file struct.
func c20FileOf(v interface{}) []byte {
	b, err := json.Marshal(v)
	if err != nil {
		panic(err)
	}
	return b
}

// c20Parse: the V3 struct of an encrypted key blob (natively by real JSON).
func c20Parse(keyjson []byte) encryptedKeyJSONV3 {
	var k encryptedKeyJSONV3
	if err := json.Unmarshal(keyjson, &k); err != nil {
		panic(err)
	}
	return k
}

func c20Unhex(s string) []byte {
	b, err := hex.DecodeString(s)
	if err != nil {
		panic(err)
	}
	return b
}

// ---------------------------------------------------------------------------

// VerifC20_PaddedBigBytes: for every D < 2^256, math.PaddedBigBytes(D, 32) and
// crypto.FromECDSA are exactly the 32-byte big-endian encoding of D (leading
// zero bytes kept), and ReadBits fills any buffer with the low bytes.
func VerifC20_PaddedBigBytes() {
	D := vs.BigU("D", 256)
	b := math.PaddedBigBytes(D, 32)
	vs.Assert(len(b) == 32, "PaddedBigBytes(D,32) has 32 bytes")
	want := D.FillBytes(make([]byte, 32))
	vs.Assert(c20Eq(b, want), "PaddedBigBytes(D,32) is the big-endian encoding of D")
	vs.Observe("padded", b)
	n := vs.Param("readbits")
	buf := make([]byte, n)
	math.ReadBits(D, buf)
	vs.Assert(c20Eq(buf, want[32-n:]), "ReadBits fills the buffer with the low bytes of D")
	if D.Sign() > 0 {
		priv, _ := btcec.PrivKeyFromBytes(want)
		fb := crypto.FromECDSA(priv)
		if vs.Symbolic() || D.Cmp(c20N) < 0 {
			vs.Assert(len(fb) == 32 && c20Eq(fb, want), "FromECDSA is the 32-byte encoding of the scalar")
		}
	}
}
