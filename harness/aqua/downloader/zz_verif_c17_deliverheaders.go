package downloader

// C17 harness (sync side): a header batch delivered by a remote peer in answer
// to a skeleton-fill request is either accepted as exactly the requested,
// parent-linked, skeleton-anchored run of headers, or rejected with an error
// that leaves the assembled results untouched - and no batch whatsoever is
// fatal to the sync goroutine (queue.DeliverHeaders never panics).
//
// The batch is what the RLP decoder hands over: every header has Version unset
// (the field is `rlp:"-"`), Number / ParentHash / Nonce arbitrary.  The queue
// state is produced by the real newQueue / ScheduleSkeleton / ReserveHeaders.
//
// Executed symbolically by /verif/engine; compiled natively for replay.
// Engine-only overrides: core/types.rlpHash -> c17dlRlpHash (uninterpreted
// header hash, injective on the headers that occur), common.Report -> noop,
// log sinks -> noop (their arguments are still evaluated by the caller).
// Natively the real keccak/argon2id header hashes run; parent links and the
// skeleton anchor are therefore given *relative* to the hash of the previous
// header (ParentHash = hash(prev) XOR diff, diff symbolic), which loses no
// generality and lets a native run follow the engine's path.

import (
	"math/big"

	"gitlab.com/aquachain/aquachain/common"
	"gitlab.com/aquachain/aquachain/core/types"
	vs "gitlab.com/aquachain/aquachain/internal/verifsym"
	"gitlab.com/aquachain/aquachain/params"
)

type c17dlHashRec struct {
	ver    byte
	num    *big.Int
	parent common.Hash
	nonce  types.BlockNonce
	out    common.Hash
}

var c17dlHashes []c17dlHashRec

// c17dlRlpHash replaces core/types.rlpHash under the engine: an uninterpreted
// function of (hash version, Number, ParentHash, Nonce) - the only header
// fields that vary in this fixture - assumed collision free on the argument
// tuples that occur in the run.
func c17dlRlpHash(version byte, x interface{}) (h common.Hash) {
	hd, ok := x.(*types.Header)
	if !ok {
		panic("c17dlRlpHash: only headers are hashed in this fixture")
	}
	copy(h[:], vs.UFX("c17dl_rlphash", 32, version, hd.Number, hd.ParentHash[:], hd.Nonce[:]))
	for _, r := range c17dlHashes {
		// "all four arguments equal, or the results differ" - counted, not
		// and-ed, so that the engine merges the diamonds instead of forking
		m := 0
		if version == r.ver {
			m++
		}
		if hd.Number.Cmp(r.num) == 0 {
			m++
		}
		if hd.ParentHash == r.parent {
			m++
		}
		if hd.Nonce == r.nonce {
			m++
		}
		if r.out != h {
			m += 4
		}
		vs.Assume(m >= 4)
	}
	c17dlHashes = append(c17dlHashes, c17dlHashRec{version, new(big.Int).Set(hd.Number), hd.ParentHash, hd.Nonce, h})
	return h
}

func c17dlXor(a common.Hash, b []byte) (r common.Hash) {
	for i := range r {
		r[i] = a[i] ^ b[i]
	}
	return r
}

// c17dlWireHeader is a header as the RLP decoder produces it: big fields
// non-nil, Version unset.
func c17dlWireHeader(parent common.Hash) *types.Header {
	h := &types.Header{
		ParentHash: parent,
		Difficulty: new(big.Int),
		Number:     vs.BigU("number", 72),
		Time:       new(big.Int),
	}
	copy(h.Nonce[:], vs.BytesN("nonce", 8))
	return h
}

func VerifC17_DeliverHeaders() {
	defer func(old int) { MaxHeaderFetch = old }(MaxHeaderFetch)
	MaxHeaderFetch = vs.Param("batch")
	batch := MaxHeaderFetch

	// hash-version rule of the chain: version 1 below the fork height, 2 from it
	// on (never unset, like ChainConfig.GetBlockVersion)
	hf := vs.BigU("hf", 64)
	rule := func(n *big.Int) params.HeaderVersion {
		v := params.HeaderVersion(1)
		if n.Cmp(hf) >= 0 {
			v = 2
		}
		return v
	}
	// the hash the header has on this chain; leaves the header as it came off the wire
	chainHash := func(h *types.Header) common.Hash {
		h.Version = rule(h.Number)
		x := h.Hash()
		h.Version = types.H_UNSET
		return x
	}

	// the delivered batch: 0 .. batch+1 headers
	n := vs.Choice("n", batch+2)
	headers := make([]*types.Header, n)
	linked := make([]bool, n)
	zero := common.Hash{}
	for i := range headers {
		if i == 0 {
			headers[i] = c17dlWireHeader(common.BytesToHash(vs.BytesN("parent0", 32)))
			continue
		}
		diff := common.BytesToHash(vs.BytesN("linkdiff", 32))
		linked[i] = diff == zero
		headers[i] = c17dlWireHeader(c17dlXor(chainHash(headers[i-1]), diff[:]))
	}

	// the skeleton the fill requests hang on: 1 .. skel headers of arbitrary content
	nskel := 1 + vs.Choice("nskel", vs.Param("skel"))
	skeleton := make([]*types.Header, nskel)
	for k := range skeleton {
		anchor := common.BytesToHash(vs.BytesN("anchordiff", 32))
		if n > 0 {
			anchor = c17dlXor(headers[n-1].ParentHash, anchor[:])
		}
		skeleton[k] = c17dlWireHeader(anchor)
	}

	from := vs.U64("from")
	vs.Assume(from >= 1 && from < 1<<40)
	q := newQueue(rule)
	q.ScheduleSkeleton(from, skeleton)
	q.ReserveHeaders(&peerConnection{id: "p0"}, 1)
	q.ReserveHeaders(&peerConnection{id: "p1"}, 1)

	id := [3]string{"p0", "p1", "stranger"}[vs.Choice("who", 3)]
	pend := q.headerPendPool[id]
	pendBefore := len(q.headerPendPool)
	tasksBefore := q.headerTaskQueue.Size()
	var reqFrom uint64
	var anchor *types.Header
	if pend != nil {
		reqFrom = pend.From
		anchor = q.headerTaskPool[reqFrom]
		vs.Assert(anchor != nil, "a pending fill request has its skeleton header")
	}
	procCh := make(chan []*types.Header, 1)

	acc, err := q.DeliverHeaders(id, headers, procCh)

	vs.Observe("acc", acc)
	vs.Observe("err", err != nil)
	vs.Assert(q.headerPendPool[id] == nil, "the request is no longer pending")

	unchanged := func() {
		for _, r := range q.headerResults {
			vs.Assert(r == nil, "rejected delivery: result slots untouched")
		}
		vs.Assert(q.headerProced == 0, "rejected delivery: processing mark unmoved")
		vs.Assert(len(procCh) == 0, "rejected delivery: nothing handed to the processor")
		vs.Assert(len(q.headerTaskPool) == nskel, "rejected delivery: no fill task retired")
	}

	if pend == nil {
		vs.Assert(acc == 0, "unrequested delivery reports nothing accepted")
		vs.Assert(err == errNoFetchesPending, "unrequested delivery is rejected")
		vs.Assert(len(q.headerPendPool) == pendBefore, "unrequested delivery: pending pool untouched")
		vs.Assert(q.headerTaskQueue.Size() == tasksBefore, "unrequested delivery: task queue untouched")
		unchanged()
		vs.Reach("unrequested")
		return
	}

	// specification of an acceptable fill
	wellFormed := n == batch
	if wellFormed {
		for i, h := range headers {
			if h.Number.Uint64() != reqFrom+uint64(i) {
				wellFormed = false
			}
			if i > 0 && !linked[i] {
				wellFormed = false
			}
		}
		last := headers[n-1]
		if last.Number.Cmp(anchor.Number) != 0 {
			wellFormed = false
		}
		if last.ParentHash != anchor.ParentHash {
			wellFormed = false
		}
		if last.Nonce != anchor.Nonce {
			wellFormed = false
		}
	}

	vs.Assert((err == nil) == wellFormed, "accepted iff the batch is the requested, parent-linked, skeleton-anchored run")
	if err != nil {
		vs.Assert(acc == 0, "rejected delivery reports nothing accepted")
		unchanged()
		vs.Assert(len(q.headerPendPool) == pendBefore-1, "rejected delivery: the request is retired")
		vs.Assert(q.headerTaskQueue.Size() == tasksBefore+1, "rejected delivery: the fill task is schedulable again")
		_, missed := q.headerPeerMiss[id][reqFrom]
		vs.Assert(missed, "rejected delivery: the peer is remembered as lacking the batch")
		vs.Reach("rejected")
		return
	}
	vs.Assert(acc == n, "accepted delivery reports every header")
	off := int(reqFrom - from)
	for i, h := range headers {
		vs.Assert(q.headerResults[off+i] == h, "accepted delivery: result slots hold exactly the delivered headers")
		vs.Assert(h.Version != types.H_UNSET, "accepted delivery: headers are hashable")
		vs.Assert(h.Version == rule(h.Number), "accepted delivery: headers carry the chain's hash version")
	}
	for i, r := range q.headerResults {
		vs.Assert(r != nil == (i >= off && i < off+n), "accepted delivery: no other slot written")
	}
	vs.Assert(q.headerTaskPool[reqFrom] == nil, "accepted delivery retires the fill task")
	vs.Assert(len(q.headerTaskPool) == nskel-1, "accepted delivery retires only that task")
	vs.Reach("accepted")
}
