package event

// C19 for the type-indexed dispatcher (TypeMux, same anchored file event.go):
// TypeMux.Post snapshots the subscriber list of the event's type under the read
// lock and delivers to that snapshot WITHOUT the lock, so "every subscriber that
// subscribed before the Post and has not unsubscribed receives the event exactly
// once" rests on one discipline: a published subscriber list is never edited in
// place.  Subscribe and Unsubscribe (TypeMux.del) must install a new list and
// leave every list handed out earlier - the one a blocked Post is iterating
// over - exactly as it was; the installed list holds exactly the remaining
// subscribers, each once, in subscription order.

import (
	"reflect"

	vs "gitlab.com/aquachain/aquachain/internal/verifsym"
)

type c19MuxEv int

func c19muxSame(a, b []*TypeMuxSubscription) bool {
	if len(a) != len(b) {
		return false
	}
	for i := range a {
		if a[i] != b[i] {
			return false
		}
	}
	return true
}

func VerifC19_MuxSnapshotImmutable() {
	n := 2 + vs.Choice("subs", vs.Param("subs")-1) // 2..subs subscribers of one event type
	mux := new(TypeMux)
	subs := make([]*TypeMuxSubscription, n)
	for i := range subs {
		subs[i] = mux.Subscribe(c19MuxEv(0))
	}
	rtyp := reflect.TypeOf(c19MuxEv(0))

	// the list a Post that is blocked in its delivery loop holds
	snap := mux.subm[rtyp]
	vs.Assert(c19muxSame(snap, subs), "the list holds the subscribers in subscription order")

	// while it is blocked: any subscriber leaves (the list edit of Unsubscribe) ...
	j := vs.Int("leaver")
	vs.Assume(0 <= j && j < n)
	mux.del(subs[j])
	vs.Assert(c19muxSame(snap, subs), "Unsubscribe leaves the list a running Post iterates over exactly as it was (no skipped, no doubled delivery)")
	var rest []*TypeMuxSubscription
	for i, s := range subs {
		if i != j {
			rest = append(rest, s)
		}
	}
	cur := mux.subm[rtyp]
	vs.Assert(c19muxSame(cur, rest), "the installed list holds exactly the remaining subscribers, each once, in order")

	// ... a second one leaves, and a new one arrives, while a second Post holds the current list
	snap2 := cur
	held := append([]*TypeMuxSubscription{}, cur...)
	if vs.Bool("secondLeaves") {
		k := vs.Int("leaver2")
		vs.Assume(0 <= k && k < len(rest))
		mux.del(rest[k])
		vs.Reach("second-leaves")
	}
	late := mux.Subscribe(c19MuxEv(0))
	vs.Assert(c19muxSame(snap2, held), "later Unsubscribe / Subscribe calls leave the second Post's list as it was")
	vs.Assert(c19muxSame(snap, subs), "and the first Post's list as well")
	now := mux.subm[rtyp]
	vs.Assert(len(now) > 0 && now[len(now)-1] == late && find(now, subs[j]) == -1, "the new subscriber is appended, the one that left stays out")
	vs.Observe("leaver", j)
}
