package event

// C19 harnesses: event feeds deliver every value exactly once to every live
// subscriber.
//
// Feed.Send / Feed.remove are executed by the engine as *sequential* code.  The
// Go scheduler is replaced by an explicit environment script:
//
//   rdy_<k>_<r>        is a receiver for subscriber channel k ready during the
//                      r-th non-blocking pass of Send (TrySend outcome)
//   ev, ev#1, ...      what ends the i-th wait in reflect.Select: a receiver
//                      takes the value from channel k, or Unsubscribe of
//                      subscriber k (the real remove() runs and hands its
//                      channel over removeSub), or - without waking Send - a
//                      new Subscribe / an Unsubscribe that is served from inbox,
//                      or "another goroutine calls Send(v2) now and runs until it
//                      blocks" (vs.UntilBlocked; on the unchanged code it parks at
//                      <-f.sendLock without having touched anything)
//
// Under the engine (reflect.Value).TrySend and reflect.Select are redirected
// (suite overrides) to c19TrySend / c19Select below, which consume the script.
// Natively (replay of counterexamples, validation of sampled paths) the *same
// script* is enacted against the real runtime by a controller goroutine
// (c19World.native): GOMAXPROCS(1), buffered subscriber channels whose free
// slots stand for ready receivers; every controller action completes without
// yielding, so the interleaving is the scripted one.
//
// All assertions are phrased over the observable bookkeeping (deliveries per
// channel, Send's result, the feed's lists and token), identically in both modes.

import (
	"reflect"
	"runtime"
	"time"

	vs "gitlab.com/aquachain/aquachain/internal/verifsym"
)

// c19Msg is the element type of the subscriber channels.  Real == false marks
// the filler values the native controller uses to keep a channel "not ready".
type c19Msg struct {
	Real bool
	V    int
}

type c19World struct {
	f     *Feed
	n     int
	ch    []chan c19Msg
	sub   []Subscription
	unsub []bool // Unsubscribe of subscriber k has returned
	deliv []int  // delivery events on channel k
	late  bool   // a delivery event happened on a channel after its Unsubscribe returned
	wrong bool   // a delivered value differs from the value given to Send

	value interface{} // the value given to Send
	msg   c19Msg

	round     int   // number of completed Select waits = index of the current TrySend pass
	maxRounds int   // unwinding bound for the Send loop
	asked     []int // engine: TrySend calls on channel k in the current pass

	// a subscriber that arrives while Send is running
	lateOn    bool
	lateCh    chan c19Msg
	lateSub   Subscription
	lateUnsub bool
	lateDeliv int
	lateWakes int // Select waits ended by the late subscriber's Unsubscribe (none on the unchanged code)

	// a second sender that arrives while Send is running (at most once)
	queuedOn bool
	queued   bool
	msg2     c19Msg
	value2   interface{}

	rendezvous chan interface{} // engine: stands for removeSub while Send waits in Select

	// native controller state
	fill   []int // filler values currently buffered in channel k
	pulled []int // real values the controller already took out of channel k
	snap   []int // real values channel k had received when its Unsubscribe returned
	// the feed's lists at the instant Send returned (a queued sender runs on afterwards)
	snapTaken bool
	snapCases caseList
	snapInbox caseList
}

var c19w *c19World

const c19Digits = "0123456789"

// c19ReadyName names the script bit "a receiver is ready on channel k for the
// a-th TrySend (a = 0 for the first) of pass r".  Correct code tries a channel
// once per pass; further tries get their own bits so that the environment stays
// unconstrained (the native controller enacts the first c19Filler of them).
func c19ReadyName(k, r, a int) string {
	s := "rdy_" + c19Digits[k:k+1] + "_" + c19Digits[r:r+1]
	if a >= c19Filler {
		return s + "_more"
	}
	if a > 0 {
		s += "_" + c19Digits[a:a+1]
	}
	return s
}

// c19NewWorld builds a feed with n subscribers through the real Subscribe; the
// first `merged` of them have already been moved to sendCases (what an earlier
// Send did), the others are still in the inbox.  slack selects whether the
// sendCases array has spare capacity (append in place) or not (append
// reallocates) - Go leaves the growth policy unspecified.
func c19NewWorld(n, merged, slack int) *c19World {
	w := &c19World{f: new(Feed), n: n}
	w.ch = make([]chan c19Msg, n)
	w.sub = make([]Subscription, n)
	w.unsub = make([]bool, n)
	w.deliv = make([]int, n)
	w.asked = make([]int, n)
	w.fill = make([]int, n)
	w.pulled = make([]int, n)
	w.snap = make([]int, n)
	for k := 0; k < n; k++ {
		w.ch[k] = make(chan c19Msg, c19Filler)
		w.sub[k] = w.f.Subscribe(w.ch[k])
	}
	w.lateCh = make(chan c19Msg, c19Filler)
	w.rendezvous = make(chan interface{}, 1)
	f := w.f
	f.once.Do(f.init) // no-op when a Subscribe ran; needed for n == 0
	if merged > 0 {
		sc := make(caseList, 1, 1+merged+slack*(n+1))
		sc[0] = f.sendCases[0]
		sc = append(sc, f.inbox[:merged]...)
		f.sendCases = sc
		rest := make(caseList, 0, n)
		rest = append(rest, f.inbox[merged:]...)
		f.inbox = rest
		if n == merged {
			f.inbox = nil
		}
	}
	c19w = w
	return w
}

func (w *c19World) indexOf(c interface{}) int {
	for k := 0; k < w.n; k++ {
		if c == interface{}(w.ch[k]) {
			return k
		}
	}
	if c == interface{}(w.lateCh) {
		return w.n
	}
	return -1
}

func (w *c19World) deliver(k int) {
	if k == w.n {
		w.lateDeliv++
		return
	}
	if w.unsub[k] {
		w.late = true
	}
	w.deliv[k]++
}

// ---------------------------------------------------------------------------
// engine side: the scheduler stubs

// c19TrySend replaces (reflect.Value).TrySend under the engine.
func c19TrySend(v reflect.Value, x reflect.Value) bool {
	w := c19w
	k := w.indexOf(v.Interface())
	vs.Assert(k >= 0, "TrySend only on subscriber channels")
	vs.Assert(x.IsValid(), "TrySend carries a value")
	vs.Assert(x.Interface() == w.value, "TrySend carries the value given to Send")
	if k == w.n {
		// the late subscriber sits in the inbox; it must not be tried at all,
		// any answer exposes it
		w.deliver(k)
		return true
	}
	w.asked[k]++
	if vs.Bool(c19ReadyName(k, w.round, w.asked[k]-1)) {
		w.deliver(k)
		return true
	}
	return false
}

// c19Select replaces reflect.Select under the engine.
func c19Select(cases []reflect.SelectCase) (int, reflect.Value, bool) {
	w := c19w
	vs.Assert(w.round < w.maxRounds+w.lateWakes, "unwinding assertion: Send terminates within the bound on Select rounds")
	vs.Assert(len(cases) >= 2, "Select is entered only while a send case is active")
	vs.Assert(cases[0].Dir == reflect.SelectRecv, "case 0 is a receive")
	vs.Assert(cases[0].Chan.Interface() == interface{}(w.f.removeSub), "case 0 receives from removeSub")
	for j := 1; j < len(cases); j++ {
		vs.Assert(cases[j].Dir == reflect.SelectSend, "cases 1.. are sends")
		vs.Assert(w.indexOf(cases[j].Chan.Interface()) >= 0, "send cases are subscriber channels")
		vs.Assert(cases[j].Send.IsValid(), "active send case carries a value")
		vs.Assert(cases[j].Send.Interface() == w.value, "active send case carries the value given to Send")
	}
	nev, evLateSub, evLateUnsub, evQueued := w.events()
	for {
		ev := vs.Choice("ev", nev)
		switch {
		case ev == 0:
			// script terminator of the native replay; not an event
			vs.Assume(false)
		case ev <= w.n:
			// a receiver takes the value from channel k: possible iff k is among the active cases
			k := ev - 1
			for j := 1; j < len(cases); j++ {
				if cases[j].Chan.Interface() == interface{}(w.ch[k]) {
					w.deliver(k)
					w.nextRound()
					return j, reflect.Value{}, false
				}
			}
			vs.Assume(false)
		case ev <= 2*w.n:
			// Unsubscribe of subscriber k, concurrent with the waiting Send
			k := ev - 1 - w.n
			vs.Assume(!w.unsub[k])
			orig := w.f.removeSub
			w.f.removeSub = w.rendezvous // a receiver (this Select) is waiting on removeSub
			w.sub[k].Unsubscribe()       // the real remove()
			w.f.removeSub = orig
			w.unsub[k] = true
			if len(w.rendezvous) == 1 {
				got := <-w.rendezvous
				w.nextRound()
				return 0, reflect.ValueOf(got), true
			}
			// served from the inbox: Send is not woken
		case ev == evLateSub:
			vs.Assume(w.lateSub == nil)
			w.lateSub = w.f.Subscribe(w.lateCh)
		case ev == evQueued:
			// another goroutine calls Send(v2) now and runs until it blocks
			vs.Assume(!w.queued)
			w.queued = true
			blocked := vs.UntilBlocked(func() { w.f.Send(w.value2) })
			vs.Assert(blocked, "a second Send waits until the running Send has returned")
		default:
			vs.Assume(ev == evLateUnsub)
			vs.Assume(w.lateSub != nil && !w.lateUnsub)
			orig := w.f.removeSub
			w.f.removeSub = w.rendezvous
			w.lateSub.Unsubscribe()
			w.f.removeSub = orig
			w.lateUnsub = true
			if len(w.rendezvous) == 1 {
				// not in the inbox any more (somebody merged it): handed over like any other
				got := <-w.rendezvous
				w.lateWakes++ // one more wait than the 2n-1 the entry subscribers account for
				w.nextRound()
				return 0, reflect.ValueOf(got), true
			}
		}
	}
}

// events numbers the script's event kinds: 0 terminator, 1..n receiver on
// channel k, n+1..2n Unsubscribe of k, then (if enabled) late Subscribe, late
// Unsubscribe, queued Send.
func (w *c19World) events() (nev, lateSub, lateUnsub, queued int) {
	nev, lateSub, lateUnsub, queued = 1+2*w.n, -1, -1, -1
	if w.lateOn {
		lateSub, lateUnsub = nev, nev+1
		nev += 2
	}
	if w.queuedOn {
		queued = nev
		nev++
	}
	return
}

func (w *c19World) nextRound() {
	w.round++
	for k := range w.asked {
		w.asked[k] = 0
	}
}

// ---------------------------------------------------------------------------
// native side: the same script against the real runtime

const c19Filler = 5 // capacity of the subscriber channels

func (w *c19World) take(k int) bool {
	ch := w.lateCh
	if k < w.n {
		ch = w.ch[k]
	}
	if len(ch) == 0 {
		return false // would block: the run has left the script
	}
	m := <-ch
	if m.Real && w.queued && m == w.msg2 {
		return true // the queued sender's value (it runs on after the Send under test returned)
	}
	if k == w.n {
		if m.Real {
			w.lateDeliv++
		}
		return true
	}
	if m.Real {
		w.pulled[k]++
		if m != w.msg {
			w.wrong = true
		}
	} else {
		w.fill[k]--
	}
	return true
}

func (w *c19World) realCount(k int) int { return w.pulled[k] + len(w.ch[k]) - w.fill[k] }

func c19Quiesce() {
	for i := 0; i < 50; i++ {
		runtime.Gosched()
	}
}

// native runs f.Send(w.value) under the scripted scheduler; finished reports
// whether Send returned before the script ended.
func (w *c19World) native() (nsent int, finished bool) {
	prev := runtime.GOMAXPROCS(1)
	defer runtime.GOMAXPROCS(prev)
	dog := time.AfterFunc(30*time.Second, func() { panic("c19: native replay watchdog (controller blocked)") })
	defer dog.Stop()

	// the script
	passes := w.maxRounds + 2
	ready := make([][]int, w.n)
	for k := 0; k < w.n; k++ {
		ready[k] = make([]int, passes)
		for r := 0; r < passes; r++ {
			run := true
			for a := 0; a < c19Filler; a++ {
				// free slots = leading run of ready bits (a later bit after a
				// refused try cannot be enacted: such a script does not replay)
				if b := vs.Bool(c19ReadyName(k, r, a)); b && run {
					ready[k][r]++
				} else {
					run = false
				}
			}
		}
	}
	nev, evLateSub, evLateUnsub, evQueued := w.events()
	evs := make([]int, 4*passes+8)
	for i := range evs {
		evs[i] = vs.Choice("ev", nev)
	}

	for k := 0; k < w.n; k++ {
		for i := 0; i < c19Filler; i++ {
			w.ch[k] <- c19Msg{}
			w.fill[k]++
		}
	}
	for i := 0; i < c19Filler; i++ {
		w.lateCh <- c19Msg{}
	}
	free := func(r int) {
		for k := 0; k < w.n; k++ {
			for i := 0; i < ready[k][r]; i++ {
				w.take(k)
			}
		}
	}

	done := false
	var sendPanic interface{}
	free(0)
	go func() {
		defer func() {
			if r := recover(); r != nil {
				sendPanic = r
			}
			done = true
		}()
		nsent = w.f.Send(w.value)
		// no yield since Send handed the token back: the lists as Send left them
		w.snapCases = append(caseList(nil), w.f.sendCases...)
		w.snapInbox = append(caseList(nil), w.f.inbox...)
		w.snapTaken = true
	}()
	c19Quiesce()
	queuedOK := true
	for i := 0; !done && i < len(evs); i++ {
		ev := evs[i]
		woke := false
		switch {
		case ev == 0:
			i = len(evs)
		case ev <= w.n:
			// a receiver takes from channel k: the Send parked in Select completes this case
			if !w.take(ev - 1) {
				i = len(evs)
			}
			woke = true
		case ev <= 2*w.n:
			k := ev - 1 - w.n
			if w.unsub[k] {
				i = len(evs)
				break
			}
			w.sub[k].Unsubscribe()
			w.unsub[k] = true
			w.snap[k] = w.realCount(k)
			woke = true
		case ev == evLateSub:
			if w.lateSub == nil {
				w.lateSub = w.f.Subscribe(w.lateCh)
			}
		case ev == evQueued:
			if !w.queued {
				w.queued = true
				queuedOK = vs.UntilBlocked(func() { w.f.Send(w.value2) })
			}
		default:
			if ev == evLateUnsub && w.lateSub != nil && !w.lateUnsub {
				// served from the inbox unless somebody merged it: then it is handed to the waiting Send
				woke = w.f.inbox.find(interface{}(w.lateCh)) < 0
				w.lateSub.Unsubscribe()
				w.lateUnsub = true
			}
		}
		if woke && i < len(evs) {
			w.round++
			if w.round < passes {
				free(w.round)
			}
			c19Quiesce()
		}
	}
	if sendPanic != nil {
		panic(sendPanic)
	}
	vs.Assert(queuedOK, "a second Send waits until the running Send has returned")
	if !done {
		return 0, false
	}
	for k := 0; k < w.n; k++ {
		for len(w.ch[k]) > 0 {
			w.take(k)
		}
		w.deliv[k] = w.pulled[k]
		if w.unsub[k] && w.deliv[k] > w.snap[k] {
			w.late = true
		}
	}
	for len(w.lateCh) > 0 {
		w.take(w.n)
	}
	return nsent, true
}

// ---------------------------------------------------------------------------

// checkFeed asserts the feed's lists and token as Send left them: sendCases =
// removeSub case + exactly the live entry subscribers (each once); a subscriber
// that arrived during Send and is still subscribed sits exactly once in inbox or
// sendCases (which of the two is the implementation's business); nothing else in
// either list; every Send field cleared.
func (w *c19World) checkFeed(inCases []bool, lateLive bool) {
	f := w.f
	cases, inbox := f.sendCases, f.inbox
	if w.snapTaken {
		cases, inbox = w.snapCases, w.snapInbox
	}
	if vs.Symbolic() || !w.queued {
		// natively a queued sender takes the token the moment it is returned
		vs.Assert(len(f.sendLock) == 1, "the send token is back in sendLock")
	}
	vs.Assert(len(f.removeSub) == 0, "nothing is left in removeSub")
	vs.Assert(len(cases) >= 1, "sendCases keeps the removeSub case")
	vs.Assert(cases[0].Dir == reflect.SelectRecv, "sendCases[0] is a receive")
	vs.Assert(cases[0].Chan.Interface() == interface{}(f.removeSub), "sendCases[0] receives from removeSub")
	count := func(l caseList, from int, c interface{}) int {
		cnt := 0
		for i := from; i < len(l); i++ {
			if l[i].Chan.Interface() == c {
				cnt++
			}
		}
		return cnt
	}
	want := 0
	for k := 0; k < w.n; k++ {
		inC, inI := count(cases, firstSubSendCase, interface{}(w.ch[k])), count(inbox, 0, interface{}(w.ch[k]))
		vs.Assert(inI == 0, "a subscriber known to Send is not in the inbox afterwards")
		if inCases[k] {
			want++
			vs.Assert(inC == 1, "a live subscriber is in sendCases exactly once")
		} else {
			vs.Assert(inC == 0, "a removed subscriber is not in sendCases")
		}
	}
	lateCnt := count(cases, firstSubSendCase, interface{}(w.lateCh)) + count(inbox, 0, interface{}(w.lateCh))
	if lateLive {
		want++
		vs.Assert(lateCnt == 1, "a subscriber that arrived during Send is registered exactly once")
	} else {
		vs.Assert(lateCnt == 0, "a subscriber that never arrived or left again is not registered")
	}
	vs.Assert(len(cases)-1+len(inbox) == want, "sendCases and inbox hold nothing but the live subscribers")
	for i := firstSubSendCase; i < len(cases); i++ {
		vs.Assert(cases[i].Dir == reflect.SelectSend, "subscriber cases are send cases")
		vs.Assert(!cases[i].Send.IsValid(), "the sent value is forgotten (Send field cleared)")
	}
	for i := 0; i < len(inbox); i++ {
		vs.Assert(inbox[i].Dir == reflect.SelectSend, "inbox cases are send cases")
		vs.Assert(!inbox[i].Send.IsValid(), "inbox cases carry no value")
	}
}

// VerifC19_Send: one Send over every feed state with <= subs subscribers
// (placed in sendCases or inbox) under every environment script.
func VerifC19_Send() {
	n := vs.Choice("n", vs.Param("subs")+1)
	merged := vs.Choice("merged", n+1)
	slack := vs.Choice("slack", 2)
	c19SendHarness(n, merged, slack)
}

// VerifC19_SendWide: the same check for exactly `subs` subscribers, all of them
// in sendCases or all of them in the inbox (thorough tier: one subscriber more
// than VerifC19_Send at an affordable number of scripts).
func VerifC19_SendWide() {
	n := vs.Param("subs")
	merged := 0 // all in the inbox: Send's own merge reallocates sendCases
	if vs.Param("both") != 0 {
		merged = n * vs.Choice("merged", 2)
	}
	c19SendHarness(n, merged, 0)
}

// VerifC19_SendQueued: the same check with the late-subscriber and queued-Send
// events enabled, subscribers all in sendCases or all in the inbox (for these
// placements the engine's and the runtime's append growth agree, so that
// counterexamples that hinge on a reallocation of sendCases replay natively).
func VerifC19_SendQueued() {
	n := vs.Param("subs")
	if vs.Param("both") != 0 {
		c19SendHarness(n, n*vs.Choice("merged", 2), vs.Choice("slack", 2))
		return
	}
	// one placement: all in sendCases, no spare capacity (the queued sender's
	// merge, if it happens, must reallocate)
	c19SendHarness(n, n, 0)
}

func c19SendHarness(n, merged, slack int) {
	w := c19NewWorld(n, merged, slack)
	w.lateOn = vs.Param("late") != 0
	w.queuedOn = vs.Param("queued") != 0
	w.maxRounds = 0
	if n > 0 {
		w.maxRounds = 2*n - 1
	}
	w.msg = c19Msg{Real: true, V: vs.Int("value")}
	w.value = w.msg
	w.msg2 = c19Msg{Real: true, V: w.msg.V + 1}
	w.value2 = w.msg2

	var nsent int
	if vs.Symbolic() {
		nsent = w.f.Send(w.value)
	} else {
		var finished bool
		nsent, finished = w.native()
		vs.Assert(finished, "unwinding assertion: Send terminates within the bound on Select rounds")
	}

	total := 0
	live := make([]bool, n)
	for k := 0; k < n; k++ {
		total += w.deliv[k]
		vs.Observe("deliveries", w.deliv[k])
		if w.unsub[k] {
			vs.Assert(w.deliv[k] <= 1, "an unsubscribed channel receives the value at most once")
		} else {
			live[k] = true
			vs.Assert(w.deliv[k] == 1, "a live subscriber receives the value exactly once")
		}
	}
	vs.Observe("nsent", nsent)
	vs.Assert(!w.late, "no delivery after Unsubscribe has returned")
	vs.Assert(!w.wrong, "the delivered value is the value given to Send")
	vs.Assert(w.lateDeliv == 0, "a subscriber that arrives during Send does not receive this value")
	vs.Assert(nsent == total, "Send reports the number of deliveries it made")
	w.checkFeed(live, w.lateSub != nil && !w.lateUnsub)
	if total == n && n > 0 {
		vs.Reach("all-delivered")
	}
	if total < n {
		vs.Reach("some-unsubscribed")
	}
}

// VerifC19_Remove: Unsubscribe on an idle feed edits exactly the list the
// channel is in (inbox path / sendLock path), returns the token, and is
// idempotent; a following Send delivers to exactly the others.
func VerifC19_Remove() {
	n := 1 + vs.Choice("n", vs.Param("subs"))
	merged := vs.Choice("merged", n+1)
	w := c19NewWorld(n, merged, vs.Choice("slack", 2))
	f := w.f
	k := vs.Choice("k", n)
	// order of the other subscribers before
	var beforeCases, beforeInbox []interface{}
	for i := firstSubSendCase; i < len(f.sendCases); i++ {
		if c := f.sendCases[i].Chan.Interface(); c != interface{}(w.ch[k]) {
			beforeCases = append(beforeCases, c)
		}
	}
	for i := 0; i < len(f.inbox); i++ {
		if c := f.inbox[i].Chan.Interface(); c != interface{}(w.ch[k]) {
			beforeInbox = append(beforeInbox, c)
		}
	}
	twice := vs.Choice("twice", 2)
	w.sub[k].Unsubscribe()
	if twice == 1 {
		w.sub[k].Unsubscribe()
	}
	vs.Assert(len(f.sendLock) == 1, "the send token is back in sendLock")
	vs.Assert(len(f.removeSub) == 0, "nothing is left in removeSub")
	vs.Assert(len(f.sendCases) == 1+len(beforeCases), "sendCases lost at most the removed channel")
	vs.Assert(len(f.inbox) == len(beforeInbox), "inbox lost at most the removed channel")
	for i := range beforeCases {
		vs.Assert(f.sendCases[firstSubSendCase+i].Chan.Interface() == beforeCases[i], "the other sendCases entries are untouched")
	}
	for i := range beforeInbox {
		vs.Assert(f.inbox[i].Chan.Interface() == beforeInbox[i], "the other inbox entries are untouched")
	}
	if k < merged {
		vs.Reach("sendLock-path")
	} else {
		vs.Reach("inbox-path")
	}
	// a Send afterwards reaches exactly the others
	w.unsub[k] = true
	w.maxRounds = 2*n - 1
	w.msg = c19Msg{Real: true, V: vs.Int("value")}
	w.value = w.msg
	var nsent int
	if vs.Symbolic() {
		nsent = f.Send(w.value)
	} else {
		var finished bool
		nsent, finished = w.native()
		vs.Assert(finished, "unwinding assertion: Send terminates within the bound on Select rounds")
	}
	live := make([]bool, n)
	for i := 0; i < n; i++ {
		live[i] = !w.unsub[i]
		if i == k {
			vs.Assert(w.deliv[i] == 0, "no delivery after Unsubscribe has returned")
		} else if !w.unsub[i] {
			vs.Assert(w.deliv[i] == 1, "a live subscriber receives the value exactly once")
		}
	}
	vs.Assert(!w.late, "no delivery after Unsubscribe has returned")
	vs.Observe("nsent", nsent)
	w.checkFeed(live, false)
}

// VerifC19_Scope: SubscriptionScope bookkeeping over feed subscriptions.
func VerifC19_Scope() {
	n := vs.Choice("n", vs.Param("subs")+1)
	w := c19NewWorld(0, 0, 0)
	f := w.f
	var sc SubscriptionScope
	chs := make([]chan c19Msg, n)
	subs := make([]Subscription, n)
	for i := 0; i < n; i++ {
		chs[i] = make(chan c19Msg, c19Filler)
		subs[i] = sc.Track(f.Subscribe(chs[i]))
		vs.Assert(subs[i] != nil, "Track on an open scope returns a subscription")
	}
	vs.Assert(sc.Count() == n, "Count is the number of tracked subscriptions")
	early := vs.Choice("early", n+1) // subscriber early-1 unsubscribes through its wrapper first
	left := n
	if early > 0 {
		subs[early-1].Unsubscribe()
		left--
		vs.Assert(sc.Count() == left, "Unsubscribe of the wrapper removes it from the scope")
		vs.Assert(len(f.inbox) == left, "Unsubscribe of the wrapper unsubscribes from the feed")
	}
	sc.Close()
	vs.Assert(sc.Count() == 0, "Close empties the scope")
	vs.Assert(len(f.inbox) == 0 && len(f.sendCases) == 1, "Close unsubscribes every tracked subscription from the feed")
	vs.Assert(len(f.sendLock) == 1, "the send token is back in sendLock")
	vs.Assert(sc.Track(f.Subscribe(make(chan c19Msg, c19Filler))) == nil, "Track after Close returns nil")
	sc.Close() // idempotent
	vs.Observe("left", left)
}

// VerifC19_Types: the type discipline of Subscribe / Send (panics are the
// documented reaction; the token must be returned).
func VerifC19_Types() {
	f := new(Feed)
	vs.Assert(vs.NoPanic(func() { f.Subscribe(7) }), "Subscribe of a non-channel panics")
	vs.Assert(vs.NoPanic(func() { f.Subscribe((<-chan c19Msg)(make(chan c19Msg))) }), "Subscribe of a receive-only channel panics")
	vs.Assert(!vs.NoPanic(func() { f.Subscribe((chan<- c19Msg)(make(chan c19Msg, 1))) }), "Subscribe of a send-only channel is accepted")
	vs.Assert(vs.NoPanic(func() { f.Subscribe(make(chan int)) }), "Subscribe with another element type panics")
	vs.Assert(len(f.inbox) == 1, "only the accepted subscription is in the inbox")
	vs.Assert(vs.NoPanic(func() { f.Send(7) }), "Send of another type panics")
	vs.Assert(len(f.sendLock) == 1, "the send token is back in sendLock after the type panic")
	if vs.Param("strict_misuse") != 0 {
		// Send panics with Feed.mu still locked (feed.go:139-142), so a caller
		// that recovers the documented panic can never use the feed again.
		// Off by default: enable together with the known-finding entry.
		vs.Known("C19-send-type-panic-keeps-mu-locked", true)
		vs.Assert(f.mu.TryLock(), "Feed.mu is released when Send panics on a type mismatch")
	}
}
