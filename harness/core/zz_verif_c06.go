package core

// C06 harnesses: every included transaction is charged, nonced and rolled back exactly.

import (
	"errors"
	"math/big"
	"time"

	"gitlab.com/aquachain/aquachain/common"
	"gitlab.com/aquachain/aquachain/core/types"
	"gitlab.com/aquachain/aquachain/core/vm"
	vs "gitlab.com/aquachain/aquachain/internal/verifsym"
	"gitlab.com/aquachain/aquachain/params"
)

// ---------------------------------------------------------------------------
// IntrinsicGas formula

func VerifC06_IntrinsicGas() {
	data := vs.Bytes("data", vs.Param("N"))
	creation := vs.Bool("creation")
	homestead := vs.Bool("homestead")
	gas, err := IntrinsicGas(data, creation, homestead)
	vs.Assert(err == nil, "no overflow error for short data")
	var nz, z uint64
	for _, b := range data {
		if b != 0 {
			nz++
		} else {
			z++
		}
	}
	want := uint64(21000)
	if creation && homestead {
		want = 53000
	}
	want += 68*nz + 4*z
	vs.Observe("gas", gas)
	vs.Assert(gas == want, "IntrinsicGas = 21000|53000 + 68*nonzero + 4*zero")
}

// ---------------------------------------------------------------------------
// chain configurations (fork flags are concrete per path)

var c06Configs = []*params.ChainConfig{
	c06Latest,
	{ChainId: big.NewInt(1)}, // frontier rules
	{ChainId: big.NewInt(1), HomesteadBlock: big.NewInt(0)},
	{ChainId: big.NewInt(1), HomesteadBlock: big.NewInt(0), EIP150Block: big.NewInt(0), EIP155Block: big.NewInt(0), EIP158Block: big.NewInt(0)},
	{ChainId: big.NewInt(1), HomesteadBlock: big.NewInt(0), EIP150Block: big.NewInt(0), EIP155Block: big.NewInt(0), EIP158Block: big.NewInt(0), ByzantiumBlock: big.NewInt(0)},
}

var c06Latest = &params.ChainConfig{ChainId: big.NewInt(1), HomesteadBlock: big.NewInt(0), EIP150Block: big.NewInt(0), EIP155Block: big.NewInt(0), EIP158Block: big.NewInt(0), ByzantiumBlock: big.NewInt(0),
	HF: params.ForkMap{1: big.NewInt(0), 5: big.NewInt(0)}}

// ---------------------------------------------------------------------------
// contract stub: what the callee frame did, recorded for the oracle

type c06StubLog struct {
	called     bool
	gasIn      uint64 // gas forwarded to the frame
	left       uint64 // leftover returned by the frame
	err        error
	moved      bool // the value transfer happened (and was not rolled back)
	mayKeepGas bool // the frame may fail with leftover gas (REVERT from Byzantium on; the frame stub's unspecified error)
	insuff     bool
}

var c06Stub c06StubLog

var c06ErrReverted = errors.New("stub: execution reverted")

// c06StubCall replaces (*vm.EVM).Call under the engine: the frame contract of
// EVM.Call as established by C07 (leftover <= gas; on error the state is the
// snapshot; value moves iff the frame succeeds; ErrInsufficientBalance iff the
// caller cannot afford the value) with an arbitrary callee.
func c06StubCall(evm *vm.EVM, caller vm.ContractRef, addr common.Address, input []byte, gas uint64, value *big.Int) ([]byte, uint64, error) {
	c06Stub.called = true
	c06Stub.gasIn = gas
	db := evm.StateDB
	if !CanTransfer(db, caller.Address(), value) {
		c06Stub.insuff = true
		c06Stub.left = gas
		c06Stub.err = vm.ErrInsufficientBalance
		return nil, gas, vm.ErrInsufficientBalance
	}
	left := vs.U64("stub.left")
	vs.Assume(left <= gas)
	c06Stub.left = left
	if vs.Choice("stub.outcome", 2) == 0 {
		Transfer(db, caller.Address(), addr, value)
		db.AddRefund(vs.U64("stub.refund"))
		c06Stub.moved = true
		return vs.BytesN("stub.ret", 1), left, nil
	}
	// revert, out of gas, invalid opcode, ...: any error other than ErrInsufficientBalance, any leftover
	c06Stub.err = c06ErrReverted
	return vs.BytesN("stub.ret", 1), left, c06ErrReverted
}

// ---------------------------------------------------------------------------

type c06Tx struct {
	db       *c06DB
	sender   common.Address
	to       common.Address
	coinbase common.Address
	nonce    uint64
	price    *big.Int
	limit    uint64
	value    *big.Int
	data     []byte
	check    bool
	pool     uint64
	cfg      *params.ChainConfig
	// pre-state copies
	bal0   []*big.Int
	nonce0 []uint64
	ref0   uint64
	// post: gas counter of the state transition (remaining gas incl. refund)
	gasLeft uint64
}

func c06Setup(nslots int, dataMax int) *c06Tx {
	t := &c06Tx{}
	t.db = c06NewDB(nslots)
	r := c06Roles[vs.Choice("roles", vs.Param("R"))]
	t.sender, t.to, t.coinbase = c06Addrs[r[0]], c06Addrs[r[1]], c06Addrs[r[2]]
	for i, a := range t.db.accts {
		// a slot no role refers to is a bystander: it exists (a missing bystander is the same case as an existing one with zero balance)
		vs.Assume(a.exist || i == r[0] || i == r[1] || i == r[2])
	}
	t.nonce = vs.U64("tx.nonce")
	t.price = vs.Big("tx.price")
	t.value = vs.Big("tx.value")
	vs.Assume(t.price.Sign() >= 0)
	vs.Assume(t.value.Sign() >= 0)
	t.limit = vs.U64("tx.gas")
	if dataMax < 0 {
		t.data = vs.BytesN("tx.data", -dataMax) // exactly -dataMax bytes
	} else {
		t.data = vs.Bytes("tx.data", dataMax) // every length 0..dataMax
	}
	t.check = true
	t.pool = vs.U64("pool")
	t.cfg = c06Configs[vs.Choice("rules", vs.Param("rules"))]
	for _, a := range t.db.accts {
		t.bal0 = append(t.bal0, new(big.Int).Set(a.bal))
		t.nonce0 = append(t.nonce0, a.nonce)
	}
	t.ref0 = t.db.refund
	return t
}

func (t *c06Tx) evm(cfg vm.Config) *vm.EVM {
	ctx := vm.Context{
		CanTransfer: CanTransfer,
		Transfer:    Transfer,
		GetHash:     func(uint64) common.Hash { return common.Hash{} },
		Origin:      t.sender,
		Coinbase:    t.coinbase,
		BlockNumber: big.NewInt(100),
		Time:        big.NewInt(1000),
		Difficulty:  big.NewInt(1),
		GasLimit:    8000000,
		GasPrice:    t.price,
	}
	return vm.NewEVM(ctx, t.db, t.cfg, cfg)
}

func c06idx(a common.Address) int {
	for i, x := range c06Addrs {
		if x == a {
			return i
		}
	}
	return -1
}

// VerifC06_TransferStub: TransitionDb of a message call, callee frame stubbed.
func VerifC06_TransferStub() {
	t := c06Setup(3, vs.Param("N"))
	c06Stub = c06StubLog{mayKeepGas: true} // the stub's error stands for revert as well as for out-of-gas
	evm := t.evm(vm.Config{})
	to := t.to
	msg := types.NewMessage(t.sender, &to, t.nonce, t.value, t.limit, t.price, t.data, true)
	gp := GasPool(t.pool)
	st := NewStateTransition(evm, msg, &gp) // = ApplyMessage, keeping st to read the final gas counter
	_, used, failed, err := st.TransitionDb()
	t.gasLeft = st.gas
	if err == nil {
		vs.Assert(c06Stub.called, "callee frame entered")
	}
	c06CheckCall(t, &c06Stub, uint64(gp), used, failed, err)
}

// c06CheckCall is the oracle for a message-call transaction: fr describes what
// the callee frame did (gas it received, gas it left, its error).
func c06CheckCall(t *c06Tx, fr *c06StubLog, pool1 uint64, used uint64, failed bool, err error) {
	si := c06idx(t.sender)
	intrinsic := uint64(21000)
	for _, b := range t.data {
		if b != 0 {
			intrinsic += 68
		} else {
			intrinsic += 4
		}
	}
	prepay := new(big.Int).Mul(new(big.Int).SetUint64(t.limit), t.price)
	afterGas := new(big.Int).Sub(t.bal0[si], prepay)

	// the block is invalid iff one of these holds
	// (operands evaluated first so that the disjunction is a pure term, not a chain of forks)
	b1, b2, b3, b4, b5 := t.nonce0[si] != t.nonce, t.bal0[si].Cmp(prepay) < 0, t.pool < t.limit, t.limit < intrinsic, afterGas.Cmp(t.value) < 0
	bad := b1 || b2 || b3 || b4 || b5
	vs.Assert((err != nil) == bad, "error iff nonce mismatch, cannot prepay gas, pool exhausted, limit below intrinsic, or cannot afford value")
	if err != nil {
		vs.Reach("reject")
		return
	}
	vs.Reach("accept")
	vs.Assert(fr.gasIn == t.limit-intrinsic, "gas forwarded = limit - intrinsic")
	vs.Assert(failed == (fr.err != nil), "failed iff the vm reported an error")
	if failed {
		vs.Reach("failed")
	}

	// gas accounting
	spent := t.limit - fr.left
	refund := spent / 2
	if t.db.refund < refund {
		refund = t.db.refund
	}
	vs.Assert(used == spent-refund, "gasUsed = limit - leftover - min(refund counter, (limit-leftover)/2)")
	vs.Assert(used <= t.limit, "gasUsed <= gas limit")
	vs.Assert(spent >= intrinsic, "gas consumed before the refund >= intrinsic gas")
	vs.Assert(used >= spent-spent/2, "refund capped at half of the gas consumed")
	vs.Assert(t.db.refund != 0 || used >= intrinsic, "without refunds intrinsic <= gasUsed")
	vs.Assert(pool1 == t.pool-used, "pool' = pool - gasUsed")
	vs.Observe("used", used)

	// balances and nonces
	fee := new(big.Int).Mul(new(big.Int).SetUint64(used), t.price)
	// conservation of the gas money (the one nonlinear fact; the balance equations below are linear in it):
	// what buyGas took = what refundGas gave back + what the coinbase got, and the latter is gasUsed*price
	n := len(t.db.log)
	vs.Assert(n >= 3 && t.db.log[0].sub && t.db.log[0].addr == t.sender && !t.db.log[n-2].sub && t.db.log[n-2].addr == t.sender &&
		!t.db.log[n-1].sub && t.db.log[n-1].addr == t.coinbase, "buyGas debit first, sender refund and coinbase credit last")
	vs.Assert(t.db.log[0].amount.Cmp(prepay) == 0, "prepayment = limit*price")
	vs.Assert(t.db.log[n-1].amount.Cmp(fee) == 0, "coinbase credit = gasUsed*price")
	// (linear step first: limit = remaining + used over the integers, then the same multiplied by the price)
	vs.Assert(new(big.Int).SetUint64(t.limit).Cmp(new(big.Int).Add(new(big.Int).SetUint64(t.gasLeft), new(big.Int).SetUint64(used))) == 0, "limit = remaining gas + gasUsed")
	vs.Assert(t.db.log[n-2].amount.Cmp(new(big.Int).Mul(new(big.Int).SetUint64(t.gasLeft), t.price)) == 0, "sender refund = remaining gas * price")
	vs.Assert(t.db.log[0].amount.Cmp(new(big.Int).Add(t.db.log[n-2].amount, t.db.log[n-1].amount)) == 0, "prepayment = refund + fee")
	vs.Assert(t.db.nonNegative(), "no balance ever below zero")
	for i, a := range t.db.accts {
		want := new(big.Int).Set(t.bal0[i])
		if a.addr == t.sender {
			want.Sub(want, fee)
			if !failed {
				want.Sub(want, t.value)
			}
		}
		if a.addr == t.to && !failed {
			want.Add(want, t.value)
		}
		if a.addr == t.coinbase {
			want.Add(want, fee)
		}
		vs.Observe("bal", a.bal)
		vs.Assert(a.bal.Cmp(want) == 0, "balance' = balance - [sender](fee + value if ok) + [recipient](value if ok) + [coinbase]fee")
		wn := t.nonce0[i]
		if a.addr == t.sender {
			wn++
		}
		vs.Assert(a.nonce == wn, "nonce' = nonce + 1 for the sender only")
	}
	vs.Assert(len(t.db.accts) == 3, "no account appears")
	if failed && !fr.mayKeepGas {
		vs.Assert(fr.left == 0, "a failed call (other than REVERT) consumes all its gas")
	}
	// the literal clause of the property; with a non-zero refund counter the protocol itself
	// lets gasUsed drop below the intrinsic gas (recorded finding, see known_findings.json)
	vs.Known("C06-refund-below-intrinsic", t.db.refund != 0)
	vs.Assert(used >= intrinsic, "intrinsic gas <= gasUsed")
}

// ---------------------------------------------------------------------------
// Real EVM.Call and interpreter; the callee is one of a few tiny programs and a
// tracer (vm.Config.Debug, a parameter of ApplyTransaction) makes it arbitrary:
// just before the final instruction executes it burns an arbitrary part of the
// remaining gas and bumps the refund counter by an arbitrary amount.  The same
// code runs natively, so counterexamples replay against the real build.

var c06Programs = [][]byte{
	nil,                            // no code: plain value transfer
	{0x00},                         // STOP: success
	{0xfe},                         // invalid opcode: error, all gas consumed
	{0x60, 0x00, 0x60, 0x00, 0xfd}, // PUSH1 0 PUSH1 0 REVERT: leftover kept from Byzantium on, invalid opcode before
}

type c06Tracer struct {
	db      *c06DB
	last    uint64 // pc of the final instruction
	log     c06StubLog
	effects bool     // C05: the callee also moves value around / self-destructs
	burned  *big.Int // value destroyed by a self-destruct to self
	self    common.Address
}

func (tr *c06Tracer) CaptureStart(from common.Address, to common.Address, call bool, input []byte, gas uint64, value *big.Int) error {
	tr.log.called = true
	tr.log.gasIn = gas
	return nil
}

func (tr *c06Tracer) CaptureState(env *vm.EVM, pc uint64, op vm.OpCode, gas, cost uint64, memory *vm.Memory, stack *vm.Stack, contract *vm.Contract, depth int, err error) error {
	if err == nil && pc == tr.last {
		left := vs.U64("callee.left")
		vs.Assume(left <= contract.Gas)
		contract.Gas = left
		tr.db.AddRefund(vs.U64("callee.refund"))
		if tr.effects {
			tr.calleeEffects(contract.Address())
		}
	}
	return nil
}

func (tr *c06Tracer) CaptureFault(env *vm.EVM, pc uint64, op vm.OpCode, gas, cost uint64, memory *vm.Memory, stack *vm.Stack, contract *vm.Contract, depth int, err error) error {
	return nil
}

func (tr *c06Tracer) CaptureEnd(output []byte, gasUsed uint64, d time.Duration, err error) error {
	tr.log.left = tr.log.gasIn - gasUsed
	tr.log.err = err
	return nil
}

// VerifC06_TransferEVM: TransitionDb + real EVM.Call + interpreter.
func VerifC06_TransferEVM() {
	t := c06Setup(3, vs.Param("N"))
	pi := vs.Choice("program", vs.Param("P"))
	prog := c06Programs[pi]
	t.db.find(t.to).code = prog
	if prog != nil {
		// an account with code exists
		vs.Assume(t.db.find(t.to).exist)
	}
	tr := &c06Tracer{db: t.db}
	tr.log.mayKeepGas = pi == 3 && t.cfg.IsByzantium(big.NewInt(100)) // REVERT keeps the leftover gas from Byzantium on
	if len(prog) > 0 {
		tr.last = uint64(len(prog) - 1)
	}
	evm := t.evm(vm.Config{Debug: true, Tracer: tr})
	to := t.to
	msg := types.NewMessage(t.sender, &to, t.nonce, t.value, t.limit, t.price, t.data, true)
	gp := GasPool(t.pool)
	st := NewStateTransition(evm, msg, &gp) // = ApplyMessage, keeping st to read the final gas counter
	_, used, failed, err := st.TransitionDb()
	t.gasLeft = st.gas
	if err == nil {
		vs.Assert(tr.log.called, "callee frame entered") // (st.to() creates the recipient, so EVM.Call never skips the frame at depth 0)
	}
	c06CheckCall(t, &tr.log, uint64(gp), used, failed, err)
}
