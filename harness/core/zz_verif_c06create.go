package core

// C06: contract-creation transactions through the real EVM.Create and interpreter.

import (
	"math/big"

	"gitlab.com/aquachain/aquachain/common"
	"gitlab.com/aquachain/aquachain/core/types"
	"gitlab.com/aquachain/aquachain/core/vm"
	"gitlab.com/aquachain/aquachain/crypto"
	vs "gitlab.com/aquachain/aquachain/internal/verifsym"
)

// init programs (the transaction data): the tracer makes gas use and refund arbitrary at the final instruction
var c06InitPrograms = [][]byte{
	nil,                            // empty init code: empty contract
	{0x00},                         // STOP
	{0xfe},                         // invalid opcode
	{0x60, 0x00, 0x60, 0x00, 0xfd}, // PUSH1 0 PUSH1 0 REVERT
	{0x60, 0x02, 0x60, 0x00, 0xf3}, // PUSH1 2 PUSH1 0 RETURN: two bytes of code, 400 gas to store
	// PUSH1 0 PUSH1 0 LOG0; PUSH2 0x6001 PUSH1 0 RETURN: emits a log, then returns 24577 zero bytes:
	// one more than params.MaxCodeSize - from EIP158 on the creation fails and everything is rolled back
	{0x60, 0x00, 0x60, 0x00, 0xa0, 0x61, 0x60, 0x01, 0x60, 0x00, 0xf3},
	// the same returning exactly 24576 bytes (the largest admissible code)
	{0x60, 0x00, 0x60, 0x00, 0xa0, 0x61, 0x60, 0x00, 0x60, 0x00, 0xf3},
}

// size of the code each init program returns
var c06InitReturns = []int{0, 0, 0, 0, 2, 24577, 24576}

// the address the contract is created at: under the engine crypto.CreateAddress is
// redirected to c06CreateAddress (a symbolic nonce would need Keccak of symbolic
// data), natively it is the real address
var c06NewAddr = common.HexToAddress("0x00000000000000000000000000000000000a00cc")

func c06CreateAddress(b common.Address, nonce uint64) common.Address { return c06NewAddr }

func c06ContractAddr(sender common.Address, nonce uint64) common.Address {
	if vs.Symbolic() {
		return c06NewAddr
	}
	return crypto.CreateAddress(sender, nonce)
}

type c06CreateCase struct {
	t         *c06Tx
	tr        *c06Tracer
	prog      []byte
	progIdx   int
	at        common.Address // where the contract goes
	pre       int            // 0: fresh address, 1: funded but unused account there, 2: used account there (collision)
	preBal    *big.Int
	used      uint64
	failed    bool
	err       error
	pool1     uint64
	homest    bool
	eip158    bool
	intrinsic uint64
}

func c06RunCreateSum(sum0 *big.Int) *c06CreateCase { return c06RunCreateX(true, sum0) }

func c06RunCreate(effects bool) *c06CreateCase { return c06RunCreateX(effects, nil) }

func c06RunCreateX(effects bool, sum0 *big.Int) *c06CreateCase {
	c := &c06CreateCase{}
	t := c06Setup(3, 0)
	c.t = t
	c.progIdx = vs.Choice("program", vs.Param("P"))
	c.prog = c06InitPrograms[c.progIdx]
	t.data = c.prog
	// slot 1 (the unused recipient role) may sit at the address of the new contract
	c.pre = vs.Choice("preexisting", vs.Param("X"))
	c.at = c06ContractAddr(t.sender, t.db.GetNonce(t.sender))
	x := t.db.accts[1]
	c.preBal = new(big.Int)
	if c.pre > 0 {
		vs.Assume(t.sender != x.addr && t.coinbase != x.addr && x.exist)
		x.addr = c.at
		c.preBal = x.bal
		if c.pre == 1 {
			x.nonce = 0
			t.nonce0[1] = 0
		} else {
			vs.Assume(x.nonce != 0)
		}
	}
	c.tr = &c06Tracer{db: t.db, effects: effects}
	if len(c.prog) > 0 {
		c.tr.last = uint64(len(c.prog) - 1)
	}
	if sum0 != nil {
		sum0.Set(t.db.sum())
	}
	evm := t.evm(vm.Config{Debug: true, Tracer: c.tr})
	c.homest = t.cfg.IsHomestead(evm.BlockNumber)
	c.eip158 = t.cfg.IsEIP158(evm.BlockNumber)
	msg := types.NewMessage(t.sender, nil, t.nonce, t.value, t.limit, t.price, t.data, true)
	gp := GasPool(t.pool)
	st := NewStateTransition(evm, msg, &gp)
	_, c.used, c.failed, c.err = st.TransitionDb()
	t.gasLeft = st.gas
	c.pool1 = uint64(gp)
	c.intrinsic = 21000
	if c.homest {
		c.intrinsic = 53000
	}
	for _, b := range c.prog {
		if b != 0 {
			c.intrinsic += 68
		} else {
			c.intrinsic += 4
		}
	}
	return c
}

// VerifC06_CreateEVM: TransitionDb + real EVM.Create + interpreter.
func VerifC06_CreateEVM() {
	c := c06RunCreate(false)
	t, tr := c.t, c.tr
	si := c06idx(t.sender)
	prepay := new(big.Int).Mul(new(big.Int).SetUint64(t.limit), t.price)
	afterGas := new(big.Int).Sub(t.bal0[si], prepay)
	b1, b2, b3, b4, b5 := t.nonce0[si] != t.nonce, t.bal0[si].Cmp(prepay) < 0, t.pool < t.limit, t.limit < c.intrinsic, afterGas.Cmp(t.value) < 0
	bad := b1 || b2 || b3 || b4 || b5
	vs.Assert((c.err != nil) == bad, "error iff nonce mismatch, cannot prepay gas, pool exhausted, limit below intrinsic, or cannot afford value")
	if c.err != nil {
		vs.Reach("reject")
		return
	}
	vs.Reach("accept")
	if c.failed {
		vs.Reach("failed")
	}
	collision := c.pre == 2
	vs.Assert(tr.log.called == !collision, "frame entered unless the address is taken")
	if collision {
		vs.Assert(c.failed, "address collision fails the transaction")
		tr.log.gasIn, tr.log.left = t.limit-c.intrinsic, 0 // all gas consumed
	} else {
		vs.Assert(c.failed == (tr.log.err != nil), "failed iff the vm reported an error")
	}
	vs.Assert(tr.log.gasIn == t.limit-c.intrinsic, "gas forwarded = limit - intrinsic")
	// the frame's effects survive iff it did not fail; before Homestead running out of gas for
	// the code deposit leaves an account without code behind (protocol rule of that era)
	kept := !c.failed || (!c.homest && tr.log.err == vm.ErrCodeStoreOutOfGas)
	if kept && c.failed {
		vs.Reach("frontier-codestore")
	}
	retLen := c06InitReturns[c.progIdx]
	if retLen > 24576 && c.eip158 {
		vs.Reach("oversize")
		vs.Assert(c.failed, "a creation returning more than 24576 bytes of code fails (EIP158 rules)")
	}
	// a failed frame keeps its leftover gas only if it ended in REVERT (Byzantium on) or, before
	// Homestead, ran out of gas for the code deposit; every other failure consumes all gas
	reverted := c.progIdx == 3 && t.cfg.IsByzantium(big.NewInt(100))
	if c.failed && !kept && !reverted {
		vs.Assert(tr.log.left == 0, "a failed creation (other than REVERT) consumes all its gas")
	}
	if !kept {
		vs.Assert(t.db.nlogs == 0, "no log survives a failed creation")
	}

	spent := t.limit - tr.log.left
	refund := spent / 2
	if t.db.refund < refund {
		refund = t.db.refund
	}
	vs.Assert(c.used == spent-refund, "gasUsed = limit - leftover - min(refund counter, (limit-leftover)/2)")
	vs.Assert(c.used <= t.limit, "gasUsed <= gas limit")
	vs.Assert(spent >= c.intrinsic, "gas consumed before the refund >= intrinsic gas")
	vs.Assert(c.used >= spent-spent/2, "refund capped at half of the gas consumed")
	vs.Assert(c.pool1 == t.pool-c.used, "pool' = pool - gasUsed")
	vs.Observe("used", c.used)

	fee := new(big.Int).Mul(new(big.Int).SetUint64(c.used), t.price)
	n := len(t.db.log)
	vs.Assert(n >= 3 && t.db.log[0].sub && t.db.log[0].addr == t.sender && !t.db.log[n-2].sub && t.db.log[n-2].addr == t.sender &&
		!t.db.log[n-1].sub && t.db.log[n-1].addr == t.coinbase, "buyGas debit first, sender refund and coinbase credit last")
	vs.Assert(t.db.log[0].amount.Cmp(prepay) == 0, "prepayment = limit*price")
	vs.Assert(t.db.log[n-1].amount.Cmp(fee) == 0, "coinbase credit = gasUsed*price")
	vs.Assert(new(big.Int).SetUint64(t.limit).Cmp(new(big.Int).Add(new(big.Int).SetUint64(t.gasLeft), new(big.Int).SetUint64(c.used))) == 0, "limit = remaining gas + gasUsed")
	vs.Assert(t.db.log[n-2].amount.Cmp(new(big.Int).Mul(new(big.Int).SetUint64(t.gasLeft), t.price)) == 0, "sender refund = remaining gas * price")
	vs.Assert(t.db.log[0].amount.Cmp(new(big.Int).Add(t.db.log[n-2].amount, t.db.log[n-1].amount)) == 0, "prepayment = refund + fee")
	vs.Assert(t.db.nonNegative(), "no balance ever below zero")

	for i, a := range t.db.accts {
		if a.addr == c.at {
			continue
		}
		want := new(big.Int).Set(t.bal0[i])
		wn := t.nonce0[i]
		if a.addr == t.sender {
			want.Sub(want, fee)
			if kept {
				want.Sub(want, t.value)
			}
			wn++
		}
		if a.addr == t.coinbase {
			want.Add(want, fee)
		}
		vs.Assert(a.bal.Cmp(want) == 0, "balance' = balance - [sender](fee + value if kept) + [coinbase]fee")
		vs.Assert(a.nonce == wn, "nonce' = nonce + 1 for the sender only")
	}
	// the new contract
	nc := t.db.find(c.at)
	if kept {
		vs.Assert(nc != nil && nc.exist, "contract account exists")
		vs.Assert(nc.bal.Cmp(new(big.Int).Add(c.preBal, t.value)) == 0, "contract balance = value (+ what the address held before)")
		wn := uint64(0)
		if c.eip158 {
			wn = 1
		}
		vs.Assert(nc.nonce == wn, "contract nonce")
		if !c.failed {
			vs.Assert(len(nc.code) == retLen, "returned code stored")
			if retLen == 24576 {
				vs.Reach("maxsize-stored")
			}
		} else {
			vs.Assert(len(nc.code) == 0, "no code stored")
		}
	} else if c.pre == 0 {
		vs.Assert(nc == nil || !nc.exist, "nothing left at the contract address after a failed creation")
	} else {
		vs.Assert(nc.exist && nc.bal.Cmp(c.preBal) == 0 && len(nc.code) == 0, "pre-existing account at the contract address unchanged after a failed creation")
	}
}
