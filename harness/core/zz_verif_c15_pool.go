package core

// C15 harnesses (part 2): the pool maintenance steps re-establish the pending
// invariant (inductive single-step checks over the real tx_pool.go).
//
//   VerifC15_Reset   arbitrary structurally consistent pool, arbitrary new head
//                    state (nonces, balances, gas limit) -> real reset(nil, head)
//                    (demoteUnexecutables, pending-nonce update, promoteExecutables)
//   VerifC15_AddTx   pool satisfying the invariant, arbitrary transaction ->
//                    real addTx (validateTx, add, enqueueTx, promoteExecutables)
//   VerifC15_Remove  pool satisfying the invariant -> real removeTx of any member
//
// Senders come from a harness Signer (pool.signer is an interface), the state is
// a real StateDB over an empty harness trie, the chain is a harness blockChain.
// Under the engine tx.Hash()/tx.Size() are redirected to c15Hash/c15Size (the
// real ones are keccak over reflective RLP); natively the real ones run - both
// give every transaction object of a run its own hash and a small size.

import (
	"errors"
	"math"
	"math/big"
	"time"

	"gitlab.com/aquachain/aquachain/aqua/event"
	"gitlab.com/aquachain/aquachain/aquadb"
	"gitlab.com/aquachain/aquachain/common"
	"gitlab.com/aquachain/aquachain/core/state"
	"gitlab.com/aquachain/aquachain/core/types"
	vs "gitlab.com/aquachain/aquachain/internal/verifsym"
	"gitlab.com/aquachain/aquachain/trie"
)

// ---------------------------------------------------------------------------
// stubs

// c15Hash replaces (*types.Transaction).Hash under the engine: the payload tag
// (unique per transaction object, see c15Tx) is the identity.
func c15Hash(tx *types.Transaction) common.Hash {
	var h common.Hash
	d := tx.Data()
	h[0] = 0xc1
	h[31] = d[0]
	return h
}

// c15HeaderHash replaces (*types.Header).Hash under the engine: the first
// extra-data byte (unique per harness block) is the identity.
func c15HeaderHash(h *types.Header) common.Hash {
	var x common.Hash
	x[0] = 0xb1
	x[31] = h.Extra[0]
	return x
}

// c15Size replaces (*types.Transaction).Size under the engine.
func c15Size(tx *types.Transaction) common.StorageSize { return 110 }

type c15Signer struct {
	from map[*types.Transaction]common.Address
}

var errC15NoSender = errors.New("c15: transaction without a valid signature")

func (s *c15Signer) Sender(tx *types.Transaction) (common.Address, error) {
	a, ok := s.from[tx]
	if !ok {
		return common.Address{}, errC15NoSender
	}
	return a, nil
}
func (s *c15Signer) SignatureValues(tx *types.Transaction, sig []byte) (*big.Int, *big.Int, *big.Int, error) {
	return nil, nil, nil, errC15NoSender
}
func (s *c15Signer) Hash(tx *types.Transaction) common.Hash { return common.Hash{} }
func (s *c15Signer) Equal(o types.Signer) bool {
	x, ok := o.(*c15Signer)
	return ok && x == s
}

// empty account trie: an account that was not set explicitly does not exist
type c15Trie struct{}

func (c15Trie) TryGet(key []byte) ([]byte, error)                             { return nil, nil }
func (c15Trie) TryUpdate(key, value []byte) error                             { return nil }
func (c15Trie) TryDelete(key []byte) error                                    { return nil }
func (c15Trie) Commit(onleaf trie.LeafCallback) (common.Hash, error)          { return common.Hash{}, nil }
func (c15Trie) Hash() common.Hash                                             { return common.Hash{} }
func (c15Trie) NodeIterator(startKey []byte) trie.NodeIterator                { return nil }
func (c15Trie) GetKey(b []byte) []byte                                        { return b }
func (c15Trie) Prove(key []byte, fromLevel uint, proofDb aquadb.Putter) error { return nil }

type c15DB struct{}

func (c15DB) OpenTrie(root common.Hash) (state.Trie, error)                  { return c15Trie{}, nil }
func (c15DB) OpenStorageTrie(addrHash, root common.Hash) (state.Trie, error) { return c15Trie{}, nil }
func (c15DB) CopyTrie(t state.Trie) state.Trie                               { return t }
func (c15DB) ContractCode(addrHash, codeHash common.Hash) ([]byte, error)    { return nil, nil }
func (c15DB) ContractCodeSize(addrHash, codeHash common.Hash) (int, error)   { return 0, nil }
func (c15DB) TrieDB() *trie.Database                                         { return nil }

type c15Chain struct {
	next   *state.StateDB
	blocks map[common.Hash]*types.Block
}

func (c *c15Chain) CurrentBlock() *types.Block { return nil }
func (c *c15Chain) GetBlock(hash common.Hash, number uint64) *types.Block {
	b := c.blocks[hash]
	if b == nil || b.NumberU64() != number {
		return nil
	}
	return b
}
func (c *c15Chain) StateAt(root common.Hash) (*state.StateDB, error)                    { return c.next, nil }
func (c *c15Chain) SubscribeChainHeadEvent(ch chan<- ChainHeadEvent) event.Subscription { return nil }

// ---------------------------------------------------------------------------
// world

var c15Addrs = []common.Address{{0xa1}, {0xb2}}

type c15Acct struct {
	addr  common.Address
	local bool
	base  uint64 // nonce of the first pending transaction
	nonce uint64 // chain nonce in the current state
	bal   *big.Int
	txs   []*types.Transaction // transactions of this account in the initial pool
}

type c15World struct {
	pool      *TxPool
	signer    *c15Signer
	chain     *c15Chain
	accts     []*c15Acct
	tag       byte
	priced    bool // transactions get symbolic prices (else price 0: cost = value)
	locals    bool // accounts may be local
	sorted    bool // symbolic prices are non-decreasing in creation order (quick tier)
	lastPrice *big.Int
	blockGas  uint64 // gas limit of the harness blocks
	quiet     bool   // queued transactions are affordable, not stale and not promotable (nothing but the limits acts on them)
}

func (w *c15World) newTx(from common.Address, nonce uint64, value *big.Int, gas uint64, price *big.Int) *types.Transaction {
	w.tag++
	tx := c15Tx(w.tag, nonce, value, gas, price)
	w.signer.from[tx] = from
	return tx
}

func c15NewState(accts []*c15Acct) *state.StateDB {
	db, err := state.New(common.Hash{}, c15DB{})
	if err != nil {
		panic(err)
	}
	for _, a := range accts {
		db.SetNonce(a.addr, a.nonce)
		db.SetBalance(a.addr, a.bal)
	}
	return db
}

// c15NewWorld makes an empty pool over na accounts with symbolic chain nonces
// and balances and a symbolic block gas limit; the slot/queue limits are the
// defaults or (symLimits) small symbolic values.
func c15NewWorld(na int, priced, symLimits bool) *c15World {
	w := &c15World{signer: &c15Signer{from: map[*types.Transaction]common.Address{}}, chain: &c15Chain{}, priced: priced}
	for i := 0; i < na; i++ {
		a := &c15Acct{addr: c15Addrs[i]}
		a.nonce = vs.U64("statenonce")
		vs.Assume(a.nonce <= math.MaxUint64-16)
		a.bal = vs.BigU("balance", 256)
		w.accts = append(w.accts, a)
	}
	cfg := DefaultTxPoolConfig // limits far above the handful of transactions of a harness run
	cfg.Journal = ""
	if symLimits {
		cfg.AccountSlots = vs.U64("accountslots")
		cfg.GlobalSlots = vs.U64("globalslots")
		cfg.AccountQueue = vs.U64("accountqueue")
		cfg.GlobalQueue = vs.U64("globalqueue")
		vs.Assume(cfg.AccountSlots <= 8)
		vs.Assume(cfg.GlobalSlots <= 8)
		vs.Assume(cfg.AccountQueue <= 8)
		vs.Assume(cfg.GlobalQueue <= 8)
	}
	pool := &TxPool{
		config:   cfg,
		chain:    w.chain,
		signer:   w.signer,
		pending:  make(map[common.Address]*txList),
		queue:    make(map[common.Address]*txList),
		beats:    make(map[common.Address]time.Time),
		all:      make(map[common.Hash]*types.Transaction),
		gasPrice: vs.BigU("poolgasprice", 64),
	}
	pool.locals = newAccountSet(pool.signer)
	pool.priced = newTxPricedList(&pool.all)
	pool.currentState = c15NewState(w.accts)
	pool.pendingState = state.ManageState(pool.currentState)
	pool.currentMaxGas = vs.U64("blockgaslimit")
	w.pool = pool
	return w
}

// c15Gas: gas limits of the pool's transactions.  With symbolic prices the gas
// limits are fixed per transaction (cost = price*gas + value stays linear).
func (w *c15World) gasFor() uint64 {
	if w.priced {
		return 21068 + 1000*uint64(w.tag)
	}
	return vs.U64("gas")
}

func (w *c15World) priceFor() *big.Int {
	if w.priced {
		p := vs.BigU("price", 64)
		if w.sorted && w.lastPrice != nil {
			vs.Assume(p.Cmp(w.lastPrice) >= 0) // creation order = price order: no forks while building the price heap
		}
		w.lastPrice = p
		return p
	}
	return big.NewInt(0)
}

// fill gives account a np pending transactions base..base+np-1 and nq queued
// transactions with arbitrary other nonces, with all the bookkeeping the pool
// keeps for them (all, priced, pending nonce, caps above the contents).  With
// full=true the pending ones are executable in the current state.
func (w *c15World) fill(a *c15Acct, np, nq int, full bool) {
	pool := w.pool
	if w.locals && a == w.accts[0] && vs.Choice("local", 2) == 1 { // the first account may be a local one
		a.local = true
		pool.locals.add(a.addr)
	}
	a.base = a.nonce
	if !full {
		a.base = vs.U64("pendingbase")
		vs.Assume(a.base <= math.MaxUint64-16)
	}
	put := func(l *txList, nonce uint64) {
		gas := w.gasFor()
		tx := w.newTx(a.addr, nonce, vs.BigU("value", 256), gas, w.priceFor())
		l.txs.Put(tx)
		cost := tx.Cost()
		vs.Assume(l.costcap.Cmp(cost) >= 0)
		vs.Assume(l.gascap >= gas)
		if full && (l.strict || w.quiet) {
			vs.Assume(cost.Cmp(a.bal) <= 0)
			vs.Assume(gas <= pool.currentMaxGas)
		}
		pool.all[tx.Hash()] = tx
		pool.priced.Put(tx)
		a.txs = append(a.txs, tx)
	}
	if np > 0 {
		l := newTxList(true)
		l.costcap, l.gascap = vs.BigU("costcap", 330), vs.U64("gascap")
		for k := 0; k < np; k++ {
			put(l, a.base+uint64(k))
		}
		pool.pending[a.addr] = l
		pool.beats[a.addr] = time.Time{}
	}
	pool.pendingState.SetNonce(a.addr, a.base+uint64(np))
	if nq > 0 {
		l := newTxList(false)
		l.costcap, l.gascap = vs.BigU("costcap", 330), vs.U64("gascap")
		var qn []uint64
		for k := 0; k < nq; k++ {
			nonce := vs.U64("queuednonce")
			vs.Assume(nonce <= math.MaxUint64-16)
			vs.Assume(nonce-a.base >= uint64(np)) // not one of the pending nonces
			if full {
				vs.Assume(nonce-a.base != uint64(np)) // nor the next one (it would have been promoted)
			}
			if w.quiet {
				vs.Assume(nonce > a.base+uint64(np))
			}
			for _, o := range qn {
				vs.Assume(nonce != o)
			}
			qn = append(qn, nonce)
			put(l, nonce)
		}
		if w.quiet {
			vs.Assume(l.costcap.Cmp(a.bal) <= 0)
			vs.Assume(l.gascap <= pool.currentMaxGas)
		}
		pool.queue[a.addr] = l
	}
}

// c15Invariant asserts the invariant I of DESIGN.md (C15) on the pool.
func (w *c15World) invariant() {
	pool := w.pool
	for _, a := range w.accts {
		sn := pool.currentState.GetNonce(a.addr)
		bal := pool.currentState.GetBalance(a.addr)
		np := 0
		if l := pool.pending[a.addr]; l != nil {
			vs.Assert(l.strict, "pending lists are strict")
			c15IndexOK(l.txs)
			np = l.Len()
			vs.Assert(np > 0 || pool.config.AccountSlots == 0, "no empty pending list is kept (unless AccountSlots = 0)")
			for _, nonce := range *l.txs.index {
				vs.Assert(nonce-sn < uint64(np), "pending nonces form the gap-free run starting at the chain nonce")
				tx := l.txs.items[nonce]
				w.member(a, tx, nonce, l)
				vs.Assert(tx.Cost().Cmp(bal) <= 0, "pending transaction is affordable")
				vs.Assert(tx.Gas() <= pool.currentMaxGas, "pending transaction fits the block gas limit")
			}
		}
		vs.Assert(pool.pendingState.GetNonce(a.addr) == sn+uint64(np), "pending nonce = chain nonce + number of pending transactions")
		if l := pool.queue[a.addr]; l != nil {
			vs.Assert(!l.strict, "queue lists are not strict")
			vs.Assert(l.Len() > 0, "no empty queue list is kept")
			c15IndexOK(l.txs)
			for _, nonce := range *l.txs.index {
				vs.Assert(nonce-sn >= uint64(np), "at most one transaction per sender and nonce across pending and queue")
				vs.Assert(nonce-sn != uint64(np), "no queued transaction at the next pending nonce (everything executable is pending)")
				w.member(a, l.txs.items[nonce], nonce, l)
			}
		}
	}
}

func (w *c15World) member(a *c15Acct, tx *types.Transaction, nonce uint64, l *txList) {
	vs.Assert(tx.Nonce() == nonce, "list key is the transaction nonce")
	from, err := types.Sender(w.pool.signer, tx)
	vs.Assert(err == nil && from == a.addr, "list belongs to the sender")
	vs.Assert(w.pool.all[tx.Hash()] == tx, "listed transaction is in the lookup map")
	vs.Assert(l.costcap.Cmp(tx.Cost()) >= 0, "costcap covers the list")
	vs.Assert(l.gascap >= tx.Gas(), "gascap covers the list")
}

// limits asserts the pool-wide bounds promoteExecutables establishes.
func (w *c15World) limits(only *c15Acct) {
	pool := w.pool
	pending, queued := uint64(0), uint64(0)
	allowance, onlyLocalsQueued := true, true
	for _, a := range w.accts {
		local := pool.locals.contains(a.addr)
		if l := pool.pending[a.addr]; l != nil {
			pending += uint64(l.Len())
			if !local {
				within := uint64(l.Len()) <= pool.config.AccountSlots
				allowance = allowance && within
			}
		}
		if l := pool.queue[a.addr]; l != nil {
			queued += uint64(l.Len())
			if !local {
				onlyLocalsQueued = false
				if only == nil || only == a {
					vs.Assert(uint64(l.Len()) <= pool.config.AccountQueue, "per-account queue limit for non-local senders")
				}
			}
		}
	}
	slots := pending <= pool.config.GlobalSlots
	vs.Assert(slots || allowance, "pending total within GlobalSlots unless every non-local sender is within AccountSlots")
	vs.Assert(queued <= pool.config.GlobalQueue || onlyLocalsQueued, "queued total within GlobalQueue unless only local senders are queued")
}

func c15Shape(name string, maxp, maxq int) (int, int) {
	return vs.Choice(name+"pending", maxp+1), vs.Choice(name+"queued", maxq+1)
}

// ---------------------------------------------------------------------------
// M1: head change

func VerifC15_Reset() {
	na := vs.Param("accounts")
	w := c15NewWorld(na, false, false)
	for _, a := range w.accts {
		np, nq := c15Shape("", vs.Param("maxpending"), vs.Param("maxqueued"))
		w.fill(a, np, nq, false)
	}
	// the new head: arbitrary nonces (a reorganisation may lower them), balances, gas limit
	for _, a := range w.accts {
		a.nonce = vs.U64("newstatenonce")
		vs.Assume(a.nonce <= math.MaxUint64-16)
		a.bal = vs.BigU("newbalance", 256)
	}
	w.chain.next = c15NewState(w.accts)
	head := &types.Header{GasLimit: vs.U64("newblockgaslimit")}
	w.pool.reset(nil, head)
	w.invariant()
	w.limits(nil)
	w.observe()
}

func (w *c15World) counts() (npend, nqueue int) {
	for _, a := range w.accts {
		if l := w.pool.pending[a.addr]; l != nil {
			npend += l.Len()
		}
		if l := w.pool.queue[a.addr]; l != nil {
			nqueue += l.Len()
		}
	}
	return
}

func (w *c15World) observe() {
	npend, nqueue := w.counts()
	vs.Observe("pending", npend)
	vs.Observe("queued", nqueue)
	if npend > 0 {
		vs.Reach("some-pending")
	}
	if nqueue > 0 {
		vs.Reach("some-queued")
	}
}

// ---------------------------------------------------------------------------
// M2: submission of one transaction

var c15GasChoices = []uint64{90000, 21000, 21068} // above / below / at the intrinsic gas of a 1-byte payload (21068)

func VerifC15_AddTx() {
	na := vs.Param("accounts")
	w := c15NewWorld(na, true, false)
	w.locals = vs.Param("locals") == 1
	w.sorted = vs.Param("sortedprices") == 1
	for _, a := range w.accts {
		np, nq := c15Shape("", vs.Param("maxpending"), vs.Param("maxqueued"))
		w.fill(a, np, nq, true)
	}
	pool := w.pool
	who := vs.Choice("sender", na+vs.Param("badsender")) // na: no valid signature
	nonce := vs.U64("txnonce")
	vs.Assume(nonce <= math.MaxUint64-16)
	gas := c15GasChoices[vs.Choice("txgas", vs.Param("gaschoices"))]
	price := vs.BigU("txprice", 64)
	value := vs.Big("txvalue")
	vs.Assume(value.Cmp(c15Two256) < 0)
	w.tag++
	tx := c15Tx(w.tag, nonce, value, gas, price)
	var from *c15Acct
	if who < na {
		from = w.accts[who]
		w.signer.from[tx] = from.addr
	}
	local := w.locals && vs.Choice("aslocal", 2) == 1
	room := uint64(len(pool.all)) < pool.config.GlobalSlots+pool.config.GlobalQueue // no eviction for room

	err := pool.addTx(tx, local)

	w.invariant()
	w.limits(from)
	accepted := err == nil
	vs.Observe("accepted", accepted)
	if accepted {
		vs.Reach("accept")
		vs.Assert(from != nil, "accepted transaction has a valid sender")
		sn := pool.currentState.GetNonce(from.addr)
		vs.Assert(nonce >= sn, "accepted transaction is not older than the chain nonce")
		vs.Assert(tx.Cost().Cmp(pool.currentState.GetBalance(from.addr)) <= 0, "accepted transaction is affordable")
		vs.Assert(gas <= pool.currentMaxGas, "accepted transaction fits the block gas limit")
		vs.Assert(value.Sign() >= 0, "accepted transaction has no negative value")
		if !local && !from.local { // submitted as remote, from an account that was not local
			vs.Assert(price.Cmp(pool.gasPrice) >= 0, "accepted remote transaction pays the pool's minimum price")
		}
	} else {
		vs.Reach("reject")
	}
	// a same-nonce replacement needs the price bump (PriceBump = 10)
	if from != nil && pool.all[tx.Hash()] == tx {
		for _, t0 := range from.txs {
			same := t0.Nonce() == nonce
			p0 := t0.GasPrice()
			higher := price.Cmp(p0) > 0
			lhs := new(big.Int).Mul(big.NewInt(100), new(big.Int).Add(price, big.NewInt(1)))
			bumped := lhs.Cmp(new(big.Int).Mul(p0, big.NewInt(110))) > 0
			ok := higher && bumped
			vs.Assert(!(same && room) || ok, "same-nonce replacement only with the configured price bump")
			if pool.all[t0.Hash()] == t0 {
				vs.Assert(!same, "replaced transaction leaves the pool")
			}
		}
	}
	w.observe()
}

var c15Two256 = new(big.Int).Lsh(big.NewInt(1), 256)

// ---------------------------------------------------------------------------
// M3: removal of a member (eviction, SetGasPrice, limit enforcement all go through removeTx)

func VerifC15_Remove() {
	na := vs.Param("accounts")
	w := c15NewWorld(na, vs.Param("priced") == 1, false)
	var members []*types.Transaction
	for _, a := range w.accts {
		np, nq := c15Shape("", vs.Param("maxpending"), vs.Param("maxqueued"))
		w.fill(a, np, nq, true)
		members = append(members, a.txs...)
	}
	if vs.Param("priced") == 1 && vs.Choice("op", 2) == 1 {
		vs.Reach("setgasprice")
		w.pool.SetGasPrice(vs.BigU("newpoolgasprice", 64))
	} else {
		if len(members) == 0 {
			return
		}
		victim := members[vs.Choice("victim", len(members))]
		w.pool.removeTx(victim.Hash())
		vs.Assert(w.pool.all[victim.Hash()] == nil, "removed transaction leaves the lookup map")
	}
	w.invariant()
	w.observe()
}

// ---------------------------------------------------------------------------
// M4: pool-wide and per-account limits.  The pool satisfies the invariant and
// nothing is stale, unaffordable or promotable, so promoteExecutables only
// enforces AccountQueue, GlobalSlots/AccountSlots and GlobalQueue (small
// symbolic values); local senders are exempt.

func VerifC15_Limits() {
	na := vs.Param("accounts")
	w := c15NewWorld(na, false, true)
	w.locals = true
	w.quiet = true
	for _, a := range w.accts {
		np, nq := c15Shape("", vs.Param("maxpending"), vs.Param("maxqueued"))
		w.fill(a, np, nq, true)
	}
	if na > 1 && vs.Choice("olderbeat", 2) == 1 {
		w.pool.beats[w.accts[0].addr] = time.Unix(1000, 0)
	} else if na > 1 {
		w.pool.beats[w.accts[1].addr] = time.Unix(1000, 0)
	}
	p0, q0 := w.counts()
	w.pool.promoteExecutables(nil)
	w.invariant()
	w.limits(nil)
	p1, q1 := w.counts()
	if p1 < p0 {
		vs.Reach("pending-capped")
	}
	if q1 < q0 {
		vs.Reach("queue-capped")
	}
	w.observe()
}

// ---------------------------------------------------------------------------
// M5: head change across a fork.  Blocks are real types.Block objects served by
// the harness chain; the pool starts empty.  Transactions of the abandoned
// branch that the new branch does not contain are pooled again if they are
// valid in the new head state, and the invariant holds.

func (w *c15World) block(parent *types.Block, number int64, txs []*types.Transaction) *types.Block {
	w.tag++
	h := &types.Header{Number: big.NewInt(number), Extra: []byte{w.tag}, Version: 1, GasLimit: w.blockGas}
	if parent != nil {
		h.ParentHash = parent.Hash()
	}
	b := types.NewBlockWithHeader(h).WithBody(txs, nil)
	w.chain.blocks[b.Hash()] = b
	return b
}

func VerifC15_Reorg() {
	w := c15NewWorld(1, true, false)
	w.chain.blocks = map[common.Hash]*types.Block{}
	a := w.accts[0]
	pool := w.pool
	// two transactions of the account were mined on the old branch
	n0 := vs.U64("minednonce")
	vs.Assume(n0 <= math.MaxUint64-16)
	var mined []*types.Transaction
	for k := 0; k < 2; k++ {
		mined = append(mined, w.newTx(a.addr, n0+uint64(k), vs.BigU("value", 256), w.gasFor(), w.priceFor()))
	}
	w.blockGas = vs.U64("newblockgaslimit")
	ancestor := w.block(nil, 10, nil)
	lo := 1 + vs.Choice("oldlen", 2) // old branch: 1 or 2 blocks
	ln := vs.Choice("newlen", 3)     // new branch: 0 (rewind to the ancestor), 1 or 2 blocks
	oldTip := ancestor
	if lo == 1 {
		oldTip = w.block(oldTip, 11, mined)
	} else {
		oldTip = w.block(oldTip, 11, mined[:1])
		oldTip = w.block(oldTip, 12, mined[1:])
	}
	// the new branch may contain the first of them again
	again := ln > 0 && vs.Choice("includedagain", 2) == 1
	newTip := ancestor
	for i := 0; i < ln; i++ {
		var txs []*types.Transaction
		if again && i == ln-1 {
			txs = mined[:1]
		}
		newTip = w.block(newTip, int64(11+i), txs)
	}
	a.nonce = vs.U64("newstatenonce")
	vs.Assume(a.nonce <= math.MaxUint64-16)
	a.bal = vs.BigU("newbalance", 256)
	w.chain.next = c15NewState(w.accts)
	newHead := newTip.Header()

	pool.reset(oldTip.Header(), newHead)

	w.invariant()
	for k, tx := range mined {
		dropped := !(again && k == 0)
		fresh := tx.Nonce() >= a.nonce
		funded := tx.Cost().Cmp(a.bal) <= 0
		fits := tx.Gas() <= newHead.GasLimit
		paid := tx.GasPrice().Cmp(pool.gasPrice) >= 0
		valid := fresh && funded
		valid = valid && fits
		valid = valid && paid
		pooled := pool.all[tx.Hash()] == tx
		if dropped {
			vs.Assert(!valid || pooled, "transaction of the abandoned branch is pooled again if still valid")
		} else {
			vs.Assert(!pooled, "transaction contained in the new branch is not pooled")
		}
		if pooled {
			vs.Reach("reinjected")
		}
	}
	w.observe()
}

// ---------------------------------------------------------------------------
// M6: equalisation of unequal offenders.  Two non-local senders hold different
// numbers of pending transactions (2..maxA and 1..maxB, nothing queued), the
// limits are small symbolic values: promoteExecutables enters its first
// truncation loop (the larger sender is cut down to the smaller one's count)
// as well as the second.  The invariant - in particular "pending nonce = chain
// nonce + number of pending transactions" for BOTH senders - must hold after.

func VerifC15_Equalize() {
	w := c15NewWorld(2, false, true)
	w.quiet = true
	pa := 2 + vs.Choice("pendingA", vs.Param("maxA")-1)
	pb := 1 + vs.Choice("pendingB", vs.Param("maxB"))
	if vs.Choice("swap", 2) == 1 { // either account may be the bigger one
		pa, pb = pb, pa
	}
	w.fill(w.accts[0], pa, 0, true)
	w.fill(w.accts[1], pb, 0, true)
	p0, _ := w.counts()
	w.pool.promoteExecutables(nil)
	w.invariant()
	w.limits(nil)
	p1, _ := w.counts()
	if p1 < p0 {
		vs.Reach("pending-capped")
	}
	la, lb := 0, 0
	if l := w.pool.pending[w.accts[0].addr]; l != nil {
		la = l.Len()
	}
	if l := w.pool.pending[w.accts[1].addr]; l != nil {
		lb = l.Len()
	}
	if p1 < p0 && la == lb && pa != pb {
		vs.Reach("equalized")
	}
	w.observe()
}
