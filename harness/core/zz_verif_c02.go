package core

// C02: the head is always a heaviest fully validated block.
//
// One inductive step of the real fork choice (WriteBlockWithState, and
// HeaderChain.WriteHeader for the header head) from a store whose total
// difficulties are arbitrary integers satisfying the invariant
//   TD(b) = TD(parent(b)) + difficulty(b)   and   TD(head) >= TD(b)  for every stored b.

import (
	"math/big"

	"gitlab.com/aquachain/aquachain/common"
	"gitlab.com/aquachain/aquachain/core/types"
	vs "gitlab.com/aquachain/aquachain/internal/verifsym"
)

type c02Stored struct {
	b  *types.Block
	td *big.Int
}

// c02Scene is a stored tree: every block fully validated, one of them the head.
type c02Scene struct {
	f      *c02Fix
	all    []c02Stored
	head   c02Stored
	parent c02Stored // parent of the block/header about to be imported
}

func c02Diff(name string) *big.Int {
	d := c02Big(name)
	vs.Assume(d.Sign() > 0)
	return d
}

func (s *c02Scene) add(parent *c02Stored, name string) c02Stored {
	var st c02Stored
	if parent == nil {
		st.b = s.f.block(nil, c02Diff("d"+name))
		st.td = c02Big("tdG")
	} else {
		d := c02Diff("d" + name)
		st.b = s.f.block(parent.b, d)
		st.td = new(big.Int).Add(parent.td, d)
	}
	s.f.store(st.b, st.td)
	s.all = append(s.all, st)
	return st
}

// c02Shapes: where the incoming block attaches relative to the head.
//  0 child of the head                      (plain extension)
//  1 sibling of the head                    (same height: heavier / lighter / tie -> coin)
//  2 child of a stored side block, same height as head after import (2 old / 2 new)
//  3 child of the head's grandparent        (lower than the head: "shorter", tie -> lower number wins)
//  4 child of a stored 2-block side chain   (higher than the head: "longer", may be lighter)
//  5 3-block canonical chain, child of a stored 2-block side chain (3 old / 3 new)   [thorough]
//  6 3-block canonical chain, child of genesis (number 1, head at 3)                 [thorough]

func c02Build(shape int) *c02Scene {
	s := &c02Scene{f: c02NewFix()}
	g := s.add(nil, "G")
	s.f.canon(g.b)
	a1 := s.add(&g, "A1")
	s.f.canon(a1.b)
	switch shape {
	case 0, 1, 2, 3:
		a2 := s.add(&a1, "A2")
		s.f.canon(a2.b)
		s.head = a2
		switch shape {
		case 0:
			s.parent = a2
		case 1:
			s.parent = a1
		case 2:
			s.parent = s.add(&g, "S1")
		case 3:
			s.parent = g
		}
	case 4:
		s.head = a1
		s1 := s.add(&g, "S1")
		s.parent = s.add(&s1, "S2")
	case 5, 6:
		a2 := s.add(&a1, "A2")
		s.f.canon(a2.b)
		a3 := s.add(&a2, "A3")
		s.f.canon(a3.b)
		s.head = a3
		if shape == 5 {
			s1 := s.add(&g, "S1")
			s.parent = s.add(&s1, "S2")
		} else {
			s.parent = g
		}
	}
	s.f.head(s.head.b)
	// invariant: nothing stored is heavier than the head
	for _, x := range s.all {
		vs.Assume(x.td.Cmp(s.head.td) <= 0)
	}
	s.f.open()
	return s
}

// VerifC02_WriteBlockStep: one WriteBlockWithState step preserves the invariant.
func VerifC02_WriteBlockStep() {
	s := c02Build(vs.Choice("shape", vs.Param("shapes")))
	f, bc := s.f, s.f.bc
	vs.Assert(bc.CurrentBlock().Hash() == s.head.b.Hash(), "fixture: opened chain has the constructed head")

	dB := c02Diff("dB")
	b := f.block(s.parent.b, dB)
	localTd := s.head.td
	externTd := new(big.Int).Add(s.parent.td, dB)

	status, err := f.imp(b)
	vs.Assert(err == nil, "import of a block with known parent succeeds")

	// stored TD of the new block
	tdB := GetTd(f.db, b.Hash(), b.NumberU64())
	vs.Assert(tdB != nil, "TD of the imported block is stored")
	vs.Assert(tdB.Cmp(externTd) == 0, "stored TD = TD(parent) + difficulty")
	vs.Assert(bc.GetTd(b.Hash(), b.NumberU64()).Cmp(externTd) == 0, "cached TD = TD(parent) + difficulty")

	// new head
	nh := bc.CurrentBlock()
	isOld := nh.Hash() == s.head.b.Hash()
	isNew := nh.Hash() == b.Hash()
	vs.Assert(isOld || isNew, "new head is the old head or the imported block")
	vs.Assert((status == CanonStatTy) == isNew, "status CanonStatTy iff the imported block became head")
	tdH := bc.GetTd(nh.Hash(), nh.NumberU64())
	vs.Assert(tdH != nil, "head has a TD")
	vs.Assert(tdH.Cmp(localTd) >= 0, "head TD never decreases")
	vs.Assert(tdH.Cmp(externTd) >= 0, "head is at least as heavy as the imported block")
	if externTd.Cmp(localTd) > 0 {
		vs.Reach("heavier")
		vs.Assert(isNew, "a strictly heavier block becomes head")
	} else if externTd.Cmp(localTd) < 0 {
		vs.Reach("lighter")
		vs.Assert(isOld, "a strictly lighter block does not become head")
	} else {
		vs.Reach("tie")
	}
	// everything stored is still dominated by the head
	for _, x := range s.all {
		xtd := GetTd(f.db, x.b.Hash(), x.b.NumberU64())
		vs.Assert(xtd != nil && xtd.Cmp(x.td) == 0, "TD of other blocks untouched")
		vs.Assert(xtd.Cmp(tdH) <= 0, "no stored block is heavier than the head")
	}
	// persistent head pointer agrees with the in-memory head
	vs.Assert(GetHeadBlockHash(f.db) == nh.Hash(), "LastBlock pointer names the in-memory head")
	vs.Assert(GetCanonicalHash(f.db, nh.NumberU64()) == nh.Hash(), "head is canonical at its height")
	vs.Observe("tdB", tdB)
}

// VerifC02_WriteHeaderStep: same step for the header chain (header-first sync).
func VerifC02_WriteHeaderStep() {
	s := c02Build(vs.Choice("shape", vs.Param("shapes")))
	f, hc := s.f, s.f.bc.hc
	vs.Assert(hc.CurrentHeader().Hash() == s.head.b.Hash(), "fixture: opened chain has the constructed header head")

	dB := c02Diff("dB")
	h := f.block(s.parent.b, dB).Header()
	localTd := s.head.td
	externTd := new(big.Int).Add(s.parent.td, dB)

	status, err := hc.WriteHeader(h)
	vs.Assert(err == nil, "import of a header with known parent succeeds")
	tdB := GetTd(f.db, h.Hash(), h.Number.Uint64())
	vs.Assert(tdB != nil && tdB.Cmp(externTd) == 0, "stored TD = TD(parent) + difficulty")

	nh := hc.CurrentHeader()
	isOld := nh.Hash() == s.head.b.Hash()
	isNew := nh.Hash() == h.Hash()
	vs.Assert(isOld || isNew, "new header head is the old one or the imported header")
	vs.Assert((status == CanonStatTy) == isNew, "status CanonStatTy iff the imported header became head")
	vs.Assert(hc.currentHeaderHash == nh.Hash(), "cached head hash matches the head header")
	tdH := hc.GetTd(nh.Hash(), nh.Number.Uint64())
	vs.Assert(tdH != nil, "header head has a TD")
	vs.Assert(tdH.Cmp(localTd) >= 0, "header head TD never decreases")
	vs.Assert(tdH.Cmp(externTd) >= 0, "header head is at least as heavy as the imported header")
	if externTd.Cmp(localTd) > 0 {
		vs.Reach("heavier")
		vs.Assert(isNew, "a strictly heavier header becomes head")
	} else if externTd.Cmp(localTd) < 0 {
		vs.Reach("lighter")
		vs.Assert(isOld, "a strictly lighter header does not become head")
	} else {
		vs.Reach("tie")
	}
	for _, x := range s.all {
		xtd := GetTd(f.db, x.b.Hash(), x.b.NumberU64())
		vs.Assert(xtd != nil && xtd.Cmp(x.td) == 0, "TD of other blocks untouched")
		vs.Assert(xtd.Cmp(tdH) <= 0, "no stored header is heavier than the header head")
	}
	vs.Assert(GetHeadHeaderHash(f.db) == nh.Hash(), "LastHeader pointer names the in-memory header head")
	vs.Assert(GetCanonicalHash(f.db, nh.Number.Uint64()) == nh.Hash(), "header head is canonical at its height")
	vs.Observe("tdB", tdB)
}

var _ = common.Hash{}

// VerifC02_PrunedAncestorStep: the fork choice of insertChain2 for a block whose
// parent is stored without state (ErrPrunedAncestor, pruning configuration).
// The REAL insertChain2 runs with the real BlockValidator: either the block is
// only stashed (WriteBlockWithoutState) - allowed iff TD(head) > TD(parent) +
// difficulty - or the state-less side chain is re-imported and the block goes
// through WriteBlockWithState.  Afterwards the head must be at least as heavy
// as the block that was given.
func VerifC02_PrunedAncestorStep() {
	s := &c02Scene{f: c02NewFix()}
	f := s.f
	f.arch = false
	g := s.add(nil, "G")
	f.canon(g.b)
	a1 := s.add(&g, "A1")
	f.canon(a1.b)
	s.head = a1
	if vs.Choice("headlen", 2) == 1 {
		a2 := s.add(&a1, "A2")
		f.canon(a2.b)
		s.head = a2
	}
	// side chain of 1..2 blocks stored WITHOUT state (as WriteBlockWithoutState leaves them)
	var side []c02Stored
	par := g
	for i, n := 0, 1+vs.Choice("sidelen", vs.Param("S")); i < n; i++ {
		d := c02Diff("dS")
		st := c02Stored{b: f.block(par.b, d), td: new(big.Int).Add(par.td, d)}
		WriteTd(f.db, st.b.Hash(), st.b.NumberU64(), st.td)
		WriteBlock(f.db, st.b)
		s.all = append(s.all, st)
		side = append(side, st)
		par = st
	}
	f.head(s.head.b)
	for _, x := range s.all {
		vs.Assume(x.td.Cmp(s.head.td) <= 0)
	}
	f.open()
	bc := f.bc
	vs.Assert(bc.CurrentBlock().Hash() == s.head.b.Hash(), "fixture: opened chain has the constructed head")
	vs.Assert(!bc.HasState(par.b.Root()) && bc.HasBlock(par.b.Hash(), par.b.NumberU64()), "fixture: the parent is stored without state")

	dB := c02Diff("dB")
	b := f.block(par.b, dB)
	localTd := s.head.td
	externTd := new(big.Int).Add(par.td, dB)

	_, _, _, err := bc.insertChain(types.Blocks{b})
	vs.Assert(err == nil, "import of a block on a state-less side chain succeeds")

	tdB := GetTd(f.db, b.Hash(), b.NumberU64())
	vs.Assert(tdB != nil && tdB.Cmp(externTd) == 0, "stored TD = TD(parent) + difficulty")
	vs.Assert(bc.GetBlock(b.Hash(), b.NumberU64()) != nil, "the block is stored")
	nh := bc.CurrentBlock()
	isOld := nh.Hash() == s.head.b.Hash()
	isNew := nh.Hash() == b.Hash()
	tdH := bc.GetTd(nh.Hash(), nh.NumberU64())
	vs.Assert(tdH != nil, "head has a TD")
	vs.Assert(tdH.Cmp(localTd) >= 0, "head TD never decreases")
	vs.Assert(tdH.Cmp(externTd) >= 0, "head is at least as heavy as the imported block")
	vs.Assert(bc.HasState(nh.Root()), "the head has its state")
	if externTd.Cmp(localTd) > 0 {
		vs.Reach("heavier")
		vs.Assert(isNew, "a strictly heavier block becomes head")
	} else if externTd.Cmp(localTd) < 0 {
		vs.Reach("lighter")
		vs.Assert(isOld, "a strictly lighter block does not become head")
		vs.Assert(!bc.HasState(b.Root()), "a lighter block on a state-less branch is only stashed (no state written)")
	} else {
		vs.Reach("tie")
	}
	if bc.HasState(b.Root()) {
		vs.Reach("reimported")
		for _, x := range side {
			vs.Assert(bc.HasBlockAndState(x.b.Hash(), x.b.NumberU64()), "re-import made the state of the whole side chain available")
		}
	} else {
		vs.Reach("stashed")
	}
	for _, x := range s.all {
		xtd := GetTd(f.db, x.b.Hash(), x.b.NumberU64())
		vs.Assert(xtd != nil && xtd.Cmp(x.td) == 0, "TD of other blocks untouched")
		vs.Assert(xtd.Cmp(tdH) <= 0, "no stored block is heavier than the head")
	}
	vs.Assert(GetHeadBlockHash(f.db) == nh.Hash(), "LastBlock pointer names the in-memory head")
	vs.Assert(GetCanonicalHash(f.db, nh.NumberU64()) == nh.Hash(), "head is canonical at its height")
	vs.Observe("tdB", tdB)
}
