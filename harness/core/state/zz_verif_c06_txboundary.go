package state

// C06 ("every included transaction is charged ... exactly"): the gas refund of a
// transaction is computed from the StateDB's refund counter (StateTransition.
// refundGas reads GetRefund and never decrements it), so exact charging of the
// NEXT transaction rests on the transaction boundary of the real StateDB:
// whatever a transaction left behind (refund counter, journal, snapshot
// revisions), after the Finalise / IntermediateRoot that ApplyTransaction issues
// after every transaction - and after Commit - the refund counter is zero, the
// journal is empty and no snapshot of the finished transaction can be reverted
// to.  The C06 lemmas in package core then hold from "refund counter = 0".
//
// Real StateDB over the stub Database/Trie of the C09 harnesses.

import (
	vs "gitlab.com/aquachain/aquachain/internal/verifsym"
)

func VerifC06_TxBoundary() {
	d := &c09Desc{}
	d.accts[0] = c09DescribeAcct(c09LightKinds, false, 0, false)
	d.accts[1] = c09DescribeAcct([]int{c09Absent}, false, 0, false)
	d.refund = vs.U64("refundBefore")
	deleteEmpty := vs.Bool("deleteEmpty")
	s := c09Build(d, deleteEmpty)

	// what a transaction does: snapshots, journalled writes, refunds
	s.Snapshot()
	if vs.Bool("write") {
		s.AddBalance(c09Addrs[0], vs.BigU("credit", 256))
	}
	if vs.Bool("earnsRefund") {
		add := vs.U64("refund")
		vs.Assume(add <= 1<<40 && d.refund <= 1<<40) // gas-bounded
		s.AddRefund(add)
	}
	if vs.Bool("nested") {
		id := s.Snapshot()
		s.SetNonce(c09Addrs[1], vs.U64("nonce"))
		if vs.Bool("revertInner") {
			s.RevertToSnapshot(id)
		}
	}
	vs.Observe("refundInside", s.GetRefund())

	switch vs.Choice("boundary", 2) {
	case 0:
		s.Finalise(deleteEmpty) // Byzantium and later: ApplyTransaction
	default:
		s.IntermediateRoot(deleteEmpty) // before Byzantium: ApplyTransaction; block end
	}
	vs.Reach("boundary")
	vs.Assert(s.GetRefund() == 0, "the refund counter is zero after the transaction boundary (a refund is granted to the transaction that earned it only)")
	vs.Assert(len(s.journal) == 0, "the journal is empty after the transaction boundary")
	vs.Assert(len(s.validRevisions) == 0, "no snapshot of a finished transaction stays revertible")
	// the next transaction starts from a clean slate: its own refund is all it gets
	next := vs.U64("nextRefund")
	vs.Assume(next <= 1<<40)
	s.AddRefund(next)
	vs.Assert(s.GetRefund() == next, "the next transaction's refund counter holds exactly what it earned")
}
