package state

// C01 harness H2: Go map iteration order cannot leak into the state content.
// Finalise / IntermediateRoot / Commit fold stateObjectsDirty, stateObjects and
// every dirtyStorage map into the tries; the engine explores every iteration
// order of those maps, and on every order the recorded trie content must equal
// the content defined directly (order-free) from the dirty set.
//
// Uses the stub Database/Trie and the engine-side stand-ins of the C09 harness
// file (zz_verif_c09.go).

import (
	"bytes"
	"math/big"

	"gitlab.com/aquachain/aquachain/common"
	"gitlab.com/aquachain/aquachain/core/types"
	vs "gitlab.com/aquachain/aquachain/internal/verifsym"
)

var c01Addrs = []common.Address{
	common.HexToAddress("0x00000000000000000000000000000000000000a1"),
	common.HexToAddress("0x00000000000000000000000000000000000000b2"),
	common.HexToAddress("0x00000000000000000000000000000000000000c3"),
}

type c01Slot struct {
	dirty bool
	value common.Hash // dirty value
}

type c01Acct struct {
	present  bool
	nonce    uint64
	balance  *big.Int
	suicided bool
	slots    [2]c01Slot
}

type c01Desc struct {
	nacc        int
	mode        int // 0 IntermediateRoot, 1 Commit
	deleteEmpty bool
	accts       [3]c01Acct
	slotBase    [3][]byte // older leaf in slot 0 of each storage trie
	acctBase    [3][]byte // older leaf of accounts 0 and 2 in the account trie
}

// VerifC01_MapOrder: up to A dirty accounts with up to S dirty storage slots.
func VerifC01_MapOrder() {
	d := &c01Desc{nacc: vs.Param("accounts")}
	d.mode = vs.Choice("mode", vs.Param("modes"))
	d.deleteEmpty = vs.Choice("deleteEmpty", 2) == 1
	for i := 0; i < d.nacc; i++ {
		a := &d.accts[i]
		a.present = true
		a.nonce = vs.U64("nonce")
		a.balance = vs.BigU("balance", 256)
		a.suicided = vs.Bool("suicided")
		nslots := vs.Param("slots") - i // the accounts carry S, S-1, ... dirty slots
		for k := 0; k < nslots && k < 2; k++ {
			a.slots[k].dirty = true
			a.slots[k].value = c09Hash("slotValue")
		}
		d.slotBase[i] = vs.BytesN("slotBaseLeaf", 4)
		d.acctBase[i] = vs.BytesN("baseLeaf", 4)
	}
	vs.Observe("nonce0", d.accts[0].nonce)
	// The engine explores every map iteration order on one run.  A native replay
	// cannot choose the order, so it repeats the fold on fresh copies of the same
	// state (Go randomises the order on every range statement).
	reps := 1
	if !vs.Symbolic() {
		reps = 64
	}
	for r := 0; r < reps; r++ {
		c01FoldOnce(d)
	}
}

func c01FoldOnce(d *c01Desc) {
	nacc, deleteEmpty := d.nacc, d.deleteEmpty
	emptyCodeHash = c09EmptyCodeHash()

	db := &c09DB{}
	for _, s := range c09Slots {
		db.slots = append(db.slots, common.CopyBytes(s[:]))
	}
	var akeys [][]byte
	for _, a := range c01Addrs {
		akeys = append(akeys, common.CopyBytes(a[:]))
	}
	at := c09NewTrie(akeys)
	st := &StateDB{
		db:                db,
		trie:              at,
		stateObjects:      make(map[common.Address]*stateObject),
		stateObjectsDirty: make(map[common.Address]struct{}),
		logs:              make(map[common.Hash][]*types.Log),
		preimages:         make(map[common.Hash][]byte),
	}
	var objs [3]*stateObject
	var wantStorage [3]*c09Trie
	for i := 0; i < nacc; i++ {
		a := &d.accts[i]
		obj := newObject(st, c01Addrs[i], Account{Nonce: a.nonce, Balance: new(big.Int).Set(a.balance)}, st.MarkStateObjectDirty)
		tr := c09NewTrie(db.slots)
		want := c09NewTrie(db.slots)
		obj.trie = tr
		// slot 0 holds some older leaf, slot 1 is absent from the storage trie
		tr.content[string(db.slots[0])] = d.slotBase[i]
		if !a.slots[0].dirty {
			want.content[string(db.slots[0])] = d.slotBase[i]
		}
		for k := 0; k < 2; k++ {
			s := &a.slots[k]
			if !s.dirty {
				continue
			}
			obj.cachedStorage[c09Slots[k]] = s.value
			obj.dirtyStorage[c09Slots[k]] = s.value
			// order-free definition of the storage content after the fold
			if s.value != (common.Hash{}) {
				want.content[string(db.slots[k])] = c09Leaf(s.value)
			}
		}
		obj.data.Root = common.HexToHash("0x5a1e") // stale
		obj.suicided = a.suicided
		obj.onDirty = nil
		st.stateObjectsDirty[c01Addrs[i]] = struct{}{}
		if i != 1 {
			// accounts 0 and 2 hold some older leaf, account 1 is absent from the account trie
			at.content[string(c01Addrs[i][:])] = d.acctBase[i]
		}
		st.setStateObject(obj)
		objs[i], wantStorage[i] = obj, want
	}

	// order-free definition of the account-trie content after the fold
	want := c09NewTrie(akeys)
	for i := 0; i < nacc; i++ {
		a := &d.accts[i]
		nz, bz := a.nonce == 0, a.balance.Sign() == 0
		gone := a.suicided || (deleteEmpty && nz && bz)
		if !gone {
			o := &stateObject{data: Account{Nonce: a.nonce, Balance: a.balance, Root: wantStorage[i].Hash(), CodeHash: emptyCodeHash}}
			want.content[string(c01Addrs[i][:])] = c09AccountLeaf(o)
		}
	}
	wantRoot := want.Hash()

	var root common.Hash
	switch d.mode {
	case 0:
		root = st.IntermediateRoot(deleteEmpty)
	default:
		var err error
		root, err = st.Commit(deleteEmpty)
		vs.Assert(err == nil, "Commit succeeds")
	}

	vs.Assert(at.same(want), "account trie content equals the order-free definition")
	for i := 0; i < nacc; i++ {
		a := &d.accts[i]
		nz, bz := a.nonce == 0, a.balance.Sign() == 0
		gone := a.suicided || (deleteEmpty && nz && bz)
		vs.Assert(objs[i].deleted == gone, "deleted flag set exactly for removed accounts")
		if !gone {
			vs.Assert(objs[i].trie.(*c09Trie).same(wantStorage[i]), "storage trie content equals the order-free definition")
			vs.Assert(len(objs[i].dirtyStorage) == 0, "dirty storage flushed")
		}
	}
	vs.Assert(bytes.Equal(root[:], wantRoot[:]), "root is the hash of the order-free content")
}
