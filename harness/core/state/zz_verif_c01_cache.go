package state

// C01 (warm vs cold caches, competing forks): the state database's caches are
// content-addressed.  Whatever was looked up before - for any account, on any
// fork - ContractCodeSize/ContractCode of (account, codeHash) return the code
// stored under codeHash.  Real cachingDB, real hashicorp LRU, real
// trie.Database.Node over a harness key-value store.

import (
	"errors"

	"gitlab.com/aquachain/aquachain/aquadb"
	"gitlab.com/aquachain/aquachain/common"
	vs "gitlab.com/aquachain/aquachain/internal/verifsym"
)

type c01KV struct {
	keys [][]byte
	vals [][]byte
}

var errC01NotFound = errors.New("not found")

func (d *c01KV) Put(key []byte, value []byte) error {
	d.keys = append(d.keys, append([]byte{}, key...))
	d.vals = append(d.vals, append([]byte{}, value...))
	return nil
}
func (d *c01KV) Get(key []byte) ([]byte, error) {
	for i := len(d.keys) - 1; i >= 0; i-- {
		same := len(d.keys[i]) == len(key)
		for j := 0; same && j < len(key); j++ {
			if d.keys[i][j] != key[j] {
				same = false
			}
		}
		if same {
			return d.vals[i], nil
		}
	}
	return nil, errC01NotFound
}
func (d *c01KV) Has(key []byte) (bool, error) { _, err := d.Get(key); return err == nil, nil }
func (d *c01KV) Delete(key []byte) error      { return nil }
func (d *c01KV) Close()                       {}
func (d *c01KV) NewBatch() aquadb.Batch       { return nil }

func c01Hash32(name string) (h common.Hash) {
	copy(h[:], vs.BytesN(name, 32))
	return
}

func VerifC01_CodeCacheContentAddressed() {
	disk := &c01KV{}
	db := NewDatabase(disk)
	// two (account, code hash) pairs: accounts may coincide while the code differs (the same
	// address carrying different code on competing forks) and vice versa
	a1, a2 := c01Hash32("acct1"), c01Hash32("acct2")
	h1, h2 := c01Hash32("code1hash"), c01Hash32("code2hash")
	// the all-zero hash is the trie database's internal root-reference key, never a code hash
	vs.Assume(h1 != (common.Hash{}) && h2 != (common.Hash{}))
	code1, code2 := vs.Bytes("code1", 3), vs.Bytes("code2", 3)
	disk.Put(h1[:], code1)
	if h2 == h1 {
		code2 = code1
	} else {
		disk.Put(h2[:], code2)
	}
	// first lookup, either of the two entry points
	if vs.Bool("first.viaCode") {
		c, err := db.ContractCode(a1, h1)
		vs.Assert(err == nil && len(c) == len(code1), "ContractCode returns the code stored under its hash")
	} else {
		n, err := db.ContractCodeSize(a1, h1)
		vs.Assert(err == nil && n == len(code1), "ContractCodeSize returns the size of the code stored under its hash")
	}
	// second lookup for a possibly different pair must not be influenced by the first
	n2, err := db.ContractCodeSize(a2, h2)
	vs.Assert(err == nil && n2 == len(code2), "code size depends on the code hash only, not on the account or on earlier lookups")
	c2, err := db.ContractCode(a2, h2)
	vs.Assert(err == nil && len(c2) == len(code2), "ContractCode after a cached size still returns the code stored under its hash")
	same := true
	for i := range c2 {
		if i < len(code2) && c2[i] != code2[i] {
			same = false
		}
	}
	vs.Assert(same, "code content is the content stored under the hash")
	n3, err := db.ContractCodeSize(a1, h2)
	vs.Assert(err == nil && n3 == len(code2), "another account with the same code hash sees the same size")
	vs.Observe("n2", n2)
}
