package state

// C01 (across a node restart, archive vs pruning, warm vs cold caches): what a
// StateDB commits is what a restarted node reads back.
//
// Lemma.  Let a state be built by R rounds of "open the StateDB at the previous
// root, write (nonce, balance, code, storage) into accounts, StateDB.Commit"
// (first round: all A accounts, later rounds: one of them),
// each round followed by what BlockChain does with the trie database after a
// block: archive mode  -> trie.Database.Commit(root)
//        pruning mode  -> Reference(root, {}) and Dereference(previous root, {}),
//                         trie.Database.Commit(last root) at shutdown.
// Then a StateDB opened at the last root over a NEW state.Database that sees
// only the disk database (cold caches, nothing of the old process) returns for
// every account exactly the committed content: existence, nonce, balance, code
// hash, code size, code bytes and every storage slot, and reports no database
// error.  Equivalently: every storage root and code blob reachable from the
// committed root is on disk.
//
// Everything below the harness is the real code: StateDB, stateObject,
// cachingDB (LRU, past tries), SecureTrie / Trie / hasher with the reflective
// RLP codec, trie.Database (reference counting, garbage collection, commit) and
// aquadb.MemDatabase as the disk.  The only stand-in is keccak-256: under the
// engine sha3.NewKeccak256 is redirected to c01sNewKeccak, an injective
// function with opaque values (see c01sDigest).  Natively the real keccak runs,
// so a counterexample replays against the real build.

import (
	"hash"
	"math/big"

	"gitlab.com/aquachain/aquachain/aquadb"
	"gitlab.com/aquachain/aquachain/common"
	"gitlab.com/aquachain/aquachain/crypto"
	vs "gitlab.com/aquachain/aquachain/internal/verifsym"
)

// ---------------------------------------------------------------------------
// engine-side keccak stand-in (redirect target, never used natively)

// c01sSeen lists the byte strings hashed so far on this path; the digest of a
// string is a tag made from its position in the list.  Equal strings get equal
// digests (the comparison of symbolic contents is a solver decision: both
// outcomes are explored where both are possible, e.g. two accounts with the
// same code), different strings get different digests: the collision-free ideal
// hash.  The code under test uses digests only as look-up keys and as trie
// paths, never arithmetically.
var c01sSeen [][]byte

// c01sShape selects how the tags spread over the trie: 0 = consecutive tags
// differ in their first nibble (branch node at the root), 1 = all tags share a
// four-nibble prefix (extension node above the branch).
var c01sShape int

func c01sTag(i int) []byte {
	t := make([]byte, 32)
	if c01sShape == 0 {
		t[0] = byte(i&15)<<4 | byte(i>>4)&15
		t[1] = 0x5a
	} else {
		t[0], t[1] = 0xc0, 0x1e
		t[2] = byte(i)
	}
	t[31] = 0x01
	return t
}

func c01sDigest(b []byte) []byte {
	if len(b) == 0 {
		// KEC("") keeps its real value (emptyCodeHash, emptyState, emptyCode)
		return common.FromHex("c5d2460186f7233c927e7db2dcc703c0e500b653ca82273b7bfad8045d85a470")
	}
	if len(c01sSeen) >= 255 {
		panic("c01sDigest: tag space exhausted")
	}
	for i, s := range c01sSeen {
		if len(s) != len(b) {
			continue
		}
		same := true
		for j := range s {
			if s[j] != b[j] {
				same = false
			}
		}
		if same {
			return c01sTag(i)
		}
	}
	c01sSeen = append(c01sSeen, common.CopyBytes(b))
	return c01sTag(len(c01sSeen) - 1)
}

type c01sSponge struct{ buf []byte }

func (k *c01sSponge) Write(p []byte) (int, error) { k.buf = append(k.buf, p...); return len(p), nil }
func (k *c01sSponge) Sum(b []byte) []byte         { return append(b, c01sDigest(k.buf)...) }
func (k *c01sSponge) Reset()                      { k.buf = nil }
func (k *c01sSponge) Size() int                   { return 32 }
func (k *c01sSponge) BlockSize() int              { return 136 }

// c01sNewKeccak is the redirect target of sha3.NewKeccak256 (suite override).
func c01sNewKeccak() hash.Hash { return &c01sSponge{} }

// ---------------------------------------------------------------------------
// scenario

var c01sAddrs = []common.Address{
	common.HexToAddress("0x00000000000000000000000000000000000000a1"),
	common.HexToAddress("0x00000000000000000000000000000000000000b2"),
	common.HexToAddress("0x00000000000000000000000000000000000000c3"),
}

var c01sSlots = []common.Hash{common.HexToHash("0x01"), common.HexToHash("0x02")}

// c01sAcct is the book-keeping of what was written (the committed content).
type c01sAcct struct {
	live    bool // written and not removed as empty
	funded  bool // nonce or balance non-zero
	stored  bool // a storage slot was written
	nonce   uint64
	balance *big.Int
	code    []byte // nil: no code
	slots   [2]common.Hash
}

func (a *c01sAcct) empty() bool { return !a.funded && a.code == nil }

// c01sScalar is a symbolic byte-sized quantity: narrow = the one-byte RLP
// class [1,0x7f], otherwise the whole byte range (three RLP classes).
func c01sScalar(name string, narrow bool) uint8 {
	v := vs.U8(name)
	if narrow {
		vs.Assume(v >= 1)
		vs.Assume(v <= 0x7f)
	}
	return v
}

func c01sSameBytes(a, b []byte) bool {
	if len(a) != len(b) {
		return false
	}
	same := true
	for i := range a {
		if a[i] != b[i] {
			same = false
		}
	}
	return same
}

// VerifC01_CommitSurvivesRestart: see the file comment.
func VerifC01_CommitSurvivesRestart() {
	c01sSeen = nil
	c01sShape = vs.Choice("shape", vs.Param("shapes"))
	// the package's keccak constants, recomputed through whichever keccak is in force
	emptyCodeHash = crypto.Keccak256(nil)
	emptyState = crypto.Keccak256Hash(nil)
	emptyCode = crypto.Keccak256Hash(nil)

	nacc, rounds := vs.Param("accounts"), vs.Param("rounds")
	narrow := vs.Param("narrow") == 1
	pruning := vs.Choice("pruning", 2) == 1
	deleteEmpty := vs.Choice("deleteEmpty", vs.Param("delmodes")) == 0

	disk := aquadb.NewMemDatabase()
	db := NewDatabase(disk)
	var model [3]c01sAcct
	for i := range model {
		model[i].balance = new(big.Int)
	}

	root := common.Hash{}
	for r := 0; r < rounds; r++ {
		st, err := New(root, db)
		vs.Assert(err == nil, "the live node opens the state at its own last root")
		// the first round writes every account, a later round one of them
		only := -1
		if r > 0 {
			only = vs.Choice("touched", nacc)
		}
		for i := 0; i < nacc; i++ {
			a, addr := &model[i], c01sAddrs[i]
			if r > 0 && i != only {
				continue
			}
			// what this round writes into the account: bit 0 code, bit 1 storage
			// (first round: possibly neither, just nonce and balance)
			kind := 0
			if r == 0 {
				kind = vs.Choice("kind", 4)
			} else {
				kind = 1 + vs.Choice("kind", 3)
			}
			if !a.live {
				// first write (or first write after removal): funded or not
				a.live = true
				if vs.Choice("funded", 2) == 1 {
					a.funded = true
					a.nonce = uint64(c01sScalar("nonce", narrow))
					a.balance = new(big.Int).SetUint64(uint64(c01sScalar("balance", narrow)))
					ne := a.nonce != 0
					if a.balance.Sign() != 0 {
						ne = true
					}
					vs.Assume(ne)
				}
				st.SetNonce(addr, a.nonce)
				st.SetBalance(addr, a.balance)
			}
			if kind&1 != 0 {
				n := 1 + vs.Choice("codeLen", vs.Param("codelens"))
				a.code = vs.BytesN("code", n)
				st.SetCode(addr, a.code)
			}
			if kind&2 != 0 {
				var v common.Hash
				v[31] = c01sScalar("slotValue", narrow)
				a.slots[r%2] = v
				a.stored = true
				st.SetState(addr, c01sSlots[r%2], v)
			}
		}
		newRoot, err := st.Commit(deleteEmpty)
		vs.Assert(err == nil, "StateDB.Commit succeeds")
		for i := 0; i < nacc; i++ {
			if a := &model[i]; a.live && deleteEmpty && a.empty() {
				// a touched empty account is removed together with its storage
				*a = c01sAcct{balance: new(big.Int)}
				vs.Reach("removed-empty")
			}
		}
		// what BlockChain.WriteBlockWithState does with the trie database
		tdb := db.TrieDB()
		if pruning {
			tdb.Reference(newRoot, common.Hash{})
			if r > 0 {
				tdb.Dereference(root, common.Hash{})
			}
		} else {
			vs.Assert(tdb.Commit(newRoot, false) == nil, "archive flush succeeds")
		}
		root = newRoot
	}
	if pruning {
		// BlockChain.Stop
		vs.Assert(db.TrieDB().Commit(root, true) == nil, "shutdown flush succeeds")
		vs.Reach("pruning")
	} else {
		vs.Reach("archive")
	}

	for i := 0; i < nacc; i++ {
		if a := &model[i]; a.code != nil && a.stored {
			vs.Reach("code+storage")
		}
	}

	// the node that kept running (warm caches) ...
	warm, err := New(root, db)
	vs.Assert(err == nil, "the live node opens the state at its own last root")
	c01sReadBack(warm, &model, nacc, "on the live node")
	// ... and a restarted one: a new process sees the disk database only
	cold, err := New(root, NewDatabase(disk))
	vs.Assert(err == nil, "the committed root opens after a restart")
	if err != nil {
		return
	}
	c01sReadBack(cold, &model, nacc, "after a restart")
	// (GetCodeSize of an account without code asks the database for the empty
	// code and records "not found" on either node: only the difference counts)
	vs.Assert((cold.Error() == nil) == (warm.Error() == nil), "reading the restarted state meets a database error only if the live node does")
	vs.Observe("nonce0", cold.GetNonce(c01sAddrs[0]))
	vs.Observe("codesize0", cold.GetCodeSize(c01sAddrs[0]))
	vs.Observe("slot0", cold.GetState(c01sAddrs[0], c01sSlots[0])[31])
}

// c01sReadBack: the view returns exactly the committed content.
func c01sReadBack(view *StateDB, model *[3]c01sAcct, nacc int, when string) {
	for i := 0; i < nacc; i++ {
		a, addr := &model[i], c01sAddrs[i]
		vs.Assert(view.Exist(addr) == a.live, "account existence "+when)
		vs.Assert(view.GetNonce(addr) == a.nonce, "nonce "+when)
		vs.Assert(view.GetBalance(addr).Cmp(a.balance) == 0, "balance "+when)
		wantHash := common.Hash{}
		if a.live {
			wantHash = crypto.Keccak256Hash(a.code)
		}
		vs.Assert(view.GetCodeHash(addr) == wantHash, "code hash "+when)
		vs.Assert(view.GetCodeSize(addr) == len(a.code), "code size "+when)
		vs.Assert(c01sSameBytes(view.GetCode(addr), a.code), "code "+when)
		for k := range c01sSlots {
			vs.Assert(view.GetState(addr, c01sSlots[k]) == a.slots[k], "storage "+when)
		}
	}
}
