package state

// C09 ("a state reopened from a committed root reads back identically"; "the
// state root depends only on the resulting content"): account tries handed out
// by the REAL caching state database are independent of each other.
//
// Real cachingDB (OpenTrie / pushTrie / cachedTrie.Commit / CopyTrie), real
// trie.SecureTrie, trie.Trie, trie.Database, the trie's hasher and node decoder.
// A trie is committed, which puts it into the database's cache of recent tries;
// then several handles are opened from the committed root - with that cache warm
// or cold - and one of them is written to, hashed or committed.  Every other
// handle, and every handle opened later from the same root, must still read
// exactly the committed content and report the committed root.
//
// Only keccak-256 is replaced (suite override of sha3.NewKeccak256): node
// encodings are hashed by an uninterpreted function; the two one-byte trie keys
// are hashed to two fixed distinct 32-byte strings whose common prefix is chosen
// among 0, 2 and 62 nibbles (branch at the root, short and long extension).

import (
	"hash"

	"gitlab.com/aquachain/aquachain/common"
	vs "gitlab.com/aquachain/aquachain/internal/verifsym"
)

var c09otShared int // bytes shared by the two key hashes (engine only)

type c09Sponge struct{ buf []byte }

func (k *c09Sponge) Write(p []byte) (int, error) { k.buf = append(k.buf, p...); return len(p), nil }
func (k *c09Sponge) Reset()                      { k.buf = nil }
func (k *c09Sponge) Size() int                   { return 32 }
func (k *c09Sponge) BlockSize() int              { return 136 }
func (k *c09Sponge) Sum(b []byte) []byte {
	if len(k.buf) == 1 {
		// a trie key of the harness
		out := make([]byte, 32)
		for i := 0; i < c09otShared; i++ {
			out[i] = 0xAA
		}
		out[c09otShared] = k.buf[0] << 4
		return append(b, out...)
	}
	return append(b, vs.UF("keccak256", 32, k.buf)...)
}

// redirect target of sha3.NewKeccak256 (suite override, engine only)
func c09NewSponge() hash.Hash { return &c09Sponge{} }

func c09otSame(a, b []byte) bool {
	if len(a) != len(b) {
		return false
	}
	for i := range a {
		if a[i] != b[i] {
			return false
		}
	}
	return true
}

func c09otValue(name string) []byte {
	v := vs.Bytes(name, 2)
	vs.Assume(len(v) >= 1) // the empty value means delete
	return v
}

// the handle reads exactly the committed content {k1: v1} and reports its root
func c09otAssertCommitted(t Trie, root common.Hash, k1, k2, v1 []byte, who string) {
	got, err := t.TryGet(k1)
	vs.Assert(err == nil, who+": reads without error")
	vs.Assert(c09otSame(got, v1), who+": reads the committed value")
	got, err = t.TryGet(k2)
	vs.Assert(err == nil && len(got) == 0, who+": a key absent from the committed content stays absent")
	vs.Assert(t.Hash() == root, who+": reports the committed root")
}

func VerifC09_OpenTrieIndependent() {
	c09otShared = []int{0, 1, 31}[vs.Choice("sharedPrefix", 3)]
	k1, k2 := []byte{1}, []byte{2}
	db := NewDatabase(&c01KV{}).(*cachingDB)

	// commit the content {k1: v1}; cachedTrie.Commit puts the trie into the cache of recent tries
	t0, err := db.OpenTrie(common.Hash{})
	vs.Assert(err == nil, "the empty root opens")
	v1 := c09otValue("v1")
	vs.Assert(t0.TryUpdate(k1, v1) == nil, "update")
	root, err := t0.Commit(nil)
	vs.Assert(err == nil, "commit")
	// hash assumption: the keccak of a node encoding is neither the all-zero hash nor the root of the empty trie
	vs.Assume(root != (common.Hash{}) && root != common.HexToHash("56e81f171bcc55a6ff8345e692c0f86e5b48e01b996cadc001622fb5e363b421"))
	if vs.Bool("coldCache") {
		db.pastTries = nil
	} else {
		vs.Assert(len(db.pastTries) == 1, "the committed trie is cached")
	}

	w, err := db.OpenTrie(root)
	vs.Assert(err == nil, "the committed root opens (writer)")
	r, err := db.OpenTrie(root)
	vs.Assert(err == nil, "the committed root opens (reader)")
	cp := db.CopyTrie(r)

	// the writer changes its own handle
	changed := true
	switch vs.Choice("write", 3) {
	case 0:
		v2 := c09otValue("v2")
		changed = !c09otSame(v1, v2)
		vs.Assert(w.TryUpdate(k1, v2) == nil, "overwrite")
	case 1:
		vs.Assert(w.TryUpdate(k2, c09otValue("v2")) == nil, "insert")
	default:
		vs.Assert(w.TryDelete(k1) == nil, "delete")
	}
	switch vs.Choice("then", vs.Param("thens")) {
	case 1:
		w.Hash()
	case 2:
		wroot, err := w.Commit(nil)
		vs.Assert(err == nil, "writer commit")
		if changed {
			// hash assumption: different contents have different roots (no keccak collision)
			vs.Assume(wroot != root)
		}
	}
	vs.Reach("written")

	c09otAssertCommitted(r, root, k1, k2, v1, "a second handle opened from the same root")
	c09otAssertCommitted(cp, root, k1, k2, v1, "a copy of that handle")
	c09otAssertCommitted(t0, root, k1, k2, v1, "the handle that committed the root")
	late, err := db.OpenTrie(root)
	vs.Assert(err == nil, "the committed root opens again")
	c09otAssertCommitted(late, root, k1, k2, v1, "a handle opened after the write")
	vs.Observe("v1", v1)
}
