package state

// C05 lemmas on the REAL core/state.StateDB: the balance semantics that the
// C05/C06 lemmas in package core (which run over a small model StateDB) rely on.
// The StateDB runs over the stub Database/Trie of the C09 harnesses
// (zz_verif_c09.go: c09DB, c09Trie, pre-state generator); pre-state accounts are
// absent / clean / dirty (any flags, incl. already suicided with a non-zero
// balance = credited again since) / deleted by an earlier Finalise.

import (
	"math/big"

	"gitlab.com/aquachain/aquachain/common"
	vs "gitlab.com/aquachain/aquachain/internal/verifsym"
)

// c05State builds a StateDB with two accounts in arbitrary states.
func c05State() *StateDB {
	d := &c09Desc{}
	d.accts[0] = c09DescribeAcct(c09AllKinds, false, 0, false)
	d.accts[1] = c09DescribeAcct(c09AllKinds, false, 0, false)
	return c09Build(d, vs.Bool("deleteEmpty"))
}

func c05Balances(s *StateDB) [2]*big.Int {
	return [2]*big.Int{new(big.Int).Set(s.GetBalance(c09Addrs[0])), new(big.Int).Set(s.GetBalance(c09Addrs[1]))}
}

// VerifC05_StateSuicide: Suicide(addr) returns true iff the account exists, and
// afterwards its balance is zero and it is flagged - from every account state,
// also right after a fresh credit and when it was suicided before.
func VerifC05_StateSuicide() {
	s := c05State()
	c := c09Addrs[0]
	if vs.Choice("credit", 2) == 1 {
		s.AddBalance(c, vs.BigU("credit", 256))
	}
	other0 := new(big.Int).Set(s.GetBalance(c09Addrs[1]))
	existed := s.Exist(c)
	was := s.HasSuicided(c)
	ok := s.Suicide(c)
	vs.Assert(ok == existed, "Suicide reports true iff the account exists")
	if ok {
		vs.Reach("destroyed")
		if was {
			vs.Reach("again")
		}
		vs.Assert(s.HasSuicided(c), "account flagged suicided")
	} else {
		vs.Reach("absent")
	}
	vs.Observe("bal", s.GetBalance(c))
	vs.Assert(s.GetBalance(c).Sign() == 0, "balance is zero after Suicide")
	vs.Assert(s.GetBalance(c09Addrs[1]).Cmp(other0) == 0, "other account untouched")
}

// VerifC05_StateSelfdestructSum: what SELFDESTRUCT does to the state --
// b := GetBalance(c); AddBalance(beneficiary, b); Suicide(c) -- changes the sum
// of balances by exactly -b when the beneficiary is c itself and by 0 otherwise,
// including when c was already suicided earlier and has been credited again.
func VerifC05_StateSelfdestructSum() {
	s := c05State()
	c := c09Addrs[0]
	benef := c09Addrs[vs.Choice("beneficiary", 2)]
	if vs.Choice("credit", 2) == 1 {
		s.AddBalance(c, vs.BigU("credit", 256))
	}
	if s.HasSuicided(c) && s.GetBalance(c).Sign() > 0 {
		vs.Reach("suicided-and-funded")
	}
	pre := c05Balances(s)
	sum0 := new(big.Int).Add(pre[0], pre[1])

	b := new(big.Int).Set(s.GetBalance(c))
	s.AddBalance(benef, b)
	s.Suicide(c)

	post := c05Balances(s)
	sum1 := new(big.Int).Add(post[0], post[1])
	vs.Observe("sum", sum1)
	want := new(big.Int).Set(sum0)
	if benef == c {
		want.Sub(want, b)
	}
	vs.Assert(sum1.Cmp(want) == 0, "SELFDESTRUCT changes the sum of balances by -balance if the beneficiary is the contract itself, else by 0")
	vs.Assert(sum1.Cmp(sum0) <= 0, "SELFDESTRUCT never increases the sum of balances")
	vs.Assert(post[0].Sign() == 0, "contract balance is zero afterwards")
	if benef != c {
		vs.Assert(post[1].Cmp(new(big.Int).Add(pre[1], b)) == 0, "beneficiary credited exactly the contract's balance")
	}
}

// VerifC05_StateBalanceOps: AddBalance / SubBalance / SetBalance change exactly
// one balance by exactly the amount; CreateAccount carries the balance over and
// resets the nonce.
func VerifC05_StateBalanceOps() {
	s := c05State()
	ti := vs.Choice("target", 2)
	t, o := c09Addrs[ti], c09Addrs[1-ti]
	amount := vs.BigU("amount", 256)
	pre := c05Balances(s)
	want := new(big.Int).Set(pre[ti])
	switch vs.Choice("op", 4) {
	case 0:
		s.AddBalance(t, amount)
		want.Add(want, amount)
	case 1:
		vs.Assume(amount.Cmp(pre[ti]) <= 0) // every caller checks CanTransfer / the gas purchase first
		s.SubBalance(t, amount)
		want.Sub(want, amount)
	case 2:
		s.SetBalance(t, amount)
		want.Set(amount)
	case 3:
		s.CreateAccount(t)
		vs.Assert(s.GetNonce(t) == 0 && s.Exist(t), "created account exists with nonce 0")
	}
	post := c05Balances(s)
	vs.Observe("bal", post[ti])
	vs.Assert(post[ti].Cmp(want) == 0, "target balance changed by exactly the amount (CreateAccount: carried over)")
	vs.Assert(post[1-ti].Cmp(pre[1-ti]) == 0, "other balance unchanged")
	_ = o
	_ = common.Address{}
}
