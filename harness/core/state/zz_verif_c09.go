package state

// C09 harnesses: state snapshots revert exactly; the state root commits to
// content only.  Executed symbolically by /verif/engine; compiled natively for
// replay.
//
// The StateDB under test runs over a stub Database/Trie (a plain key/value
// store that records its content).  Under the engine the suite redirects
//   crypto/sha3.Keccak256, crypto.Keccak256Hash  -> uninterpreted function
//   rlp.EncodeToBytes                            -> uninterpreted function of the account fields / short-string rule for []byte
//   bytes.TrimLeft                               -> identity (storage leaf = string encoding of the whole 32-byte value)
// Natively the real functions run (one admissible interpretation), so every
// counterexample can be replayed against the real build.

import (
	"bytes"
	"errors"
	"math/big"

	"gitlab.com/aquachain/aquachain/aquadb"
	"gitlab.com/aquachain/aquachain/common"
	"gitlab.com/aquachain/aquachain/core/types"
	"gitlab.com/aquachain/aquachain/crypto"
	vs "gitlab.com/aquachain/aquachain/internal/verifsym"
	"gitlab.com/aquachain/aquachain/rlp"
	"gitlab.com/aquachain/aquachain/trie"
)

// ---------------------------------------------------------------------------
// engine-side stand-ins (redirect targets, never called natively)

func c09Keccak256(data ...[]byte) []byte {
	var all []byte
	for _, d := range data {
		all = append(all, d...)
	}
	return vs.UF("keccak256", 32, all)
}

func c09Keccak256Hash(data ...[]byte) (h common.Hash) {
	copy(h[:], c09Keccak256(data...))
	return h
}

// rlp.EncodeToBytes: the two value shapes core/state encodes.
func c09EncodeToBytes(val interface{}) ([]byte, error) {
	switch v := val.(type) {
	case *stateObject:
		return vs.UFX("rlpAccount", 40, v.data.Nonce, v.data.Balance, v.data.Root[:], v.data.CodeHash), nil
	case []byte:
		// the RLP string rule for short strings (decided under C11); the real
		// rlp.Split reads it back on the storage load path
		if len(v) == 1 && v[0] < 0x80 {
			return []byte{v[0]}, nil
		}
		if len(v) < 56 {
			return append([]byte{0x80 + byte(len(v))}, v...), nil
		}
	}
	panic("c09EncodeToBytes: unexpected value type")
}

// bytes.TrimLeft(value, "\x00") in updateTrie: identity under the engine (the
// leaf then is an uninterpreted function of the whole 32-byte value).
func c09TrimLeft(s []byte, cutset string) []byte { return s }

// ---------------------------------------------------------------------------
// stub trie / database: a key/value store over a fixed key universe

type c09Trie struct {
	keys    [][]byte          // key universe (concrete), fixes the order Hash() folds the content in
	content map[string][]byte // live key -> value
	writes  int               // number of TryUpdate/TryDelete calls (diagnostic)
}

func c09NewTrie(keys [][]byte) *c09Trie {
	return &c09Trie{keys: keys, content: map[string][]byte{}}
}

func (t *c09Trie) inUniverse(key []byte) {
	for _, k := range t.keys {
		if bytes.Equal(k, key) {
			return
		}
	}
	panic("c09Trie: key outside the harness universe")
}

func (t *c09Trie) TryGet(key []byte) ([]byte, error) {
	return t.content[string(key)], nil
}

func (t *c09Trie) TryUpdate(key, value []byte) error {
	t.inUniverse(key)
	t.writes++
	if len(value) == 0 {
		delete(t.content, string(key))
		return nil
	}
	t.content[string(key)] = common.CopyBytes(value)
	return nil
}

func (t *c09Trie) TryDelete(key []byte) error {
	t.inUniverse(key)
	t.writes++
	delete(t.content, string(key))
	return nil
}

// Hash is a function of the live content only.
func (t *c09Trie) Hash() (h common.Hash) {
	args := make([][]byte, 0, 2*len(t.keys))
	for _, k := range t.keys {
		v, ok := t.content[string(k)]
		if ok {
			args = append(args, []byte{1}, v)
		} else {
			args = append(args, []byte{0}, nil)
		}
	}
	copy(h[:], vs.UF("trieRoot", 32, args...))
	return h
}

func (t *c09Trie) Commit(onleaf trie.LeafCallback) (common.Hash, error) { return t.Hash(), nil }
func (t *c09Trie) NodeIterator(startKey []byte) trie.NodeIterator       { panic("c09Trie: NodeIterator") }
func (t *c09Trie) GetKey(k []byte) []byte                               { return k }
func (t *c09Trie) Prove(key []byte, fromLevel uint, proofDb aquadb.Putter) error {
	panic("c09Trie: Prove")
}

func (t *c09Trie) copy() *c09Trie {
	n := c09NewTrie(t.keys)
	for _, k := range t.keys {
		if v, ok := t.content[string(k)]; ok {
			n.content[string(k)] = v
		}
	}
	return n
}

// same reports whether two tries have the same live content.
func (t *c09Trie) same(o *c09Trie) bool {
	eq := true
	for _, k := range t.keys {
		v, ok := t.content[string(k)]
		w, ok2 := o.content[string(k)]
		if ok != ok2 {
			eq = false
		} else if ok && !bytes.Equal(v, w) {
			eq = false
		}
	}
	return eq
}

type c09DB struct {
	slots [][]byte
	codes []c09Code
}

type c09Code struct {
	hash common.Hash
	code []byte
}

func (d *c09DB) OpenTrie(root common.Hash) (Trie, error) { panic("c09DB: OpenTrie") }

// OpenStorageTrie is only reached for objects created during the run (every
// pre-populated object carries its storage trie): a fresh empty trie.
func (d *c09DB) OpenStorageTrie(addrHash, root common.Hash) (Trie, error) {
	if root != (common.Hash{}) {
		panic("c09DB: OpenStorageTrie with a non-empty root")
	}
	return c09NewTrie(d.slots), nil
}

func (d *c09DB) CopyTrie(t Trie) Trie { return t.(*c09Trie).copy() }

func (d *c09DB) ContractCode(addrHash, codeHash common.Hash) ([]byte, error) {
	for _, c := range d.codes {
		if c.hash == codeHash {
			return c.code, nil
		}
	}
	return nil, c09ErrNotFound // the real database reports a missing node the same way
}

var c09ErrNotFound = errors.New("not found")

func (d *c09DB) ContractCodeSize(addrHash, codeHash common.Hash) (int, error) {
	c, err := d.ContractCode(addrHash, codeHash)
	return len(c), err
}

func (d *c09DB) TrieDB() *trie.Database { return nil }

// ---------------------------------------------------------------------------
// universe

var (
	c09AddrA  = common.HexToAddress("0x00000000000000000000000000000000000000aa")
	c09AddrR  = common.HexToAddress("0x0000000000000000000000000000000000000003") // ripemd precompile, special-cased by journal.go
	c09Slot0  = common.HexToHash("0x01")
	c09Slot1  = common.HexToHash("0x02")
	c09Thash  = common.HexToHash("0x7777")
	c09Addrs  = []common.Address{c09AddrA, c09AddrR}
	c09Slots  = []common.Hash{c09Slot0, c09Slot1}
	c09Two256 = new(big.Int).Lsh(big.NewInt(1), 256)
)

func c09Hash(name string) (h common.Hash) {
	copy(h[:], vs.BytesN(name, common.HashLength))
	return h
}

// ---------------------------------------------------------------------------
// symbolic description of a pre-state (shared by the two StateDBs that are
// built from it)
//
// Representation invariant of a StateDB between operations (what the pre-state
// generator produces; the harnesses re-assert the part of it that protects
// against lost writes after every step):
//   - a live object that is not in stateObjectsDirty mirrors the account trie
//     (leaf = encoding of its data, data.Root = hash of its storage trie, no
//     dirty storage, no pending flags) and still owns its onDirty callback;
//   - an object in stateObjectsDirty may be ahead of the trie in any way;
//   - a cached, non-dirty storage slot mirrors the storage trie; an uncached
//     slot is absent from the storage trie;
//   - an object flagged deleted was removed from the trie by an earlier
//     Finalise (it was suicided, or empty with deleteEmptyObjects set).

const (
	c09Absent  = 0 // no object, nothing in the trie
	c09Clean   = 1 // live object mirroring the trie, not dirty
	c09Dirty   = 2 // live object ahead of the trie, in stateObjectsDirty
	c09Deleted = 3 // object removed by an earlier Finalise (still cached, flagged deleted, still in the dirty set)
)

type c09SlotDesc struct {
	cached bool        // present in cachedStorage
	dirty  bool        // present in dirtyStorage (implies cached)
	value  common.Hash // cached value
	base   common.Hash // value in the storage trie (clean: equals value; uncached: zero)
}

type c09AcctDesc struct {
	kind      int
	nonce     uint64
	balance   *big.Int
	code      []byte
	suicided  bool
	touched   bool
	dirtyCode bool
	keepsCB   bool        // dirty object that still owns its onDirty callback (state after a reverted CreateAccount)
	root      common.Hash // data.Root of a dirty object (clean: the hash of its storage trie)
	baseLeaf  []byte      // account-trie leaf of a dirty object (empty = absent)
	slots     [2]c09SlotDesc
	// derived
	isEmpty bool // nonce == 0 && balance == 0 && no code
}

type c09Desc struct {
	accts  [2]c09AcctDesc
	refund uint64
	nlogs  int
	preimg bool
	nslots int
}

// c09DescribeAcct: kinds = the kinds explored, detailed = symbolic code and
// storage, variants = also the rarer shapes of a dirty object (no leaf in the
// account trie yet; still owning its callback).
func c09DescribeAcct(kinds []int, detailed bool, nslots int, variants bool) c09AcctDesc {
	var a c09AcctDesc
	a.kind = kinds[vs.Choice("kind", len(kinds))]
	a.balance = new(big.Int)
	if a.kind == c09Absent {
		return a
	}
	a.nonce = vs.U64("nonce")
	a.balance = vs.BigU("balance", 256)
	if detailed {
		a.code = vs.Bytes("code", 1)
	}
	nz, bz := a.nonce == 0, a.balance.Sign() == 0
	a.isEmpty = nz && bz && len(a.code) == 0
	if a.kind != c09Clean {
		a.suicided = vs.Bool("suicided")
		a.touched = vs.Bool("touched")
		a.dirtyCode = vs.Bool("dirtyCode")
		a.root = c09Hash("root")
		if a.kind == c09Dirty {
			a.baseLeaf = vs.BytesN("baseLeaf", 4)
			if variants {
				if vs.Choice("baseAbsent", 2) == 1 {
					a.baseLeaf = nil
				}
				a.keepsCB = vs.Choice("keepsCallback", 2) == 1
			}
		}
	}
	if !detailed || (a.kind == c09Deleted && !variants) {
		return a
	}
	for i := 0; i < nslots; i++ {
		s := &a.slots[i]
		n := 3
		if a.kind == c09Clean {
			n = 2
		}
		switch vs.Choice("slotState", n) {
		case 1: // cached, mirrors the trie
			s.cached = true
			s.value = c09Hash("slotValue")
			s.base = s.value
		case 2: // cached and dirty
			s.cached, s.dirty = true, true
			s.value = c09Hash("slotValue")
			s.base = c09Hash("slotBase")
		}
	}
	return a
}

// c09DescribeAcctStorageOnly adds a symbolic storage description to an account
// described without detail.
func c09DescribeAcctStorageOnly(a c09AcctDesc, nslots int) c09AcctDesc {
	for i := 0; i < nslots; i++ {
		s := &a.slots[i]
		n := 3
		if a.kind == c09Clean {
			n = 2
		}
		switch vs.Choice("slotState", n) {
		case 1:
			s.cached = true
			s.value = c09Hash("slotValue")
			s.base = s.value
		case 2:
			s.cached, s.dirty = true, true
			s.value = c09Hash("slotValue")
			s.base = c09Hash("slotBase")
		}
	}
	return a
}

var (
	c09AllKinds   = []int{c09Absent, c09Clean, c09Dirty, c09Deleted}
	c09LightKinds = []int{c09Absent, c09Dirty}
	c09LiveKinds  = []int{c09Clean, c09Dirty}
)

// c09Build constructs a StateDB in the described state.
func c09Build(d *c09Desc, deleteEmpty bool) *StateDB {
	emptyCodeHash = c09EmptyCodeHash()
	db := &c09DB{}
	for _, s := range c09Slots {
		db.slots = append(db.slots, common.CopyBytes(s[:]))
	}
	var akeys [][]byte
	for _, a := range c09Addrs {
		akeys = append(akeys, common.CopyBytes(a[:]))
	}
	at := c09NewTrie(akeys)
	st := &StateDB{
		db:                db,
		trie:              at,
		stateObjects:      make(map[common.Address]*stateObject),
		stateObjectsDirty: make(map[common.Address]struct{}),
		logs:              make(map[common.Hash][]*types.Log),
		preimages:         make(map[common.Hash][]byte),
	}
	st.refund = d.refund
	st.thash = c09Thash
	for i := 0; i < d.nlogs; i++ {
		st.logs[c09Thash] = append(st.logs[c09Thash], &types.Log{TxHash: c09Thash, Index: uint(i)})
		st.logSize++
	}
	if d.preimg {
		st.preimages[c09Slot0] = []byte{1}
	}
	for i := range d.accts {
		a := &d.accts[i]
		addr := c09Addrs[i]
		if a.kind == c09Absent {
			continue
		}
		acc := Account{Nonce: a.nonce, Balance: new(big.Int).Set(a.balance)}
		if len(a.code) > 0 {
			acc.CodeHash = c09Keccak(a.code)
			// hash assumption: non-empty code does not hash to the hash of the empty string
			vs.Assume(!bytes.Equal(acc.CodeHash, emptyCodeHash))
			db.codes = append(db.codes, c09Code{common.BytesToHash(acc.CodeHash), a.code})
		}
		obj := newObject(st, addr, acc, st.MarkStateObjectDirty)
		if len(a.code) > 0 {
			obj.code = a.code
		}
		tr := c09NewTrie(db.slots)
		obj.trie = tr
		for k := 0; k < d.nslots; k++ {
			s := &a.slots[k]
			if !s.cached {
				continue
			}
			obj.cachedStorage[c09Slots[k]] = s.value
			if s.dirty {
				obj.dirtyStorage[c09Slots[k]] = s.value
			}
			if s.base != (common.Hash{}) {
				tr.content[string(db.slots[k])] = c09Leaf(s.base)
			}
		}
		switch a.kind {
		case c09Clean:
			obj.data.Root = tr.Hash()
			at.content[string(addr[:])] = c09AccountLeaf(obj)
		default:
			obj.data.Root = a.root
			obj.suicided = a.suicided
			obj.touched = a.touched
			obj.dirtyCode = a.dirtyCode
			if !a.keepsCB {
				obj.onDirty = nil
			}
			st.stateObjectsDirty[addr] = struct{}{}
			if len(a.baseLeaf) > 0 {
				at.content[string(addr[:])] = a.baseLeaf
			}
			if a.kind == c09Deleted {
				obj.deleted = true
				// an object is only ever flagged deleted by a Finalise that removed it; the
				// deleteEmptyObjects flag is a function of the block number and therefore the
				// same for every Finalise of one StateDB
				vs.Assume(a.suicided || (deleteEmpty && a.isEmpty))
			}
		}
		st.setStateObject(obj)
	}
	return st
}

// the encodings the real write path uses (redirected under the engine, real natively)
func c09Keccak(b []byte) []byte    { return crypto.Keccak256(b) }
func c09EmptyCodeHash() []byte     { return crypto.Keccak256(nil) }
func c09Leaf(v common.Hash) []byte { e, _ := rlp.EncodeToBytes(bytes.TrimLeft(v[:], "\x00")); return e }
func c09AccountLeaf(o *stateObject) []byte {
	e, err := rlp.EncodeToBytes(o)
	if err != nil {
		panic(err)
	}
	return e
}

// ---------------------------------------------------------------------------
// observables

type c09AcctObs struct {
	exist, empty, suicided bool
	balance                *big.Int
	nonce                  uint64
	code                   []byte
	codeHash               common.Hash
	codeSize               int
	slots                  [2]common.Hash
}

type c09Obs struct {
	accts    [2]c09AcctObs
	refund   uint64
	nlogs    int
	logSize  uint
	nlogsAll int
	npre     int
}

func c09Observe(s *StateDB, nslots int) *c09Obs {
	o := &c09Obs{}
	for i, addr := range c09Addrs {
		a := &o.accts[i]
		a.exist = s.Exist(addr)
		a.empty = s.Empty(addr)
		a.suicided = s.HasSuicided(addr)
		a.balance = new(big.Int).Set(s.GetBalance(addr))
		a.nonce = s.GetNonce(addr)
		a.code = s.GetCode(addr)
		a.codeHash = s.GetCodeHash(addr)
		a.codeSize = s.GetCodeSize(addr)
		for k := 0; k < nslots; k++ {
			a.slots[k] = s.GetState(addr, c09Slots[k])
		}
	}
	o.refund = s.GetRefund()
	o.nlogs = len(s.GetLogs(c09Thash))
	o.nlogsAll = len(s.Logs())
	o.logSize = s.logSize
	o.npre = len(s.Preimages())
	return o
}

func c09AssertSameObs(p, q *c09Obs, nslots int, when string) {
	c09AssertSameObsOf(p, q, nslots, when, [2]bool{true, true}, true)
}

// c09AssertSameObsOf compares the observables of the selected accounts and, if
// global is set, the account-independent ones.
func c09AssertSameObsOf(p, q *c09Obs, nslots int, when string, which [2]bool, global bool) {
	for i := range c09Addrs {
		if !which[i] {
			continue
		}
		a, b := &p.accts[i], &q.accts[i]
		vs.Assert(a.exist == b.exist, when+": Exist")
		vs.Assert(a.empty == b.empty, when+": Empty")
		vs.Assert(a.suicided == b.suicided, when+": HasSuicided")
		vs.Assert(a.balance.Cmp(b.balance) == 0, when+": GetBalance")
		vs.Assert(a.nonce == b.nonce, when+": GetNonce")
		vs.Assert(bytes.Equal(a.code, b.code), when+": GetCode")
		vs.Assert(a.codeHash == b.codeHash, when+": GetCodeHash")
		vs.Assert(a.codeSize == b.codeSize, when+": GetCodeSize")
		for k := 0; k < nslots; k++ {
			vs.Assert(a.slots[k] == b.slots[k], when+": GetState")
		}
	}
	if !global {
		return
	}
	vs.Assert(p.refund == q.refund, when+": GetRefund")
	vs.Assert(p.nlogs == q.nlogs, when+": GetLogs")
	vs.Assert(p.nlogsAll == q.nlogsAll, when+": Logs")
	vs.Assert(p.logSize == q.logSize, when+": log index counter")
	vs.Assert(p.npre == q.npre, when+": Preimages")
}

// c09AssertCallbacks: the part of the representation invariant that protects
// against lost writes - a live object outside the dirty set still owns its
// onDirty callback (otherwise its next modification is never written).
func c09AssertCallbacks(s *StateDB, i int, when string) {
	addr := c09Addrs[i]
	obj := s.stateObjects[addr]
	_, dirty := s.stateObjectsDirty[addr]
	if obj == nil {
		vs.Assert(!dirty, when+": dirty mark without an object")
		return
	}
	vs.Assert(dirty || obj.onDirty != nil, when+": object outside the dirty set lost its onDirty callback")
}

// c09AssertSameContentAt: both StateDBs hold the same account-trie leaf and the
// same storage-trie content for addr.
func c09AssertSameContentAt(a, b *StateDB, i int, when string) {
	addr := c09Addrs[i]
	key := string(addr[:])
	la, oka := a.trie.(*c09Trie).content[key]
	lb, okb := b.trie.(*c09Trie).content[key]
	vs.Assert(oka == okb, when+": account present in the account trie")
	if oka && okb {
		vs.Assert(bytes.Equal(la, lb), when+": account leaf")
	}
	oa, ob := a.getStateObject(addr), b.getStateObject(addr)
	vs.Assert((oa == nil) == (ob == nil), when+": account liveness")
	if oa == nil || ob == nil {
		return
	}
	ta, tb := oa.trie, ob.trie
	if ta == nil || tb == nil {
		// a storage trie that was never opened has no content
		vs.Assert(ta == nil || len(ta.(*c09Trie).content) == 0, when+": storage trie content")
		vs.Assert(tb == nil || len(tb.(*c09Trie).content) == 0, when+": storage trie content")
		return
	}
	vs.Assert(ta.(*c09Trie).same(tb.(*c09Trie)), when+": storage trie content")
}

// c09AssertMirrors: after Finalise the tries commit to exactly what the
// accessors report for addr (so a StateDB reopened over this content reads back
// identically): the account leaf is the encoding of (nonce, balance, hash of
// the storage content, code hash) of a live account and absent otherwise; the
// storage trie holds exactly the non-zero slot values.
func c09AssertMirrors(s *StateDB, i int, nslots int, when string) {
	addr := c09Addrs[i]
	leaf, present := s.trie.(*c09Trie).content[string(addr[:])]
	exist := s.Exist(addr)
	vs.Assert(present == exist, when+": account trie holds a leaf iff the account exists")
	if !exist || !present {
		return
	}
	obj := s.getStateObject(addr)
	var st *c09Trie
	if obj.trie != nil {
		st = obj.trie.(*c09Trie)
	} else {
		st = c09NewTrie(s.db.(*c09DB).slots)
	}
	for k := 0; k < nslots; k++ {
		v := s.GetState(addr, c09Slots[k])
		l, ok := st.content[string(c09Slots[k][:])]
		vs.Assert(ok == (v != (common.Hash{})), when+": storage trie holds a leaf iff the slot is non-zero")
		if ok && v != (common.Hash{}) {
			vs.Assert(bytes.Equal(l, c09Leaf(v)), when+": storage leaf encodes GetState")
		}
	}
	want := &stateObject{data: Account{Nonce: s.GetNonce(addr), Balance: s.GetBalance(addr), Root: st.Hash(), CodeHash: s.GetCodeHash(addr).Bytes()}}
	vs.Assert(bytes.Equal(leaf, c09AccountLeaf(want)), when+": account leaf encodes the observable account")
}

// ---------------------------------------------------------------------------
// mutators

const (
	c09OpAddBalance = iota
	c09OpSetState
	c09OpCreateAccount
	c09OpSuicide
	c09OpSetNonce
	c09OpSubBalance
	c09OpSetBalance
	c09OpSetCode
	c09OpAddRefund
	c09OpAddLog
	c09OpAddPreimage
	c09NumOps
)

type c09Op struct {
	op     int
	ai     int // index of the target address (account operations)
	addr   common.Address
	amount *big.Int
	nonce  uint64
	slot   common.Hash
	value  common.Hash
	code   []byte
	gas    uint64
}

func (o *c09Op) onAccount() bool { return o.op <= c09OpSetCode }

func c09ChooseOp(op, ai, nslots int) *c09Op {
	o := &c09Op{op: op, ai: ai, amount: new(big.Int)}
	o.addr = c09Addrs[ai]
	switch o.op {
	case c09OpAddBalance, c09OpSubBalance, c09OpSetBalance:
		o.amount = vs.BigU("amount", 256)
	case c09OpSetNonce:
		o.nonce = vs.U64("opNonce")
	case c09OpSetState:
		o.slot = c09Slots[vs.Choice("opSlot", nslots)]
		o.value = c09Hash("opValue")
	case c09OpSetCode:
		o.code = vs.Bytes("opCode", 1)
	case c09OpAddRefund:
		o.gas = vs.U64("opGas")
	}
	return o
}

func (o *c09Op) apply(s *StateDB) {
	switch o.op {
	case c09OpAddBalance:
		s.AddBalance(o.addr, new(big.Int).Set(o.amount))
	case c09OpSubBalance:
		// documented precondition of every caller (CanTransfer / buyGas check the
		// balance first); a negative balance has no RLP encoding
		vs.Assume(s.GetBalance(o.addr).Cmp(o.amount) >= 0)
		s.SubBalance(o.addr, new(big.Int).Set(o.amount))
	case c09OpSetBalance:
		s.SetBalance(o.addr, new(big.Int).Set(o.amount))
	case c09OpSetNonce:
		s.SetNonce(o.addr, o.nonce)
	case c09OpSetState:
		s.SetState(o.addr, o.slot, o.value)
	case c09OpSetCode:
		s.SetCode(o.addr, o.code)
	case c09OpSuicide:
		s.Suicide(o.addr)
	case c09OpCreateAccount:
		s.CreateAccount(o.addr)
	case c09OpAddRefund:
		s.AddRefund(o.gas)
	case c09OpAddLog:
		s.AddLog(&types.Log{Address: c09AddrA})
	case c09OpAddPreimage:
		s.AddPreimage(c09Slot1, []byte{2})
	}
}

// Known-finding classes (see the report / known_findings.json).  For an
// operation o applied to pre-state d between Snapshot and RevertToSnapshot:
//
// touches: o takes the zero-amount "touch" path of AddBalance on an empty,
// not yet touched, clean account.
func (o *c09Op) touches(d *c09Desc) bool {
	a := &d.accts[o.ai]
	zero := o.amount.Sign() == 0
	return o.op == c09OpAddBalance && zero && a.kind == c09Clean && a.isEmpty
}

// touchesDirty: the same touch path on an empty, not yet touched object that is
// already in stateObjectsDirty but still owns its onDirty callback (the shape of
// every dirty object of a Copy, and of an object after a reverted
// CreateAccount): touch() records prevDirty = (onDirty == nil) = false, so the
// undo removes a dirty mark that predates the snapshot.
func (o *c09Op) touchesDirty(d *c09Desc) bool {
	a := &d.accts[o.ai]
	zero := o.amount.Sign() == 0
	fresh := !a.touched
	return o.op == c09OpAddBalance && zero && a.kind == c09Dirty && a.keepsCB && fresh && a.isEmpty
}

// marksDirty: o puts a clean account into stateObjectsDirty through a path
// whose undo entry does not take it out again (every account mutation except
// the touch path and the zero-amount no-ops).
func (o *c09Op) marksDirty(d *c09Desc) bool {
	a := &d.accts[o.ai]
	if !o.onAccount() || a.kind != c09Clean {
		return false
	}
	zero := o.amount.Sign() == 0
	switch o.op {
	case c09OpAddBalance, c09OpSubBalance:
		return !zero
	}
	return true
}

const (
	c09KnownDirty  = "C09-dirty-after-revert-empty-account"
	c09KnownRipemd = "C09-ripemd-touch-survives-revert"
	c09KnownTouch  = "C09-touch-revert-drops-dirty-callback"
)

// ---------------------------------------------------------------------------

// c09RevertScenario: pre-state; Snapshot; op1; [Snapshot; op2; Revert]; Revert.
// Returns the reverted StateDB a, the untouched twin b and the operations.
type c09Run struct {
	d           *c09Desc
	a, b        *StateDB
	ops         []*c09Op
	deleteEmpty bool
	nslots      int
	mslots      int // slots described in the pre-state of the target account
}

func c09RevertScenario(xKinds, yKinds []int, nested bool) *c09Run {
	r := &c09Run{nslots: vs.Param("slots")}
	variants := vs.Param("variants") == 1
	r.deleteEmpty = vs.Choice("deleteEmpty", 2) == 1
	op := vs.Choice("op", vs.Param("ops1"))
	// the ripemd address differs from any other address only on the touch path
	// of AddBalance; the quick tier targets it only there
	xi := 0
	if vs.Param("targets") == 2 || op == c09OpAddBalance {
		xi = vs.Choice("target", 2)
	}
	// storage is only looked at by SetState and by the operations replacing or removing the object
	xslots := 0
	if op == c09OpSetState || op == c09OpCreateAccount || op == c09OpSuicide {
		xslots = r.nslots
	}
	op1 := c09ChooseOp(op, xi, r.nslots)
	var op2 *c09Op
	if nested {
		xi2 := xi
		if vs.Param("targets") == 2 {
			xi2 = vs.Choice("target2", 2)
		}
		op2 = c09ChooseOp(vs.Choice("op", vs.Param("ops2")), xi2, r.nslots)
		if op2.op == c09OpSetState {
			xslots = r.nslots
		}
	}
	r.mslots = xslots
	d := &c09Desc{nslots: r.nslots}
	d.accts[xi] = c09DescribeAcct(xKinds, true, xslots, variants)
	d.accts[1-xi] = c09DescribeAcct(yKinds[:vs.Param("ykinds")], false, 0, false)
	d.refund = vs.U64("refund")
	if op1.op == c09OpAddLog || (nested && op2.op == c09OpAddLog) {
		d.nlogs = vs.Choice("nlogs", 2)
	}
	if op1.op == c09OpAddPreimage || (nested && op2.op == c09OpAddPreimage) {
		d.preimg = vs.Choice("preimage", 2) == 1
	}
	r.d = d
	r.a = c09Build(d, r.deleteEmpty)
	r.b = c09Build(d, r.deleteEmpty)
	a := r.a

	pre := c09Observe(a, r.nslots)
	id := a.Snapshot()
	r.ops = append(r.ops, op1)
	op1.apply(a)
	if nested {
		mid := c09Observe(a, r.nslots)
		id2 := a.Snapshot()
		op2.apply(a)
		a.RevertToSnapshot(id2)
		c09AssertSameObs(mid, c09Observe(a, r.nslots), r.nslots, "after inner revert")
		// op2 ran on the state after op1: it meets the described pre-state of its
		// account unless op1 modified that very account
		modified := op1.marksDirty(d) || op1.touches(d) || op1.touchesDirty(d)
		if op2.ai != op1.ai || !modified {
			r.ops = append(r.ops, op2)
		}
	}
	a.RevertToSnapshot(id)
	post := c09Observe(a, r.nslots)
	c09AssertSameObs(pre, post, r.nslots, "after revert")
	vs.Assert(len(a.journal) == 0, "journal empty after reverting the outermost snapshot")
	vs.Assert(len(a.validRevisions) == 0, "revision stack empty after reverting the outermost snapshot")
	vs.Observe("balanceA", post.accts[0].balance)
	vs.Observe("nonceA", post.accts[0].nonce)
	vs.Observe("balanceR", post.accts[1].balance)
	vs.Observe("refund", post.refund)
	return r
}

// anyOp reports whether a known-finding predicate holds for one of the
// reverted operations and returns the index of the account concerned.
func (r *c09Run) knownTargets() (dirty [2]bool, ripemd [2]bool, touch [2]bool, touchDirty [2]bool) {
	for _, o := range r.ops {
		if !o.onAccount() {
			continue
		}
		if o.marksDirty(r.d) {
			dirty[o.ai] = true
		}
		if o.touches(r.d) {
			if o.addr == c09RipemdAddr() {
				ripemd[o.ai] = true
			} else {
				touch[o.ai] = true
			}
		}
		if o.touchesDirty(r.d) && o.addr != c09RipemdAddr() {
			touchDirty[o.ai] = true
		}
	}
	return
}

func c09RipemdAddr() common.Address { return c09AddrR }

// VerifC09_Revert: one-step revert is exact: observables, and the trie content
// a following Finalise produces, equal those of the untouched pre-state.
func VerifC09_Revert() {
	c09RevertCheck(c09RevertScenario(c09AllKinds, c09LightKinds, false), nil)
}

// VerifC09_RevertBystander: one-step revert next to a second, dirty account
// (both are folded by the Finalise that follows, in either order).
func VerifC09_RevertBystander() {
	c09RevertCheck(c09RevertScenario(c09LiveKinds, []int{c09Dirty}, false), nil)
}

// VerifC09_RevertNested: the same with a nested snapshot/operation/revert pair
// between the operation and the outer revert.
func VerifC09_RevertNested() {
	c09RevertCheck(c09RevertScenario(c09LiveKinds, []int{c09Absent}, true), nil)
}

// VerifC09_RevertThenWrite: a reverted operation has no effect on what a
// following operation and Finalise write: Snapshot; op1; Revert; op3; Finalise
// produces the content of op3; Finalise.
func VerifC09_RevertThenWrite() {
	kinds := c09LiveKinds
	if vs.Param("allkinds") == 1 {
		kinds = c09AllKinds
	}
	r := c09RevertScenario(kinds, []int{c09Absent}, false)
	cont := c09ChooseOp(vs.Choice("op3", vs.Param("ops3")), r.ops[0].ai, r.nslots)
	c09RevertCheck(r, cont)
}

func c09RevertCheck(r *c09Run, cont *c09Op) {
	a, b := r.a, r.b
	dirty, ripemd, touch, touchDirty := r.knownTargets()

	// (1) [one more operation, then] Finalise writes what it would have written from the pre-state
	if cont != nil {
		cont.apply(a)
		cont.apply(b)
	}
	a.Finalise(r.deleteEmpty)
	b.Finalise(r.deleteEmpty)
	// accounts outside every known-finding class first
	var late []int
	for i := range c09Addrs {
		if r.deleteEmpty && r.d.accts[i].isEmpty && (dirty[i] || ripemd[i]) {
			late = append(late, i)
			continue
		}
		if (cont != nil && touch[i]) || touchDirty[i] {
			late = append(late, i)
			continue
		}
		c09AssertSameContentAt(a, b, i, "Finalise after revert vs Finalise of the pre-state")
	}
	for i := range c09Addrs {
		if (r.deleteEmpty && r.d.accts[i].isEmpty && (dirty[i] || ripemd[i])) || (cont != nil && touch[i]) || touchDirty[i] {
			continue
		}
		c09AssertMirrors(a, i, r.mslots, "after Finalise")
	}
	oa, ob := c09Observe(a, r.nslots), c09Observe(b, r.nslots)
	var early [2]bool
	for i := range early {
		early[i] = true
	}
	for _, i := range late {
		early[i] = false
	}
	c09AssertSameObsOf(oa, ob, r.nslots, "after Finalise", early, true)
	// lost-write protection (accounts outside the known-finding class)
	for i := range c09Addrs {
		if !touch[i] && !touchDirty[i] {
			c09AssertCallbacks(a, i, "after revert")
		}
	}
	for _, i := range late {
		// Known findings: a reverted mutation leaves a clean account in
		// stateObjectsDirty, so Finalise(true) deletes it if it is empty; the undo of
		// a touch of the ripemd precompile deliberately keeps it dirty.
		switch {
		case ripemd[i]:
			vs.Known(c09KnownRipemd, true)
		case touch[i], touchDirty[i]:
			// Known finding: after the undo of a touch the object has neither a dirty
			// mark nor its onDirty callback, so the operation that follows is not
			// written - nor is the pending content of an object that was dirty before.
			vs.Known(c09KnownTouch, true)
		default:
			vs.Known(c09KnownDirty, true)
		}
		c09AssertSameContentAt(a, b, i, "Finalise after revert vs Finalise of the pre-state")
		var only [2]bool
		only[i] = true
		c09AssertSameObsOf(oa, ob, r.nslots, "after Finalise", only, false)
	}

	// (2) lost-write protection.  Known finding: the undo of a touch removes the
	// dirty mark but does not give the object its onDirty callback back.
	for i := range c09Addrs {
		if touch[i] || touchDirty[i] {
			vs.Known(c09KnownTouch, true)
			c09AssertCallbacks(a, i, "after revert")
		}
	}
}

// ---------------------------------------------------------------------------
// history independence

// c09Pairs: pairs of writes whose effects commute by specification (different
// accounts, different fields, different slots, or additive on the same balance).
func c09Pair(k int, nslots int) (*c09Op, *c09Op) {
	mk := func(op, ai int) *c09Op {
		o := &c09Op{op: op, ai: ai, addr: c09Addrs[ai], amount: new(big.Int)}
		switch op {
		case c09OpAddBalance, c09OpSubBalance:
			o.amount = vs.BigU("amount", 256)
		case c09OpSetNonce:
			o.nonce = vs.U64("opNonce")
		case c09OpSetState:
			o.value = c09Hash("opValue")
		case c09OpSetCode:
			o.code = vs.Bytes("opCode", 1)
		}
		return o
	}
	switch k {
	case 0: // two credits of one account
		return mk(c09OpAddBalance, 0), mk(c09OpAddBalance, 0)
	case 1: // credit and nonce of one account
		return mk(c09OpAddBalance, 0), mk(c09OpSetNonce, 0)
	case 2: // two different slots of one account
		p, q := mk(c09OpSetState, 0), mk(c09OpSetState, 0)
		p.slot, q.slot = c09Slot0, c09Slot1
		return p, q
	case 3: // slot and balance of one account
		p := mk(c09OpSetState, 0)
		p.slot = c09Slot0
		return p, mk(c09OpAddBalance, 0)
	case 4: // transfer: debit one account, credit the other
		return mk(c09OpSubBalance, 0), mk(c09OpAddBalance, 1)
	case 5: // code and nonce of one account
		return mk(c09OpSetCode, 0), mk(c09OpSetNonce, 0)
	case 6: // slot of one account, nonce of the other
		p := mk(c09OpSetState, 0)
		p.slot = c09Slot0
		return p, mk(c09OpSetNonce, 1)
	}
	// self-destruct of one account, credit of the other
	return mk(c09OpSuicide, 0), mk(c09OpAddBalance, 1)
}

const c09NumPairs = 8

// VerifC09_OrderCopy: two orders of the same commuting writes give the same
// observables and, after Finalise, the same trie content, which mirrors the
// observables (so reopening reads back identically); Copy reads back
// identically and finalises to the same content.
func VerifC09_OrderCopy() {
	nslots := vs.Param("slots")
	deleteEmpty := vs.Choice("deleteEmpty", 2) == 1
	pair := vs.Param("pair0") + vs.Choice("pair", vs.Param("pairs"))
	o1, o2 := c09Pair(pair, nslots)
	full := vs.Param("full") == 1
	xslots := 0
	if o1.op == c09OpSetState {
		xslots = 1 // the pairs write slot 0 ...
		if full || o2.op == c09OpSetState {
			xslots = nslots // ... and slot 1
		}
	}
	d := &c09Desc{nslots: nslots}
	// quick tier: the code of the pre-state account is symbolic only where code is written
	d.accts[0] = c09DescribeAcct(c09LiveKinds, full || o1.op == c09OpSetCode, xslots, false)
	if !full && o1.op == c09OpSetState {
		// describe the storage although the code is not: re-describe with detail
		d.accts[0] = c09DescribeAcctStorageOnly(d.accts[0], xslots)
	}
	if o2.ai == 1 {
		d.accts[1] = c09DescribeAcct(c09LightKinds, false, 0, false)
	}
	d.refund = vs.U64("refund")
	a := c09Build(d, deleteEmpty)
	b := c09Build(d, deleteEmpty)
	o1.apply(a)
	o2.apply(a)
	o2.apply(b)
	o1.apply(b)
	oa := c09Observe(a, xslots)
	c09AssertSameObs(oa, c09Observe(b, xslots), xslots, "two orders")
	vs.Observe("balanceA", oa.accts[0].balance)
	vs.Observe("nonceA", oa.accts[0].nonce)

	// Copy carries every dirty object; clean ones are re-read from the copied trie
	// (the reflective account decoder on that path is outside the engine: checked
	// when every live account is dirty)
	allDirty := true
	for _, addr := range c09Addrs {
		if obj := a.stateObjects[addr]; obj != nil {
			if _, dirty := a.stateObjectsDirty[addr]; !dirty {
				allDirty = false
			}
		}
	}
	var c *StateDB
	if allDirty {
		vs.Reach("copy")
		c = a.Copy()
		c09AssertSameObs(oa, c09Observe(c, xslots), xslots, "Copy")
	}

	a.Finalise(deleteEmpty)
	b.Finalise(deleteEmpty)
	for i := range c09Addrs {
		c09AssertSameContentAt(a, b, i, "two orders, after Finalise")
		c09AssertMirrors(a, i, xslots, "after Finalise")
	}
	if c != nil {
		c.Finalise(deleteEmpty)
		for i := range c09Addrs {
			c09AssertSameContentAt(a, c, i, "Copy, after Finalise")
		}
		c09AssertSameObs(c09Observe(a, xslots), c09Observe(c, xslots), xslots, "Copy, after Finalise")
	}
}
