package core

// C01 harnesses (H1): a block is accepted iff every commitment in its header
// equals the value recomputed from its body and the parent state.
//
// Under the engine the recomputations (types.CreateBloom, types.DeriveSha,
// types.CalcUncleHash, StateDB.IntermediateRoot, Header.Hash, the chain
// look-ups of BlockChain) are redirected to the stand-ins below, which return
// independent symbolic values.  Every header commitment is built as
// "recomputed value XOR delta" with a symbolic delta, so the header ranges over
// all values and "all commitments match" is "all deltas are zero".  Natively
// the real functions run on one concrete (empty) body and an empty parent
// state; the same deltas then corrupt the real recomputed values, which makes
// every counterexample replayable against the real build.

import (
	"errors"
	"math/big"

	lru "github.com/hashicorp/golang-lru"
	"gitlab.com/aquachain/aquachain/aquadb"
	"gitlab.com/aquachain/aquachain/common"
	"gitlab.com/aquachain/aquachain/consensus"
	"gitlab.com/aquachain/aquachain/core/state"
	"gitlab.com/aquachain/aquachain/core/types"
	vs "gitlab.com/aquachain/aquachain/internal/verifsym"
	"gitlab.com/aquachain/aquachain/params"
	"gitlab.com/aquachain/aquachain/rpc"
)

// c01Rec: the values the engine-side stand-ins return, and what they recorded.
var c01Rec struct {
	bloom                                   types.Bloom
	receiptSha, txSha, root, rootDel, uncle common.Hash
	blockHash                               common.Hash
	known, parentBlock, parentState         bool
	rootCalls                               int
	rootFlag                                bool
	lookups                                 int
}

func c01CreateBloom(receipts types.Receipts) types.Bloom { return c01Rec.bloom }

func c01DeriveSha(list types.DerivableList) common.Hash {
	switch list.(type) {
	case types.Receipts:
		return c01Rec.receiptSha
	case types.Transactions:
		return c01Rec.txSha
	}
	panic("c01DeriveSha: unexpected list type")
}

func c01CalcUncleHash(uncles []*types.Header) common.Hash { return c01Rec.uncle }

func c01IntermediateRoot(s *state.StateDB, deleteEmptyObjects bool) common.Hash {
	c01Rec.rootCalls++
	c01Rec.rootFlag = deleteEmptyObjects
	// the root depends on the empty-account rule it is computed with
	if deleteEmptyObjects {
		return c01Rec.rootDel
	}
	return c01Rec.root
}

func c01HeaderHash(h *types.Header) common.Hash { return c01Rec.blockHash }

func c01HasBlockAndState(bc *BlockChain, hash common.Hash, number uint64) bool {
	c01Rec.lookups++
	if hash == c01Rec.blockHash {
		return c01Rec.known
	}
	return c01Rec.parentBlock && c01Rec.parentState
}

func c01HasBlock(bc *BlockChain, hash common.Hash, number uint64) bool {
	c01Rec.lookups++
	if hash == c01Rec.blockHash {
		return c01Rec.known
	}
	return c01Rec.parentBlock
}

// consensus engine stub: only VerifyUncles is reachable from the validator
type c01Engine struct {
	uncleErr error
	calls    int
}

var c01ErrUncles = errors.New("c01: uncles rejected")

func (e *c01Engine) Name() string { return "c01" }
func (e *c01Engine) VerifyHeader(chain consensus.ChainReader, header *types.Header, seal bool) error {
	panic("c01Engine: unexpected call")
}
func (e *c01Engine) VerifyHeaders(chain consensus.ChainReader, headers []*types.Header, seals []bool) (chan<- struct{}, <-chan error) {
	panic("c01Engine: unexpected call")
}
func (e *c01Engine) VerifyUncles(chain consensus.ChainReader, block *types.Block) error {
	e.calls++
	return e.uncleErr
}
func (e *c01Engine) VerifySeal(chain consensus.ChainReader, header *types.Header) error {
	panic("c01Engine: unexpected call")
}
func (e *c01Engine) Prepare(chain consensus.ChainReader, header *types.Header) error {
	panic("c01Engine: unexpected call")
}
func (e *c01Engine) Finalize(chain consensus.ChainReader, header *types.Header, state *state.StateDB, txs []*types.Transaction,
	uncles []*types.Header, receipts []*types.Receipt) (*types.Block, error) {
	panic("c01Engine: unexpected call")
}
func (e *c01Engine) Seal(chain consensus.ChainReader, block *types.Block, stop <-chan struct{}) (*types.Block, error) {
	panic("c01Engine: unexpected call")
}
func (e *c01Engine) CalcDifficulty(chain consensus.ChainReader, time uint64, parent, grandparent *types.Header) *big.Int {
	panic("c01Engine: unexpected call")
}
func (e *c01Engine) APIs(chain consensus.ChainReader) []rpc.API { panic("c01Engine: unexpected call") }

func c01SymHash(name string) (h common.Hash) {
	copy(h[:], vs.BytesN(name, common.HashLength))
	return h
}

func c01XorHash(a, d common.Hash) (h common.Hash) {
	for i := range h {
		h[i] = a[i] ^ d[i]
	}
	return h
}

func c01HashIsZero(d common.Hash) bool { return d == (common.Hash{}) }

var c01ParentHash = common.HexToHash("0x1111111111111111111111111111111111111111111111111111111111111111")

// VerifC01_ValidateState: ValidateState(block, parent, statedb, receipts,
// usedGas) == nil iff GasUsed, Bloom, ReceiptHash and Root of the header equal
// usedGas, CreateBloom(receipts), DeriveSha(receipts) and
// statedb.IntermediateRoot(IsEIP158(number)).
func VerifC01_ValidateState() {
	// fork configuration and height: symbolic
	number := vs.BigU("number", 63)
	cfg := &params.ChainConfig{ChainId: big.NewInt(1)}
	if vs.Choice("eip158Configured", 2) == 1 {
		cfg.EIP158Block = vs.BigU("eip158Block", 63)
	}
	wantFlag := cfg.EIP158Block != nil && cfg.EIP158Block.Cmp(number) <= 0

	// body and parent state: concrete natively, irrelevant under the engine
	receipts := types.Receipts{}
	var statedb *state.StateDB
	if vs.Symbolic() {
		statedb = new(state.StateDB)
		c01Rec.bloom = types.BytesToBloom(vs.BytesN("recBloom", types.BloomByteLength))
		c01Rec.receiptSha = c01SymHash("recReceiptSha")
		c01Rec.root = c01SymHash("recRoot")
		c01Rec.rootDel = c01SymHash("recRootDeletingEmpty")
	} else {
		statedb, _ = state.New(common.Hash{}, state.NewDatabase(aquadb.NewMemDatabase()))
		// an empty dirty account: the native root depends on the empty-account rule too
		statedb.CreateAccount(common.HexToAddress("0xe0"))
	}
	recBloom := types.CreateBloom(receipts)
	recReceiptSha := types.DeriveSha(receipts)
	recRoot := statedb.IntermediateRoot(wantFlag)
	c01ArmState(statedb)
	usedGas := vs.U64("usedGas")

	// header commitments = recomputed value XOR delta
	dGas := vs.U64("dGasUsed")
	dBloomB := vs.BytesN("dBloom", types.BloomByteLength)
	dReceipt := c01SymHash("dReceiptHash")
	dRoot := c01SymHash("dRoot")
	header := &types.Header{
		ParentHash:  c01ParentHash,
		Number:      new(big.Int).Set(number),
		Difficulty:  big.NewInt(1),
		Time:        big.NewInt(1),
		GasLimit:    vs.U64("gasLimit"),
		GasUsed:     usedGas ^ dGas,
		ReceiptHash: c01XorHash(recReceiptSha, dReceipt),
		Root:        c01XorHash(recRoot, dRoot),
		TxHash:      c01SymHash("txHash"),    // not ValidateState's business
		UncleHash:   c01SymHash("uncleHash"), // not ValidateState's business
		Version:     1,
	}
	var dBloomAcc byte
	for i := range header.Bloom {
		header.Bloom[i] = recBloom[i] ^ dBloomB[i]
		dBloomAcc |= dBloomB[i]
	}
	bloomZero := dBloomAcc == 0
	block := types.NewBlockWithHeader(header)
	v := NewBlockValidator(cfg, nil, &c01Engine{})

	err := v.ValidateState(block, nil, statedb, receipts, usedGas)

	gasOK, receiptOK, rootOK := dGas == 0, c01HashIsZero(dReceipt), c01HashIsZero(dRoot)
	all := gasOK && bloomZero && receiptOK && rootOK
	vs.Observe("accepted", err == nil)
	if err == nil {
		vs.Reach("accept")
		vs.Assert(all, "accepted although a commitment (gas used, bloom, receipt root, state root) differs from the recomputed value")
	} else {
		vs.Reach("reject")
		vs.Assert(!all, "rejected although every commitment matches")
	}
	// a block rejected on a cheaper commitment leaves the state untouched; otherwise
	// the state root is recomputed (which finalises the state)
	early := gasOK && bloomZero && receiptOK
	touched := c01StateTouched(statedb)
	if early {
		vs.Assert(touched, "state root not recomputed although the cheaper commitments match")
	} else {
		vs.Assert(!touched, "state touched although the block was already rejected")
	}
	if vs.Symbolic() && early {
		vs.Assert(c01Rec.rootCalls == 1, "IntermediateRoot called exactly once")
	}
}

// c01StateTouched: whether IntermediateRoot (hence Finalise) ran on statedb
// since c01ArmState.  Natively Finalise is recognised by its clearing of the
// refund counter; under the engine the stand-in counts its calls.
func c01StateTouched(statedb *state.StateDB) bool {
	if vs.Symbolic() {
		return c01Rec.rootCalls > 0
	}
	return statedb.GetRefund() == 0
}

func c01ArmState(statedb *state.StateDB) {
	if vs.Symbolic() {
		c01Rec.rootCalls = 0
		return
	}
	statedb.AddRefund(1)
}

// c01Chain: natively a BlockChain whose real look-ups answer as prescribed;
// under the engine the look-ups are redirected and the object is never read.
func c01Chain(cfg *params.ChainConfig, block *types.Block, known, parentBlock, parentState bool) *BlockChain {
	if vs.Symbolic() {
		c01Rec.known, c01Rec.parentBlock, c01Rec.parentState = known, parentBlock, parentState
		return new(BlockChain)
	}
	db := aquadb.NewMemDatabase()
	bc := &BlockChain{chainConfig: cfg, db: db, stateCache: state.NewDatabase(db)}
	bc.blockCache, _ = lru.New(8)
	missing := common.HexToHash("0xdeadbeef") // no such state
	withRoot := func(root common.Hash, number uint64) *types.Block {
		return types.NewBlockWithHeader(&types.Header{Number: new(big.Int).SetUint64(number), Root: root, Version: 1,
			Difficulty: big.NewInt(1), Time: big.NewInt(1)})
	}
	if known {
		bc.blockCache.Add(block.Hash(), withRoot(common.Hash{}, block.NumberU64()))
	}
	if parentBlock {
		root := missing
		if parentState {
			root = common.Hash{}
		}
		bc.blockCache.Add(block.ParentHash(), withRoot(root, block.NumberU64()-1))
	}
	return bc
}

// VerifC01_ValidateBody: ValidateBody(block) == nil iff the block is not yet
// known, its parent block and state are present, the engine accepts the uncles,
// and UncleHash and TxHash of the header equal CalcUncleHash(uncles) and
// DeriveSha(transactions); the specific errors for the chain preconditions.
func VerifC01_ValidateBody() {
	cfg := &params.ChainConfig{ChainId: big.NewInt(1)}
	known := vs.Bool("known")
	parentBlock := vs.Bool("parentBlock")
	parentState := vs.Bool("parentState")
	uncleErr := vs.Bool("unclesRejected")
	if vs.Symbolic() {
		c01Rec.txSha = c01SymHash("recTxSha")
		c01Rec.uncle = c01SymHash("recUncleHash")
		c01Rec.blockHash = common.HexToHash("0x2222222222222222222222222222222222222222222222222222222222222222")
	}
	var txs types.Transactions
	var uncles []*types.Header
	recTx := types.DeriveSha(txs)
	recUncle := types.CalcUncleHash(uncles)
	dTx := c01SymHash("dTxHash")
	dUncle := c01SymHash("dUncleHash")
	header := &types.Header{
		ParentHash:  c01ParentHash,
		Number:      big.NewInt(5),
		Difficulty:  big.NewInt(1),
		Time:        big.NewInt(1),
		TxHash:      c01XorHash(recTx, dTx),
		UncleHash:   c01XorHash(recUncle, dUncle),
		Root:        c01SymHash("root"),        // not ValidateBody's business
		ReceiptHash: c01SymHash("receiptHash"), // not ValidateBody's business
		GasUsed:     vs.U64("gasUsed"),
		Version:     1,
	}
	block := types.NewBlockWithHeader(header)
	eng := &c01Engine{}
	if uncleErr {
		eng.uncleErr = c01ErrUncles
	}
	bc := c01Chain(cfg, block, known, parentBlock, parentState)
	v := NewBlockValidator(cfg, bc, eng)

	err := v.ValidateBody(block)

	txOK, uncleOK := c01HashIsZero(dTx), c01HashIsZero(dUncle)
	linkable := parentBlock && parentState
	all := !known && linkable && !uncleErr && txOK && uncleOK
	vs.Observe("accepted", err == nil)
	if err == nil {
		vs.Reach("accept")
		vs.Assert(all, "accepted although the block is known, not linkable, has rejected uncles or a commitment (tx root, uncle hash) differs")
		return
	}
	vs.Reach("reject")
	vs.Assert(!all, "rejected although the block is new, linkable and every commitment matches")
	switch {
	case known:
		vs.Assert(err == ErrKnownBlock, "known block reported as ErrKnownBlock")
	case !parentBlock:
		vs.Assert(err == consensus.ErrUnknownAncestor, "missing parent reported as ErrUnknownAncestor")
	case !parentState:
		vs.Assert(err == consensus.ErrPrunedAncestor, "parent without state reported as ErrPrunedAncestor")
	case uncleErr:
		vs.Assert(err == c01ErrUncles, "the engine's uncle verdict is returned")
	}
	if known || !linkable {
		vs.Assert(eng.calls == 0, "uncles verified although the chain preconditions failed")
	}
}
