package core

// C03: the canonical index describes exactly the chain that ends at the head.
//
// Concrete scenario shapes (enumerated with vs.Choice), executed through the
// real WriteBlockWithState -> reorg -> insert sequence, BlockChain.SetHead and
// HeaderChain.WriteHeader on the abstract chain store of zz_verif_c02_fixture.go:
//
//        G - C - O1 .. Oa      old branch, a in 0..A
//              \ N1 .. Nb      new branch, b in 1..B   (b < a: shorter but heavier)
//
// Each of up to two transactions sits in at most one old-branch block and at
// most one new-branch block (both choices free).  The index property is
// asserted after every single import and after the rewind.

import (
	"math/big"

	"gitlab.com/aquachain/aquachain/common"
	"gitlab.com/aquachain/aquachain/core/types"
	vs "gitlab.com/aquachain/aquachain/internal/verifsym"
)

type c03Scene struct {
	f        *c02Fix
	g, c     *types.Block
	old, new []*types.Block
	txs      []*types.Transaction
	top      uint64 // highest block number ever stored
	shorter  bool   // an import moved the head to a lower number (reorg to a shorter branch)
	rewound  []bool // per transaction: SetHead dropped the canonical block that carried it
}

// c03Place chooses, for every transaction, its block on each branch (0 = absent).
func c03Place(ntx, a, b int) (po, pn []int) {
	for t := 0; t < ntx; t++ {
		po = append(po, vs.Choice("txold", a+1))
		pn = append(pn, vs.Choice("txnew", b+1))
	}
	return
}

func c03Pick(txs []*types.Transaction, pos []int, k int) (out []*types.Transaction) {
	for t, p := range pos {
		if p == k {
			out = append(out, txs[t])
		}
	}
	return
}

// c03Build creates genesis, opens the chain and constructs (does not import) the blocks.
func c03Build(a, b, heavyAt int, po, pn []int) *c03Scene {
	return c03BuildMode(a, b, heavyAt, po, pn, true)
}

func c03BuildMode(a, b, heavyAt int, po, pn []int, archive bool) *c03Scene {
	s := &c03Scene{f: c02NewFix()}
	f := s.f
	f.arch = archive
	for t := range po {
		s.txs = append(s.txs, c02Tx(uint64(100+t)))
	}
	s.g = f.block(nil, big.NewInt(7))
	f.store(s.g, s.g.Difficulty())
	f.canon(s.g)
	f.head(s.g)
	f.open()
	s.c = f.block(s.g, big.NewInt(10))
	parent := s.c
	for i := 1; i <= a; i++ {
		blk := f.block(parent, big.NewInt(10), c03Pick(s.txs, po, i)...)
		s.old = append(s.old, blk)
		parent = blk
	}
	parent = s.c
	for i := 1; i <= b; i++ {
		d := int64(9)
		if i == heavyAt {
			d = int64(10*a + 15)
		}
		blk := f.block(parent, big.NewInt(d), c03Pick(s.txs, pn, i)...)
		s.new = append(s.new, blk)
		parent = blk
	}
	return s
}

func (s *c03Scene) imp(b *types.Block) {
	before := s.f.bc.CurrentBlock().NumberU64()
	_, err := s.f.imp(b)
	vs.Assert(err == nil, "import succeeds")
	if b.NumberU64() > s.top {
		s.top = b.NumberU64()
	}
	if s.f.bc.CurrentBlock().NumberU64() < before {
		s.shorter = true
		vs.Reach("shorter-heavier")
	}
	s.check()
}

// check asserts the C03 statement on the store, w.r.t. the block head.
func (s *c03Scene) check() {
	bc, db := s.f.bc, s.f.db
	head := bc.CurrentBlock()
	vs.Assert(head != nil, "there is a head")
	vs.Assert(GetHeadBlockHash(db) == head.Hash(), "LastBlock names the in-memory head")
	vs.Assert(bc.CurrentHeader().Hash() == head.Hash(), "header head = block head after full imports")
	vs.Assert(GetHeadHeaderHash(db) == head.Hash(), "LastHeader names the head")
	vs.Assert(bc.CurrentFastBlock().Hash() == head.Hash(), "fast head = block head after full imports")
	vs.Assert(GetHeadFastBlockHash(db) == head.Hash(), "LastFast names the head")

	// heights up to the head: canonical(n) = ancestor(head, n), everything retrievable
	type pos struct {
		blk common.Hash
		num uint64
		idx uint64
	}
	where := make([]*pos, len(s.txs))
	cur := head
	for {
		n := cur.NumberU64()
		vs.Assert(GetCanonicalHash(db, n) == cur.Hash(), "canonical(n) = ancestor(head, n) for n <= head")
		bn := bc.GetBlockByNumber(n)
		vs.Assert(bn != nil && bn.Hash() == cur.Hash(), "GetBlockByNumber(n) is the head's ancestor")
		hn := bc.GetHeaderByNumber(n)
		vs.Assert(hn != nil && hn.Hash() == cur.Hash(), "GetHeaderByNumber(n) is the head's ancestor")
		vs.Assert(bc.GetBody(cur.Hash()) != nil, "body of a canonical block retrievable")
		vs.Assert(bc.GetReceiptsByHash(cur.Hash()) != nil, "receipts of a canonical block retrievable")
		vs.Assert(bc.GetTd(cur.Hash(), n) != nil, "TD of a canonical block retrievable")
		for i, tx := range cur.Transactions() {
			for t := range s.txs {
				if tx.Hash() == s.txs[t].Hash() {
					vs.Assert(where[t] == nil, "fixture: a transaction occurs once per chain")
					where[t] = &pos{cur.Hash(), n, uint64(i)}
				}
			}
		}
		if n == 0 {
			break
		}
		cur = bc.GetBlock(cur.ParentHash(), n-1)
		vs.Assert(cur != nil, "parent of a canonical block retrievable")
	}
	vs.Assert(cur.Hash() == s.g.Hash(), "chain ends at genesis")

	// transaction lookups: resolve iff contained in a canonical block, and point at it
	for t, tx := range s.txs {
		h, num, idx := GetTxLookupEntry(db, tx.Hash())
		gtx, gh, gnum, gidx := GetTransaction(db, tx.Hash())
		rc, _, _, _ := GetReceipt(db, tx.Hash())
		if where[t] == nil {
			vs.Assert(h == (common.Hash{}), "no lookup entry for a transaction outside the canonical chain")
			vs.Assert(gtx == nil, "GetTransaction does not resolve a transaction outside the canonical chain")
			vs.Assert(rc == nil, "GetReceipt does not resolve a transaction outside the canonical chain")
		} else {
			w := where[t]
			vs.Assert(h == w.blk && num == w.num && idx == w.idx, "lookup entry points at the canonical block and position")
			vs.Assert(gtx != nil && gtx.Hash() == tx.Hash() && gh == w.blk && gnum == w.num && gidx == w.idx, "GetTransaction resolves to the canonical block and position")
			vs.Assert(rc != nil, "GetReceipt resolves a canonical transaction")
		}
	}

	// heights above the head map to nothing
	for n := head.NumberU64() + 1; n <= s.top+1; n++ {
		vs.Assert(GetCanonicalHash(db, n) == (common.Hash{}), "no canonical entry above the head")
		vs.Assert(bc.GetBlockByNumber(n) == nil, "GetBlockByNumber above the head is nil")
		vs.Assert(bc.GetHeaderByNumber(n) == nil, "GetHeaderByNumber above the head is nil")
	}
}

func c03Shape() (a, b, heavyAt int) {
	a = vs.Choice("a", vs.Param("A")+1)
	b = 1 + vs.Choice("b", vs.Param("B"))
	heavyAt = 1 + vs.Choice("heavyAt", b)
	return
}

// VerifC03_Reorg: import the old branch, then the new branch block by block.
func VerifC03_Reorg() {
	a, b, heavyAt := c03Shape()
	po, pn := c03Place(vs.Param("TX"), a, b)
	s := c03Build(a, b, heavyAt, po, pn)
	s.check()
	s.imp(s.c)
	for _, blk := range s.old {
		s.imp(blk)
	}
	for _, blk := range s.new {
		s.imp(blk)
	}
	last := s.new[len(s.new)-1]
	if b >= heavyAt {
		vs.Assert(s.f.bc.CurrentBlock().Hash() == last.Hash(), "fixture: the new branch wins")
	}
	if b > a {
		vs.Reach("longer")
	}
	vs.Observe("head", s.f.bc.CurrentBlock().NumberU64())
}

// VerifC03_SetHead: build a chain (optionally through a reorg), then rewind.
func VerifC03_SetHead() {
	a, b, heavyAt := c03Shape()
	po, pn := c03Place(vs.Param("TX"), a, b)
	s := c03Build(a, b, heavyAt, po, pn)
	s.imp(s.c)
	for _, blk := range s.old {
		s.imp(blk)
	}
	for _, blk := range s.new {
		s.imp(blk)
	}
	bc := s.f.bc
	head := bc.CurrentBlock()
	n := uint64(vs.Choice("target", int(head.NumberU64())+1))
	// which transactions are canonical now but sit above the target?
	cur := head
	s.rewound = make([]bool, len(s.txs))
	any := false
	for cur.NumberU64() > n {
		for _, tx := range cur.Transactions() {
			for t := range s.txs {
				if tx.Hash() == s.txs[t].Hash() {
					s.rewound[t] = true
					any = true
				}
			}
		}
		cur = bc.GetBlock(cur.ParentHash(), cur.NumberU64()-1)
	}
	err := bc.SetHead(n)
	vs.Assert(err == nil, "SetHead succeeds")
	vs.Assert(bc.CurrentBlock().NumberU64() == n, "head is the target after SetHead (all states are available)")
	vs.Assert(bc.CurrentBlock().Hash() == cur.Hash(), "head is the old head's ancestor at the target height")
	if any {
		vs.Reach("rewound-tx")
	}
	s.check()
	vs.Observe("head", bc.CurrentBlock().NumberU64())
}

// VerifC03_WriteHeader: header-first import of the new branch on top of a fully
// imported old branch; the index must describe the chain ending at the header head.
func VerifC03_WriteHeader() {
	a, b, heavyAt := c03Shape()
	s := c03Build(a, b, heavyAt, nil, nil)
	s.imp(s.c)
	for _, blk := range s.old {
		s.imp(blk)
	}
	hc, db := s.f.bc.hc, s.f.db
	for _, blk := range s.new {
		_, err := hc.WriteHeader(blk.Header())
		vs.Assert(err == nil, "header import succeeds")
		if blk.NumberU64() > s.top {
			s.top = blk.NumberU64()
		}
		hh := hc.CurrentHeader()
		vs.Assert(GetHeadHeaderHash(db) == hh.Hash(), "LastHeader names the in-memory header head")
		cur := hh
		for {
			n := cur.Number.Uint64()
			vs.Assert(GetCanonicalHash(db, n) == cur.Hash(), "canonical(n) = ancestor(header head, n)")
			g := hc.GetHeaderByNumber(n)
			vs.Assert(g != nil && g.Hash() == cur.Hash(), "GetHeaderByNumber(n) is the header head's ancestor")
			vs.Assert(hc.GetTd(cur.Hash(), n) != nil, "TD retrievable")
			if n == 0 {
				break
			}
			cur = hc.GetHeader(cur.ParentHash, n-1)
			vs.Assert(cur != nil, "parent header retrievable")
		}
		for n := hh.Number.Uint64() + 1; n <= s.top+1; n++ {
			vs.Assert(GetCanonicalHash(db, n) == (common.Hash{}), "no canonical entry above the header head")
			vs.Assert(hc.GetHeaderByNumber(n) == nil, "GetHeaderByNumber above the header head is nil")
		}
	}
	if b >= heavyAt {
		vs.Assert(hc.CurrentHeader().Hash() == s.new[b-1].Hash(), "fixture: the new branch wins")
	}
	vs.Observe("hhead", hc.CurrentHeader().Number.Uint64())
}
