package core

// Shared fixture of the C02 / C03 / C04 harnesses: an abstract chain store.
//
// The real BlockChain / HeaderChain methods and the real core/database_util.go
// accessors (key layout included) run on top of
//   * c02DB      - a map-backed aquadb.Database that can record every write
//                  (single put/delete, or one atomic group per batch.Write()),
//   * c02StateDB - a state.Database whose tries are single nodes living in the
//                  *real* trie.Database write layer (so the real
//                  StateDB.Commit / trie.Database.Commit sequence produces the
//                  real "state flushed" write),
// Under the engine three leaf encoders are replaced through suite overrides:
//   rlp.EncodeToBytes / rlp.Decode / rlp.DecodeBytes -> handle table (c02Rlp*)
//   core/types.rlpHash                               -> c02RlpHash (identity
//                                                       taken from the nonce)
// Natively nothing is replaced: the same harness code drives the real RLP
// codec and the real keccak hashes, which is what replay and validation use.

import (
	"bytes"
	"context"
	"encoding/binary"
	"errors"
	"io"
	"math/big"
	"time"

	lru "github.com/hashicorp/golang-lru"
	"gitlab.com/aquachain/aquachain/aquadb"
	"gitlab.com/aquachain/aquachain/common"
	"gitlab.com/aquachain/aquachain/common/prque"
	"gitlab.com/aquachain/aquachain/core/state"
	"gitlab.com/aquachain/aquachain/core/types"
	"gitlab.com/aquachain/aquachain/core/vm"
	vs "gitlab.com/aquachain/aquachain/internal/verifsym"
	"gitlab.com/aquachain/aquachain/params"
	"gitlab.com/aquachain/aquachain/trie"
)

// ---------------------------------------------------------------------------
// recording database

type c02Op struct {
	del bool
	k   string
	v   []byte
}

// c02Write is one durable step: a direct put/delete or an atomic batch flush.
type c02Write struct {
	batch bool
	ops   []c02Op
}

type c02DB struct {
	m     map[string][]byte
	order []string // keys in first-insertion order (deterministic snapshots)
	rec   bool
	log   []c02Write

	failBatchWrite int // C04-H3: the n-th batch.Write() (1-based) fails; 0 = never
	batchWrites    int
	bigValues      bool // C04-H3: batches report a value size above IdealBatchSize
}

var c02ErrNotFound = errors.New("not found")
var c02ErrDiskFull = errors.New("disk full")

func c02NewDB() *c02DB { return &c02DB{m: map[string][]byte{}} }

func (d *c02DB) apply(op c02Op) {
	if op.del {
		delete(d.m, op.k)
		return
	}
	if _, ok := d.m[op.k]; !ok {
		d.order = append(d.order, op.k)
	}
	d.m[op.k] = op.v
}

func (d *c02DB) Put(k, v []byte) error {
	op := c02Op{k: string(k), v: common.CopyBytes(v)}
	d.apply(op)
	if d.rec {
		d.log = append(d.log, c02Write{ops: []c02Op{op}})
	}
	return nil
}

func (d *c02DB) Delete(k []byte) error {
	op := c02Op{del: true, k: string(k)}
	d.apply(op)
	if d.rec {
		d.log = append(d.log, c02Write{ops: []c02Op{op}})
	}
	return nil
}

func (d *c02DB) Get(k []byte) ([]byte, error) {
	if v, ok := d.m[string(k)]; ok {
		return common.CopyBytes(v), nil
	}
	return nil, c02ErrNotFound
}

func (d *c02DB) Has(k []byte) (bool, error) {
	_, ok := d.m[string(k)]
	return ok, nil
}

func (d *c02DB) Close() {}

func (d *c02DB) NewBatch() aquadb.Batch { return &c02Batch{db: d} }

// clone copies the current content (not the log).
func (d *c02DB) clone() *c02DB {
	n := c02NewDB()
	for _, k := range d.order {
		if v, ok := d.m[k]; ok {
			n.apply(c02Op{k: k, v: v})
		}
	}
	return n
}

type c02Batch struct {
	db   *c02DB
	ops  []c02Op
	size int
}

func (b *c02Batch) Put(k, v []byte) error {
	b.ops = append(b.ops, c02Op{k: string(k), v: common.CopyBytes(v)})
	b.size += len(v)
	return nil
}

func (b *c02Batch) Delete(k []byte) error {
	b.ops = append(b.ops, c02Op{del: true, k: string(k)})
	b.size++
	return nil
}

func (b *c02Batch) ValueSize() int {
	if b.db.bigValues && len(b.ops) > 0 {
		return aquadb.IdealBatchSize + 1
	}
	return b.size
}

func (b *c02Batch) Write() error {
	b.db.batchWrites++
	if b.db.failBatchWrite != 0 && b.db.batchWrites == b.db.failBatchWrite {
		return c02ErrDiskFull
	}
	for _, op := range b.ops {
		b.db.apply(op)
	}
	if b.db.rec {
		b.db.log = append(b.db.log, c02Write{batch: true, ops: append([]c02Op(nil), b.ops...)})
	}
	return nil
}

func (b *c02Batch) Reset() {
	b.ops = b.ops[:0]
	b.size = 0
}

// ---------------------------------------------------------------------------
// state: every block's state is one trie node (root -> blob) in the real
// trie.Database; "state of root r is available" == node r resolvable through
// trie.Database.Node (memory layer or disk), exactly what OpenTrie needs.

var c02ErrMissingState = errors.New("missing trie node (state root)")

type c02StateDB struct {
	tdb  *trie.Database
	next common.Hash // root produced by the next StateDB.Commit
}

func (s *c02StateDB) OpenTrie(root common.Hash) (state.Trie, error) {
	blob, err := s.tdb.Node(root)
	if err != nil || len(blob) == 0 {
		return nil, c02ErrMissingState
	}
	return &c02Trie{s: s, root: root}, nil
}
func (s *c02StateDB) OpenStorageTrie(addrHash, root common.Hash) (state.Trie, error) {
	panic("c02StateDB: storage tries are not part of the fixture")
}
func (s *c02StateDB) CopyTrie(t state.Trie) state.Trie { return t }
func (s *c02StateDB) ContractCode(addrHash, codeHash common.Hash) ([]byte, error) {
	return nil, c02ErrNotFound
}
func (s *c02StateDB) ContractCodeSize(addrHash, codeHash common.Hash) (int, error) {
	return 0, c02ErrNotFound
}
func (s *c02StateDB) TrieDB() *trie.Database { return s.tdb }

type c02Trie struct {
	s    *c02StateDB
	root common.Hash
}

func (t *c02Trie) TryGet(key []byte) ([]byte, error) { return nil, nil }
func (t *c02Trie) TryUpdate(key, value []byte) error { return nil }
func (t *c02Trie) TryDelete(key []byte) error        { return nil }
func (t *c02Trie) Commit(onleaf trie.LeafCallback) (common.Hash, error) {
	t.s.tdb.Insert(t.s.next, []byte{0x51})
	return t.s.next, nil
}
func (t *c02Trie) Hash() common.Hash {
	// root after the pending changes: the fake processor announces it in s.next
	if t.s.next != (common.Hash{}) {
		return t.s.next
	}
	return t.root
}
func (t *c02Trie) NodeIterator(startKey []byte) trie.NodeIterator { return nil }
func (t *c02Trie) GetKey(k []byte) []byte                        { return k }
func (t *c02Trie) Prove(key []byte, fromLevel uint, proofDb aquadb.Putter) error {
	return nil
}

// ---------------------------------------------------------------------------
// engine-only leaf stubs (see suite overrides)

var c02RlpTab []interface{}

func c02RlpEncode(val interface{}) ([]byte, error) {
	var rec interface{}
	switch v := val.(type) {
	case *big.Int:
		if v.Sign() < 0 {
			return nil, errors.New("rlp: cannot encode negative *big.Int")
		}
		rec = new(big.Int).Set(v)
	case *types.Header:
		c := types.CopyHeader(v)
		c.Version = 0 // `rlp:"-"`
		rec = c
	case *types.Body:
		rec = &types.Body{Transactions: append([]*types.Transaction(nil), v.Transactions...), Uncles: append([]*types.Header(nil), v.Uncles...)}
	case []*types.ReceiptForStorage:
		rec = append([]*types.ReceiptForStorage(nil), v...)
	case TxLookupEntry:
		rec = v
	default:
		panic("c02RlpEncode: type outside the fixture")
	}
	c02RlpTab = append(c02RlpTab, rec)
	h := make([]byte, 9)
	h[0] = 0xfe
	binary.BigEndian.PutUint64(h[1:], uint64(len(c02RlpTab)-1))
	return h, nil
}

func c02RlpDecode(r io.Reader, val interface{}) error {
	buf := make([]byte, 16)
	n, _ := r.(*bytes.Reader).Read(buf)
	return c02RlpDecodeBytes(buf[:n], val)
}

func c02RlpDecodeBytes(b []byte, val interface{}) error {
	if len(b) != 9 || b[0] != 0xfe {
		return errors.New("c02 rlp stub: not a handle")
	}
	rec := c02RlpTab[binary.BigEndian.Uint64(b[1:])]
	switch v := val.(type) {
	case *big.Int:
		v.Set(rec.(*big.Int))
	case *types.Header:
		*v = *types.CopyHeader(rec.(*types.Header))
	case *types.Body:
		src := rec.(*types.Body)
		v.Transactions = append([]*types.Transaction(nil), src.Transactions...)
		v.Uncles = append([]*types.Header(nil), src.Uncles...)
	case *[]*types.ReceiptForStorage:
		*v = append([]*types.ReceiptForStorage(nil), rec.([]*types.ReceiptForStorage)...)
	case *TxLookupEntry:
		*v = rec.(TxLookupEntry)
	default:
		panic("c02RlpDecode: type outside the fixture")
	}
	return nil
}

// c02RlpHash replaces keccak(rlp(x)): block identity = header nonce,
// transaction identity = account nonce (the fixture never reuses either).
func c02RlpHash(version byte, x interface{}) (h common.Hash) {
	switch v := x.(type) {
	case *types.Header:
		h[0] = 0xb1
		copy(h[1:9], v.Nonce[:])
		h[9] = version
	case *types.Transaction:
		h[0] = 0x77
		binary.BigEndian.PutUint64(h[1:9], v.Nonce())
	default:
		panic("c02RlpHash: type outside the fixture")
	}
	return h
}

// c02Coin replaces math/rand.Float64 (tie break in the fork choice).
func c02Coin() float64 {
	if vs.Bool("coin") {
		return 0.25
	}
	return 0.75
}

// c02LogCrit replaces log.Crit (which exits the process).
func c02LogCrit(msg string, ctx ...interface{}) { panic("log.Crit: " + msg) }

// ---------------------------------------------------------------------------
// chain construction

type c02Fix struct {
	db   *c02DB
	sdb  *c02StateDB
	bc   *BlockChain
	ids  uint64
	cfg  *params.ChainConfig
	gen  *types.Block
	arch bool
}

func c02NewFix() *c02Fix {
	db := c02NewDB()
	return &c02Fix{db: db, cfg: params.TestChainConfig, arch: true}
}

func c02Root(id uint64) (h common.Hash) {
	h[0] = 0x57
	binary.BigEndian.PutUint64(h[1:9], id)
	return h
}

// c02Tx makes a transaction whose identity is its nonce.
func c02Tx(id uint64) *types.Transaction {
	return types.NewTransaction(id, common.Address{0xaa}, big.NewInt(0), 21000, big.NewInt(1), nil)
}

// block makes a block on top of parent (nil: genesis) with the given difficulty.
func (f *c02Fix) block(parent *types.Block, diff *big.Int, txs ...*types.Transaction) *types.Block {
	f.ids++
	h := &types.Header{Difficulty: new(big.Int).Set(diff), Time: big.NewInt(int64(f.ids)), GasLimit: 5000000, Extra: []byte{}}
	binary.BigEndian.PutUint64(h.Nonce[:], f.ids)
	h.Root = c02Root(f.ids)
	if parent == nil {
		h.Number = big.NewInt(0)
	} else {
		h.Number = new(big.Int).Add(parent.Number(), big.NewInt(1))
		h.ParentHash = parent.Hash()
	}
	h.Version = f.cfg.GetBlockVersion(h.Number)
	// roots as the real BlockValidator checks them (leaf hashers stubbed under the engine)
	h.UncleHash = types.CalcUncleHash(nil)
	h.TxHash = types.DeriveSha(types.Transactions(txs))
	h.ReceiptHash = types.DeriveSha(c02ReceiptsN(len(txs)))
	b := types.NewBlockWithHeader(h)
	if len(txs) > 0 {
		b = b.WithBody(txs, nil)
	}
	return b
}

func c02Receipts(b *types.Block) types.Receipts { return c02ReceiptsN(len(b.Transactions())) }

func c02ReceiptsN(n int) types.Receipts {
	var rs types.Receipts
	for i := 0; i < n; i++ {
		rs = append(rs, types.NewReceipt(nil, false, uint64(21000*(i+1))))
	}
	return rs
}

// store writes a fully validated block (header, body, receipts, td, state)
// without touching the canonical index or the head pointers.
func (f *c02Fix) store(b *types.Block, td *big.Int) {
	WriteTd(f.db, b.Hash(), b.NumberU64(), td)
	WriteBlock(f.db, b)
	WriteBlockReceipts(f.db, b.Hash(), b.NumberU64(), c02Receipts(b))
	root := b.Root()
	f.db.Put(root[:], []byte{0x51})
}

// canon makes b the canonical block of its height (number index + lookups).
func (f *c02Fix) canon(b *types.Block) {
	WriteCanonicalHash(f.db, b.Hash(), b.NumberU64())
	WriteTxLookupEntries(f.db, b)
}

func (f *c02Fix) head(b *types.Block) {
	WriteHeadBlockHash(f.db, b.Hash())
	WriteHeadHeaderHash(f.db, b.Hash())
	WriteHeadFastBlockHash(f.db, b.Hash())
}

// c02Open builds a BlockChain over db the way NewBlockChain/NewHeaderChain do
// (minus consensus engine, validator/processor, rand seed and the update
// goroutine) and runs the real loadLastState.
func c02Open(db *c02DB, cfg *params.ChainConfig, archive bool) (*BlockChain, *c02StateDB, error) {
	bodyCache, _ := lru.New(bodyCacheLimit)
	bodyRLPCache, _ := lru.New(bodyCacheLimit)
	blockCache, _ := lru.New(blockCacheLimit)
	futureBlocks, _ := lru.New(maxFutureBlocks)
	badBlocks, _ := lru.New(badBlockLimit)
	headerCache, _ := lru.New(headerCacheLimit)
	tdCache, _ := lru.New(tdCacheLimit)
	numberCache, _ := lru.New(numberCacheLimit)
	sdb := &c02StateDB{tdb: trie.NewDatabase(db)}
	bc := &BlockChain{
		ctx:          context.TODO(),
		chainConfig:  cfg,
		cacheConfig:  &CacheConfig{Disabled: archive, TrieNodeLimit: 256 * 1024 * 1024, TrieTimeLimit: 5 * time.Minute},
		db:           db,
		triegc:       prque.New(nil),
		stateCache:   sdb,
		quit:         make(chan struct{}),
		bodyCache:    bodyCache,
		bodyRLPCache: bodyRLPCache,
		blockCache:   blockCache,
		futureBlocks: futureBlocks,
		vmConfig:     vm.Config{},
		badBlocks:    badBlocks,
	}
	hc := &HeaderChain{
		ctx:           bc.ctx,
		config:        cfg,
		chainDb:       db,
		headerCache:   headerCache,
		tdCache:       tdCache,
		numberCache:   numberCache,
		procInterrupt: bc.getProcInterrupt,
	}
	hc.genesisHeader = hc.GetHeaderByNumber(0)
	if hc.genesisHeader == nil {
		return nil, nil, ErrNoGenesis
	}
	hc.currentHeader.Store(hc.genesisHeader)
	if head := GetHeadBlockHash(db); head != (common.Hash{}) {
		if chead := hc.GetHeaderByHash(head); chead != nil {
			chead.Version = cfg.GetBlockVersion(chead.Number)
			hc.currentHeader.Store(chead)
		}
	}
	hc.currentHeaderHash = hc.CurrentHeader().Hash()
	bc.hc = hc
	// import path collaborators: the real BlockValidator over a consensus engine
	// that accepts every header/uncle set, and a processor that produces the
	// fixture's receipts and announces the block's state root
	bc.engine = c02Engine{}
	hc.engine = bc.engine
	bc.validator = NewBlockValidator(cfg, bc, bc.engine)
	bc.processor = &c02Processor{sdb: sdb}
	bc.genesisBlock = bc.GetBlockByNumber(0)
	if bc.genesisBlock == nil {
		return nil, nil, ErrNoGenesis
	}
	if err := bc.loadLastState(); err != nil {
		return nil, nil, err
	}
	return bc, sdb, nil
}

func (f *c02Fix) open() {
	bc, sdb, err := c02Open(f.db, f.cfg, f.arch)
	vs.Assert(err == nil, "fixture: chain opens on the constructed store")
	f.bc, f.sdb = bc, sdb
}

// imp runs the real WriteBlockWithState for b on top of its parent's state.
func (f *c02Fix) imp(b *types.Block) (WriteStatus, error) {
	parent := f.bc.GetBlock(b.ParentHash(), b.NumberU64()-1)
	vs.Assert(parent != nil, "fixture: parent block is stored")
	st, err := state.New(parent.Root(), f.bc.stateCache)
	vs.Assert(err == nil, "fixture: parent state is available")
	f.sdb.next = b.Root()
	return f.bc.WriteBlockWithState(b, c02Receipts(b), st)
}

func c02Big(name string) *big.Int {
	x := vs.Big(name)
	vs.Assume(x.Sign() >= 0)
	vs.Assume(x.Cmp(c02Two256) < 0)
	return x
}

var c02Two256 = new(big.Int).Lsh(big.NewInt(1), 256)
