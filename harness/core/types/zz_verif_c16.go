package types

// C16 harnesses (core/types part): log blooms have no false negatives.
// Executed symbolically by /verif/engine; compiled natively for replay.
//
// Keccak256 is an uninterpreted function under the engine: the suite redirects
// crypto/sha3.Keccak256 (the function behind the crypto.Keccak256 variable) to
// VerifC16Keccak.  Natively the real hash runs (one admissible interpretation).

import (
	"math/big"

	"gitlab.com/aquachain/aquachain/common"
	vs "gitlab.com/aquachain/aquachain/internal/verifsym"
)

// VerifC16Keccak is the engine-side stand-in of sha3.Keccak256 (same signature).
func VerifC16Keccak(data ...[]byte) []byte {
	var all []byte
	for _, d := range data {
		// (copy into a buffer of the concrete length: the input may be the
		// symbolic-length result of big.Int.Bytes())
		tmp := make([]byte, len(d))
		copy(tmp, d)
		all = append(all, tmp...)
	}
	return vs.UF("keccak256", 32, all)
}

func c16Address(name string) common.Address {
	var a common.Address
	copy(a[:], vs.BytesN(name, common.AddressLength))
	return a
}

func c16Hash(name string) common.Hash {
	var h common.Hash
	copy(h[:], vs.BytesN(name, common.HashLength))
	return h
}

// c16Log builds a log with a symbolic address and nt symbolic topics.
func c16Log(nt int) *Log {
	l := &Log{Address: c16Address("addr")}
	for t := 0; t < nt; t++ {
		l.Topics = append(l.Topics, c16Hash("topic"))
	}
	return l
}

// c16Receipts builds a structurally chosen list of receipts: the number of
// receipts (0..maxR), of logs per receipt (0..maxL) and of topics per log
// (0..maxT) are structural choices (every shape is explored), all addresses and
// topics are symbolic.
func c16Receipts(maxR, maxL, maxT int) Receipts {
	var rs Receipts
	nr := vs.Choice("receipts", maxR+1)
	for r := 0; r < nr; r++ {
		rc := &Receipt{}
		nl := vs.Choice("logs", maxL+1)
		for l := 0; l < nl; l++ {
			rc.Logs = append(rc.Logs, c16Log(vs.Choice("topics", maxT+1)))
		}
		rs = append(rs, rc)
	}
	return rs
}

// VerifC16_NoFalseNegative: for every list of receipts, the bloom CreateBloom
// computes contains (BloomLookup) the address and every topic of every log.
// The same for the per-receipt bloom the state processor stores
// (CreateBloom(Receipts{receipt})) being contained in the block bloom.
func VerifC16_NoFalseNegative() {
	rs := c16Receipts(vs.Param("R"), vs.Param("L"), vs.Param("T"))
	bloom := CreateBloom(rs)
	all := true
	n := 0
	for _, r := range rs {
		for _, l := range r.Logs {
			all = c16And(all, BloomLookup(bloom, l.Address))
			n++
			for _, t := range l.Topics {
				all = c16And(all, BloomLookup(bloom, t))
				n++
			}
		}
	}
	vs.Assert(all, "bloom contains every address and topic of every log it covers")
	if n == 0 {
		vs.Assert(bloom == Bloom{}, "bloom of no logs is empty")
	}
	vs.Observe("items", n)
}

// VerifC16_BloomAdd: Bloom.Add(d) makes Test(d) and TestBytes(d.Bytes()) true
// and keeps every bit that was set before (prior bloom: empty if param
// prior = 0, arbitrary if 1; an arbitrary d below 2^bits).
func VerifC16_BloomAdd() {
	var b Bloom
	if vs.Param("prior") != 0 {
		copy(b[:], vs.BytesN("bloom", BloomByteLength))
	}
	old := b
	d := vs.BigU("d", vs.Param("bits"))
	b.Add(d)
	ok := c16And(b.Test(d), b.TestBytes(d.Bytes()))
	nb, ob := b.Big(), old.Big()
	ok = c16And(ok, new(big.Int).And(nb, ob).Cmp(ob) == 0)
	vs.Assert(ok, "Add(d) makes Test(d) true and clears no bit")
}

// c16And is a non-short-circuit conjunction (a pure diamond: no path fork).
func c16And(a, b bool) bool {
	if !b {
		a = false
	}
	return a
}

var _ = big.NewInt
