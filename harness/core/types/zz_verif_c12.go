package types

// C12 harnesses: a transaction is bound to its signer and to its chain.
// Executed symbolically by /verif/engine (suite /verif/suites/C12.json); the
// same source is compiled natively for replay/validation.
//
// Under the engine the primitives are uninterpreted functions (redirect
// overrides in the suite): crypto.Ecrecover, crypto.Keccak256, rlpHash.  Natively
// the real primitives run; where a solver-chosen (R,S) has to be a *valid*
// signature for the native run to get as far as the engine did, c12Complete
// replaces it by a real signature with the same recovery id and on the same side
// of N/2 ("completing the crypto natively").

import (
	"bytes"
	"errors"
	"math/big"

	"github.com/btcsuite/btcd/btcec/v2"
	"gitlab.com/aquachain/aquachain/common"
	"gitlab.com/aquachain/aquachain/crypto"
	vs "gitlab.com/aquachain/aquachain/internal/verifsym"
)

// secp256k1 group order and floor(N/2), written out independently of package crypto.
var (
	c12N, _     = new(big.Int).SetString("115792089237316195423570985008687907852837564279074904382605163141518161494337", 10)
	c12HalfN, _ = new(big.Int).SetString("57896044618658097711785492504343953926418782139537452191302581570759080747168", 10)
)

// ---------------------------------------------------------------------------
// engine-side stubs (redirect targets); they record what the code under test
// fed into the primitives.

var (
	c12EcCalls    int
	c12EcHash     []byte
	c12EcSig      []byte
	c12EcPub      []byte
	c12EcFailed   bool
	c12HashArgs   [][]interface{}
	c12errRecover = errors.New("c12: public key recovery failed")
)

// crypto.Ecrecover: uninterpreted in (hash, sig); fails or returns a 65-byte
// uncompressed key (first byte 4), as the real function does.
func c12Ecrecover(hash, sig []byte) ([]byte, error) {
	c12EcCalls++
	c12EcHash = append([]byte(nil), hash...)
	c12EcSig = append([]byte(nil), sig...)
	out := vs.UF("ecrecover", 65, hash, sig)
	c12EcPub, c12EcFailed = nil, true
	if out[0]&1 != 0 {
		return nil, c12errRecover
	}
	out[0] = 4
	c12EcPub, c12EcFailed = append([]byte(nil), out...), false
	return out, nil
}

// c12Recovery: what public-key recovery over (hash, sig) yields.  Under the
// engine this is the record of the single call the code under test made (after
// asserting that it was made with exactly these arguments) - a second
// application with differently built arguments would leave the equality of the
// arguments to the solver's congruence closure; natively it is a real call.
func c12Recovery(hash, sig []byte, calls int, ecHash, ecSig, ecPub []byte, ecFailed bool) (pub []byte, failed bool) {
	if vs.Symbolic() {
		vs.Assert(calls == 1, "exactly one public-key recovery")
		vs.Assert(bytes.Equal(ecHash, hash), "recovery over the signer's signing hash of this transaction")
		vs.Assert(bytes.Equal(ecSig, sig), "recovery over exactly pad32(R) || pad32(S) || recid")
		return ecPub, ecFailed
	}
	p, err := crypto.Ecrecover(hash, sig)
	return p, err != nil
}

// crypto.Keccak256
func c12Keccak256(data ...[]byte) []byte {
	var cat []byte
	for _, d := range data {
		cat = append(cat, d...)
	}
	return vs.UF("keccak256", 32, cat)
}

// rlpHash: uninterpreted in the list of encoded values; the value list is recorded.
func c12RlpHash(version byte, x interface{}) (h common.Hash) {
	switch v := x.(type) {
	case []interface{}:
		c12HashArgs = append(c12HashArgs, v)
		copy(h[:], c12HashList(v))
	case *Transaction:
		d := &v.data
		copy(h[:], c12HashList([]interface{}{d.AccountNonce, d.Price, d.GasLimit, d.Recipient, d.Amount, d.Payload, d.V, d.R, d.S}))
	default:
		panic("c12RlpHash: unexpected value")
	}
	return h
}

func c12HashList(list []interface{}) []byte {
	flat := make([]interface{}, 0, len(list)+2)
	flat = append(flat, uint64(len(list)))
	for _, e := range list {
		switch v := e.(type) {
		case uint64:
			flat = append(flat, v)
		case uint:
			flat = append(flat, uint64(v))
		case *big.Int:
			flat = append(flat, v)
		case *common.Address:
			if v == nil {
				flat = append(flat, uint64(0))
			} else {
				flat = append(flat, uint64(1), v[:])
			}
		case []byte:
			flat = append(flat, uint64(len(v)), v)
		default:
			panic("c12HashList: unexpected element")
		}
	}
	return vs.UFX("rlphash", 32, flat...)
}

// c12ArgsEqual: the two recorded value lists denote the same RLP value.
func c12ArgsEqual(a, b []interface{}) bool {
	if len(a) != len(b) {
		return false
	}
	eq := true
	for i := range a {
		if !c12ValEqual(a[i], b[i]) {
			eq = false
		}
	}
	return eq
}

func c12ValEqual(x, y interface{}) bool {
	switch a := x.(type) {
	case uint64:
		b, ok := y.(uint64)
		return ok && a == b
	case uint:
		b, ok := y.(uint)
		return ok && a == b
	case *big.Int:
		b, ok := y.(*big.Int)
		return ok && a.Cmp(b) == 0
	case *common.Address:
		b, ok := y.(*common.Address)
		if !ok {
			return false
		}
		if a == nil || b == nil {
			return a == nil && b == nil
		}
		return bytes.Equal(a[:], b[:])
	case []byte:
		b, ok := y.([]byte)
		return ok && bytes.Equal(a, b)
	}
	panic("c12ValEqual: unexpected element")
}

// ---------------------------------------------------------------------------
// inputs

const (
	c12Frontier  = 0
	c12Homestead = 1
	c12EIP155    = 2
)

func c12Signer(kind int, chain *big.Int) Signer {
	switch kind {
	case c12Frontier:
		return FrontierSigner{}
	case c12Homestead:
		return HomesteadSigner{}
	}
	return NewEIP155Signer(chain)
}

// c12Chain: an arbitrary positive chain id of up to "cbytes" bytes (suite
// parameter; 9 bytes already exceed 8 and 64 bits).  Built from bytes so that
// in bit-vector mode the high bits are structurally zero.
func c12Chain(name string) *big.Int {
	c := new(big.Int).SetBytes(vs.BytesN(name, vs.Param("cbytes")))
	vs.Assume(c.Sign() > 0)
	return c
}

// c12Content: symbolic transaction content; shape (recipient present, payload
// length) is a structural choice bounded by the suite parameters.
func c12Content() txdata {
	d := txdata{
		AccountNonce: vs.U64("nonce"),
		Price:        vs.BigU("price", 256),
		GasLimit:     vs.U64("gas"),
		Amount:       vs.BigU("amount", 256),
		V:            new(big.Int), R: new(big.Int), S: new(big.Int),
	}
	if vs.Param("shapes") == 0 || vs.Choice("to", 2) == 1 {
		a := common.BytesToAddress(vs.BytesN("to", 20))
		d.Recipient = &a
	}
	if vs.Param("shapes") == 0 {
		d.Payload = vs.BytesN("payload", 1)
	} else {
		d.Payload = vs.Bytes("payload", vs.Param("payload"))
	}
	return d
}

// c12SignedTx: content plus arbitrary signature values.  V is any natural
// number of up to "vbytes" bytes (the RLP and JSON decoders produce no negative integers);
// R and S are arbitrary integers - except that values with leading zero bytes
// (1 <= x < 2^248) are left to VerifC12_RecoverPlainPadding, because every
// (len R.Bytes(), len S.Bytes()) pair is a separate path.
func c12SignedTx() *Transaction {
	d := c12Content()
	d.V, _ = c12V()
	d.R = vs.Big("R")
	d.S = vs.Big("S")
	vs.Assume(c12Any(d.R.Sign() <= 0, d.R.Cmp(c12two248) >= 0))
	vs.Assume(c12Any(d.S.Sign() <= 0, d.S.Cmp(c12two248) >= 0))
	return &Transaction{data: d}
}

var c12two248 = new(big.Int).Lsh(big.NewInt(1), 248)
var c12two64 = new(big.Int).Lsh(big.NewInt(1), 64)

// c12V: any natural number of up to "vbytes" bytes, as a structural case split:
// below 2^64 it is built from a uint64 (the code under test switches to machine
// words there), otherwise from bytes.
func c12V() (V *big.Int, small bool) {
	if vs.Choice("vsize", 2) == 0 {
		return new(big.Int).SetUint64(vs.U64("V64")), true
	}
	V = new(big.Int).SetBytes(vs.BytesN("V", vs.Param("vbytes")))
	vs.Assume(V.Cmp(c12two64) >= 0)
	return V, false
}

// c12VInt: the same case split for integer mode (V below 2^258).
func c12VInt() (V *big.Int, small bool) {
	if vs.Choice("vsize", 2) == 0 {
		return new(big.Int).SetUint64(vs.U64("V64")), true
	}
	V = vs.BigU("V", 258)
	vs.Assume(V.Cmp(c12two64) >= 0)
	return V, false
}

// c12Recid: the recovery id the signer has to derive from V (may be out of range).
func c12Recid(kind int, chain, V *big.Int) (recid *big.Int, protected bool) {
	unprot := c12Any(V.Cmp(big.NewInt(27)) == 0, V.Cmp(big.NewInt(28)) == 0)
	if kind != c12EIP155 || unprot {
		return new(big.Int).Sub(V, big.NewInt(27)), false
	}
	r := new(big.Int).Sub(V, big.NewInt(35))
	r.Sub(r, chain)
	r.Sub(r, chain)
	return r, true
}

func c12InRange(x *big.Int) bool { return c12All(x.Sign() > 0, x.Cmp(c12N) < 0) }

// c12All / c12Any: conjunction / disjunction without short-circuit branches
// (each "if" is a pure diamond, merged by the engine instead of forking).
func c12All(conds ...bool) bool {
	n := 0
	for _, c := range conds {
		if c {
			n++
		}
	}
	return n == len(conds)
}

func c12Any(conds ...bool) bool {
	n := 0
	for _, c := range conds {
		if c {
			n++
		}
	}
	return n > 0
}

// c12Complete (native runs only): make (R,S) a real signature over the signing
// hash with recovery id recid, S staying on its side of N/2.  Only when the
// values are in range at all - otherwise they are left as the solver chose them.
func c12Complete(signer Signer, tx *Transaction, recid *big.Int) {
	R, S := tx.data.R, tx.data.S
	if !c12InRange(R) || !c12InRange(S) || !recid.IsUint64() || recid.Uint64() > 1 {
		return
	}
	high := S.Cmp(c12HalfN) > 0
	h := signer.Hash(tx)
	if _, is155 := signer.(EIP155Signer); is155 && !tx.Protected() {
		h = HomesteadSigner{}.Hash(tx)
	}
	for d := int64(1); d < 256; d++ {
		prv, _ := btcec.PrivKeyFromBytes(big.NewInt(d).FillBytes(make([]byte, 32)))
		sig, err := crypto.Sign(h[:], prv)
		if err != nil {
			continue
		}
		r, s, v := new(big.Int).SetBytes(sig[:32]), new(big.Int).SetBytes(sig[32:64]), uint64(sig[64])
		if high {
			s.Sub(c12N, s)
			v ^= 1
		}
		if v == recid.Uint64() {
			tx.data.R, tx.data.S = r, s
			return
		}
	}
}

// c12Sig: R || S || recid as 65 bytes (values known to be in range, recid 0 or 1).
func c12Sig(R, S, recid *big.Int) []byte {
	sig := make([]byte, 65)
	R.FillBytes(sig[0:32])
	S.FillBytes(sig[32:64])
	if recid.Sign() != 0 {
		sig[64] = 1
	}
	return sig
}

// ---------------------------------------------------------------------------

// VerifC12_ValidateSig: crypto.ValidateSignatureValues is exactly
// v in {0,1}, 1 <= r,s < N and (homestead => s <= N/2), for all integers r, s.
func VerifC12_ValidateSig() {
	v := vs.U8("v")
	r, s := vs.Big("r"), vs.Big("s")
	hs := vs.Bool("homestead")
	got := crypto.ValidateSignatureValues(v, r, s, hs)
	want := c12All(v <= 1, c12InRange(r), c12InRange(s), c12Any(!hs, s.Cmp(c12HalfN) <= 0))
	vs.Observe("got", got)
	vs.Assert(got == want, "ValidateSignatureValues == (v in {0,1}, 1<=r,s<N, homestead => s<=N/2)")
}

// VerifC12_VArithmetic: Protected() and ChainId() for every V: unprotected iff
// V in {27,28}; for V >= 35 the chain id c satisfies V in {2c+35, 2c+36}.
func VerifC12_VArithmetic() {
	V, small := c12VInt()
	tx := &Transaction{data: txdata{V: V}}
	prot := tx.Protected()
	legacy := c12Any(V.Cmp(big.NewInt(27)) == 0, V.Cmp(big.NewInt(28)) == 0)
	vs.Assert(prot == !legacy, "Protected() iff V not in {27,28}")
	c := tx.ChainId()
	vs.Observe("protected", prot)
	vs.Observe("chainid", c)
	if legacy {
		vs.Assert(c.Sign() == 0, "legacy V has chain id 0")
		return
	}
	if small {
		// machine-word case: state the same relation on uint64
		v := V.Uint64()
		if v >= 35 {
			vs.Assert(c.IsUint64(), "chain id of a 64-bit V is a 64-bit number")
			cc := c.Uint64()
			vs.Assert(cc <= (1<<63)-18 && (v == 2*cc+35 || v == 2*cc+36), "V in {2c+35, 2c+36} for c = ChainId() (64-bit V)")
		}
		return
	}
	if V.Cmp(big.NewInt(35)) >= 0 {
		lo := new(big.Int).Add(new(big.Int).Lsh(c, 1), big.NewInt(35))
		d := new(big.Int).Sub(V, lo)
		vs.Assert(d.Sign() == 0 || d.Cmp(big.NewInt(1)) == 0, "V in {2c+35, 2c+36} for c = ChainId()")
	}
}

// VerifC12_SenderAccepts: signer.Sender(tx) for arbitrary V, R, S and chain id.
// accept => recovery id in {0,1} derived from V with the signer's own chain id,
// 1 <= R,S < N, low S for Homestead/EIP-155, Ecrecover was fed exactly
// (signer.Hash(tx), R||S||recid) once and the address is keccak(pub[1:])[12:];
// reject => one of these fails or Ecrecover failed.
func VerifC12_SenderAccepts() {
	kind := vs.Choice("signer", 3)
	chain := c12Chain("chain")
	signer := c12Signer(kind, chain)
	tx := c12SignedTx()
	recid, protected := c12Recid(kind, chain, tx.data.V)
	if !vs.Symbolic() {
		c12Complete(signer, tx, recid)
	}
	R, S := tx.data.R, tx.data.S
	c12EcCalls, c12HashArgs = 0, nil
	addr, err := signer.Sender(tx)
	calls, ecHash, ecSig, ecPub, ecFailed := c12EcCalls, c12EcHash, c12EcSig, c12EcPub, c12EcFailed

	recidOK := c12Any(recid.Sign() == 0, recid.Cmp(big.NewInt(1)) == 0)
	rangeOK := c12All(c12InRange(R), c12InRange(S))
	lowS := S.Cmp(c12HalfN) <= 0
	// a legacy (V = 27/28) transaction under the EIP-155 signer is checked by the
	// Homestead rules: Homestead signing hash, low S.
	hasher := signer
	if kind == c12EIP155 && !protected {
		hasher = HomesteadSigner{}
	}
	if err == nil {
		vs.Reach("accept")
		vs.Assert(recidOK, "accepted: V encodes recovery id 0/1 (and, if protected, the signer's chain id)")
		vs.Assert(rangeOK, "accepted: 1 <= R,S < N")
		if kind != c12Frontier {
			vs.Known("C12-eip155-high-s", kind == c12EIP155 && protected && !lowS)
			vs.Assert(lowS, "accepted by Homestead/EIP-155 signer: S <= N/2")
		}
		h := hasher.Hash(tx)
		pub, failed := c12Recovery(h[:], c12Sig(R, S, recid), calls, ecHash, ecSig, ecPub, ecFailed)
		vs.Assert(!failed && len(pub) == 65, "accepted: recovery of (hash, R||S||recid) succeeds")
		want := common.BytesToAddress(crypto.Keccak256(pub[1:])[12:])
		vs.Assert(addr == want, "accepted: sender is the address of the recovered key")
		return
	}
	vs.Reach("reject")
	if recidOK && rangeOK {
		if kind == c12Frontier || lowS {
			h := hasher.Hash(tx)
			_, failed := c12Recovery(h[:], c12Sig(R, S, recid), calls, ecHash, ecSig, ecPub, ecFailed)
			vs.Assert(failed, "rejected although V, R, S are valid and the key is recoverable")
		}
	}
}

// VerifC12_RecoverPlainPadding: the signature assembly of recoverPlain for R, S
// with leading zero bytes: Ecrecover is fed exactly the 32-byte big-endian R and
// S and the recovery id, whatever the lengths of R.Bytes() and S.Bytes().
// Parameter minlen bounds the byte lengths from below (1 = every length).
func VerifC12_RecoverPlainPadding() {
	R, S := vs.BigU("R", 256), vs.BigU("S", 256)
	lo := new(big.Int).Lsh(big.NewInt(1), uint(8*(vs.Param("minlen")-1)))
	vs.Assume(c12All(R.Cmp(lo) >= 0, S.Cmp(lo) >= 0))
	recid := vs.U8("recid")
	vs.Assume(recid <= 1)
	homestead := vs.Bool("homestead")
	var hash common.Hash
	copy(hash[:], vs.BytesN("hash", 32))
	Vb := new(big.Int).SetUint64(27 + uint64(recid))
	c12EcCalls = 0
	addr, err := recoverPlain(hash, R, S, Vb, homestead)
	calls, ecHash, ecSig, ecPub, ecFailed := c12EcCalls, c12EcHash, c12EcSig, c12EcPub, c12EcFailed
	valid := c12All(c12InRange(R), c12InRange(S), c12Any(!homestead, S.Cmp(c12HalfN) <= 0))
	sig := make([]byte, 65)
	R.FillBytes(sig[0:32])
	S.FillBytes(sig[32:64])
	sig[64] = recid
	if err != nil {
		vs.Reach("reject")
		if valid {
			_, failed := c12Recovery(hash[:], sig, calls, ecHash, ecSig, ecPub, ecFailed)
			vs.Assert(failed, "rejected although R, S are valid and the key is recoverable")
		}
		return
	}
	vs.Reach("accept")
	vs.Assert(valid, "accepted: R, S in range")
	pub, failed := c12Recovery(hash[:], sig, calls, ecHash, ecSig, ecPub, ecFailed)
	vs.Assert(!failed && len(pub) == 65, "recovery of the padded signature succeeds")
	vs.Assert(addr == common.BytesToAddress(crypto.Keccak256(pub[1:])[12:]), "sender is the address of the key recovered from the padded signature")
}

// c12Key (native runs only): a deterministic private key.
func c12Key(seed uint8) *btcec.PrivateKey {
	prv, _ := btcec.PrivKeyFromBytes(big.NewInt(int64(seed) + 1).FillBytes(make([]byte, 32)))
	return prv
}

func c12SameContent(a, b *txdata) bool {
	same := a.AccountNonce == b.AccountNonce && a.GasLimit == b.GasLimit
	if a.Price.Cmp(b.Price) != 0 || a.Amount.Cmp(b.Amount) != 0 {
		same = false
	}
	if !bytes.Equal(a.Payload, b.Payload) {
		same = false
	}
	if (a.Recipient == nil) != (b.Recipient == nil) {
		return false
	}
	if a.Recipient != nil && !bytes.Equal(a.Recipient[:], b.Recipient[:]) {
		same = false
	}
	return same
}

// VerifC12_SignRoundTrip: for every 65-byte signature [R || S || recid] and every
// signer, WithSignature stores R, S and V = 27+recid (35+2c+recid for EIP-155,
// any chain id c) without touching the content, the result is protected iff the
// signer is EIP-155 and carries chain id c, and Sender(signer, signed) recovers
// over exactly (signer.Hash(unsigned tx), the given 65 bytes).
// (R, S with leading zero bytes: see VerifC12_RecoverPlainPadding.)
func VerifC12_SignRoundTrip() {
	kind := vs.Choice("signer", 3)
	chain := c12Chain("chain")
	signer := c12Signer(kind, chain)
	tx := &Transaction{data: c12Content()}
	seed := vs.U8("keyseed")
	h := signer.Hash(tx)
	sig := vs.BytesN("sig", 65)
	vs.Assume(c12All(sig[64] <= 1, sig[0] != 0, sig[32] != 0))
	if !vs.Symbolic() {
		// natively: a real signature by key "keyseed", on the same side of N/2 as the solver's
		high := new(big.Int).SetBytes(sig[32:64]).Cmp(c12HalfN) > 0
		sig, _ = crypto.Sign(h[:], c12Key(seed))
		if high {
			new(big.Int).Sub(c12N, new(big.Int).SetBytes(sig[32:64])).FillBytes(sig[32:64])
			sig[64] ^= 1
		}
	}
	signed, err := tx.WithSignature(signer, sig)
	vs.Assert(err == nil && signed != nil, "WithSignature succeeds on a 65-byte signature")
	vs.Assert(c12SameContent(&signed.data, &tx.data), "WithSignature leaves the content unchanged")
	r, s := new(big.Int).SetBytes(sig[:32]), new(big.Int).SetBytes(sig[32:64])
	vs.Assert(signed.data.R.Cmp(r) == 0 && signed.data.S.Cmp(s) == 0, "R, S are the big-endian halves of the signature")
	wantV := new(big.Int).SetUint64(27 + uint64(sig[64]))
	if kind == c12EIP155 {
		wantV.SetUint64(35 + uint64(sig[64]))
		wantV.Add(wantV, chain)
		wantV.Add(wantV, chain)
	}
	vs.Assert(signed.data.V.Cmp(wantV) == 0, "V = 27+recid, or 35+2*chainid+recid for EIP-155")
	vs.Assert(signed.Protected() == (kind == c12EIP155), "protected iff signed by the EIP-155 signer")
	if kind == c12EIP155 {
		vs.Assert(signed.ChainId().Cmp(chain) == 0, "ChainId() of the signed transaction is the signer's")
	}
	c12EcCalls = 0
	addr, err := Sender(signer, signed)
	calls, ecHash, ecSig, ecPub, ecFailed := c12EcCalls, c12EcHash, c12EcSig, c12EcPub, c12EcFailed
	valid := c12All(c12InRange(r), c12InRange(s))
	lowS := s.Cmp(c12HalfN) <= 0
	if err != nil {
		vs.Reach("reject")
		if valid && (kind == c12Frontier || lowS) {
			_, failed := c12Recovery(h[:], sig, calls, ecHash, ecSig, ecPub, ecFailed)
			vs.Assert(failed, "rejected although the signature values are valid and the key is recoverable")
		}
		return
	}
	vs.Reach("accept")
	vs.Assert(valid, "accepted: 1 <= R,S < N")
	if kind != c12Frontier {
		vs.Known("C12-eip155-high-s", kind == c12EIP155 && !lowS)
		vs.Assert(lowS, "accepted by Homestead/EIP-155 signer: S <= N/2")
	}
	pub, failed := c12Recovery(h[:], sig, calls, ecHash, ecSig, ecPub, ecFailed)
	vs.Assert(!failed && len(pub) == 65, "accepted: recovery over (signing hash of the unsigned transaction, the given signature)")
	vs.Assert(addr == common.BytesToAddress(crypto.Keccak256(pub[1:])[12:]), "sender is the address of the recovered key")
	if !vs.Symbolic() {
		vs.Assert(addr == crypto.PubkeyToAddress(c12Key(seed).PubKey()), "sender is the address of the signing key")
	}
}

// VerifC12_HashBindsFields: two transactions and two signers of one kind: the
// value lists handed to the hash by signer.Hash are equal only if nonce, gas
// price, gas limit, recipient, value, payload - and for EIP-155 the chain id -
// are all equal (so under an injective hash a change of any signed field
// changes the digest), and equal inputs give equal digests.  Natively the same
// statement is evaluated on the real digests.
func VerifC12_HashBindsFields() {
	kind := vs.Choice("signer", 3)
	cA, cB := c12Chain("chain"), c12Chain("chain")
	sA, sB := c12Signer(kind, cA), c12Signer(kind, cB)
	dA, dB := c12Content(), c12Content()
	txA, txB := &Transaction{data: dA}, &Transaction{data: dB}
	same := c12SameContent(&dA, &dB)
	if kind == c12EIP155 && cA.Cmp(cB) != 0 {
		same = false
	}
	c12HashArgs = nil
	hA, hB := sA.Hash(txA), sB.Hash(txB)
	if vs.Symbolic() {
		vs.Assert(len(c12HashArgs) == 2, "one hash per call")
		vs.Assert(c12ArgsEqual(c12HashArgs[0], c12HashArgs[1]) == same, "hash inputs are equal iff all signed fields (and chain id) are equal")
	} else {
		vs.Assert((hA == hB) == same, "signing hashes are equal iff all signed fields (and chain id) are equal")
	}
	if same {
		vs.Reach("same")
	} else {
		vs.Reach("different")
	}
}

// VerifC12_SignerEqual: Equal holds exactly for the same signer kind and, for
// EIP-155, the same chain id (any two chain ids).
func VerifC12_SignerEqual() {
	k1, k2 := vs.Choice("signer", 3), vs.Choice("signer", 3)
	c1, c2 := c12Chain("chain"), c12Chain("chain")
	s1, s2 := c12Signer(k1, c1), c12Signer(k2, c2)
	same := k1 == k2
	if k1 == c12EIP155 && c1.Cmp(c2) != 0 {
		same = false
	}
	vs.Observe("equal", s1.Equal(s2))
	vs.Assert(s1.Equal(s2) == same && s2.Equal(s1) == same, "Equal iff same signer kind (and chain id)")
}

// VerifC12_SenderCache: after Sender(s1, tx) has possibly cached its result,
// Sender(s2, tx) returns exactly what s2 derives from an uncached copy - for all
// signer-kind pairs, equal and different chain ids, every form of V relative to
// the two chain ids, and arbitrary in-range R, S (full length).  The V forms and
// the two chain ids are concrete here (the V arithmetic itself is
// VerifC12_SenderAccepts' subject).
func VerifC12_SenderCache() {
	k1, k2 := vs.Choice("signer", 3), vs.Choice("signer", 3)
	ids := []*big.Int{big.NewInt(61717561), new(big.Int).Add(c12two64, big.NewInt(5))}
	c1 := ids[0]
	c2 := ids[vs.Choice("chain2", 2)]
	s1, s2 := c12Signer(k1, c1), c12Signer(k2, c2)
	d := c12Content()
	vform := vs.Choice("vform", vs.Param("vforms"))
	switch vform {
	case 0:
		d.V = big.NewInt(27)
	case 1:
		d.V = new(big.Int).Add(new(big.Int).Lsh(ids[0], 1), big.NewInt(35))
	case 2:
		d.V = new(big.Int).Add(new(big.Int).Lsh(ids[1], 1), big.NewInt(35))
	case 3:
		d.V = big.NewInt(100)
	case 4:
		d.V = big.NewInt(28)
	default:
		d.V = new(big.Int).Add(new(big.Int).Lsh(ids[0], 1), big.NewInt(36))
	}
	d.R, d.S = vs.BigU("R", 256), vs.BigU("S", 256)
	vs.Assume(c12All(d.R.Cmp(c12two248) >= 0, d.R.Cmp(c12N) < 0, d.S.Cmp(c12two248) >= 0, d.S.Cmp(c12N) < 0))
	tx := &Transaction{data: d}
	if !vs.Symbolic() {
		recid, _ := c12Recid(k1, c1, tx.data.V)
		c12Complete(s1, tx, recid)
	}
	same := k1 == k2
	if k1 == c12EIP155 && c1.Cmp(c2) != 0 {
		same = false
	}
	fresh := &Transaction{data: tx.data}
	_, e1 := Sender(s1, tx)
	a2, e2 := Sender(s2, tx)
	a3, e3 := s2.Sender(fresh)
	if e1 == nil {
		vs.Reach("cached")
		if !same {
			vs.Reach("cached-other-signer")
		}
	}
	vs.Assert((e2 == nil) == (e3 == nil), "cached and uncached derivation agree on acceptance")
	if e2 == nil {
		vs.Assert(a2 == a3, "cached and uncached derivation agree on the sender")
	}
}
