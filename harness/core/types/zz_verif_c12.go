package types

// C12 harnesses: a transaction is bound to its signer and to its chain.
// Executed symbolically by /verif/engine (suite /verif/suites/C12.json); the
// same source is compiled natively for replay/validation.
//
// Under the engine the primitives are uninterpreted functions (redirect
// overrides in the suite): crypto.Ecrecover, crypto.Keccak256, rlpHash.  Natively
// the real primitives run; where a solver-chosen (R,S) has to be a *valid*
// signature for the native run to get as far as the engine did, c12Complete
// replaces it by a real signature with the same recovery id and on the same side
// of N/2 ("completing the crypto natively").

import (
	"bytes"
	"errors"
	"math/big"

	"github.com/btcsuite/btcd/btcec/v2"
	"gitlab.com/aquachain/aquachain/common"
	"gitlab.com/aquachain/aquachain/crypto"
	vs "gitlab.com/aquachain/aquachain/internal/verifsym"
)

// secp256k1 group order and floor(N/2), written out independently of package crypto.
var (
	c12N, _     = new(big.Int).SetString("115792089237316195423570985008687907852837564279074904382605163141518161494337", 10)
	c12HalfN, _ = new(big.Int).SetString("57896044618658097711785492504343953926418782139537452191302581570759080747168", 10)
)

// ---------------------------------------------------------------------------
// engine-side stubs (redirect targets); they record what the code under test
// fed into the primitives.

var (
	c12EcCalls    int
	c12EcHash     []byte
	c12EcSig      []byte
	c12HashArgs   [][]interface{}
	c12errRecover = errors.New("c12: public key recovery failed")
)

// crypto.Ecrecover: uninterpreted in (hash, sig); fails or returns a 65-byte
// uncompressed key (first byte 4), as the real function does.
func c12Ecrecover(hash, sig []byte) ([]byte, error) {
	c12EcCalls++
	c12EcHash = append([]byte(nil), hash...)
	c12EcSig = append([]byte(nil), sig...)
	out := vs.UF("ecrecover", 65, hash, sig)
	if out[0]&1 != 0 {
		return nil, c12errRecover
	}
	out[0] = 4
	return out, nil
}

// crypto.Keccak256
func c12Keccak256(data ...[]byte) []byte {
	var cat []byte
	for _, d := range data {
		cat = append(cat, d...)
	}
	return vs.UF("keccak256", 32, cat)
}

// rlpHash: uninterpreted in the list of encoded values; the value list is recorded.
func c12RlpHash(version byte, x interface{}) (h common.Hash) {
	switch v := x.(type) {
	case []interface{}:
		c12HashArgs = append(c12HashArgs, v)
		copy(h[:], c12HashList(v))
	case *Transaction:
		d := &v.data
		copy(h[:], c12HashList([]interface{}{d.AccountNonce, d.Price, d.GasLimit, d.Recipient, d.Amount, d.Payload, d.V, d.R, d.S}))
	default:
		panic("c12RlpHash: unexpected value")
	}
	return h
}

func c12HashList(list []interface{}) []byte {
	flat := make([]interface{}, 0, len(list)+2)
	flat = append(flat, uint64(len(list)))
	for _, e := range list {
		switch v := e.(type) {
		case uint64:
			flat = append(flat, v)
		case uint:
			flat = append(flat, uint64(v))
		case *big.Int:
			flat = append(flat, v)
		case *common.Address:
			if v == nil {
				flat = append(flat, uint64(0))
			} else {
				flat = append(flat, uint64(1), v[:])
			}
		case []byte:
			flat = append(flat, uint64(len(v)), v)
		default:
			panic("c12HashList: unexpected element")
		}
	}
	return vs.UFX("rlphash", 32, flat...)
}

// c12ArgsEqual: the two recorded value lists denote the same RLP value.
func c12ArgsEqual(a, b []interface{}) bool {
	if len(a) != len(b) {
		return false
	}
	eq := true
	for i := range a {
		if !c12ValEqual(a[i], b[i]) {
			eq = false
		}
	}
	return eq
}

func c12ValEqual(x, y interface{}) bool {
	switch a := x.(type) {
	case uint64:
		b, ok := y.(uint64)
		return ok && a == b
	case uint:
		b, ok := y.(uint)
		return ok && a == b
	case *big.Int:
		b, ok := y.(*big.Int)
		return ok && a.Cmp(b) == 0
	case *common.Address:
		b, ok := y.(*common.Address)
		if !ok {
			return false
		}
		if a == nil || b == nil {
			return a == nil && b == nil
		}
		return bytes.Equal(a[:], b[:])
	case []byte:
		b, ok := y.([]byte)
		return ok && bytes.Equal(a, b)
	}
	panic("c12ValEqual: unexpected element")
}

// ---------------------------------------------------------------------------
// inputs

const (
	c12Frontier  = 0
	c12Homestead = 1
	c12EIP155    = 2
)

func c12Signer(kind int, chain *big.Int) Signer {
	switch kind {
	case c12Frontier:
		return FrontierSigner{}
	case c12Homestead:
		return HomesteadSigner{}
	}
	return NewEIP155Signer(chain)
}

// c12Chain: an arbitrary positive chain id below 2^256 (so it also exceeds 8 and 64 bits).
func c12Chain(name string) *big.Int {
	c := vs.BigU(name, 256)
	vs.Assume(c.Sign() > 0)
	return c
}

// c12Content: symbolic transaction content; shape (recipient present, payload
// length) is a structural choice bounded by the suite parameters.
func c12Content() txdata {
	d := txdata{
		AccountNonce: vs.U64("nonce"),
		Price:        vs.BigU("price", 256),
		GasLimit:     vs.U64("gas"),
		Amount:       vs.BigU("amount", 256),
		V:            new(big.Int), R: new(big.Int), S: new(big.Int),
	}
	if vs.Param("shapes") == 0 || vs.Choice("to", 2) == 1 {
		a := common.BytesToAddress(vs.BytesN("to", 20))
		d.Recipient = &a
	}
	if vs.Param("shapes") == 0 {
		d.Payload = vs.BytesN("payload", 1)
	} else {
		d.Payload = vs.Bytes("payload", vs.Param("payload"))
	}
	return d
}

// c12SignedTx: content plus arbitrary signature values.  V is any natural
// number below 2^258 (the RLP and JSON decoders produce no negative integers);
// R and S are arbitrary integers - except that values with leading zero bytes
// (1 <= x < 2^248) are left to VerifC12_RecoverPlainPadding, because every
// (len R.Bytes(), len S.Bytes()) pair is a separate path.
func c12SignedTx() *Transaction {
	d := c12Content()
	d.V = vs.BigU("V", 258)
	d.R = vs.Big("R")
	d.S = vs.Big("S")
	vs.Assume(d.R.Sign() <= 0 || d.R.Cmp(c12two248) >= 0)
	vs.Assume(d.S.Sign() <= 0 || d.S.Cmp(c12two248) >= 0)
	return &Transaction{data: d}
}

var c12two248 = new(big.Int).Lsh(big.NewInt(1), 248)

// c12Recid: the recovery id the signer has to derive from V (may be out of range).
func c12Recid(kind int, chain, V *big.Int) (recid *big.Int, protected bool) {
	unprot := V.Cmp(big.NewInt(27)) == 0 || V.Cmp(big.NewInt(28)) == 0
	if kind != c12EIP155 || unprot {
		return new(big.Int).Sub(V, big.NewInt(27)), false
	}
	r := new(big.Int).Sub(V, big.NewInt(35))
	r.Sub(r, chain)
	r.Sub(r, chain)
	return r, true
}

func c12InRange(x *big.Int) bool { return x.Sign() > 0 && x.Cmp(c12N) < 0 }

// c12Complete (native runs only): make (R,S) a real signature over the signing
// hash with recovery id recid, S staying on its side of N/2.  Only when the
// values are in range at all - otherwise they are left as the solver chose them.
func c12Complete(signer Signer, tx *Transaction, recid *big.Int) {
	R, S := tx.data.R, tx.data.S
	if !c12InRange(R) || !c12InRange(S) || !recid.IsUint64() || recid.Uint64() > 1 {
		return
	}
	high := S.Cmp(c12HalfN) > 0
	h := signer.Hash(tx)
	for d := int64(1); d < 256; d++ {
		prv, _ := btcec.PrivKeyFromBytes(big.NewInt(d).FillBytes(make([]byte, 32)))
		sig, err := crypto.Sign(h[:], prv)
		if err != nil {
			continue
		}
		r, s, v := new(big.Int).SetBytes(sig[:32]), new(big.Int).SetBytes(sig[32:64]), uint64(sig[64])
		if high {
			s.Sub(c12N, s)
			v ^= 1
		}
		if v == recid.Uint64() {
			tx.data.R, tx.data.S = r, s
			return
		}
	}
}

// c12Sig: R || S || recid as 65 bytes (values known to be in range).
func c12Sig(R, S, recid *big.Int) []byte {
	sig := make([]byte, 65)
	R.FillBytes(sig[0:32])
	S.FillBytes(sig[32:64])
	sig[64] = byte(recid.Uint64())
	return sig
}

// ---------------------------------------------------------------------------

// VerifC12_ValidateSig: crypto.ValidateSignatureValues is exactly
// v in {0,1}, 1 <= r,s < N and (homestead => s <= N/2), for all integers r, s.
func VerifC12_ValidateSig() {
	v := vs.U8("v")
	r, s := vs.Big("r"), vs.Big("s")
	hs := vs.Bool("homestead")
	got := crypto.ValidateSignatureValues(v, r, s, hs)
	want := v <= 1 && c12InRange(r) && c12InRange(s)
	if hs && s.Cmp(c12HalfN) > 0 {
		want = false
	}
	vs.Observe("got", got)
	vs.Assert(got == want, "ValidateSignatureValues == (v in {0,1}, 1<=r,s<N, homestead => s<=N/2)")
}

// VerifC12_VArithmetic: Protected() and ChainId() for every V: unprotected iff
// V in {27,28}; for V >= 35 the chain id c satisfies V in {2c+35, 2c+36}.
func VerifC12_VArithmetic() {
	V := vs.BigU("V", 258)
	tx := &Transaction{data: txdata{V: V}}
	prot := tx.Protected()
	legacy := V.Cmp(big.NewInt(27)) == 0 || V.Cmp(big.NewInt(28)) == 0
	vs.Assert(prot == !legacy, "Protected() iff V not in {27,28}")
	c := tx.ChainId()
	vs.Observe("protected", prot)
	vs.Observe("chainid", c)
	if legacy {
		vs.Assert(c.Sign() == 0, "legacy V has chain id 0")
		return
	}
	if V.Cmp(big.NewInt(35)) >= 0 {
		lo := new(big.Int).Add(new(big.Int).Lsh(c, 1), big.NewInt(35))
		d := new(big.Int).Sub(V, lo)
		vs.Assert(d.Sign() == 0 || d.Cmp(big.NewInt(1)) == 0, "V in {2c+35, 2c+36} for c = ChainId()")
	}
}

// VerifC12_SenderAccepts: signer.Sender(tx) for arbitrary V, R, S and chain id.
// accept => recovery id in {0,1} derived from V with the signer's own chain id,
// 1 <= R,S < N, low S for Homestead/EIP-155, Ecrecover was fed exactly
// (signer.Hash(tx), R||S||recid) once and the address is keccak(pub[1:])[12:];
// reject => one of these fails or Ecrecover failed.
func VerifC12_SenderAccepts() {
	kind := vs.Choice("signer", 3)
	chain := c12Chain("chain")
	signer := c12Signer(kind, chain)
	tx := c12SignedTx()
	recid, protected := c12Recid(kind, chain, tx.data.V)
	if !vs.Symbolic() {
		c12Complete(signer, tx, recid)
	}
	R, S := tx.data.R, tx.data.S
	c12EcCalls, c12HashArgs = 0, nil
	addr, err := signer.Sender(tx)
	calls, ecHash, ecSig := c12EcCalls, c12EcHash, c12EcSig

	recidOK := recid.Sign() == 0 || recid.Cmp(big.NewInt(1)) == 0
	rangeOK := c12InRange(R) && c12InRange(S)
	lowS := S.Cmp(c12HalfN) <= 0
	if err == nil {
		vs.Reach("accept")
		vs.Assert(recidOK, "accepted: V encodes recovery id 0/1 (and, if protected, the signer's chain id)")
		vs.Assert(rangeOK, "accepted: 1 <= R,S < N")
		if kind != c12Frontier {
			vs.Known("C12-eip155-high-s", kind == c12EIP155 && protected && !lowS)
			vs.Assert(lowS, "accepted by Homestead/EIP-155 signer: S <= N/2")
		}
		h := signer.Hash(tx)
		sig := c12Sig(R, S, recid)
		if vs.Symbolic() {
			vs.Assert(calls == 1, "accepted: exactly one public-key recovery")
			vs.Assert(bytes.Equal(ecHash, h[:]), "accepted: recovery over the signer's signing hash of this transaction")
			vs.Assert(bytes.Equal(ecSig, sig), "accepted: recovery over exactly R || S || recid")
		}
		pub, e2 := crypto.Ecrecover(h[:], sig)
		vs.Assert(e2 == nil && len(pub) == 65, "accepted: recovery of (hash, R||S||recid) succeeds")
		want := common.BytesToAddress(crypto.Keccak256(pub[1:])[12:])
		vs.Assert(addr == want, "accepted: sender is the address of the recovered key")
		return
	}
	vs.Reach("reject")
	if recidOK && rangeOK {
		if kind == c12Frontier || lowS {
			h := signer.Hash(tx)
			_, e2 := crypto.Ecrecover(h[:], c12Sig(R, S, recid))
			vs.Assert(e2 != nil, "rejected although V, R, S are valid and the key is recoverable")
		}
	}
}

// VerifC12_RecoverPlainPadding: the signature assembly of recoverPlain for R, S
// with leading zero bytes: Ecrecover is fed exactly the 32-byte big-endian R and
// S and the recovery id, whatever the lengths of R.Bytes() and S.Bytes().
// Parameter minlen bounds the byte lengths from below (1 = every length).
func VerifC12_RecoverPlainPadding() {
	R, S := vs.BigU("R", 256), vs.BigU("S", 256)
	lo := new(big.Int).Lsh(big.NewInt(1), uint(8*(vs.Param("minlen")-1)))
	vs.Assume(R.Cmp(lo) >= 0 && S.Cmp(lo) >= 0)
	recid := vs.U8("recid")
	vs.Assume(recid <= 1)
	homestead := vs.Bool("homestead")
	var hash common.Hash
	copy(hash[:], vs.BytesN("hash", 32))
	Vb := new(big.Int).SetUint64(27 + uint64(recid))
	if !vs.Symbolic() {
		// natively: a real signature over hash with this recovery id keeps the leading
		// zero bytes only by luck, so the padding is compared on the solver's values
		// through the sender address of the padded signature instead (below).
	}
	c12EcCalls = 0
	addr, err := recoverPlain(hash, R, S, Vb, homestead)
	calls, ecHash, ecSig := c12EcCalls, c12EcHash, c12EcSig
	valid := c12InRange(R) && c12InRange(S)
	if homestead && S.Cmp(c12HalfN) > 0 {
		valid = false
	}
	sig := make([]byte, 65)
	R.FillBytes(sig[0:32])
	S.FillBytes(sig[32:64])
	sig[64] = recid
	pub, e2 := crypto.Ecrecover(hash[:], sig)
	if err != nil {
		vs.Reach("reject")
		vs.Assert(!valid || e2 != nil, "rejected although R, S are valid and the key is recoverable")
		return
	}
	vs.Reach("accept")
	vs.Assert(valid, "accepted: R, S in range")
	if vs.Symbolic() {
		vs.Assert(calls == 1 && bytes.Equal(ecHash, hash[:]), "one recovery over the given hash")
		vs.Assert(bytes.Equal(ecSig, sig), "recovery over exactly pad32(R) || pad32(S) || recid")
	}
	vs.Assert(e2 == nil && len(pub) == 65, "recovery of the padded signature succeeds")
	vs.Assert(addr == common.BytesToAddress(crypto.Keccak256(pub[1:])[12:]), "sender is the address of the key recovered from the padded signature")
}
