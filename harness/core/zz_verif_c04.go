package core

// C04: the chain database survives a crash at any write boundary.
//
// H1 (VerifC04_CrashPrefix): one import step of a C03 scenario (plain
// extension, side block, reorg to a longer or to a shorter-but-heavier branch)
// is executed with the database recording every durable step (single put /
// delete, or one atomic group per batch.Write()).  A symbolic crash index k
// selects the durable prefix; the store as of k is materialised and reopened
// with the real loadLastState (through c02Open, which mirrors NewBlockChain).
// Asserted: no panic, no error, head = block named by the durable LastBlock
// pointer (pruning configuration: its nearest ancestor whose state root is
// durable), head has header/body/TD/state durable, the number index agrees with
// the head's ancestry down to genesis; then the original blocks are fed again
// through the real insertChain2 (real BlockValidator) and the head must
// converge to the head of the crash-free run.
//
// H3-core (VerifC04_ImportWriteFailure): one batch.Write() of the import
// fails; the error propagates, no chain / trie-database mutex stays held, the
// in-memory head is a block that is on disk and is the one the durable
// LastBlock pointer names, and the store as the failure left it reopens.

import (
	"bytes"

	"gitlab.com/aquachain/aquachain/common"
	"gitlab.com/aquachain/aquachain/core/types"
	vs "gitlab.com/aquachain/aquachain/internal/verifsym"
)

// c04Sig renders the kinds of the recorded writes (validated against the native run).
func c04Sig(log []c02Write) string {
	var sb c04Buf
	for _, w := range log {
		if w.batch {
			sb.WriteByte('[')
			for _, op := range w.ops {
				sb.WriteByte(op.k[0])
			}
			sb.WriteByte(']')
			continue
		}
		op := w.ops[0]
		if op.del {
			sb.WriteByte('-')
		}
		if op.k[0] == 'h' && len(op.k) == 10 {
			sb.WriteByte('n') // number -> hash
		} else if op.k[0] == 'h' && len(op.k) == 42 {
			sb.WriteByte('t') // td
		} else {
			sb.WriteByte(op.k[0])
		}
		sb.WriteByte(' ')
	}
	return sb.String()
}

type c04Buf struct{ b []byte }

func (b *c04Buf) WriteByte(c byte) { b.b = append(b.b, c) }
func (b *c04Buf) String() string   { return string(b.b) }

type c04Run struct {
	s       *c03Scene
	archive bool
	blk     *types.Block // the block whose import is recorded
	seq     []*types.Block // all blocks in original import order
	step    int            // index in seq of the recorded import
	oldHead *types.Block
	pre     *c02DB
	log     []c02Write
	status  WriteStatus
}

// c04Record runs the scenario up to a chosen import and records that import.
func c04Record() *c04Run {
	r := &c04Run{}
	r.archive = vs.Choice("pruning", vs.Param("modes")) == 0
	a, b, heavyAt := c03Shape()
	po, pn := c03Place(vs.Param("TX"), a, b)
	r.s = c03BuildMode(a, b, heavyAt, po, pn, r.archive)
	f := r.s.f
	seq := append(append([]*types.Block{r.s.c}, r.s.old...), r.s.new...)
	step := vs.Choice("step", len(seq))
	for i := 0; i < step; i++ {
		_, err := f.imp(seq[i])
		vs.Assert(err == nil, "import succeeds")
	}
	r.blk, r.seq, r.step = seq[step], seq, step
	r.oldHead = f.bc.CurrentBlock()
	r.pre = f.db.clone()
	return r
}

func (r *c04Run) run() error {
	f := r.s.f
	f.db.log = nil
	f.db.rec = true
	st, err := f.imp(r.blk)
	f.db.rec = false
	r.status, r.log = st, f.db.log
	return err
}

func c04IsCanonKey(k string) bool { return len(k) == 10 && k[0] == 'h' && k[9] == 'n' }

// VerifC04_CrashPrefix: see the file comment.
func VerifC04_CrashPrefix() {
	r := c04Record()
	err := r.run()
	vs.Assert(err == nil, "recorded import succeeds")
	f := r.s.f
	bh := r.blk.Hash()
	vs.Observe("writes", len(r.log))
	vs.Observe("kinds", c04Sig(r.log))

	// positions in the log that delimit the two known windows
	firstRef, flush, firstCanon, firstLB, lbBlk := -1, -1, -1, -1, -1
	hk := string(headerKey(bh, r.blk.NumberU64()))
	for i, w := range r.log {
		if w.batch {
			for _, op := range w.ops {
				if op.k == hk {
					flush = i
				}
			}
			continue
		}
		op := w.ops[0]
		if !op.del && firstRef < 0 && bytes.Equal(op.v, bh[:]) {
			firstRef = i
		}
		if !op.del && firstCanon < 0 && c04IsCanonKey(op.k) {
			firstCanon = i
		}
		if !op.del && firstLB < 0 && op.k == string(headBlockKey) {
			firstLB = i
		}
		if !op.del && lbBlk < 0 && op.k == string(headBlockKey) && bytes.Equal(op.v, bh[:]) {
			lbBlk = i
		}
	}
	vs.Assert(flush >= 0, "fixture: the block's header is flushed by a batch write")
	isReorg := r.status == CanonStatTy && r.blk.ParentHash() != r.oldHead.Hash()
	if isReorg {
		vs.Reach("reorg")
	}
	if r.status == SideStatTy {
		vs.Reach("side")
	}

	// symbolic crash index: the first k recorded writes are durable
	k := vs.Int("k")
	vs.Assume(k >= 0 && k <= len(r.log))
	crashed := r.pre
	for i, w := range r.log {
		if i < k {
			for _, op := range w.ops {
				crashed.apply(op)
			}
		}
	}

	// reopen
	want := GetHeadBlockHash(crashed)
	var bc2 *BlockChain
	var oerr error
	panicked := vs.NoPanic(func() { bc2, _, oerr = c02Open(crashed, f.cfg, r.archive) })
	vs.Assert(!panicked, "reopening the database after a crash does not panic")
	vs.Assert(oerr == nil, "reopening the database after a crash succeeds")
	// expected head: the block named by the durable pointer, or (pruning) its
	// nearest ancestor whose state root is durable
	h := want
	for {
		n := GetBlockNumber(crashed, h)
		blk := GetBlockNoVersion(crashed, h, n)
		vs.Assert(blk != nil, "the durable head pointer (and each ancestor walked) names a durable block")
		vs.Assert(GetTd(crashed, h, n) != nil, "its TD is durable")
		root := blk.Root()
		if ok, _ := crashed.Has(root[:]); ok {
			break
		}
		vs.Assert(!r.archive, "archive configuration: the state of the durable head is durable")
		vs.Assert(n > 0, "genesis state is durable")
		h = blk.ParentHash()
	}
	head2 := bc2.CurrentBlock()
	vs.Assert(head2.Hash() == h, "reopened head = last durable head pointer (pruning: nearest ancestor with flushed state)")

	// number index agrees with the reopened head's ancestry
	vs.Known("C04-reorg-canonical-before-head-pointer", isReorg && k > firstCanon && k <= firstLB)
	cur := head2
	for {
		n := cur.NumberU64()
		vs.Assert(GetCanonicalHash(crashed, n) == cur.Hash(), "number index agrees with the reopened head's ancestry")
		if n == 0 {
			break
		}
		cur = bc2.GetBlock(cur.ParentHash(), n-1)
		vs.Assert(cur != nil, "ancestors of the reopened head are retrievable")
	}
	vs.Known("", true)
	vs.Assert(bc2.CurrentHeader() != nil && bc2.CurrentFastBlock() != nil, "header and fast heads restored")

	// feed the original blocks again (one import each, as originally) through the
	// real insertChain2 + BlockValidator: the head converges to the crash-free head
	final := f.bc.CurrentBlock()
	vs.Known("C04-refeed-known-block-not-above-head",
		r.archive && isReorg && r.blk.NumberU64() <= r.oldHead.NumberU64() && k > flush && k <= lbBlk)
	for i := 0; i <= r.step; i++ {
		_, _, _, ierr := bc2.insertChain(types.Blocks{r.seq[i]})
		vs.Assert(ierr == nil, "re-feeding an original block succeeds")
	}
	vs.Assert(bc2.CurrentBlock().Hash() == final.Hash(), "re-feeding the original blocks converges to the crash-free head")
	vs.Assert(GetHeadBlockHash(crashed) == final.Hash(), "after re-feeding the durable head pointer names the crash-free head")
	vs.Known("", true)
	vs.Assert(firstRef < 0 || firstRef > flush, "write order: no canonical number / head pointer names the block before the batch holding its header is flushed")
}

// VerifC04_ImportWriteFailure: see the file comment.
func VerifC04_ImportWriteFailure() {
	r := c04Record()
	f := r.s.f
	f.db.batchWrites = 0
	f.db.failBatchWrite = 1 + vs.Choice("fail", 3) // which batch.Write() of the import fails (state flush, block batch, ...)
	err := r.run()
	f.db.failBatchWrite = 0
	bc := f.bc
	free := bc.mu.TryLock()
	vs.Assert(free, "BlockChain.mu released after a failed write")
	if free {
		bc.mu.Unlock()
	}
	free = bc.chainmu.TryLock()
	vs.Assert(free, "BlockChain.chainmu released after a failed write")
	if free {
		bc.chainmu.Unlock()
	}
	free = f.sdb.tdb.VerifLockFree()
	vs.Assert(free, "trie.Database lock released after a failed write")
	if err == nil {
		vs.Reach("not-failed") // the chosen write does not occur in this configuration
		return
	}
	vs.Reach("failed")
	// the node keeps running: its head must be a block that is on disk, and the
	// durable pointer must name it
	head := bc.CurrentBlock()
	vs.Assert(GetHeadBlockHash(f.db) == head.Hash(), "after a failed import the durable head pointer names the in-memory head")
	vs.Assert(GetBlockNoVersion(f.db, head.Hash(), head.NumberU64()) != nil, "after a failed import the head block is on disk")
	vs.Assert(GetTd(f.db, head.Hash(), head.NumberU64()) != nil, "after a failed import the head's TD is on disk")
	// and a restart on the store as the failure left it works
	var bc2 *BlockChain
	var oerr error
	panicked := vs.NoPanic(func() { bc2, _, oerr = c02Open(f.db.clone(), f.cfg, r.archive) })
	vs.Assert(!panicked, "reopening the database after a failed write does not panic")
	vs.Assert(oerr == nil && bc2 != nil, "reopening the database after a failed write succeeds")
}

var _ = common.Hash{}
