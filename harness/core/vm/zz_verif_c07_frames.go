package vm

// C07 frame harness: the five call kinds of the EVM (Call, CallCode,
// DelegateCall, StaticCall, Create) around an ARBITRARY callee.  Under the
// engine `run` is redirected to a stub with any outcome; natively the real
// interpreter runs the (tiny, solver-chosen) callee code, and the same
// frame-level assertions must hold.

import (
	"math/big"

	"gitlab.com/aquachain/aquachain/common"
	"gitlab.com/aquachain/aquachain/params"
	vs "gitlab.com/aquachain/aquachain/internal/verifsym"
)

type c07Callee struct {
	entered      bool
	sawReadOnly  bool
	sawDepth     int
	snapsAtEntry int
	mutsAtEntry  int
}

var c07callee *c07Callee

// c07RunStub stands for `run(evm, contract, input)`: any state effects, any gas
// use, any outcome.
func c07RunStub(evm *EVM, contract *Contract, input []byte) ([]byte, error) {
	c := c07callee
	db := evm.StateDB.(*c07DB)
	c.entered = true
	c.sawReadOnly = evm.interpreter.readOnly
	c.sawDepth = evm.depth
	c.snapsAtEntry, c.mutsAtEntry = db.snaps, db.mutations
	db.mutations += vs.Choice("callee.mutations", 3)
	left := vs.U64("callee.left")
	vs.Assume(left <= contract.Gas)
	contract.Gas = left
	ret := vs.Bytes("callee.ret", 2)
	switch vs.Choice("callee.err", 3) {
	case 1:
		return ret, errExecutionReverted
	case 2:
		return nil, ErrOutOfGas
	}
	return ret, nil
}

func c07CreateAddress(b common.Address, nonce uint64) common.Address { return c07Addr("newaddr") }

func VerifC07_Frames() {
	kind := vs.Choice("kind", 5)
	db := &c07DB{}
	evm := &EVM{StateDB: db}
	evm.Context = Context{
		CanTransfer: func(StateDB, common.Address, *big.Int) bool { return vs.Bool("cantransfer") },
		Transfer: func(s StateDB, from, to common.Address, v *big.Int) {
			s.SubBalance(from, v)
			s.AddBalance(to, v)
		},
		GetHash:     func(uint64) common.Hash { return common.Hash{} },
		BlockNumber: big.NewInt(100), Time: big.NewInt(1), Difficulty: big.NewInt(1), GasPrice: big.NewInt(1),
	}
	evm.chainConfig = params.TestChainConfig
	evm.chainRules = evm.chainConfig.Rules(evm.BlockNumber)
	depth0 := int(vs.U16("depth"))
	vs.Assume(depth0 <= 1100)
	evm.depth = depth0
	ro := vs.Bool("readonly")
	in := &Interpreter{evm: evm, gasTable: params.GasTableHF1, intPool: newIntPool(), readOnly: ro}
	in.cfg.JumpTable = springInstructionSet
	evm.interpreter = in
	gas := vs.U64("gas")
	vs.Assume(gas < 1<<63)
	caller := AccountRef(c07Addr("caller"))
	addr := c07Addr("addr")
	value := vs.BigU("value", 256)
	input := vs.Bytes("input", 2)
	c07callee = &c07Callee{}

	var left uint64
	var err error
	panicked := vs.NoPanic(func() {
		switch kind {
		case 0:
			_, left, err = evm.Call(caller, addr, input, gas, value)
		case 1:
			_, left, err = evm.CallCode(caller, addr, input, gas, value)
		case 2:
			parent := NewContract(AccountRef(c07Addr("grandcaller")), caller, value, gas)
			_, left, err = evm.DelegateCall(parent, addr, input, gas)
		case 3:
			_, left, err = evm.StaticCall(caller, addr, input, gas)
		case 4:
			_, _, left, err = evm.Create(caller, input, gas, value)
		}
	})
	vs.Assert(!panicked, "frame entry must not panic")

	vs.Assert(left <= gas, "gas left never exceeds gas given")
	vs.Assert(evm.depth == depth0, "call depth restored on return")
	vs.Assert(in.readOnly == ro, "read-only flag is the same after the frame as before it")
	if depth0 > 1024 {
		vs.Assert(err == ErrDepth && left == gas && db.mutations == 0 && db.snaps == 0, "beyond depth 1024 the frame is refused without effect")
		vs.Reach("depth-refused")
		return
	}
	if vs.Symbolic() {
		c := c07callee
		if c.entered {
			vs.Reach("entered")
			vs.Assert(c.sawDepth == depth0 && depth0 <= 1024, "callee entered only within the depth limit")
			vs.Assert(c.snapsAtEntry == 1, "exactly one snapshot is taken before the callee runs")
			if kind == 3 {
				vs.Assert(c.sawReadOnly, "callee of a static call runs read-only")
			} else {
				vs.Assert(c.sawReadOnly == ro, "other call kinds inherit the read-only flag")
			}
			if err != nil {
				vs.Assert(db.reverts == 1 && db.lastRevert == 1, "a failed frame reverts to the snapshot taken at its entry")
				if err != errExecutionReverted {
					vs.Assert(left == 0, "a failed frame consumes all gas unless it reverted")
				}
			} else {
				vs.Assert(db.reverts == 0, "a successful frame does not revert")
			}
		} else if err != nil && db.snaps == 0 {
			// refused before the snapshot (insufficient balance): nothing may have been touched,
			// except the creator's nonce bump of Create which precedes its collision check
			if kind != 4 {
				vs.Assert(db.mutations == 0 && left == gas, "a frame refused before its snapshot has no effect")
			}
		}
	}
}
