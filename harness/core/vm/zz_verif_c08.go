package vm

// C08 harnesses: EVM instructions compute what the specification defines.

import (
	"math/big"

	vs "gitlab.com/aquachain/aquachain/internal/verifsym"
)

func c08EVM() *EVM {
	evm := &EVM{}
	evm.interpreter = &Interpreter{evm: evm, intPool: newIntPool()}
	return evm
}

type c08op struct {
	name  string
	fn    executionFunc
	arity int
}

// word operations decided in BV mode against SMT bit-vector operators
var c08bvOps = []c08op{
	{"add", opAdd, 2}, {"sub", opSub, 2}, {"not", opNot, 1},
	{"lt", opLt, 2}, {"gt", opGt, 2}, {"slt", opSlt, 2}, {"sgt", opSgt, 2}, {"eq", opEq, 2}, {"iszero", opIszero, 1},
	{"and", opAnd, 2}, {"or", opOr, 2}, {"xor", opXor, 2}, {"byte", opByte, 2},
	{"shl", opSHL, 2}, {"shr", opSHR, 2}, {"sar", opSAR, 2}, {"signextend", opSignExtend, 2},
}

// multiplicative operations decided in Int mode against the mathematical definitions
var c08intOps = []c08op{
	{"mul", opMul, 2}, {"div", opDiv, 2}, {"sdiv", opSdiv, 2}, {"mod", opMod, 2}, {"smod", opSmod, 2},
	{"addmod", opAddmod, 3}, {"mulmod", opMulmod, 3},
}

// c08Run pushes the operands (args[0] ends on top of the stack), runs the
// instruction and returns the single result.
func c08Run(op c08op, args []*big.Int) *big.Int {
	evm := c08EVM()
	st := newstack()
	// some unrelated entries below, to catch instructions touching too much of the stack
	below := vs.BigU("below", 256)
	st.push(new(big.Int).Set(below))
	for i := len(args) - 1; i >= 0; i-- {
		st.push(new(big.Int).Set(args[i]))
	}
	pc := uint64(0)
	ret, err := op.fn(&pc, evm, nil, nil, st)
	vs.Assert(err == nil && ret == nil, "no error, no return data")
	vs.Assert(st.len() == 2, "pops its operands and pushes one result")
	vs.Assert(st.data[0].Cmp(below) == 0, "entries below the operands untouched")
	res := st.peek()
	vs.Assert(res.Sign() >= 0 && res.Cmp(c08two256) < 0, "result is a 256-bit word")
	// intPool aliasing: nothing left in the pool may alias what is on the stack
	for _, pi := range evm.interpreter.intPool.pool.data {
		vs.Assert(pi != st.data[0] && pi != st.data[1], "pooled integer aliases a live stack entry")
	}
	return res
}

func VerifC08_WordOpsBV() {
	op := c08bvOps[vs.Choice("op", len(c08bvOps))]
	args := make([]*big.Int, op.arity)
	for i := range args {
		args[i] = vs.BigU("x", 256)
	}
	if op.name == "sar" {
		vs.Known("C08-SAR-zero-shift-ge-256", args[1].Sign() == 0 && args[0].Cmp(big.NewInt(256)) >= 0)
	}
	res := c08Run(op, args)
	want := vs.Spec256(op.name, args...)
	vs.Observe("res", res)
	vs.Assert(res.Cmp(want) == 0, "result equals specification: "+op.name)
}

var c08two256 = new(big.Int).Lsh(big.NewInt(1), 256)
var c08two255 = new(big.Int).Lsh(big.NewInt(1), 255)

func c08signed(x *big.Int) *big.Int {
	if x.Cmp(c08two255) >= 0 {
		return new(big.Int).Sub(x, c08two256)
	}
	return new(big.Int).Set(x)
}

func c08wrap(x *big.Int) *big.Int { return new(big.Int).Mod(x, c08two256) }

// c08intSpec: Yellow-Paper definitions over the integers.
func c08intSpec(name string, a []*big.Int) *big.Int {
	switch name {
	case "mul":
		return c08wrap(new(big.Int).Mul(a[0], a[1]))
	case "div":
		if a[1].Sign() == 0 {
			return new(big.Int)
		}
		return new(big.Int).Quo(a[0], a[1])
	case "mod":
		if a[1].Sign() == 0 {
			return new(big.Int)
		}
		return new(big.Int).Rem(a[0], a[1])
	case "sdiv":
		if a[1].Sign() == 0 {
			return new(big.Int)
		}
		// YP: sgn(x/y) * floor(|x| / |y|), wrapped (covers -2^255 / -1 = -2^255)
		x, y := c08signed(a[0]), c08signed(a[1])
		q := new(big.Int).Div(new(big.Int).Abs(x), new(big.Int).Abs(y))
		if (x.Sign() < 0) != (y.Sign() < 0) {
			q.Neg(q)
		}
		return c08wrap(q)
	case "smod":
		if a[1].Sign() == 0 {
			return new(big.Int)
		}
		// YP: sgn(x) * (|x| mod |y|)
		x, y := c08signed(a[0]), c08signed(a[1])
		m := new(big.Int).Mod(new(big.Int).Abs(x), new(big.Int).Abs(y))
		if x.Sign() < 0 {
			m.Neg(m)
		}
		return c08wrap(m)
	case "addmod":
		if a[2].Sign() == 0 {
			return new(big.Int)
		}
		return new(big.Int).Rem(new(big.Int).Add(a[0], a[1]), a[2])
	case "mulmod":
		if a[2].Sign() == 0 {
			return new(big.Int)
		}
		return new(big.Int).Rem(new(big.Int).Mul(a[0], a[1]), a[2])
	}
	panic("unknown")
}

func VerifC08_WordOpsInt() {
	op := c08intOps[vs.Choice("op", len(c08intOps))]
	args := make([]*big.Int, op.arity)
	for i := range args {
		args[i] = vs.BigU("x", 256)
	}
	res := c08Run(op, args)
	want := c08intSpec(op.name, args)
	vs.Observe("res", res)
	vs.Assert(res.Cmp(want) == 0, "result equals specification: "+op.name)
}
