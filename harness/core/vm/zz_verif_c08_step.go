package vm

// C08 step-differential harness: one iteration of the real Interpreter.Run loop
// (state injected through the tracer hook, see zz_verif_c07_step.go) compared
// with a reference EVM step written from the Yellow Paper: result, gas charge
// (constant tier + memory expansion), memory image, stack discipline,
// exceptional halts, jump targets.

import (
	"math/big"

	"gitlab.com/aquachain/aquachain/common"
	"gitlab.com/aquachain/aquachain/params"
	vs "gitlab.com/aquachain/aquachain/internal/verifsym"
)

// gas tiers of the Yellow Paper (appendix G)
const (
	c08Gzero    = 0
	c08Gbase    = 2
	c08Gverylow = 3
	c08Glow     = 5
	c08Gmid     = 8
	c08Ghigh    = 10
)

type c08Ctx struct {
	args   []*big.Int // popped operands, args[0] = top of stack
	mem0   []byte     // memory image before the step
	code   []byte
	input  []byte
	evm    *EVM
	self   common.Address
	caller common.Address
	value  *big.Int
	gas    uint64 // gas before the step
	db       *c07DB
	gasTable params.GasTable
}

type c08X struct {
	push    []*big.Int         // replaces the popped operands (bottom ... top)
	gas     uint64             // gas excluding memory expansion
	memOff  *big.Int           // memory region touched: [memOff, memOff+memLen), memLen == 0: none
	memLen  uint64
	write   func(m []byte)     // applied to the expanded image
	fail    bool               // exceptional halt after the charge (e.g. bad jump destination)
	pcNext  uint64             // expected pc of the following instruction
	checkPC bool
	halt    bool               // the instruction halts the frame normally (STOP, RETURN)
	revert  bool               // ... or with the revert sentinel (REVERT)
	retOff  *big.Int           // returned data window (halt/revert)
	retLen  uint64
	post    func(db *c07DB, img []byte) bool // state effects recorded by the StateDB stub
	postLbl string
	pushFromImg func(img []byte) []*big.Int // pushed values that depend on the (expanded) memory image
	anyPush     int                         // additional pushed words whose value this harness does not decide
}

type c08Ref struct {
	op   OpCode
	name string
	pops int
	f    func(c *c08Ctx) c08X
	// pre may constrain or replace the operands before the step runs (bounds of the harness)
	pre func(args []*big.Int)
	// jump: the code is the concrete jump layout and one more instruction is fetched
	jump bool
}

func c08Word(b []byte) *big.Int { return new(big.Int).SetBytes(b) }

func c08Pad32(b []byte) []byte {
	out := make([]byte, 32)
	copy(out, b)
	return out
}

func c08spec(name string, tier uint64, pops int) func(c *c08Ctx) c08X {
	return func(c *c08Ctx) c08X {
		return c08X{push: []*big.Int{vs.Spec256(name, c.args[:pops]...)}, gas: tier}
	}
}

func c08env(f func(c *c08Ctx) *big.Int) func(c *c08Ctx) c08X {
	return func(c *c08Ctx) c08X { return c08X{push: []*big.Int{f(c)}, gas: c08Gbase} }
}

func c08AddrWord(a common.Address) *big.Int { return new(big.Int).SetBytes(a[:]) }

// word at image[off:off+32] (image already expanded)
func c08MemWord(img []byte, off uint64) *big.Int { return c08Word(img[off : off+32]) }

// bitwise / comparison group: decided in BV mode against SMT bit-vector operators
func c08RefsBV() []c08Ref {
	r := []c08Ref{
		{op: ADD, name: "add", pops: 2, f: c08spec("add", c08Gverylow, 2)}, {op: SUB, name: "sub", pops: 2, f: c08spec("sub", c08Gverylow, 2)},
		{op: NOT, name: "not", pops: 1, f: c08spec("not", c08Gverylow, 1)}, {op: LT, name: "lt", pops: 2, f: c08spec("lt", c08Gverylow, 2)},
		{op: GT, name: "gt", pops: 2, f: c08spec("gt", c08Gverylow, 2)}, {op: SLT, name: "slt", pops: 2, f: c08spec("slt", c08Gverylow, 2)},
		{op: SGT, name: "sgt", pops: 2, f: c08spec("sgt", c08Gverylow, 2)}, {op: EQ, name: "eq", pops: 2, f: c08spec("eq", c08Gverylow, 2)},
		{op: ISZERO, name: "iszero", pops: 1, f: c08spec("iszero", c08Gverylow, 1)}, {op: AND, name: "and", pops: 2, f: c08spec("and", c08Gverylow, 2)},
		{op: OR, name: "or", pops: 2, f: c08spec("or", c08Gverylow, 2)}, {op: XOR, name: "xor", pops: 2, f: c08spec("xor", c08Gverylow, 2)},
		{op: BYTE, name: "byte", pops: 2, f: c08spec("byte", c08Gverylow, 2)}, {op: SIGNEXTEND, name: "signextend", pops: 2, f: c08spec("signextend", c08Glow, 2)},
		{op: SHL, name: "shl", pops: 2, f: c08spec("shl", c08Gverylow, 2)}, {op: SHR, name: "shr", pops: 2, f: c08spec("shr", c08Gverylow, 2)},
		{op: SAR, name: "sar", pops: 2, f: c08spec("sar", c08Gverylow, 2)},
		// environment
		{op: ADDRESS, name: "address", pops: 0, f: c08env(func(c *c08Ctx) *big.Int { return c08AddrWord(c.self) })},
		{op: ORIGIN, name: "origin", pops: 0, f: c08env(func(c *c08Ctx) *big.Int { return c08AddrWord(c.evm.Origin) })},
		{op: CALLER, name: "caller", pops: 0, f: c08env(func(c *c08Ctx) *big.Int { return c08AddrWord(c.caller) })},
		{op: CALLVALUE, name: "callvalue", pops: 0, f: c08env(func(c *c08Ctx) *big.Int { return c.value })},
		{op: CALLDATASIZE, name: "calldatasize", pops: 0, f: c08env(func(c *c08Ctx) *big.Int { return big.NewInt(int64(len(c.input))) })},
		{op: CODESIZE, name: "codesize", pops: 0, f: c08env(func(c *c08Ctx) *big.Int { return big.NewInt(int64(len(c.code))) })},
		{op: GASPRICE, name: "gasprice", pops: 0, f: c08env(func(c *c08Ctx) *big.Int { return c.evm.GasPrice })},
		{op: COINBASE, name: "coinbase", pops: 0, f: c08env(func(c *c08Ctx) *big.Int { return c08AddrWord(c.evm.Coinbase) })},
		{op: TIMESTAMP, name: "timestamp", pops: 0, f: c08env(func(c *c08Ctx) *big.Int { return c.evm.Time })},
		{op: NUMBER, name: "number", pops: 0, f: c08env(func(c *c08Ctx) *big.Int { return c.evm.BlockNumber })},
		{op: DIFFICULTY, name: "difficulty", pops: 0, f: c08env(func(c *c08Ctx) *big.Int { return c.evm.Difficulty })},
		{op: GASLIMIT, name: "gaslimit", pops: 0, f: c08env(func(c *c08Ctx) *big.Int { return new(big.Int).SetUint64(c.evm.GasLimit) })},
		{op: PC, name: "pc", pops: 0, f: c08env(func(c *c08Ctx) *big.Int { return big.NewInt(1) })},
		{op: MSIZE, name: "msize", pops: 0, f: c08env(func(c *c08Ctx) *big.Int { return big.NewInt(int64(len(c.mem0))) })},
		{op: GAS, name: "gas", pops: 0, f: c08env(func(c *c08Ctx) *big.Int { return new(big.Int).SetUint64(c.gas - c08Gbase) })},
		{op: POP, name: "pop", pops: 1, f: func(c *c08Ctx) c08X { return c08X{gas: c08Gbase} }},
		{op: JUMPDEST, name: "jumpdest", pops: 0, f: func(c *c08Ctx) c08X { return c08X{gas: 1} }},
		// memory
		{op: MLOAD, name: "mload", pops: 1, pre: func(a []*big.Int) { c08OffsetOnly(a, 0) }, f: func(c *c08Ctx) c08X {
			x := c08X{gas: c08Gverylow, memOff: c.args[0], memLen: 32}
			return x
		}},
		{op: MSTORE, name: "mstore", pops: 2, pre: func(a []*big.Int) { c08OffsetOnly(a, 0) }, f: func(c *c08Ctx) c08X {
			v := c.args[1]
			return c08X{gas: c08Gverylow, memOff: c.args[0], memLen: 32, write: func(m []byte) {
				off := c.args[0].Uint64()
				copy(m[off:off+32], c08Pad32Left(v))
			}}
		}},
		{op: MSTORE8, name: "mstore8", pops: 2, pre: func(a []*big.Int) { c08OffsetOnly(a, 0) }, f: func(c *c08Ctx) c08X {
			v := c.args[1]
			return c08X{gas: c08Gverylow, memOff: c.args[0], memLen: 1, write: func(m []byte) {
				m[c.args[0].Uint64()] = byte(new(big.Int).And(v, big.NewInt(0xff)).Uint64())
			}}
		}},
		{op: CALLDATALOAD, name: "calldataload", pops: 1, pre: func(a []*big.Int) { c08OffsetOnly(a, 0) }, f: func(c *c08Ctx) c08X {
			// 32 bytes of call data from the offset, zero padded on the right
			buf := make([]byte, 32)
			off := c.args[0]
			if off.Cmp(big.NewInt(int64(len(c.input)))) < 0 {
				copy(buf, c.input[off.Uint64():])
			}
			return c08X{push: []*big.Int{c08Word(buf)}, gas: c08Gverylow}
		}},
	}
	for n := 1; n <= 32; n++ {
		n := n
		r = append(r, c08Ref{op: OpCode(int(PUSH1) + n - 1), name: "push", pops: 0, f: func(c *c08Ctx) c08X {
			buf := make([]byte, n) // bytes following the opcode at pc = 1, zero beyond the code end
			if len(c.code) > 2 {
				copy(buf, c.code[2:])
			}
			return c08X{push: []*big.Int{c08Word(buf)}, gas: c08Gverylow, checkPC: true, pcNext: uint64(2 + n)}
		}})
	}
	for n := 1; n <= 16; n++ {
		n := n
		r = append(r, c08Ref{op: OpCode(int(DUP1) + n - 1), name: "dup", pops: n, f: func(c *c08Ctx) c08X {
			out := make([]*big.Int, 0, n+1)
			for i := n - 1; i >= 0; i-- {
				out = append(out, c.args[i])
			}
			out = append(out, c.args[n-1])
			return c08X{push: out, gas: c08Gverylow}
		}})
		r = append(r, c08Ref{op: OpCode(int(SWAP1) + n - 1), name: "swap", pops: n + 1, f: func(c *c08Ctx) c08X {
			out := make([]*big.Int, n+1)
			for i := 0; i <= n; i++ {
				out[n-i] = c.args[i]
			}
			out[0], out[n] = out[n], out[0]
			return c08X{push: out, gas: c08Gverylow}
		}})
	}
	return r
}

func c08Pad32Left(v *big.Int) []byte {
	out := make([]byte, 32)
	b := v.Bytes()
	copy(out[32-len(b):], b)
	return out
}

// arithmetic group: decided in Int mode against the integer definitions
func c08RefsInt() []c08Ref {
	mk := func(op OpCode, name string, tier uint64, pops int) c08Ref {
		return c08Ref{op: op, name: name, pops: pops, f: func(c *c08Ctx) c08X {
			return c08X{push: []*big.Int{c08intSpecAll(name, c.args)}, gas: tier}
		}}
	}
	return []c08Ref{
		mk(ADD, "add", c08Gverylow, 2), mk(SUB, "sub", c08Gverylow, 2), mk(MUL, "mul", c08Glow, 2),
		mk(DIV, "div", c08Glow, 2), mk(SDIV, "sdiv", c08Glow, 2), mk(MOD, "mod", c08Glow, 2), mk(SMOD, "smod", c08Glow, 2),
		mk(ADDMOD, "addmod", c08Gmid, 3), mk(MULMOD, "mulmod", c08Gmid, 3),
		mk(LT, "lt", c08Gverylow, 2), mk(GT, "gt", c08Gverylow, 2), mk(SLT, "slt", c08Gverylow, 2), mk(SGT, "sgt", c08Gverylow, 2),
		mk(EQ, "eq", c08Gverylow, 2), mk(ISZERO, "iszero", c08Gverylow, 1),
	}
}

func c08b2i(b bool) *big.Int {
	if b {
		return big.NewInt(1)
	}
	return new(big.Int)
}

func c08intSpecAll(name string, a []*big.Int) *big.Int {
	switch name {
	case "add":
		return c08wrap(new(big.Int).Add(a[0], a[1]))
	case "sub":
		return c08wrap(new(big.Int).Sub(a[0], a[1]))
	case "lt":
		return c08b2i(a[0].Cmp(a[1]) < 0)
	case "gt":
		return c08b2i(a[0].Cmp(a[1]) > 0)
	case "slt":
		return c08b2i(c08signed(a[0]).Cmp(c08signed(a[1])) < 0)
	case "sgt":
		return c08b2i(c08signed(a[0]).Cmp(c08signed(a[1])) > 0)
	case "eq":
		return c08b2i(a[0].Cmp(a[1]) == 0)
	case "iszero":
		return c08b2i(a[0].Sign() == 0)
	}
	return c08intSpec(name, a)
}

// opcodes each instruction set must accept, beyond the frontier set
func c08ValidIn(set string, op OpCode) bool {
	switch op {
	case DELEGATECALL:
		return set != "frontier"
	case STATICCALL, RETURNDATASIZE, RETURNDATACOPY, REVERT:
		return set == "byzantium" || set == "constantinople" || set == "spring"
	case SHL, SHR, SAR:
		return set == "constantinople" || set == "spring"
	}
	return true
}

func c08Step(refs []c08Ref) {
	sets := c07Sets()
	set := sets[vs.Choice("set", vs.Param("sets"))]
	ref := refs[vs.Choice("ref", len(refs))]
	opc := ref.op
	// the 17 bit-vector word operations are decided functionally by VerifC08_WordOpsBV; their
	// (expensive) step instance runs in the thorough tier only
	if vs.Param("wordops") == 0 && c08IsWordOp(ref.op) {
		return
	}
	// SHL needs a 512-bit intermediate: it runs in the "wide" instance (big width 520) only
	if (opc == SHL) != (vs.Param("wide") != 0) {
		return
	}
	operation := &set.table[opc]

	isPush := opc >= PUSH1 && opc <= PUSH32
	follow := isPush || ref.jump
	codeLen := 40
	if isPush {
		codeLen = []int{40, 2, 10}[vs.Choice("codelen", 3)]
	}
	code := make([]byte, codeLen)
	code[0], code[1] = byte(JUMPDEST), byte(opc)
	if codeLen > 2 {
		copy(code[2:], vs.BytesN("pushdata", codeLen-2))
	}
	// for PUSHn one more instruction is fetched so that the new pc is observable:
	// a JUMPDEST right after the push data (1 gas), or the implicit STOP beyond the code end (0 gas)
	var followGas uint64
	if isPush {
		if next := 2 + int(opc-PUSH1) + 1; next < codeLen {
			code[next] = byte(JUMPDEST)
			followGas = 1
		}
	}
	if ref.jump {
		code = c08JumpCode(opc)
		followGas = 1
	}

	db := &c07DB{det: true}
	evm := &EVM{StateDB: db}
	evm.Context = Context{
		CanTransfer: func(StateDB, common.Address, *big.Int) bool { return false },
		Transfer:    func(StateDB, common.Address, common.Address, *big.Int) {},
		GetHash:     func(uint64) common.Hash { return common.Hash{} },
		Origin:      c07Addr("origin"), GasPrice: vs.BigU("gasprice", 256),
		Coinbase: c07Addr("coinbase"), GasLimit: vs.U64("gaslimit"),
		BlockNumber: vs.BigU("number", 256), Time: vs.BigU("time", 256), Difficulty: vs.BigU("difficulty", 256),
	}
	evm.chainRules = params.Rules{IsHomestead: true, IsEIP150: true, IsEIP158: set.byz, IsByzantium: set.byz}
	evm.chainConfig = params.TestChainConfig

	g := vs.U64("gas")
	vs.Assume(g < 1<<40) // far above any block gas limit; keeps every affordable memory size below 2^31 bytes
	if follow {
		vs.Assume(g >= c08Ghigh+followGas) // enough for the instruction and the one fetched after it
	}
	memL := uint64(32 * vs.Choice("memwords", 2) * 2) // 0 or 64 bytes
	mem0 := vs.BytesN("mem", int(memL))
	below := vs.BigU("below", 256)
	args := make([]*big.Int, ref.pops)
	for i := range args {
		args[i] = vs.BigU("arg", 256)
	}
	if ref.pre != nil {
		ref.pre(args)
	}
	if ref.name == "sar" {
		vs.Known("C08-SAR-zero-shift-ge-256", args[1].Sign() == 0 && args[0].Cmp(big.NewInt(256)) >= 0)
	}
	tr := &c07Tracer{}
	if follow {
		tr.cancelAt = 3
	}
	tr.inject = func(mem *Memory, stack *Stack, contract *Contract) {
		stack.push(new(big.Int).Set(below))
		for i := len(args) - 1; i >= 0; i-- {
			stack.push(new(big.Int).Set(args[i]))
		}
		if memL > 0 {
			mem.Resize(memL)
			copy(mem.store, mem0)
		}
		mem.lastGasCost = c07memCost(memL)
		contract.Gas = g
	}
	cfg := Config{Debug: true, Tracer: tr, JumpTable: *set.table}
	in := &Interpreter{evm: evm, cfg: cfg, gasTable: set.gas, intPool: newIntPool()}
	evm.interpreter = in
	evm.vmConfig = cfg
	selfA, callerA := c07Addr("self"), c07Addr("caller")
	value := vs.BigU("callvalue", 256)
	contract := NewContract(AccountRef(callerA), AccountRef(selfA), value, 1)
	contract.Code = code
	input := vs.Bytes("calldata", 3)

	var err error
	var ret []byte
	panicked := vs.NoPanic(func() { ret, err = in.Run(contract, input) })
	vs.Assert(!panicked, "step must not panic")
	st, mem := tr.stack, tr.mem

	// valid opcode set per epoch
	vs.Assert(operation.valid == c08ValidIn(set.name, opc), "opcode validity matches the fork schedule")
	if !operation.valid {
		vs.Assert(err != nil && tr.n == 1, "invalid opcode is refused")
		return
	}

	c := &c08Ctx{args: args, mem0: mem0, code: code, input: input, evm: evm, self: selfA, caller: callerA, value: value, gas: g, db: db, gasTable: set.gas}
	x := ref.f(c)

	// memory expansion demanded by the specification
	newLen := memL
	var memFee uint64
	feeKnown := true
	if x.memLen > 0 {
		end := new(big.Int).Add(x.memOff, new(big.Int).SetUint64(x.memLen))
		if end.Cmp(big.NewInt(1<<31)) >= 0 {
			// beyond anything a gas budget below 2^40 can pay for (2^26 words cost 2^43): the step must be refused
			feeKnown = false
		} else {
			w := (end.Uint64() + 31) / 32
			if w*32 > memL {
				newLen = w * 32
				memFee = c07memCost(newLen) - c07memCost(memL)
			}
		}
	}
	if !feeKnown || g < x.gas+memFee {
		vs.Reach("refused")
		vs.Assert(err != nil, "unaffordable step is refused")
		vs.Assert(st.len() == 1+len(args) && uint64(mem.Len()) == memL && db.mutations == 0, "refused step has no effect")
		return
	}
	vs.Reach("executed")
	if x.fail {
		vs.Assert(err != nil && err != errExecutionReverted, "exceptional halt")
		return
	}
	if x.revert {
		vs.Assert(err == errExecutionReverted, "REVERT reports the revert sentinel")
	} else {
		vs.Assert(err == nil, "affordable valid step succeeds")
	}
	vs.Assert(contract.Gas == g-x.gas-memFee-followGas, "gas charge equals tier + memory expansion")
	vs.Assert(uint64(mem.Len()) == newLen, "memory grows to the touched word boundary only")

	// memory image
	newLen = vs.Concretize(newLen)
	img := make([]byte, newLen)
	copy(img, mem0)
	if x.write != nil {
		x.write(img)
	}
	same := true
	for i := uint64(0); i < newLen; i++ {
		if mem.store[i] != img[i] {
			same = false
		}
	}
	vs.Assert(same, "memory contents equal the specification")
	if opc == MLOAD {
		x.push = []*big.Int{c08MemWord(img, x.memOff.Uint64())}
	}
	if x.pushFromImg != nil {
		x.push = x.pushFromImg(img)
	}

	if x.post != nil {
		vs.Assert(x.post(db, img), x.postLbl)
	}
	if x.halt || x.revert {
		vs.Assert(uint64(len(ret)) == x.retLen, "returned data length")
		okRet := true
		for i := uint64(0); i < x.retLen; i++ {
			if ret[i] != img[x.retOff.Uint64()+i] {
				okRet = false
			}
		}
		vs.Assert(okRet, "returned data is the memory window")
	}
	// stack
	vs.Assert(st.len() == 1+len(x.push)+x.anyPush, "stack height")
	vs.Assert(st.data[0].Cmp(below) == 0, "entries below the operands untouched")
	for i, want := range x.push {
		vs.Assert(st.data[1+i].Cmp(want) == 0, "result equals specification: "+ref.name)
	}
	if x.checkPC {
		vs.Assert(tr.n == 3 && tr.pc3 == x.pcNext, "program counter after the step")
	}
}

// the suite parameter refs (> 0) takes the first refs references: the eight without a
// memory window come first (JUMP JUMPI SLOAD SSTORE BALANCE EXTCODESIZE EXP STOP), then
// SHA3 CALLDATACOPY CODECOPY RETURN REVERT LOG0-4
func VerifC08_StepMem() {
	r := c08RefsMem()
	if n := vs.Param("refs"); n > 0 && n < len(r) {
		r = r[:n]
	}
	c08Step(r)
}

func c08IsWordOp(op OpCode) bool {
	switch op {
	case ADD, SUB, NOT, LT, GT, SLT, SGT, EQ, ISZERO, AND, OR, XOR, BYTE, SIGNEXTEND, SHL, SHR, SAR:
		return true
	}
	return false
}

// offset operand: small (<= 3, or 31..33 to cross a word boundary) or enormous (refused)
func c08OffsetOnly(args []*big.Int, idx int) {
	switch vs.Choice("offwin", 3) {
	case 0:
		vs.Assume(args[idx].Cmp(big.NewInt(3)) <= 0)
	case 1:
		args[idx] = big.NewInt(31 + int64(vs.Choice("offhi", 3)))
	default:
		vs.Assume(args[idx].Cmp(big.NewInt(1<<32)) >= 0)
	}
}

func VerifC08_StepBV()  { c08Step(c08RefsBV()) }
func VerifC08_StepInt() { c08Step(c08RefsInt()) }
