package vm

// C07 kernel harnesses (natively replayable): memory gas arithmetic, getData,
// precompile wrappers.

import (
	"math/big"
	"math/bits"

	"gitlab.com/aquachain/aquachain/common/math"
	vs "gitlab.com/aquachain/aquachain/internal/verifsym"
)

var c07membuf [1024]byte

// VerifC07_MemoryGasCost: for every requested size the fee charged is the
// Yellow-Paper quadratic cost evaluated without wrap-around, or an error.
func VerifC07_MemoryGasCost() {
	newSize := vs.U64("newMemSize")
	curWords := vs.U64("curWords")
	vs.Assume(curWords <= 32)
	mem := &Memory{store: c07membuf[:curWords*32]}
	// representation invariant of Memory: lastGasCost is the total fee of the current size
	mem.lastGasCost = curWords*3 + curWords*curWords/512
	fee, err := memoryGasCost(mem, newSize)
	if err != nil {
		vs.Reach("reject")
		return
	}
	vs.Reach("accept")
	wc := newSize / 32
	if newSize%32 != 0 {
		wc++
	}
	w := toWordSize(newSize)
	vs.Assert(w == wc, "toWordSize is the ceiling of size/32")
	if w <= curWords {
		vs.Assert(fee == 0, "no expansion, no fee")
		return
	}
	// recorded genuine defect: the guard admits sizes up to 0xffffffffe0 although words*words wraps
	// beyond 0x1FFFFFFFE0 (the pinned unit test TestMemoryGasCost expects the wrapped value)
	vs.Known("C07-memgas-overflow-window", newSize > 0x1FFFFFFFE0)
	hi, sq := vs.Mul64(w, w)
	vs.Assert(hi == 0, "words*words must not wrap around 64 bits when the fee is accepted")
	lin := w * 3
	total, carry := bits.Add64(lin, sq/512, 0)
	vs.Assert(carry == 0, "total fee must not wrap")
	vs.Assert(fee == total-(curWords*3+curWords*curWords/512), "fee equals quadratic formula")
	vs.Assert(mem.lastGasCost == total, "lastGasCost updated to the new total")
	vs.Observe("fee", fee)
}

// VerifC07_MemSizeRound: the rounding Interpreter.Run applies to the window an
// instruction declares (interpreter.go: SafeMul(toWordSize(memSize), 32)) either
// refuses the instruction or yields a memory size that covers the whole window -
// for every 64-bit window end, in particular the last 31 values below 2^64 where
// size+31 wraps.  An instruction that runs on memory smaller than its window
// indexes out of range (Memory.Set / GetPtr panic).
func VerifC07_MemSizeRound() {
	memSize := vs.U64("memSize")
	words := toWordSize(memSize)
	memorySize, overflow := math.SafeMul(words, 32)
	if overflow {
		vs.Reach("refused")
		return
	}
	vs.Reach("sized")
	vs.Assert(memorySize >= memSize, "memory sized for an instruction covers the window the instruction declares")
	vs.Assert(memorySize%32 == 0 && memorySize-memSize < 32, "memory size is the window end rounded up to the next multiple of 32")
	vs.Observe("memorySize", memorySize)
}

// VerifC07_GetData: getData never panics and returns exactly `size` bytes:
// data[start:start+size] right-padded with zeros.  size ranges over [0,12] and
// [2^63, 2^64) (sizes in between only differ by the amount allocated, which is
// bounded by gas at every call site and cut by the engine's allocation limit).
func VerifC07_GetData() {
	data := vs.Bytes("data", vs.Param("N"))
	start, size := vs.U64("start"), vs.U64("size")
	vs.Assume(size <= 12 || size >= 1<<63)
	var out []byte
	panicked := vs.NoPanic(func() { out = getData(data, start, size) })
	vs.Assert(!panicked, "getData must not panic")
	if size > 12 {
		return
	}
	vs.Assert(uint64(len(out)) == size, "result has the requested size")
	for i := uint64(0); i < size; i++ {
		var want byte
		if start < uint64(len(data)) && i < uint64(len(data))-start {
			want = data[start+i]
		}
		vs.Assert(out[i] == want, "content is the window of data, zero padded")
	}
}

// c07Exp replaces big.Int.Exp in the modexp wrapper harness: the value of the
// exponentiation is irrelevant to safety; any non-negative result below mod.
func c07Exp(z, x, y, m *big.Int) *big.Int {
	r := vs.BigU("expres", 64)
	return z.Set(r)
}

// VerifC07_ModExpWrapper: RunPrecompiledContract(bigModExp) with arbitrary
// input and gas (below 2^63, the maximum any block or call can carry) never panics.
func VerifC07_ModExpWrapper() {
	head := vs.BytesN("head", 96)
	tail := vs.Bytes("tail", vs.Param("T"))
	input := append(append([]byte{}, head...), tail...)
	gas := vs.U64("gas")
	vs.Assume(gas < 1<<63)
	c := &Contract{Gas: gas}
	panicked := vs.NoPanic(func() {
		RunPrecompiledContract(&bigModExp{}, input, c)
	})
	vs.Assert(!panicked, "modexp precompile must not panic")
	vs.Assert(c.Gas <= gas, "gas never increases")
}
