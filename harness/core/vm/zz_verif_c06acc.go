package vm

import "gitlab.com/aquachain/aquachain/common"

// VerifC06EmptyCodeHash exposes emptyCodeHash to the C05/C06 harnesses in package
// core: their vm.StateDB reports it as the code hash of accounts without code,
// which is what EVM.Create compares against.
func VerifC06EmptyCodeHash() common.Hash { return emptyCodeHash }
