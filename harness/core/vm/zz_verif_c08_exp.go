package vm

// C08, EXP result value: math.Exp / opExp compute base^exponent mod 2^256 for
// exponents wider than one machine word.
//
// The base is a fully symbolic 256-bit word.  The exponent is a STRUCTURAL
// choice (concrete in every path): 0, 2^256-1, 2^a, 2^a+2^b, 2^a+2^b+2^c with
// a<b<c taken from a lattice around every 64-bit word boundary.  The reference
// is the definition of exponentiation unfolded right to left over the binary
// digits of the exponent:
//
//	base^e = prod_{i : bit i of e set} base^(2^i),   base^(2^(i+1)) = (base^(2^i))^2
//
// every product reduced mod 2^256.  A 256x256-bit symbolic product is out of
// reach for the solver, so under the engine (*big.Int).Mul is redirected (suite
// override, this harness only) to c08MulUF: the full 512-bit product is an
// uninterpreted function mul512(x, y).  Implementation and reference use the same
// function, so they agree for every interpretation of it iff they multiply the
// same operands; real multiplication is one such interpretation.  Natively
// (validation, replay of counterexamples) the real Mul runs on both sides and
// the result is additionally compared with big.Int.Exp(base, e, 2^256).

import (
	"math/big"

	vs "gitlab.com/aquachain/aquachain/internal/verifsym"
)

// bit positions around every word boundary of a 256-bit exponent
var c08expLattice = []int{0, 1, 2, 62, 63, 64, 65, 126, 127, 128, 129, 190, 191, 192, 193, 254, 255}

// c08expShapes lists the exponents (as sets of bit positions) with at most
// maxBits bits set from the lattice, plus zero and the all-ones word.
func c08expShapes(maxBits int) [][]int {
	L := c08expLattice
	out := [][]int{{}}
	all := make([]int, 256)
	for i := range all {
		all[i] = i
	}
	out = append(out, all)
	for i := 0; i < len(L); i++ {
		out = append(out, []int{L[i]})
	}
	if maxBits >= 2 {
		for i := 0; i < len(L); i++ {
			for j := i + 1; j < len(L); j++ {
				out = append(out, []int{L[i], L[j]})
			}
		}
	}
	if maxBits >= 3 {
		for i := 0; i < len(L); i++ {
			for j := i + 1; j < len(L); j++ {
				for k := j + 1; k < len(L); k++ {
					out = append(out, []int{L[i], L[j], L[k]})
				}
			}
		}
	}
	return out
}

var c08one = big.NewInt(1)

// c08MulUF stands in for (*big.Int).Mul under the engine (redirect override of
// the C08 ExpValue harness): z = mul512(x, y), an uninterpreted function of the
// two operands returning the 512-bit product.  Exact for non-negative
// operands only (the result is a magnitude); EXP operands are stack words and
// U256 results, hence non-negative - not re-checked per multiplication (a
// solver query per Mul costs more than the rest of the path).
func c08MulUF(z, x, y *big.Int) *big.Int {
	return z.SetBytes(vs.UFX("mul512", 64, x, y))
}

// c08ExpSpec is the definition: the product of base^(2^i) over the set bits i
// of the exponent, right to left, every product reduced mod 2^256.
func c08ExpSpec(base *big.Int, bits []int) *big.Int {
	set := make([]bool, 256)
	top := -1
	for _, b := range bits {
		set[b] = true
		if b > top {
			top = b
		}
	}
	mask := new(big.Int).Sub(c08two256, c08one)
	r := big.NewInt(1)
	sq := new(big.Int).Set(base) // base^(2^i)
	for i := 0; i <= top; i++ {
		if set[i] {
			r.Mul(r, sq)
			r.And(r, mask)
		}
		if i < top {
			sq.Mul(sq, sq)
			sq.And(sq, mask)
		}
	}
	return r
}

// VerifC08_ExpValue: EXP (opExp on the real stack, math.Exp) = base^e mod 2^256.
func VerifC08_ExpValue() {
	shapes := c08expShapes(vs.Param("bits"))
	bits := shapes[vs.Choice("exponent", len(shapes))]
	e := new(big.Int)
	for _, b := range bits {
		e.SetBit(e, b, 1)
	}
	var base *big.Int
	if vs.Param("base01") == 1 {
		// base 0 and 1 are fixed points of every multiplication schedule: with the
		// uninterpreted product they would only yield counterexamples that the real
		// arithmetic cannot confirm.  They are decided by a second suite entry
		// WITHOUT the Mul redirect (real product of constants).
		base = big.NewInt(int64(vs.Choice("base", 2)))
	} else {
		base = vs.BigU("base", 256)
		vs.Assume(base.Cmp(big.NewInt(2)) >= 0)
	}
	vs.Observe("exponent", e)

	got := c08Run(c08op{"exp", opExp, 2}, []*big.Int{base, e})
	want := c08ExpSpec(base, bits)
	kind := "all bits set"
	switch {
	case len(bits) == 0:
		kind = "zero exponent"
	case len(bits) == 1:
		kind = "exponent 2^a"
		if bits[0]%64 == 0 {
			kind = "exponent 2^a, a multiple of 64"
		}
	case len(bits) == 2:
		kind = "exponent 2^a+2^b"
	case len(bits) == 3:
		kind = "exponent 2^a+2^b+2^c"
	}
	if len(bits) > 0 && bits[len(bits)-1] >= 64 {
		vs.Reach("multi-word exponent")
	}
	vs.Assert(got.Cmp(want) == 0, "EXP result equals base^exponent mod 2^256 (binary expansion): "+kind)
	if !vs.Symbolic() {
		// native runs: independent oracle
		vs.Assert(got.Cmp(new(big.Int).Exp(base, e, c08two256)) == 0, "EXP result equals big.Int.Exp(base, exponent, 2^256)")
	}
}
