package vm

// C07 step harness: ONE iteration of the real Interpreter.Run loop from an
// arbitrary valid machine state.  The state is injected through the Tracer
// hook (Config.Debug): the program is [JUMPDEST, op, …]; while the leading
// JUMPDEST is being traced the harness replaces stack, memory and gas with
// symbolic ones; while the instruction under test is being traced it calls
// evm.Cancel(), so the real loop stops right after that instruction.  The same
// code runs natively for replay.

import (
	"math/big"
	"time"

	"gitlab.com/aquachain/aquachain/common"
	"gitlab.com/aquachain/aquachain/core/types"
	"gitlab.com/aquachain/aquachain/params"
	vs "gitlab.com/aquachain/aquachain/internal/verifsym"
)

// ---- recording StateDB with nondeterministic reads -------------------------

type c07DB struct {
	mutations int // state-changing calls
	snaps     int
	reverts   int
	// det: reads are deterministic uninterpreted functions of their arguments (C08 reference checks)
	det     bool
	lastLog *types.Log
	nlogs   int
	refunds uint64
	setKey  common.Hash
	setVal  common.Hash
	nsets   int
	lastRevert int
}

func (d *c07DB) CreateAccount(common.Address)             { d.mutations++ }
func (d *c07DB) SubBalance(common.Address, *big.Int)      { d.mutations++ }
func (d *c07DB) AddBalance(common.Address, *big.Int)      { d.mutations++ }
func (d *c07DB) GetBalance(a common.Address) *big.Int {
	if d.det {
		return new(big.Int).SetBytes(vs.UF("db.balance", 32, a[:]))
	}
	return vs.BigU("db.balance", 256)
}
func (d *c07DB) GetNonce(common.Address) uint64           { return vs.U64("db.nonce") }
func (d *c07DB) SetNonce(common.Address, uint64)          { d.mutations++ }
func (d *c07DB) GetCodeHash(common.Address) common.Hash   { return c07Hash("db.codehash") }
func (d *c07DB) GetCode(common.Address) []byte            { return vs.Bytes("db.code", 2) }
func (d *c07DB) SetCode(common.Address, []byte)           { d.mutations++ }
func (d *c07DB) GetCodeSize(a common.Address) int {
	if d.det {
		b := vs.UF("db.codesize", 3, a[:])
		return int(b[0])<<16 | int(b[1])<<8 | int(b[2])
	}
	return int(vs.U32("db.codesize"))
}
// the refund counter is transaction bookkeeping, not world state: gasSStore bumps it while
// pricing the instruction, before the out-of-gas check; a failing frame's snapshot revert undoes it
func (d *c07DB) AddRefund(n uint64) { d.refunds += n }
func (d *c07DB) GetRefund() uint64                        { return vs.U64("db.refund") }
func (d *c07DB) GetState(a common.Address, k common.Hash) (h common.Hash) {
	if d.det {
		copy(h[:], vs.UF("db.state", 32, a[:], k[:]))
		return
	}
	return c07Hash("db.state")
}
func (d *c07DB) SetState(a common.Address, k common.Hash, v common.Hash) {
	d.mutations++
	d.nsets++
	d.setKey, d.setVal = k, v
}
func (d *c07DB) Suicide(common.Address) bool                        { d.mutations++; return vs.Bool("db.suicide") }
func (d *c07DB) HasSuicided(common.Address) bool                    { return vs.Bool("db.hassuicided") }
func (d *c07DB) Exist(common.Address) bool                          { return vs.Bool("db.exist") }
func (d *c07DB) Empty(common.Address) bool                          { return vs.Bool("db.empty") }
func (d *c07DB) RevertToSnapshot(id int)                            { d.reverts++; d.lastRevert = id }
func (d *c07DB) Snapshot() int                                      { d.snaps++; return d.snaps }
func (d *c07DB) AddLog(l *types.Log)                                { d.mutations++; d.nlogs++; d.lastLog = l }
func (d *c07DB) AddPreimage(common.Hash, []byte)                    {}
func (d *c07DB) ForEachStorage(common.Address, func(common.Hash, common.Hash) bool) {}

func c07Hash(name string) (h common.Hash) {
	copy(h[:], vs.BytesN(name, 32))
	return
}

func c07Addr(name string) (a common.Address) {
	copy(a[:], vs.BytesN(name, 20))
	return
}

// ---- stubs installed by the suite (engine only) ----------------------------

// sub-call stub: any outcome a callee may produce.
func c07SubCall(gas uint64) (ret []byte, left uint64, err error) {
	left = vs.U64("sub.left")
	vs.Assume(left <= gas)
	ret = vs.Bytes("sub.ret", 2)
	switch vs.Choice("sub.err", 3) {
	case 1:
		err = errExecutionReverted
	case 2:
		err = ErrOutOfGas
		left = 0
	}
	return
}

func c07Call(evm *EVM, caller ContractRef, addr common.Address, input []byte, gas uint64, value *big.Int) ([]byte, uint64, error) {
	return c07SubCall(gas)
}
func c07CallCode(evm *EVM, caller ContractRef, addr common.Address, input []byte, gas uint64, value *big.Int) ([]byte, uint64, error) {
	return c07SubCall(gas)
}
func c07DelegateCall(evm *EVM, caller ContractRef, addr common.Address, input []byte, gas uint64) ([]byte, uint64, error) {
	return c07SubCall(gas)
}
func c07StaticCall(evm *EVM, caller ContractRef, addr common.Address, input []byte, gas uint64) ([]byte, uint64, error) {
	return c07SubCall(gas)
}
func c07Create(evm *EVM, caller ContractRef, code []byte, gas uint64, value *big.Int) ([]byte, common.Address, uint64, error) {
	ret, left, err := c07SubCall(gas)
	return ret, c07Addr("sub.addr"), left, err
}

// value-only kernels whose result cannot influence safety
func c07MathExp(base, exponent *big.Int) *big.Int { return vs.BigU("expval", 256) }
func c07Keccak256(data ...[]byte) []byte          { return vs.BytesN("keccak", 32) }
func c07Keccak256Hash(data ...[]byte) common.Hash { return c07Hash("keccakh") }

// memory growth beyond maxMem bytes in the executed step is outside the bound
// (the charge for ANY size is decided by VerifC07_MemoryGasCost and by the
// gas functions, which run before this hook and see the unbounded size).
func c07PreResize(m *Memory, size uint64) { vs.Assume(size <= uint64(vs.Param("maxMem"))) }

// ---- tracer ------------------------------------------------------------------

type c07Tracer struct {
	n      int
	inject func(mem *Memory, stack *Stack, contract *Contract)
	mem    *Memory
	stack  *Stack
	opSeen OpCode
	gasAt  uint64
	costAt uint64
	// cancelAt == 3: let one more instruction be fetched so that its pc can be observed
	cancelAt int
	pc3      uint64
	faults   int
}

func (t *c07Tracer) CaptureStart(from common.Address, to common.Address, call bool, input []byte, gas uint64, value *big.Int) error {
	return nil
}
func (t *c07Tracer) CaptureState(env *EVM, pc uint64, op OpCode, gas, cost uint64, memory *Memory, stack *Stack, contract *Contract, depth int, err error) error {
	if err != nil {
		// deferred call made by Run when an instruction was refused: not a traced instruction
		t.faults++
		return nil
	}
	t.n++
	switch t.n {
	case 1:
		t.mem, t.stack = memory, stack
		t.inject(memory, stack, contract)
	case 2:
		t.opSeen, t.gasAt, t.costAt = op, gas, cost
		if t.cancelAt <= 2 {
			env.Cancel()
		}
	case 3:
		t.pc3 = pc
		env.Cancel()
	}
	return nil
}
func (t *c07Tracer) CaptureFault(env *EVM, pc uint64, op OpCode, gas, cost uint64, memory *Memory, stack *Stack, contract *Contract, depth int, err error) error {
	return nil
}
func (t *c07Tracer) CaptureEnd(output []byte, gasUsed uint64, tm time.Duration, err error) error {
	return nil
}

type c07Set struct {
	name  string
	table *[256]operation
	gas   params.GasTable
	byz   bool
}

func c07Sets() []c07Set {
	return []c07Set{
		{"spring", &springInstructionSet, params.GasTableHF1, true},
		{"homestead", &homesteadInstructionSet, params.GasTableHomestead, false},
		{"byzantium", &byzantiumInstructionSet, params.GasTableHF1, true},
		{"constantinople", &constantinopleInstructionSet, params.GasTableHF1, true},
		{"frontier", &frontierInstructionSet, params.GasTableHomestead, false},
	}
}

// (offset, size) operand positions (counted from the top of the stack) of the
// memory windows each instruction touches; size -1: fixed-size access.
var c07Windows = map[OpCode][][2]int{
	SHA3: {{0, 1}}, CALLDATACOPY: {{0, 2}}, CODECOPY: {{0, 2}}, EXTCODECOPY: {{1, 3}}, RETURNDATACOPY: {{0, 2}},
	MLOAD: {{0, -1}}, MSTORE: {{0, -1}}, MSTORE8: {{0, -1}},
	LOG0: {{0, 1}}, LOG1: {{0, 1}}, LOG2: {{0, 1}}, LOG3: {{0, 1}}, LOG4: {{0, 1}},
	CREATE: {{1, 2}}, CALL: {{3, 4}, {5, 6}}, CALLCODE: {{3, 4}, {5, 6}}, DELEGATECALL: {{2, 3}, {4, 5}}, STATICCALL: {{2, 3}, {4, 5}},
	RETURN: {{0, 1}}, REVERT: {{0, 1}},
}

func c07memCost(bytes uint64) uint64 { w := bytes / 32; return w*3 + w*w/512 }

// minimal depth at which validateStack accepts (probed concretely on the real table)
func c07MinDepth(op *operation) int {
	st := newstack()
	for k := 0; k <= 20; k++ {
		if op.validateStack(st) == nil {
			return k
		}
		st.push(new(big.Int))
	}
	return 21
}

func VerifC07_Step() {
	sets := c07Sets()
	set := sets[vs.Choice("set", vs.Param("sets"))]
	opc := OpCode(vs.Param("opLo") + vs.Choice("op", vs.Param("opHi")-vs.Param("opLo")+1))
	operation := &set.table[opc]
	// instructions whose intermediates need more than 264 bits (x*y, value<<n) run in the
	// "wide" instance of this harness (big width 520); all others in the narrow one (264)
	needsWide := opc == MUL || opc == MULMOD || opc == SHL || opc == SDIV // SDIV takes the sign of x*y
	if needsWide != (vs.Param("wide") != 0) {
		return
	}
	// the quick tier skips the middle members of the PUSH/DUP/SWAP families (same code, different constant)
	// and the instructions whose symbolic copy windows dominate solver time (thorough tier only)
	if vs.Param("families") == 0 {
		switch opc {
		case EXP, SHA3, CALLDATACOPY, CODECOPY, EXTCODECOPY, RETURNDATACOPY:
			return
		}
		if (opc > PUSH1 && opc < PUSH32 && opc != PUSH2) || (opc > DUP1 && opc < DUP16) || (opc > SWAP1 && opc < SWAP16) {
			return
		}
	}

	// depths that validateStack can distinguish for this operation
	depth := 0
	if operation.valid {
		p := c07MinDepth(operation)
		cands := []int{p, 1024}
		if p > 0 {
			cands = append(cands, p-1)
		}
		if vs.Param("families") != 0 {
			cands = append(cands, 1023)
		}
		depth = cands[vs.Choice("depth", len(cands))]
	}

	// program
	var code []byte
	switch {
	case opc == JUMP || opc == JUMPI:
		// concrete code: valid destinations 0 and 35, a 0x5b inside push data at 37
		code = make([]byte, 40)
		code[0], code[1] = byte(JUMPDEST), byte(opc)
		code[35], code[36], code[37] = byte(JUMPDEST), byte(PUSH1), byte(JUMPDEST)
	default:
		lens := []int{36, 2, 10}
		n := lens[0]
		if opc >= PUSH1 && opc <= PUSH32 {
			n = lens[vs.Choice("codelen", len(lens))]
		}
		code = make([]byte, n)
		code[0], code[1] = byte(JUMPDEST), byte(opc)
		copy(code[2:], vs.BytesN("pushdata", n-2))
	}

	db := &c07DB{}
	evm := &EVM{StateDB: db}
	evm.Context = Context{
		CanTransfer: func(StateDB, common.Address, *big.Int) bool { return vs.Bool("cantransfer") },
		Transfer:    func(StateDB, common.Address, common.Address, *big.Int) {},
		GetHash:     func(uint64) common.Hash { return c07Hash("blockhash") },
		Origin:      c07Addr("origin"), GasPrice: vs.BigU("gasprice", 256),
		Coinbase: c07Addr("coinbase"), GasLimit: vs.U64("gaslimit"),
		BlockNumber: vs.BigU("number", 64), Time: vs.BigU("time", 256), Difficulty: vs.BigU("difficulty", 256),
	}
	evm.chainRules = params.Rules{IsHomestead: true, IsEIP150: true, IsEIP158: set.byz, IsByzantium: set.byz}
	evm.chainConfig = params.TestChainConfig
	evm.depth = int(vs.U16("evmdepth"))
	vs.Assume(evm.depth <= 1024)
	readOnly := vs.Bool("readonly")

	g := vs.U64("gas")
	vs.Assume(g < 1<<63)
	memL := uint64(64 * vs.Choice("memwords", vs.Param("memChoices")))
	tr := &c07Tracer{}
	var entries []*big.Int
	tr.inject = func(mem *Memory, stack *Stack, contract *Contract) {
		nsym := depth
		if nsym > 18 {
			nsym = 18
		}
		for i := 0; i < depth-nsym; i++ {
			stack.push(new(big.Int))
		}
		vals := make([]*big.Int, nsym)
		for i := range vals {
			vals[i] = vs.BigU("stk", 256)
		}
		// bound of the harness: memory windows are small (offset <= 3, size in a list that
		// crosses the word boundary) or enormous (the step must then be refused); windows in
		// between only differ in how many bytes are copied and are outside the bound
		for _, w := range c07Windows[opc] {
			o, z := nsym-1-w[0], nsym-1-w[1]
			if o < 0 || (w[1] >= 0 && z < 0) {
				continue
			}
			if vs.Choice("window", 2) == 0 {
				vs.Assume(vals[o].Cmp(big.NewInt(3)) <= 0)
				if w[1] >= 0 {
					vals[z] = big.NewInt([]int64{0, 1, 32, 33}[vs.Choice("wsize", 4)])
				}
			} else if w[1] >= 0 {
				vs.Assume(vals[z].Cmp(big.NewInt(1<<32)) >= 0)
			} else {
				vs.Assume(vals[o].Cmp(big.NewInt(1<<32)) >= 0)
			}
		}
		for _, v := range vals {
			entries = append(entries, v)
			stack.push(v)
		}
		if memL > 0 {
			mem.Resize(memL)
			copy(mem.store, vs.BytesN("mem", int(memL)))
		}
		mem.lastGasCost = c07memCost(memL)
		contract.Gas = g // the leading JUMPDEST (1 gas) was charged before this hook ran
	}
	cfg := Config{Debug: true, Tracer: tr, JumpTable: *set.table}
	in := &Interpreter{evm: evm, cfg: cfg, gasTable: set.gas, intPool: newIntPool(), readOnly: readOnly}
	evm.interpreter = in
	evm.vmConfig = cfg

	self := AccountRef(c07Addr("self"))
	contract := NewContract(AccountRef(c07Addr("caller")), self, vs.BigU("callvalue", 256), 1)
	contract.Code = code
	contract.Input = nil
	input := vs.Bytes("calldata", 3)

	var ret []byte
	var err error
	panicked := vs.NoPanic(func() { ret, err = in.Run(contract, input) })
	vs.Assert(!panicked, "the interpreter step must not panic")
	_ = ret
	if tr.n == 0 {
		vs.Assert(false, "harness: leading JUMPDEST not traced")
		return
	}
	st, mem := tr.stack, tr.mem

	// gas never increases
	vs.Assert(contract.Gas <= g, "gas left never exceeds gas given")
	// call depth restored
	vs.Assert(evm.depth <= 1024, "depth bound")
	// stack
	vs.Assert(st.len() <= 1024, "stack depth never exceeds 1024")
	lim := st.len()
	if lim > 20 {
		lim = 20
	}
	for i := 0; i < lim; i++ {
		e := st.data[st.len()-1-i]
		vs.Assert(e.Sign() >= 0 && e.Cmp(c08two256) < 0, "stack entries stay 256-bit words")
	}
	// memory
	ml := uint64(mem.Len())
	vs.Assert(ml%32 == 0, "memory length is a multiple of 32")
	vs.Assert(ml >= memL, "memory never shrinks")
	if ml > memL {
		paid := g - contract.Gas
		vs.Assert(paid >= c07memCost(ml)-c07memCost(memL), "memory growth was paid for")
		vs.Assert(mem.lastGasCost == c07memCost(ml), "lastGasCost consistent with memory length")
	}
	// static context
	if readOnly && set.byz {
		vs.Assert(db.mutations == 0, "read-only frame under Byzantium rules performs no state mutation")
	}
	// invalid instruction / stack violation: error and nothing touched
	if !operation.valid {
		vs.Assert(err != nil && db.mutations == 0 && st.len() == depth, "invalid opcode halts with an error without side effects")
	}
	if tr.n < 2 {
		// the instruction was refused before execution
		vs.Assert(err != nil, "refused instruction reports an error")
		vs.Assert(db.mutations == 0 && st.len() == depth && ml == memL, "refused instruction has no side effects")
		vs.Reach("refused")
	} else {
		vs.Reach("executed")
	}
}

// ---- division kernels (engine only) ------------------------------------------
// 520-bit bit-vector division is out of reach for the solver; for the SAFETY
// obligations of the step harness only the range of a quotient/remainder
// matters, so the four division methods are over-approximated: any result
// within the mathematically possible range (|q| <= |x|, |r| < |y|, Mod >= 0).
// Exact values are decided by C08 (Int mode).

func c07DivChecks(y *big.Int) {
	if y.Sign() == 0 {
		panic("division by zero")
	}
}
func c07Quot(z, x, y *big.Int) *big.Int {
	c07DivChecks(y)
	m := vs.BigU("quot", 258)
	vs.Assume(m.CmpAbs(x) <= 0) // |q| <= |x|
	if vs.Bool("quot.neg") {
		m.Neg(m)
	}
	return z.Set(m)
}
func c07RemT(z, x, y *big.Int) *big.Int { // truncated remainder: |r| < |y|, sign of x
	c07DivChecks(y)
	m := vs.BigU("rem", 258)
	vs.Assume(m.CmpAbs(y) < 0)
	if x.Sign() < 0 {
		m.Neg(m)
	}
	return z.Set(m)
}
func c07ModE(z, x, y *big.Int) *big.Int { // Euclidean modulus: 0 <= r < |y|
	c07DivChecks(y)
	m := vs.BigU("mod", 258)
	vs.Assume(m.CmpAbs(y) < 0)
	return z.Set(m)
}
