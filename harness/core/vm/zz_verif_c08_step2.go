package vm

// C08 step-differential references, second group: jumps, hashing, copies,
// logs, storage, account reads, EXP gas, halting instructions.

import (
	"math/big"

	"gitlab.com/aquachain/aquachain/common"
	"gitlab.com/aquachain/aquachain/crypto"
	vs "gitlab.com/aquachain/aquachain/internal/verifsym"
)

// concrete program used for JUMP/JUMPI: valid destinations are 0, 2 and 35; the
// byte 0x5b at 37 is PUSH1 data and therefore NOT a destination.
func c08JumpCode(op OpCode) []byte {
	code := make([]byte, 40)
	code[0], code[1], code[2] = byte(JUMPDEST), byte(op), byte(JUMPDEST)
	code[35], code[36], code[37] = byte(JUMPDEST), byte(PUSH1), byte(JUMPDEST)
	return code
}

// Yellow-Paper definition of the valid jump destinations of a program.
func c08ValidDest(code []byte, d *big.Int) bool {
	if d.Cmp(big.NewInt(int64(len(code)))) >= 0 {
		return false
	}
	dest := int(d.Uint64())
	for pc := 0; pc < len(code); {
		op := OpCode(code[pc])
		if op >= PUSH1 && op <= PUSH32 {
			pc += int(op-PUSH1) + 2
			continue
		}
		if pc == dest {
			return op == JUMPDEST
		}
		pc++
	}
	return false
}

// memory-window operands: the window is either small (offset <= 3, size from a
// list crossing the 32-byte word boundary) or absurdly large (refused).
// the suite parameter msizes takes the first msizes entries
var c08Sizes = []int64{0, 1, 2, 33, 32, 31}

func c08Window(args []*big.Int, offIdx, sizeIdx int) {
	if vs.Choice("window", 2) == 0 {
		vs.Assume(args[offIdx].Cmp(big.NewInt(3)) <= 0)
		args[sizeIdx] = big.NewInt(c08Sizes[vs.Choice("size", vs.Param("msizes"))])
	} else {
		// at least one of offset / size is enormous
		if vs.Choice("huge", 2) == 0 {
			vs.Assume(args[sizeIdx].Cmp(big.NewInt(1<<32)) >= 0)
		} else {
			vs.Assume(args[offIdx].Cmp(big.NewInt(1<<32)) >= 0 && args[sizeIdx].Sign() > 0)
		}
	}
}

func c08Words(n uint64) uint64 { return (n + 31) / 32 }

// c08Len reads a size operand; anything of 2^63 or more is represented by 2^63 (it is
// refused in every case, the exact value does not matter - but it must not wrap to a small one)
func c08Len(v *big.Int) uint64 {
	if v.Cmp(new(big.Int).Lsh(big.NewInt(1), 63)) >= 0 {
		return 1 << 63
	}
	return v.Uint64()
}

// deterministic keccak stub (engine only): an uninterpreted function of the input bytes
func c08Keccak256(data ...[]byte) []byte { return vs.UF("keccak256", 32, data...) }

func c08Hash(v *big.Int) common.Hash { return common.BigToHash(v) }

func c08RefsMem() []c08Ref {
	r := []c08Ref{
		{op: JUMP, name: "jump", pops: 1, jump: true, f: func(c *c08Ctx) c08X {
			if !c08ValidDest(c.code, c.args[0]) {
				return c08X{gas: c08Gmid, fail: true}
			}
			return c08X{gas: c08Gmid, checkPC: true, pcNext: c.args[0].Uint64()}
		}},
		{op: JUMPI, name: "jumpi", pops: 2, jump: true, f: func(c *c08Ctx) c08X {
			if c.args[1].Sign() == 0 {
				return c08X{gas: c08Ghigh, checkPC: true, pcNext: 2}
			}
			if !c08ValidDest(c.code, c.args[0]) {
				return c08X{gas: c08Ghigh, fail: true}
			}
			return c08X{gas: c08Ghigh, checkPC: true, pcNext: c.args[0].Uint64()}
		}},
		{op: SLOAD, name: "sload", pops: 1, f: func(c *c08Ctx) c08X {
			v := c.db.GetState(c.self, c08Hash(c.args[0]))
			return c08X{push: []*big.Int{new(big.Int).SetBytes(v[:])}, gas: c.gasTable.SLoad}
		}},
		{op: SSTORE, name: "sstore", pops: 2, f: func(c *c08Ctx) c08X {
			cur := c.db.GetState(c.self, c08Hash(c.args[0]))
			curZero, newZero := cur == (common.Hash{}), c.args[1].Sign() == 0
			gas, refund := uint64(5000), uint64(0)
			if curZero && !newZero {
				gas = 20000
			} else if !curZero && newZero {
				refund = 15000
			}
			key, val := c08Hash(c.args[0]), c08Hash(c.args[1])
			return c08X{gas: gas, postLbl: "SSTORE writes exactly (self, key, value) and the clearing refund", post: func(db *c07DB, img []byte) bool {
				return db.nsets == 1 && db.setKey == key && db.setVal == val && db.refunds == refund && db.nlogs == 0
			}}
		}},
		{op: BALANCE, name: "balance", pops: 1, f: func(c *c08Ctx) c08X {
			return c08X{push: []*big.Int{c.db.GetBalance(common.BigToAddress(c.args[0]))}, gas: c.gasTable.Balance}
		}},
		{op: EXTCODESIZE, name: "extcodesize", pops: 1, f: func(c *c08Ctx) c08X {
			return c08X{push: []*big.Int{big.NewInt(int64(c.db.GetCodeSize(common.BigToAddress(c.args[0]))))}, gas: c.gasTable.ExtcodeSize}
		}},
		{op: EXP, name: "exp", pops: 2, f: func(c *c08Ctx) c08X {
			// value decided elsewhere (math.Exp is stubbed here); gas: 10 + ExpByte per byte of the exponent
			nbytes := uint64(0)
			for k := 0; k < 32; k++ {
				if c.args[1].Cmp(new(big.Int).Lsh(big.NewInt(1), uint(8*k))) >= 0 {
					nbytes = uint64(k + 1)
				}
			}
			return c08X{gas: 10 + c.gasTable.ExpByte*nbytes, anyPush: 1}
		}},
		{op: STOP, name: "stop", pops: 0, f: func(c *c08Ctx) c08X { return c08X{halt: true, retOff: new(big.Int)} }},
		{op: SHA3, name: "sha3", pops: 2, pre: func(a []*big.Int) { c08Window(a, 0, 1) }, f: func(c *c08Ctx) c08X {
			n := c08Len(c.args[1])
			return c08X{gas: 30 + 6*c08Words(n), memOff: c.args[0], memLen: n, pushFromImg: func(img []byte) []*big.Int {
				var win []byte
				if n > 0 {
					win = img[c.args[0].Uint64() : c.args[0].Uint64()+n]
				}
				return []*big.Int{new(big.Int).SetBytes(crypto.Keccak256(win))}
			}}
		}},
		{op: CALLDATACOPY, name: "calldatacopy", pops: 3, pre: func(a []*big.Int) { c08Window(a, 0, 2) }, f: func(c *c08Ctx) c08X {
			n := c08Len(c.args[2])
			return c08X{gas: c08Gverylow + 3*c08Words(n), memOff: c.args[0], memLen: n, write: func(m []byte) {
				c08CopyPadded(m, c.args[0].Uint64(), c.input, c.args[1], n)
			}}
		}},
		{op: CODECOPY, name: "codecopy", pops: 3, pre: func(a []*big.Int) { c08Window(a, 0, 2) }, f: func(c *c08Ctx) c08X {
			n := c08Len(c.args[2])
			return c08X{gas: c08Gverylow + 3*c08Words(n), memOff: c.args[0], memLen: n, write: func(m []byte) {
				c08CopyPadded(m, c.args[0].Uint64(), c.code, c.args[1], n)
			}}
		}},
		{op: RETURN, name: "return", pops: 2, pre: func(a []*big.Int) { c08Window(a, 0, 1) }, f: func(c *c08Ctx) c08X {
			return c08X{halt: true, memOff: c.args[0], memLen: c08Len(c.args[1]), retOff: c.args[0], retLen: c08Len(c.args[1])}
		}},
		{op: REVERT, name: "revert", pops: 2, pre: func(a []*big.Int) { c08Window(a, 0, 1) }, f: func(c *c08Ctx) c08X {
			return c08X{revert: true, memOff: c.args[0], memLen: c08Len(c.args[1]), retOff: c.args[0], retLen: c08Len(c.args[1])}
		}},
	}
	for n := 0; n <= 4; n++ {
		n := n
		r = append(r, c08Ref{op: OpCode(int(LOG0) + n), name: "log", pops: 2 + n, pre: func(a []*big.Int) { c08Window(a, 0, 1) }, f: func(c *c08Ctx) c08X {
			size := c08Len(c.args[1])
			off := c.args[0].Uint64()
			topics := c.args[2:]
			blk := c.evm.BlockNumber.Uint64()
			self := c.self
			return c08X{gas: 375 + 375*uint64(n) + 8*size, memOff: c.args[0], memLen: size,
				postLbl: "LOGn appends exactly one log with the contract address, the n topics and the memory window",
				post: func(db *c07DB, img []byte) bool {
					if db.nlogs != 1 || db.nsets != 0 || db.lastLog == nil {
						return false
					}
					l := db.lastLog
					ok := l.Address == self && len(l.Topics) == n && uint64(len(l.Data)) == size && l.BlockNumber == blk
					for i := 0; i < n && i < len(l.Topics); i++ {
						if l.Topics[i] != c08Hash(topics[i]) {
							ok = false
						}
					}
					for i := uint64(0); i < size && i < uint64(len(l.Data)); i++ {
						if l.Data[i] != img[off+i] {
							ok = false
						}
					}
					return ok
				}}
		}})
	}
	return r
}

// m[dst+i] = src[srcOff+i] for i < n, zero beyond the end of src
func c08CopyPadded(m []byte, dst uint64, src []byte, srcOff *big.Int, n uint64) {
	for i := uint64(0); i < n; i++ {
		var b byte
		if srcOff.Cmp(big.NewInt(int64(len(src)))) < 0 {
			if k := srcOff.Uint64() + i; k < uint64(len(src)) {
				b = src[k]
			}
		}
		m[dst+i] = b
	}
}
