package vm

// C08: stack validation of every instruction in every instruction set equals
// the Yellow Paper's delta/alpha table for EVERY stack height (symbolic height
// 0..1026), and the state-modifying flag that write protection relies on is set
// exactly for the state-modifying instructions.

import (
	"math/big"

	vs "gitlab.com/aquachain/aquachain/internal/verifsym"
)

// (items removed, items added) per the Yellow Paper, appendix H
func c08DeltaAlpha(op OpCode) (int, int, bool) {
	switch {
	case op >= PUSH1 && op <= PUSH32:
		return 0, 1, true
	case op >= DUP1 && op <= DUP16:
		n := int(op-DUP1) + 1
		return n, n + 1, true
	case op >= SWAP1 && op <= SWAP16:
		n := int(op-SWAP1) + 2
		return n, n, true
	case op >= LOG0 && op <= LOG4:
		return int(op-LOG0) + 2, 0, true
	}
	switch op {
	case STOP, JUMPDEST:
		return 0, 0, true
	case ADD, MUL, SUB, DIV, SDIV, MOD, SMOD, EXP, SIGNEXTEND, LT, GT, SLT, SGT, EQ, AND, OR, XOR, BYTE, SHL, SHR, SAR, SHA3:
		return 2, 1, true
	case ADDMOD, MULMOD:
		return 3, 1, true
	case ISZERO, NOT, BALANCE, CALLDATALOAD, EXTCODESIZE, BLOCKHASH, MLOAD, SLOAD:
		return 1, 1, true
	case ADDRESS, ORIGIN, CALLER, CALLVALUE, CALLDATASIZE, CODESIZE, GASPRICE, RETURNDATASIZE, COINBASE, TIMESTAMP, NUMBER, DIFFICULTY, GASLIMIT, PC, MSIZE, GAS:
		return 0, 1, true
	case CALLDATACOPY, CODECOPY, RETURNDATACOPY:
		return 3, 0, true
	case EXTCODECOPY:
		return 4, 0, true
	case POP, JUMP, SELFDESTRUCT:
		return 1, 0, true
	case MSTORE, MSTORE8, SSTORE, JUMPI, RETURN, REVERT:
		return 2, 0, true
	case CREATE:
		return 3, 1, true
	case CALL, CALLCODE:
		return 7, 1, true
	case DELEGATECALL, STATICCALL:
		return 6, 1, true
	}
	return 0, 0, false
}

func c08Writes(op OpCode) bool {
	switch op {
	case SSTORE, LOG0, LOG1, LOG2, LOG3, LOG4, CREATE, SELFDESTRUCT:
		return true
	}
	return false
}

var c08StackSlots [1030]*big.Int

func VerifC08_StackBounds() {
	sets := c07Sets()
	set := sets[vs.Choice("set", vs.Param("sets"))]
	op := OpCode(vs.Choice("op", 256))
	operation := &set.table[op]
	d, a, known := c08DeltaAlpha(op)
	if !operation.valid {
		vs.Assert(!known || !c08ValidIn(set.name, op), "an instruction of the specification is missing from this instruction set")
		return
	}
	vs.Assert(known, "a valid instruction that the specification does not define")
	vs.Assert(operation.writes == c08Writes(op), "state-modifying flag matches the specification (write protection relies on it)")
	n := vs.U64("height")
	vs.Assume(n <= 1026)
	st := &Stack{data: c08StackSlots[:n]}
	err := operation.validateStack(st)
	ok := n >= uint64(d) && n-uint64(d)+uint64(a) <= 1024
	vs.Assert((err == nil) == ok, "stack validation accepts exactly the heights with enough operands and room for the results (limit 1024)")
	if err == nil {
		vs.Reach("accepted")
	} else {
		vs.Reach("refused")
	}
}
