package core

// Shared harness infrastructure of C05/C06: a small vm.StateDB with a few account
// slots (concrete, pairwise different addresses; aliasing of the roles sender /
// recipient / coinbase is a structural choice), symbolic balances and nonces,
// snapshots, and a refund counter.  It mirrors the balance/nonce semantics of
// core/state.StateDB that the code under test relies on (C09 is the link
// "state.StateDB behaves like this"): SubBalance does not check for underflow,
// CreateAccount carries the balance over and resets nonce and code, AddBalance
// creates the account.

import (
	"math/big"

	"gitlab.com/aquachain/aquachain/common"
	"gitlab.com/aquachain/aquachain/core/types"
	"gitlab.com/aquachain/aquachain/core/vm"
	vs "gitlab.com/aquachain/aquachain/internal/verifsym"
)

type c06Acct struct {
	addr     common.Address
	exist    bool
	bal      *big.Int
	nonce    uint64
	code     []byte
	suicided bool
}

type c06Snap struct {
	accts  []c06Acct
	refund uint64
	nlogs  int
}

type c06DB struct {
	accts  []*c06Acct
	refund uint64
	snaps  []c06Snap
	nlogs  int        // logs emitted (and not rolled back)
	sets   []*big.Int // every balance value ever stored (all must be >= 0)
	log    []c06Op    // balance mutations in call order
}

// c06Op is one recorded balance mutation: amount added (sub=false) or subtracted.
type c06Op struct {
	sub    bool
	addr   common.Address
	amount *big.Int
}

func (db *c06DB) find(a common.Address) *c06Acct {
	for _, x := range db.accts {
		if x.addr == a {
			return x
		}
	}
	return nil
}

func (db *c06DB) getOrNew(a common.Address) *c06Acct {
	x := db.find(a)
	if x == nil {
		x = &c06Acct{addr: a, bal: new(big.Int)}
		db.accts = append(db.accts, x)
	}
	// invariant: a non-existent slot has zero balance, zero nonce and no code,
	// so creating it changes the flag only (no fork on a symbolic flag)
	x.exist = true
	return x
}

func (db *c06DB) CreateAccount(a common.Address) {
	x := db.find(a)
	if x != nil && x.exist {
		// balance is carried over, everything else is reset
		x.nonce = 0
		x.code = nil
		x.suicided = false
		return
	}
	db.getOrNew(a)
}

func (db *c06DB) setBal(x *c06Acct, v *big.Int) {
	x.bal = v
	db.sets = append(db.sets, v)
}

func (db *c06DB) SubBalance(a common.Address, amount *big.Int) {
	x := db.getOrNew(a)
	db.log = append(db.log, c06Op{true, a, amount})
	db.setBal(x, new(big.Int).Sub(x.bal, amount)) // (the real one returns early for amount 0: same balance)
}

func (db *c06DB) AddBalance(a common.Address, amount *big.Int) {
	x := db.getOrNew(a)
	db.log = append(db.log, c06Op{false, a, amount})
	db.setBal(x, new(big.Int).Add(x.bal, amount))
}

func (db *c06DB) GetBalance(a common.Address) *big.Int {
	x := db.find(a)
	if x == nil || !x.exist {
		return common.Big0
	}
	return x.bal
}

func (db *c06DB) GetNonce(a common.Address) uint64 {
	x := db.find(a)
	if x == nil || !x.exist {
		return 0
	}
	return x.nonce
}

func (db *c06DB) SetNonce(a common.Address, n uint64) { db.getOrNew(a).nonce = n }

func (db *c06DB) GetCodeHash(a common.Address) common.Hash {
	x := db.find(a)
	if x == nil || !x.exist {
		return common.Hash{}
	}
	if len(x.code) == 0 {
		// the hash of the empty code as package vm computes it (natively Keccak256 of nothing)
		return vm.VerifC06EmptyCodeHash()
	}
	return common.Hash{0xc0, 0xde}
}

func (db *c06DB) GetCode(a common.Address) []byte {
	x := db.find(a)
	if x == nil || !x.exist {
		return nil
	}
	return x.code
}

func (db *c06DB) SetCode(a common.Address, c []byte) { db.getOrNew(a).code = c }

func (db *c06DB) GetCodeSize(a common.Address) int { return len(db.GetCode(a)) }

func (db *c06DB) AddRefund(g uint64) { db.refund += g }
func (db *c06DB) GetRefund() uint64  { return db.refund }

func (db *c06DB) GetState(common.Address, common.Hash) common.Hash  { return common.Hash{} }
func (db *c06DB) SetState(common.Address, common.Hash, common.Hash) {}

func (db *c06DB) Suicide(a common.Address) bool {
	x := db.find(a)
	if x == nil || !x.exist {
		return false
	}
	x.suicided = true
	db.setBal(x, new(big.Int))
	return true
}

func (db *c06DB) HasSuicided(a common.Address) bool {
	x := db.find(a)
	return x != nil && x.exist && x.suicided
}

func (db *c06DB) Exist(a common.Address) bool {
	x := db.find(a)
	return x != nil && x.exist
}

func (db *c06DB) Empty(a common.Address) bool {
	x := db.find(a)
	return x == nil || !x.exist || (x.nonce == 0 && x.bal.Sign() == 0 && len(x.code) == 0)
}

func (db *c06DB) Snapshot() int {
	s := c06Snap{refund: db.refund, nlogs: db.nlogs}
	for _, x := range db.accts {
		s.accts = append(s.accts, *x)
	}
	db.snaps = append(db.snaps, s)
	return len(db.snaps) - 1
}

func (db *c06DB) RevertToSnapshot(id int) {
	s := db.snaps[id]
	db.snaps = db.snaps[:id]
	db.refund = s.refund
	db.nlogs = s.nlogs
	// accounts created after the snapshot cease to exist
	for i, x := range db.accts {
		if i < len(s.accts) {
			*x = s.accts[i]
		} else {
			x.exist = false
			x.bal = new(big.Int)
			x.nonce = 0
			x.code = nil
			x.suicided = false
		}
	}
}

func (db *c06DB) AddLog(*types.Log)                                                  { db.nlogs++ }
func (db *c06DB) AddPreimage(common.Hash, []byte)                                    {}
func (db *c06DB) ForEachStorage(common.Address, func(common.Hash, common.Hash) bool) {}

// sum of all balances
func (db *c06DB) sum() *big.Int {
	s := new(big.Int)
	for _, x := range db.accts {
		if x.exist {
			s.Add(s, x.bal)
		}
	}
	return s
}

// fixed slot addresses (none of them a precompile address)
var c06Addrs = []common.Address{
	common.HexToAddress("0x00000000000000000000000000000000000a0001"),
	common.HexToAddress("0x00000000000000000000000000000000000a0002"),
	common.HexToAddress("0x00000000000000000000000000000000000a0003"),
	common.HexToAddress("0x00000000000000000000000000000000000a0004"),
}

// c06NewDB makes n slots with symbolic state.  State invariant assumed:
// balances are non-negative, a non-existent account has zero balance and nonce.
func c06NewDB(n int) *c06DB {
	db := &c06DB{}
	// which slots do not exist: structural choice over the first E patterns
	pat := c06Missing[vs.Choice("missing", vs.Param("E"))]
	for i := 0; i < n; i++ {
		x := &c06Acct{addr: c06Addrs[i]}
		x.exist = pat&(1<<uint(i)) == 0
		if x.exist {
			x.bal = vs.Big("bal")
			x.nonce = vs.U64("nonce")
			vs.Assume(x.bal.Sign() >= 0)
		} else {
			x.bal = new(big.Int)
		}
		db.accts = append(db.accts, x)
	}
	db.refund = vs.U64("refund0")
	return db
}

// roles: the partitions of {sender, recipient, coinbase} over the slots
// (tier parameter R takes a prefix; creations have no recipient: R=2 is complete for them)
var c06Roles = [][3]int{{0, 1, 2}, {0, 1, 0}, {0, 0, 2}, {0, 1, 1}, {0, 0, 0}}

// non-existence patterns (bit i = slot i missing), most interesting first
var c06Missing = []int{0, 2, 4, 1, 6, 3, 5, 7}

func (db *c06DB) nonNegative() bool {
	ok := true
	for _, v := range db.sets {
		if v.Sign() < 0 {
			ok = false
		}
	}
	return ok
}
