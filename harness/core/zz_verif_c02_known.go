package core

// C02, re-delivery of blocks the node already has.
//
// A peer may hand the node a block (or a run of blocks) it has already fully
// validated: stored with body, receipts, state and total difficulty, on the
// canonical chain or on a side branch, below / at / above the head's height.
// That is one more "import" in the sense of the property, so the inductive
// step must hold for it too: from a store satisfying the invariant
//   TD(b) = TD(parent(b)) + difficulty(b)  and  TD(head) >= TD(b)  for every stored b
// the REAL insertChain2 (+ real BlockValidator, which answers ErrKnownBlock)
// must leave
//   - the head in {old head, a delivered block}, with TD(head) = max of the two,
//     i.e. the head TD does not go down and a strictly lighter known block -
//     however long its branch - does not become head (an exact tie may go
//     either way),
//   - every stored TD as it was, still additive, still dominated by the head,
//   - head pointer, canonical index and state availability consistent.

import (
	"math/big"

	"gitlab.com/aquachain/aquachain/common"
	"gitlab.com/aquachain/aquachain/core/types"
	vs "gitlab.com/aquachain/aquachain/internal/verifsym"
)

func VerifC02_KnownBlockStep() {
	s := &c02Scene{f: c02NewFix()}
	f := s.f
	g := s.add(nil, "G")
	f.canon(g.b)
	// canonical chain of 1..H blocks on top of genesis
	canon := []c02Stored{g}
	for i, n := 0, 1+vs.Choice("headlen", vs.Param("H")); i < n; i++ {
		a := s.add(&canon[len(canon)-1], "A")
		f.canon(a.b)
		canon = append(canon, a)
	}
	s.head = canon[len(canon)-1]
	// fully validated side branch of 0..S blocks forking off one of the first F
	// canonical blocks (genesis, A1): shorter, equally long or longer than the
	// canonical chain, any difficulties
	nf := vs.Param("F")
	if nf > len(canon)-1 {
		nf = len(canon) - 1 // the fork point is a strict ancestor of the head
	}
	par := canon[vs.Choice("fork", nf)]
	for i, n := 0, vs.Choice("sidelen", vs.Param("S")+1); i < n; i++ {
		par = s.add(&par, "S")
	}
	f.head(s.head.b)
	// invariant: nothing stored is heavier than the head
	for _, x := range s.all {
		vs.Assume(x.td.Cmp(s.head.td) <= 0)
	}
	f.open()
	bc := f.bc
	vs.Assert(bc.CurrentBlock().Hash() == s.head.b.Hash(), "fixture: opened chain has the constructed head")

	// the delivered run: 1..B already known blocks ending in k (parent-linked)
	ki := 1 + vs.Choice("known", len(s.all)-1)
	k := s.all[ki]
	vs.Assert(bc.HasBlockAndState(k.b.Hash(), k.b.NumberU64()), "fixture: the delivered block is known with its state")
	run := types.Blocks{k.b}
	for i, n := 0, vs.Choice("batch", vs.Param("B")); i < n; i++ {
		for _, x := range s.all[1:] { // prepend the parent unless it is the genesis block
			if x.b.Hash() == run[0].ParentHash() {
				run = append(types.Blocks{x.b}, run...)
				break
			}
		}
	}
	hn, kn := s.head.b.NumberU64(), k.b.NumberU64()
	switch {
	case kn < hn:
		vs.Reach("below")
	case kn == hn:
		vs.Reach("equal")
	default:
		vs.Reach("above")
	}
	localTd := s.head.td

	_, _, _, err := bc.insertChain(run)
	vs.Assert(err == nil, "re-delivery of known blocks succeeds")

	nh := bc.CurrentBlock()
	tdH := bc.GetTd(nh.Hash(), nh.NumberU64())
	vs.Assert(tdH != nil, "head has a TD")
	vs.Assert(tdH.Cmp(localTd) >= 0, "head TD never decreases")
	isOld := nh.Hash() == s.head.b.Hash()
	isNew := false
	for _, b := range run {
		if nh.Hash() == b.Hash() {
			isNew = true
		}
	}
	vs.Assert(isOld || isNew, "new head is the old head or a delivered block")
	// max(TD(head), TD(delivered)) = TD(head) under the invariant
	vs.Assert(tdH.Cmp(localTd) == 0, "head TD = max(TD(old head), TD(delivered blocks))")
	if k.td.Cmp(localTd) < 0 {
		vs.Reach("lighter")
		vs.Assert(isOld, "a strictly lighter known block does not become head")
	} else {
		vs.Reach("tie")
	}
	// stored total difficulties: untouched, additive, dominated by the head
	for i, x := range s.all {
		xtd := GetTd(f.db, x.b.Hash(), x.b.NumberU64())
		vs.Assert(xtd != nil && xtd.Cmp(x.td) == 0, "stored TD of every block unchanged")
		vs.Assert(bc.GetTd(x.b.Hash(), x.b.NumberU64()).Cmp(x.td) == 0, "cached TD of every block unchanged")
		vs.Assert(xtd.Cmp(tdH) <= 0, "no stored block is heavier than the head")
		if i > 0 {
			ptd := GetTd(f.db, x.b.ParentHash(), x.b.NumberU64()-1)
			vs.Assert(ptd != nil && new(big.Int).Add(ptd, x.b.Difficulty()).Cmp(xtd) == 0, "stored TD = TD(parent) + difficulty")
		}
		vs.Assert(bc.HasBlockAndState(x.b.Hash(), x.b.NumberU64()), "every validated block keeps its body and state")
	}
	// head pointer and canonical index follow the head
	vs.Assert(GetHeadBlockHash(f.db) == nh.Hash(), "LastBlock pointer names the in-memory head")
	vs.Assert(bc.HasState(nh.Root()), "the head has its state")
	for b := nh; ; {
		vs.Assert(GetCanonicalHash(f.db, b.NumberU64()) == b.Hash(), "the head's ancestors are the canonical chain")
		if b.NumberU64() == 0 {
			break
		}
		b = bc.GetBlock(b.ParentHash(), b.NumberU64()-1)
		vs.Assert(b != nil, "the head's ancestors are stored")
	}
	vs.Assert(GetCanonicalHash(f.db, nh.NumberU64()+1) == (common.Hash{}), "nothing is canonical above the head")
	vs.Observe("tdH", tdH)
	vs.Observe("headnum", nh.NumberU64())
}
