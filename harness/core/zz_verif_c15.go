package core

// C15 harnesses (part 1): the nonce-sorted transaction list.
//
//   VerifC15_PriceBump  txList.Add replaces a same-nonce transaction iff the
//                       configured price bump is met
//   VerifC15_ListOps    Forward / Filter / Cap / Remove / Ready on an arbitrary
//                       small list partition it correctly, keep a strict list
//                       gap-free, keep the caps above the contents and keep the
//                       heap index equal to the map keys
//
// Executed symbolically by /verif/engine over the real tx_list.go; compiled
// natively for replay/validation (nothing here depends on engine-only stubs).

import (
	"math"
	"math/big"

	"gitlab.com/aquachain/aquachain/common"
	"gitlab.com/aquachain/aquachain/core/types"
	vs "gitlab.com/aquachain/aquachain/internal/verifsym"
)

var c15To = common.Address{0xee}

// c15Tx builds a real transaction.  The one-byte payload tag gives every
// transaction object of a harness run its own content (so its own real hash).
func c15Tx(tag byte, nonce uint64, value *big.Int, gas uint64, price *big.Int) *types.Transaction {
	return types.NewTransaction(nonce, c15To, value, gas, price, []byte{tag})
}

// c15IndexOK: the heap index holds exactly the keys of the map, once each, in
// heap order.
func c15IndexOK(m *txSortedMap) {
	idx := *m.index
	vs.Assert(len(idx) == len(m.items), "heap index and item map have the same size")
	for i := 0; i < len(idx); i++ {
		nonce := idx[i]
		vs.Assert(m.items[nonce] != nil, "every heap entry is a key of the item map")
		if i > 0 {
			vs.Assert(idx[(i-1)/2] <= nonce, "heap order of the nonce index")
		}
		for j := 0; j < i; j++ {
			vs.Assert(idx[j] != nonce, "no duplicate heap entries")
		}
	}
}

// ---------------------------------------------------------------------------
// P: price bump

func VerifC15_PriceBump() {
	strict := vs.Choice("strict", 2) == 1
	l := newTxList(strict)
	nonce := vs.U64("nonce")
	bump := vs.U64("bump")
	vs.Assume(bump <= math.MaxInt64-100) // the percentage is converted to int64 by Add
	oldP, newP := vs.BigU("oldprice", 256), vs.BigU("newprice", 256)
	// gas limits are fixed here (cost stays linear in the symbolic prices); the
	// cap bookkeeping over arbitrary costs and gas limits is covered by ListOps
	oldGas, newGas := uint64(21000), uint64(90000)
	if vs.Choice("gasorder", 2) == 1 {
		oldGas, newGas = newGas, oldGas
	}
	old := c15Tx(1, nonce, vs.BigU("oldvalue", 256), oldGas, oldP)
	nw := c15Tx(2, nonce, vs.BigU("newvalue", 256), newGas, newP)

	ok, prev := l.Add(old, bump)
	vs.Assert(ok, "first transaction of a nonce is accepted")
	vs.Assert(prev == nil, "first transaction of a nonce replaces nothing")
	cap0, gcap0 := new(big.Int).Set(l.costcap), l.gascap
	vs.Assert(cap0.Cmp(old.Cost()) == 0, "costcap raised to the first cost")
	vs.Assert(gcap0 == oldGas, "gascap raised to the first gas")

	ok, prev = l.Add(nw, bump)

	// specification: new > old  and  new >= floor(old*(100+bump)/100),
	// the latter stated without division: 100*(new+1) > old*(100+bump)
	higher := newP.Cmp(oldP) > 0
	lhs := new(big.Int).Mul(big.NewInt(100), new(big.Int).Add(newP, big.NewInt(1)))
	rhs := new(big.Int).Mul(oldP, new(big.Int).SetUint64(100+bump))
	bumped := lhs.Cmp(rhs) > 0
	want := higher && bumped
	vs.Observe("replaced", ok)
	vs.Assert(ok == want, "replacement accepted iff price is higher and meets the bump percentage")

	vs.Assert(l.Len() == 1, "one transaction per nonce")
	c15IndexOK(l.txs)
	vs.Assert((*l.txs.index)[0] == nonce, "index holds the nonce")
	if ok {
		vs.Reach("replace")
		vs.Assert(prev == old, "the replaced transaction is returned")
		vs.Assert(l.txs.items[nonce] == nw, "the new transaction is stored")
		vs.Assert(l.costcap.Cmp(nw.Cost()) >= 0 && l.costcap.Cmp(cap0) >= 0, "costcap covers old cap and new cost")
		vs.Assert(l.gascap >= newGas && l.gascap >= gcap0, "gascap covers old cap and new gas")
	} else {
		vs.Reach("reject")
		vs.Assert(prev == nil, "nothing returned on rejection")
		vs.Assert(l.txs.items[nonce] == old, "the old transaction stays")
		vs.Assert(l.costcap.Cmp(cap0) == 0 && l.gascap == gcap0, "caps unchanged on rejection")
	}
}

// ---------------------------------------------------------------------------
// T: list operations

type c15List struct {
	l      *txList
	strict bool
	n      int
	txs    []*types.Transaction
	nonces []uint64
	costs  []*big.Int
	gas    []uint64
}

var c15Perms = [][]int{{0, 1, 2}, {0, 2, 1}, {1, 0, 2}, {1, 2, 0}, {2, 0, 1}, {2, 1, 0}}

// c15BuildList makes a list of n transactions through the real
// txSortedMap.Put.  Strict lists get the nonces base..base+n-1 inserted in an
// arbitrary order (every heap layout), non-strict lists get arbitrary distinct
// nonces.  The caps are arbitrary values not below the contents (Add only ever
// raises them - harness PriceBump - and Filter lowers them to its limits).
func c15BuildList(strict bool, n int) *c15List {
	c := &c15List{l: newTxList(strict), strict: strict, n: n}
	var base uint64
	perm := c15Perms[0]
	if strict {
		base = vs.U64("base")
		vs.Assume(base <= math.MaxUint64-8)
		if n == 2 {
			perm = c15Perms[2*vs.Choice("order", 2)] // {0,1,..} or {1,0,..}
		}
		if n == 3 {
			perm = c15Perms[vs.Choice("order", 6)]
		}
	}
	cc := vs.BigU("costcap", 300)
	gc := vs.U64("gascap")
	for i := 0; i < n; i++ {
		var nonce uint64
		if strict {
			nonce = base + uint64(perm[i])
		} else {
			nonce = vs.U64("nonce")
			vs.Assume(nonce <= math.MaxUint64-8)
			for j := 0; j < i; j++ {
				vs.Assume(nonce != c.nonces[j])
			}
		}
		// price 0: cost = value, so (cost, gas) range over all pairs independently
		g := vs.U64("gas")
		tx := c15Tx(byte(i+1), nonce, vs.BigU("value", 256), g, big.NewInt(0))
		c.l.txs.Put(tx)
		cost := tx.Cost()
		vs.Assume(cc.Cmp(cost) >= 0)
		vs.Assume(gc >= g)
		c.txs = append(c.txs, tx)
		c.nonces = append(c.nonces, nonce)
		c.costs = append(c.costs, cost)
		c.gas = append(c.gas, g)
	}
	c.l.costcap = cc
	c.l.gascap = gc
	return c
}

func c15Count(list types.Transactions, tx *types.Transaction) int {
	k := 0
	for _, t := range list {
		if t == tx {
			k++
		}
	}
	return k
}

// rank = number of list members with a lower nonce
func (c *c15List) rank(i int) int {
	r := 0
	for j := 0; j < c.n; j++ {
		if c.nonces[j] < c.nonces[i] {
			r++
		}
	}
	return r
}

func c15b2i(b bool) int {
	if b {
		return 1
	}
	return 0
}

func VerifC15_ListOps() {
	strict := vs.Choice("strict", 2) == 1
	n := vs.Choice("n", vs.Param("N")+1)
	c := c15BuildList(strict, n)
	l := c.l
	c15IndexOK(l.txs)
	if vs.Choice("cached", 2) == 1 {
		flat := l.Flatten() // fills the sorted cache
		vs.Assert(len(flat) == n, "Flatten returns everything")
		for k := 1; k < len(flat); k++ {
			vs.Assert(flat[k-1].Nonce() < flat[k].Nonce(), "Flatten sorts by nonce")
		}
	}

	var removed, invalids types.Transactions
	gone := -1 // index of the transaction deleted by Remove
	inRem := make([]bool, n)
	inInv := make([]bool, n)

	switch vs.Choice("op", 5) {
	case 0: // Forward
		th := vs.U64("threshold")
		removed = l.Forward(th)
		for i := 0; i < n; i++ {
			inRem[i] = c.nonces[i] < th
		}
		for k := 1; k < len(removed); k++ {
			vs.Assert(removed[k-1].Nonce() < removed[k].Nonce(), "Forward returns ascending nonces")
		}
	case 1: // Filter
		costLimit := vs.BigU("costlimit", 300)
		gasLimit := vs.U64("gaslimit")
		removed, invalids = l.Filter(costLimit, gasLimit)
		ex := make([]bool, n)
		for i := 0; i < n; i++ {
			over := c.costs[i].Cmp(costLimit) > 0
			heavy := c.gas[i] > gasLimit
			ex[i] = over || heavy
			inRem[i] = ex[i]
		}
		for i := 0; i < n; i++ {
			above := false
			for j := 0; j < n; j++ {
				ej, lt := ex[j], c.nonces[j] < c.nonces[i]
				lower := ej && lt
				above = above || lower
			}
			keep := !ex[i]
			inv := keep && above
			inInv[i] = strict && inv
		}
	case 2: // Cap
		k := vs.Int("cap")
		vs.Assume(k >= 0)
		removed = l.Cap(k)
		for i := 0; i < n; i++ {
			inRem[i] = c.rank(i) >= k
		}
		vs.Assert(l.Len() <= k, "Cap enforces the limit")
	case 3: // Remove
		var target *types.Transaction
		t := vs.Choice("target", n+1)
		if t < n {
			target = c.txs[t]
		} else {
			target = c15Tx(9, vs.U64("foreign"), big.NewInt(0), 0, big.NewInt(0))
		}
		tn := target.Nonce()
		var found bool
		found, invalids = l.Remove(target)
		present := false
		for i := 0; i < n; i++ {
			hit := c.nonces[i] == tn
			present = present || hit
			inInv[i] = strict && c.nonces[i] > tn
		}
		vs.Assert(found == present, "Remove reports whether the nonce was present")
		if found {
			vs.Reach("remove-found")
			for i := 0; i < n; i++ {
				if l.txs.items[c.nonces[i]] != c.txs[i] && c15Count(invalids, c.txs[i]) == 0 {
					vs.Assert(gone < 0, "Remove deletes one transaction")
					gone = i
				}
			}
			vs.Assert(gone >= 0 && c.nonces[gone] == tn, "Remove deletes the transaction with the given nonce")
		} else {
			vs.Assert(len(invalids) == 0, "nothing invalidated when nothing was removed")
			for i := 0; i < n; i++ {
				inInv[i] = false
			}
		}
	case 4: // Ready
		start := vs.U64("start")
		removed = l.Ready(start)
		lowest := uint64(math.MaxUint64)
		for i := 0; i < n; i++ {
			ni := c.nonces[i]
			if ni < lowest {
				lowest = ni
			}
		}
		for i := 0; i < n; i++ {
			run := uint64(c.rank(i)) == c.nonces[i]-lowest // no gap between the lowest nonce and this one
			due := lowest <= start
			inRem[i] = due && run
		}
		for k := 0; k < len(removed); k++ {
			vs.Assert(removed[k].Nonce() == lowest+uint64(k), "Ready returns consecutive ascending nonces from the lowest")
		}
		if len(removed) > 0 {
			vs.Reach("ready-some")
		}
	}

	// partition: every original transaction is in exactly one place, and the
	// returned slices contain nothing else
	left := 0
	lo, hi := uint64(math.MaxUint64), uint64(0)
	for i := 0; i < n; i++ {
		in := l.txs.items[c.nonces[i]] == c.txs[i]
		r, v := c15Count(removed, c.txs[i]), c15Count(invalids, c.txs[i])
		vs.Assert(c15b2i(in)+r+v+c15b2i(gone == i) == 1, "every transaction is kept, returned once, or the one removed")
		if i != gone {
			vs.Assert((r == 1) == inRem[i], "first result holds exactly the transactions the operation must drop")
			vs.Assert((v == 1) == inInv[i], "second result holds exactly the strict-mode invalidated transactions")
		}
		if in {
			left++
			vs.Assert(l.costcap.Cmp(c.costs[i]) >= 0, "costcap covers every remaining transaction")
			vs.Assert(l.gascap >= c.gas[i], "gascap covers every remaining transaction")
			ni := c.nonces[i]
			if ni < lo {
				lo = ni
			}
			if ni > hi {
				hi = ni
			}
		}
	}
	g := 0
	if gone >= 0 {
		g = 1
	}
	vs.Assert(left+len(removed)+len(invalids)+g == n, "results contain only transactions of the list")
	vs.Assert(l.Len() == left, "map holds exactly the kept transactions")
	c15IndexOK(l.txs)
	if strict && left > 0 {
		vs.Assert(hi-lo == uint64(left-1), "strict list stays gap-free")
	}
	if l.txs.cache != nil {
		flat := l.Flatten()
		vs.Assert(len(flat) == left, "cached order has the kept transactions")
		for k := 0; k < len(flat); k++ {
			vs.Assert(l.txs.items[flat[k].Nonce()] == flat[k], "cached order holds current transactions")
			if k > 0 {
				vs.Assert(flat[k-1].Nonce() < flat[k].Nonce(), "cached order is sorted")
			}
		}
	}
	vs.Observe("left", left)
	vs.Observe("removed", len(removed))
	vs.Observe("invalids", len(invalids))
}
