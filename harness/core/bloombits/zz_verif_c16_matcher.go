package bloombits

// C16 harnesses on the matcher's range arithmetic: which sections Matcher.run
// feeds for a block range, and how Matcher.Start turns section bit vectors into
// block numbers.  Under the engine the two goroutines involved are executed
// synchronously at their go statements (suite override "go:...": "inline";
// the buffers are sized so that they never block, a path where they would is
// refused).  Natively the real goroutines run and the harness reads the same
// channels (with a timeout guard).

import (
	"context"
	"time"

	vs "gitlab.com/aquachain/aquachain/internal/verifsym"
)

func c16Session(m *Matcher) *MatcherSession {
	return &MatcherSession{matcher: m, quit: make(chan struct{}), kill: make(chan struct{}), ctx: context.Background()}
}

// c16Size: section size 8 or 16 (structural choice).
func c16Size() uint64 { return uint64(8) << uint(vs.Choice("size", 2)) }

func c16RecvSection(ch chan *partialMatches) (*partialMatches, bool) {
	if vs.Symbolic() {
		pm, ok := <-ch
		return pm, ok
	}
	select {
	case pm, ok := <-ch:
		return pm, ok
	case <-time.After(10 * time.Second):
		vs.Assert(false, "section feed neither delivers nor closes")
	}
	return nil, false
}

func c16RecvBlock(ch chan uint64) (uint64, bool) {
	if vs.Symbolic() {
		n, ok := <-ch
		return n, ok
	}
	select {
	case n, ok := <-ch:
		return n, ok
	case <-time.After(10 * time.Second):
		vs.Assert(false, "match stream neither delivers nor closes")
	}
	return 0, false
}

// VerifC16_SectionFeed: for a criteria-free matcher (run returns the section
// source itself) and every 0 <= begin <= end <= E, Matcher.run feeds exactly
// the sections begin/size .. end/size inclusive, in increasing order, each
// once, each with an all-ones vector of size/8 bytes, and then closes the
// stream.  In particular the section holding block `end` is always fed.
func VerifC16_SectionFeed() {
	size := c16Size()
	maxEnd := uint64(vs.Param("E"))
	begin, end := vs.U64("begin"), vs.U64("end")
	vs.Assume(begin <= end && end <= maxEnd)
	m := NewMatcher(size, nil)
	session := c16Session(m)
	sink := m.run(begin, end, int(maxEnd/8)+2, session)

	want := begin / size
	n := 0
	for {
		pm, ok := c16RecvSection(sink)
		if !ok {
			break
		}
		good := c16And(pm.section == want, len(pm.bitset) == int(size/8))
		for _, b := range pm.bitset {
			good = c16And(good, b == 0xff)
		}
		vs.Assert(good, "sections are fed in order, each once, with an all-ones vector of size/8 bytes")
		want++
		n++
		vs.Assert(n <= int(maxEnd/8)+1, "section feed terminates")
	}
	vs.Assert(want == end/size+1, "every section from begin/size to end/size inclusive is fed (the one holding block end too)")
	vs.Observe("sections", n)
	if !vs.Symbolic() {
		session.Close()
	}
}

// VerifC16_MatchBlocks: Matcher.Start on a criteria-free matcher reports
// exactly the blocks begin..end, each once, in increasing order, and closes
// the result stream: the clipping of the first and last section to
// [begin, end] and the bit -> block translation lose and invent nothing.
func VerifC16_MatchBlocks() {
	size := c16Size()
	maxEnd := uint64(vs.Param("E"))
	begin, end := vs.U64("begin"), vs.U64("end")
	vs.Assume(begin <= end && end <= maxEnd)
	m := NewMatcher(size, nil)
	results := make(chan uint64, int(maxEnd)+2)
	session, err := m.Start(context.Background(), begin, end, results)
	vs.Assert(err == nil && session != nil, "Start succeeds on an idle matcher")

	want := begin
	n := 0
	for {
		num, ok := c16RecvBlock(results)
		if !ok {
			break
		}
		vs.Assert(num == want, "blocks are reported in increasing order, each once")
		want++
		n++
		vs.Assert(n <= int(maxEnd)+1, "match stream terminates")
	}
	vs.Assert(want == end+1, "every block of [begin, end] is reported")
	vs.Observe("blocks", n)
	if !vs.Symbolic() {
		session.Close()
	}
}

// VerifC16RunStub stands for Matcher.run in VerifC16_MatchBits (engine only):
// the sections begin/size..end/size with arbitrary (symbolic) bit vectors, as
// the sub-matcher pipeline would deliver them (sections with an all-zero
// vector are dropped by the pipeline: bitutil.TestBytes; kept here, harmless).
var c16StubBits [][]byte

func VerifC16RunStub(m *Matcher, begin, end uint64, buffer int, session *MatcherSession) chan *partialMatches {
	ch := make(chan *partialMatches, buffer)
	c16StubBits = nil
	for s := begin / m.sectionSize; s <= end/m.sectionSize; s++ {
		bits := vs.BytesN("bits", int(m.sectionSize/8))
		c16StubBits = append(c16StubBits, bits)
		ch <- &partialMatches{section: s, bitset: bits}
	}
	close(ch)
	return ch
}

// VerifC16_MatchBits (engine only, Matcher.run replaced by VerifC16RunStub):
// with arbitrary section bit vectors, Matcher.Start reports exactly the blocks
// i of [begin, end] whose bit (byte (i-sectionStart)/8, mask 1<<(7-i%8)) is
// set, in increasing order: the skip-empty-byte shortcut and the clipping to
// [begin, end] lose and invent nothing.  begin and end are concrete per path
// (structural choice) so that the expected list is one expression per block.
func VerifC16_MatchBits() {
	size := c16Size()
	maxEnd := vs.Param("E")
	end := uint64(vs.Choice("end", maxEnd+1))
	begin := uint64(vs.Choice("begin", int(end)+1))
	m := NewMatcher(size, nil)
	results := make(chan uint64, maxEnd+2)
	session, err := m.Start(context.Background(), begin, end, results)
	vs.Assert(err == nil && session != nil, "Start succeeds on an idle matcher")

	// drain (the number of matches depends on the bit vectors: the engine forks on each bit tested)
	var got []uint64
	for {
		num, ok := c16RecvBlock(results)
		if !ok {
			break
		}
		got = append(got, num)
		vs.Assert(len(got) <= maxEnd+1, "match stream terminates")
	}
	k := 0
	for i := begin; i <= end; i++ {
		sec := i/size - begin/size
		bit := c16StubBits[sec][(i-(i/size)*size)/8]&(1<<(7-i%8)) != 0
		has := k < len(got) && got[k] == i
		vs.Assert(bit == has, "block i is reported iff its bit is set in the section vector")
		if has {
			k++
		}
	}
	vs.Assert(k == len(got), "nothing outside [begin, end] is reported")
}
