package bloombits

// C16 harness (core/bloombits part): the bloom-bits index addresses exactly
// the bits the log bloom sets.
// Executed symbolically by /verif/engine; compiled natively for replay.
// Keccak256 is an uninterpreted function under the engine (see core/types
// zz_verif_c16.go); natively the real hash runs.

import (
	"gitlab.com/aquachain/aquachain/core/types"
	vs "gitlab.com/aquachain/aquachain/internal/verifsym"
)

func c16And(a, b bool) bool {
	if !b {
		a = false
	}
	return a
}

func c16Or(a, b bool) bool {
	if b {
		a = true
	}
	return a
}

// VerifC16_IndexConsistency: for an arbitrary item (20-byte address or 32-byte
// topic) with an arbitrary digest, put the bloom types.bloom9 computes for it
// at an arbitrary position pos of a section of S header blooms and rotate the
// section with the real Generator.  Then, for every bloom bit i and every block
// j of the section, bit j of bit-vector i (read with the convention of
// Matcher.Start: byte j/8, mask 1<<(7-j%8)) is set iff j == pos and i is one of
// the three indexes calcBloomIndexes computes for the item.  So the matcher
// looks at exactly the bits the bloom sets: an indexed lookup has no false
// negative, and the three vectors it ANDs are the right ones.
func VerifC16_IndexConsistency() {
	var item []byte
	if vs.Choice("kind", vs.Param("kinds")) == 0 {
		item = vs.BytesN("item", 32)
	} else {
		item = vs.BytesN("item", 20)
	}
	idxs := calcBloomIndexes(item)
	bloom := types.BytesToBloom(types.Bloom9(item).Bytes())

	sections := uint(vs.Param("S"))
	pos := uint(vs.Choice("pos", int(sections)))
	g, err := NewGenerator(sections)
	vs.Assert(err == nil && g != nil, "NewGenerator accepts a multiple of 8")
	for j := uint(0); j < sections; j++ {
		var b types.Bloom
		if j == pos {
			b = bloom
		}
		vs.Assert(g.AddBloom(j, b) == nil, "AddBloom accepts consecutive indexes")
	}
	vs.Assert(g.AddBloom(sections, bloom) != nil, "AddBloom rejects a bloom beyond the section")

	// per-bit results, conjoined as a balanced tree (a 16k-deep chain of
	// conjunctions is quadratic for the solver's front end)
	oks := make([]bool, 0, types.BloomBitLength)
	for i := 0; i < types.BloomBitLength; i++ {
		ok := true
		// Bitset() refuses bit indexes >= sections (see report: the bound should be
		// BloomBitLength); read those vectors directly so that every bit is checked.
		vec := g.blooms[i]
		if uint(i) < sections || vs.Param("bitset") != 0 {
			if uint(i) >= sections {
				vs.Known("C16-bitset-rejects-bits-above-section-size", true)
			}
			v, err := g.Bitset(uint(i))
			vs.Assert(err == nil && len(v) == int(sections/8), "Bitset returns the vector of a complete section")
			vec = v
		}
		isIdx := c16Or(c16Or(uint(i) == idxs[0], uint(i) == idxs[1]), uint(i) == idxs[2])
		for j := uint(0); j < sections; j++ {
			set := vec[j/8]&(1<<(7-j%8)) != 0
			want := isIdx
			if j != pos {
				want = false
			}
			ok = c16And(ok, set == want)
		}
		oks = append(oks, ok)
	}
	for len(oks) > 1 {
		var next []bool
		for k := 0; k+1 < len(oks); k += 2 {
			next = append(next, c16And(oks[k], oks[k+1]))
		}
		if len(oks)%2 == 1 {
			next = append(next, oks[len(oks)-1])
		}
		oks = next
	}
	// (one obligation: every query of this harness carries the whole 2048-iteration transcript)
	inRange := c16And(c16And(idxs[0] < types.BloomBitLength, idxs[1] < types.BloomBitLength), idxs[2] < types.BloomBitLength)
	vs.Assert(c16And(oks[0], inRange), "bit-vector i has bit j set iff block j's bloom has bit i; calcBloomIndexes names exactly the bits bloom9 sets (all below 2048)")
}
