package core

// Import-path part of the C02/C03/C04 fixture: what the real insertChain2 needs
// besides the chain store - a consensus engine that accepts every header, a
// block processor that yields the fixture's receipts, and (engine only) stubs
// for the three leaf hashers the real BlockValidator calls.

import (
	"encoding/binary"
	"math/big"

	"gitlab.com/aquachain/aquachain/common"
	"gitlab.com/aquachain/aquachain/consensus"
	"gitlab.com/aquachain/aquachain/core/state"
	"gitlab.com/aquachain/aquachain/core/types"
	"gitlab.com/aquachain/aquachain/core/vm"
	"gitlab.com/aquachain/aquachain/rpc"
)

type c02Engine struct{}

func (c02Engine) Name() string { return "c02fake" }
func (c02Engine) VerifyHeader(chain consensus.ChainReader, header *types.Header, seal bool) error {
	return nil
}
func (c02Engine) VerifyHeaders(chain consensus.ChainReader, headers []*types.Header, seals []bool) (chan<- struct{}, <-chan error) {
	abort := make(chan struct{})
	results := make(chan error, len(headers))
	for range headers {
		results <- nil
	}
	return abort, results
}
func (c02Engine) VerifyUncles(chain consensus.ChainReader, block *types.Block) error  { return nil }
func (c02Engine) VerifySeal(chain consensus.ChainReader, header *types.Header) error { return nil }
func (c02Engine) Prepare(chain consensus.ChainReader, header *types.Header) error    { return nil }
func (c02Engine) Finalize(chain consensus.ChainReader, header *types.Header, st *state.StateDB, txs []*types.Transaction,
	uncles []*types.Header, receipts []*types.Receipt) (*types.Block, error) {
	return nil, nil
}
func (c02Engine) Seal(chain consensus.ChainReader, block *types.Block, stop <-chan struct{}) (*types.Block, error) {
	return block, nil
}
func (c02Engine) CalcDifficulty(chain consensus.ChainReader, time uint64, parent, grandparent *types.Header) *big.Int {
	return new(big.Int).Set(parent.Difficulty)
}
func (c02Engine) APIs(chain consensus.ChainReader) []rpc.API { return nil }

// c02Processor: "executing" a fixture block yields one plain receipt per
// transaction and the state whose root the header names.
type c02Processor struct{ sdb *c02StateDB }

func (p *c02Processor) Process(block *types.Block, statedb *state.StateDB, cfg vm.Config) (types.Receipts, []*types.Log, uint64, error) {
	p.sdb.next = block.Root()
	return c02Receipts(block), nil, 0, nil
}

// --- engine-only stubs (suite overrides) for the hashers of BlockValidator ---

// c02DeriveSha replaces types.DeriveSha (trie root of a list): identity of a
// transaction list = the sequence of its nonces, of a receipt list = its length.
func c02DeriveSha(list types.DerivableList) (h common.Hash) {
	switch l := list.(type) {
	case types.Transactions:
		h[0], h[1] = 0xd5, byte(len(l))
		for i, tx := range l {
			if i < 3 {
				binary.BigEndian.PutUint64(h[2+8*i:], tx.Nonce())
			}
		}
	case types.Receipts:
		h[0], h[1] = 0xd6, byte(len(l))
	default:
		panic("c02DeriveSha: type outside the fixture")
	}
	return h
}

// c02UncleHash replaces types.CalcUncleHash (the fixture has no uncles).
func c02UncleHash(uncles []*types.Header) (h common.Hash) {
	if len(uncles) != 0 {
		panic("c02UncleHash: uncles are outside the fixture")
	}
	h[0] = 0xc1
	return h
}

// c02CreateBloom replaces types.CreateBloom (the fixture's receipts carry no logs).
func c02CreateBloom(receipts types.Receipts) (b types.Bloom) {
	for _, r := range receipts {
		if len(r.Logs) != 0 {
			panic("c02CreateBloom: logs are outside the fixture")
		}
	}
	return b
}
