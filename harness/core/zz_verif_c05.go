package core

// C05 lemmas L2 (Transfer/CanTransfer conserve the sum) and L3 (a transaction
// never increases the sum of balances).

import (
	"math/big"

	"gitlab.com/aquachain/aquachain/common"
	"gitlab.com/aquachain/aquachain/core/types"
	"gitlab.com/aquachain/aquachain/core/vm"
	vs "gitlab.com/aquachain/aquachain/internal/verifsym"
)

// VerifC05_Transfer: core.Transfer guarded by core.CanTransfer moves value without creating or destroying it.
func VerifC05_Transfer() {
	db := c06NewDB(3)
	self := vs.Choice("self", 2) == 1
	from, to := c06Addrs[0], c06Addrs[1]
	if self {
		to = from
	}
	amount := vs.Big("amount")
	vs.Assume(amount.Sign() >= 0) // amounts are transaction values or 256-bit stack words
	var bal0 []*big.Int
	for _, a := range db.accts {
		bal0 = append(bal0, a.bal)
	}
	sum0 := db.sum()
	can := CanTransfer(db, from, amount)
	vs.Assert(can == (bal0[0].Cmp(amount) >= 0), "CanTransfer iff balance >= amount")
	if !can {
		vs.Reach("refused")
		return
	}
	vs.Reach("moved")
	Transfer(db, from, to, amount)
	vs.Assert(db.sum().Cmp(sum0) == 0, "sum of balances unchanged")
	vs.Assert(db.nonNegative(), "no balance below zero")
	for i, a := range db.accts {
		want := new(big.Int).Set(bal0[i])
		if !self && i == 0 {
			want.Sub(want, amount)
		}
		if !self && i == 1 {
			want.Add(want, amount)
		}
		vs.Observe("bal", a.bal)
		vs.Assert(a.bal.Cmp(want) == 0, "sender - amount, recipient + amount, bystander unchanged; self-transfer is a no-op")
	}
}

// calleeEffects: what a contract frame may do to balances, as established by the
// frame and instruction lemmas (L4/L5): move part of its own balance to any
// account (CALL with value, guarded by CanTransfer), or self-destruct to a
// beneficiary -- which destroys the balance when the beneficiary is itself.
func (tr *c06Tracer) calleeEffects(self common.Address) {
	tr.self = self
	db := tr.db
	// variants, most interesting first (the tier parameter F takes a prefix):
	// kind 0 none, 1 pay slot k, 2 self-destruct to slot k, 3 self-destruct to itself
	variants := [][2]int{{0, 0}, {3, 0}, {1, 0}, {2, 2}, {1, 2}, {2, 0}, {1, 1}, {2, 1}}
	v := variants[vs.Choice("callee.effect", vs.Param("F"))]
	dst := c06Addrs[v[1]]
	switch v[0] {
	case 1: // pay somebody
		amt := vs.Big("callee.pay")
		vs.Assume(amt.Sign() >= 0)
		if CanTransfer(db, self, amt) {
			Transfer(db, self, dst, amt)
		}
	case 2: // self-destruct to another account
		vs.Assume(dst != self)
		bal := db.GetBalance(self)
		db.AddBalance(dst, bal)
		db.Suicide(self)
	case 3: // self-destruct to itself: the balance is destroyed
		bal := db.GetBalance(self)
		tr.burned = new(big.Int).Set(bal)
		db.AddBalance(self, bal)
		db.Suicide(self)
	}
}

// c05SumCheck: the transaction changed the sum of balances by exactly -burned (burned >= 0,
// and 0 unless a contract self-destructed into itself and the frame was not rolled back).
func c05SumCheck(t *c06Tx, tr *c06Tracer, sum0 *big.Int, used uint64, failedRolledBack bool) {
	n := len(t.db.log)
	// the gas money is conserved (the nonlinear step, see C06): prepayment = refund + fee
	vs.Assert(n >= 3, "buyGas, refund, fee")
	vs.Assert(new(big.Int).SetUint64(t.limit).Cmp(new(big.Int).Add(new(big.Int).SetUint64(t.gasLeft), new(big.Int).SetUint64(used))) == 0, "limit = remaining gas + gasUsed")
	vs.Assert(t.db.log[n-2].amount.Cmp(new(big.Int).Mul(new(big.Int).SetUint64(t.gasLeft), t.price)) == 0, "sender refund = remaining gas * price")
	vs.Assert(t.db.log[n-1].amount.Cmp(new(big.Int).Mul(new(big.Int).SetUint64(used), t.price)) == 0, "coinbase credit = gasUsed*price")
	vs.Assert(t.db.log[0].amount.Cmp(new(big.Int).Add(t.db.log[n-2].amount, t.db.log[n-1].amount)) == 0, "prepayment = refund + fee")
	sum1 := t.db.sum()
	vs.Observe("sum", sum1)
	vs.Assert(sum1.Cmp(sum0) <= 0, "a transaction never increases the sum of balances")
	burned := new(big.Int)
	if tr.burned != nil && !failedRolledBack {
		burned = tr.burned
		vs.Reach("burned")
	}
	vs.Assert(new(big.Int).Add(sum1, burned).Cmp(sum0) == 0, "sum unchanged except for value destroyed by a self-destruct to self")
	vs.Assert(t.db.nonNegative(), "no balance ever below zero")
}

// VerifC05_CallSum: L3 for message calls (real TransitionDb, EVM.Call, interpreter; arbitrary callee).
func VerifC05_CallSum() {
	t := c06Setup(3, vs.Param("N"))
	prog := c06Programs[vs.Choice("program", vs.Param("P"))]
	t.db.find(t.to).code = prog
	if prog != nil {
		vs.Assume(t.db.find(t.to).exist)
	}
	tr := &c06Tracer{db: t.db, effects: true}
	if len(prog) > 0 {
		tr.last = uint64(len(prog) - 1)
	}
	sum0 := t.db.sum()
	evm := t.evm(vm.Config{Debug: true, Tracer: tr})
	to := t.to
	msg := types.NewMessage(t.sender, &to, t.nonce, t.value, t.limit, t.price, t.data, true)
	gp := GasPool(t.pool)
	st := NewStateTransition(evm, msg, &gp)
	_, used, failed, err := st.TransitionDb()
	t.gasLeft = st.gas
	if err != nil {
		vs.Reach("reject") // block invalid: the state is discarded
		return
	}
	vs.Reach("accept")
	c05SumCheck(t, tr, sum0, used, failed)
}

// VerifC05_CreateSum: L3 for contract creations (real TransitionDb, EVM.Create, interpreter).
func VerifC05_CreateSum() {
	sum0 := new(big.Int)
	c := c06RunCreateSum(sum0)
	if c.err != nil {
		vs.Reach("reject")
		return
	}
	vs.Reach("accept")
	kept := !c.failed || (!c.homest && c.tr.log.err == vm.ErrCodeStoreOutOfGas)
	c05SumCheck(c.t, c.tr, sum0, c.used, !kept)
}
