package core

// C16 harness: a bloom-bits section is only committed for a hash-linked run of
// headers.
//
// The bloom-bits index of section s is built by ChainIndexer.processSection: it
// resets the backend, feeds it the canonical headers of the section one by one
// (backend.Process) and commits.  The chain mutex is NOT held meanwhile, so the
// canonical number->hash table can change between any two reads (reorg).  A
// log query answered through the index is exact only if the bit vectors stored
// under the section head h describe the blocks on the chain that ends in h.
// Hence the lemma decided here:
//
//   processSection(s, lastHead) returns (head, nil) only if the headers it
//   handed to backend.Process, p[0..S-1], after exactly one Reset(s, .), are
//     - numbered s*S .. s*S+S-1 in this order,
//     - hash linked: p[i].ParentHash == Hash(p[i-1]) for i > 0, and for s > 0
//       p[0].ParentHash == lastHead (the head the previous section was stored
//       under),
//     - head == Hash(p[S-1]), and Commit ran once, after the last Process;
//   in every other case it returns an error (the caller drops the attempt).
//
// The database is the environment: every read of the canonical table returns
// "absent" or an ARBITRARY 32-byte hash, independently of all earlier reads;
// the header table holds K headers per block number whose ParentHash fields are
// arbitrary 32-byte strings, and answers a read of (number, hash) with the
// stored header of that number whose hash is the one asked for (if any).
//
// Header.Hash is an uninterpreted function of the header's fields under the
// engine (types.rlpHash is redirected to VerifC16SectionRlpHash, the RLP codec
// to the handle table of the C02 fixture).  Natively nothing is replaced; the
// value the hash function takes on each stored header is a named input
// ("hash"), and the native run re-links every 32-byte input that equals such a
// value to the real keccak hash of that header, so counterexamples and sampled
// paths replay on the real code.

import (
	"encoding/binary"
	"errors"
	"math/big"

	"gitlab.com/aquachain/aquachain/aquadb"
	"gitlab.com/aquachain/aquachain/common"
	"gitlab.com/aquachain/aquachain/common/log"
	"gitlab.com/aquachain/aquachain/core/types"
	vs "gitlab.com/aquachain/aquachain/internal/verifsym"
	"gitlab.com/aquachain/aquachain/params"
	"gitlab.com/aquachain/aquachain/rlp"
)

// VerifC16SectionRlpHash stands for core/types.rlpHash under the engine: an
// uninterpreted function of the hash version and every header field.
func VerifC16SectionRlpHash(version byte, x interface{}) (h common.Hash) {
	hd, ok := x.(*types.Header)
	if !ok {
		panic("VerifC16SectionRlpHash: only headers are hashed in this harness")
	}
	var num, gas [8]byte
	binary.BigEndian.PutUint64(num[:], hd.Number.Uint64())
	binary.BigEndian.PutUint64(gas[:], hd.GasLimit)
	var used [8]byte
	binary.BigEndian.PutUint64(used[:], hd.GasUsed)
	out := vs.UF("c16section.headerhash", 32, []byte{version},
		hd.ParentHash[:], hd.UncleHash[:], hd.Coinbase[:], hd.Root[:], hd.TxHash[:], hd.ReceiptHash[:],
		hd.Bloom[:], hd.Difficulty.Bytes(), num[:], gas[:], used[:], hd.Time.Bytes(), hd.Extra,
		hd.MixDigest[:], hd.Nonce[:])
	copy(h[:], out)
	return h
}

var c16sErrNotFound = errors.New("not found")

// c16sHdr is one header of the header table.
type c16sHdr struct {
	h     *types.Header
	blob  []byte      // stored encoding
	id    common.Hash // its hash as the code under test computes it
	ghost common.Hash // the input naming that hash value
}

// c16sDB is the chain database as the indexer sees it while the chain moves.
type c16sDB struct {
	first  uint64
	levels [][]*c16sHdr // levels[l] = stored headers of block first+l
}

func c16sHash(name string) (h common.Hash) {
	copy(h[:], vs.BytesN(name, common.HashLength))
	return h
}

// relink (native runs only): a 32-byte input that the solver chose equal to
// the hash value of a stored header becomes the real hash of that header.
func (d *c16sDB) relink(x common.Hash) common.Hash {
	if vs.Symbolic() {
		return x
	}
	for _, lv := range d.levels {
		for _, e := range lv {
			if x == e.ghost {
				return e.id
			}
		}
	}
	return x
}

func (d *c16sDB) Get(key []byte) ([]byte, error) {
	if len(key) == 10 && key[0] == 'h' && key[9] == 'n' {
		// canonical number -> hash: whatever the chain says at this moment
		if vs.Choice("canon.absent", 2) == 1 {
			return nil, c16sErrNotFound
		}
		c := d.relink(c16sHash("canon.hash"))
		return c.Bytes(), nil
	}
	if len(key) == 41 && key[0] == 'h' {
		// (number, hash) -> header: only a header that has this number and hash
		n := binary.BigEndian.Uint64(key[1:9])
		want := common.BytesToHash(key[9:])
		if n >= d.first && n < d.first+uint64(len(d.levels)) {
			for _, e := range d.levels[n-d.first] {
				if e.id == want {
					return common.CopyBytes(e.blob), nil
				}
			}
		}
		return nil, c16sErrNotFound
	}
	panic("c16sDB: database read outside the harness model")
}

func (d *c16sDB) Has(key []byte) (bool, error) {
	v, _ := d.Get(key)
	return v != nil, nil
}
func (d *c16sDB) Put(key, value []byte) error { panic("c16sDB: the indexer wrote to the chain database") }
func (d *c16sDB) Delete(key []byte) error     { panic("c16sDB: the indexer wrote to the chain database") }
func (d *c16sDB) Close()                      {}
func (d *c16sDB) NewBatch() aquadb.Batch      { panic("c16sDB: the indexer wrote to the chain database") }

// c16sBackend records what the indexer feeds the index generator.
type c16sBackend struct {
	resets       int
	resetSection uint64
	resetHead    common.Hash
	procs        []*types.Header
	hashes       []common.Hash
	commits      int
	orderOK      bool
}

func (b *c16sBackend) Reset(section uint64, prevHead common.Hash) error {
	if len(b.procs) != 0 || b.commits != 0 {
		b.orderOK = false
	}
	b.resets++
	b.resetSection, b.resetHead = section, prevHead
	return nil
}

func (b *c16sBackend) Process(header *types.Header) {
	if b.resets != 1 || b.commits != 0 {
		b.orderOK = false
	}
	b.procs = append(b.procs, types.CopyHeader(header))
	b.hashes = append(b.hashes, header.Hash())
}

func (b *c16sBackend) Commit() error {
	b.commits++
	return nil
}

type c16sLog struct{}

func (c16sLog) New(ctx ...interface{}) log.LoggerI   { return c16sLog{} }
func (c16sLog) GetHandler() log.Handler              { return nil }
func (c16sLog) SetHandler(h log.Handler)             {}
func (c16sLog) Trace(msg string, ctx ...interface{}) {}
func (c16sLog) Debug(msg string, ctx ...interface{}) {}
func (c16sLog) Info(msg string, ctx ...interface{})  {}
func (c16sLog) Warn(msg string, ctx ...interface{})  {}
func (c16sLog) Error(msg string, ctx ...interface{}) {}
func (c16sLog) Crit(msg string, ctx ...interface{})  {}

// VerifC16_SectionContinuity: see the lemma at the top of the file.
// Params: S = section size, K = stored headers per block number (forks),
// N = section numbers 0..N-1.
func VerifC16_SectionContinuity() {
	S, K := vs.Param("S"), vs.Param("K")
	section := uint64(vs.Choice("section", vs.Param("N")))
	first := section * uint64(S)
	// no hard fork scheduled: every header is hashed with version 1 (keccak)
	cfg := &params.ChainConfig{ChainId: big.NewInt(3), HF: params.ForkMap{}}

	// head under which the previous section was stored (section 0: none)
	var lastHead common.Hash
	if section > 0 {
		lastHead = c16sHash("lastHead")
	}

	// header table: K headers per number, arbitrary parent hashes
	db := &c16sDB{first: first}
	for l := 0; l < S; l++ {
		db.levels = append(db.levels, nil)
		for k := 0; k < K; k++ {
			h := &types.Header{
				Number:     new(big.Int).SetUint64(first + uint64(l)),
				Difficulty: big.NewInt(int64(10 + k)),
				Time:       big.NewInt(int64(100 + l)),
				GasLimit:   5000000,
				Extra:      []byte{byte(k)},
			}
			binary.BigEndian.PutUint64(h.Nonce[:], uint64(1+l*K+k))
			h.ParentHash = db.relink(c16sHash("parent"))
			h.Version = cfg.GetBlockVersion(h.Number)
			e := &c16sHdr{h: h, id: h.Hash(), ghost: c16sHash("hash")}
			if vs.Symbolic() {
				vs.Assume(e.id == e.ghost)
			}
			// the hash function does not collide on the values involved and no
			// stored header hashes to the zero hash ("unknown") or to the
			// previous section's head (which would be a hash cycle)
			vs.Assume(e.ghost != common.Hash{})
			vs.Assume(e.ghost != lastHead)
			for _, lv := range db.levels {
				for _, o := range lv {
					vs.Assume(e.ghost != o.ghost)
				}
			}
			blob, err := rlp.EncodeToBytes(h)
			if err != nil {
				panic("c16s: header does not encode")
			}
			e.blob = blob
			db.levels[l] = append(db.levels[l], e)
		}
	}

	b := &c16sBackend{orderOK: true}
	c := &ChainIndexer{
		chainDb:     db,
		indexDb:     c02NewDB(),
		backend:     b,
		config:      cfg,
		sectionSize: uint64(S),
		log:         c16sLog{},
	}
	head, err := c.processSection(section, lastHead)

	vs.Observe("ok", err == nil)
	vs.Observe("processed", len(b.procs))
	if err != nil {
		vs.Reach("reject")
		if len(b.procs) > 0 {
			vs.Reach("reject-midsection")
		}
		return
	}
	vs.Assert(b.resets == 1 && b.resetSection == section, "accepted section: backend reset once, for this section")
	vs.Assert(b.orderOK && b.commits == 1, "accepted section: Reset, then every Process, then one Commit")
	vs.Assert(len(b.procs) == S, "accepted section: exactly sectionSize headers processed")
	for i, p := range b.procs {
		vs.Assert(p.Number.Uint64() == first+uint64(i), "accepted section: headers numbered section*size+i in order")
		if i == 0 {
			if section > 0 {
				vs.Assert(p.ParentHash == lastHead, "accepted section: first header is the child of the previous section's head")
			}
		} else {
			vs.Assert(p.ParentHash == b.hashes[i-1], "accepted section: each processed header is the child of the one processed before it")
		}
	}
	vs.Assert(head == b.hashes[len(b.hashes)-1], "accepted section: returned head is the hash of the last processed header")
	vs.Reach("accept")
}
