package main

import (
	"fmt"
	"go/constant"
	"go/token"
	"go/types"
	"runtime"
	"strings"
	"sync"

	"golang.org/x/tools/go/ssa"
)

type deferred struct {
	fn   Value
	args []Value
	call *ssa.CallCommon
	pos  token.Pos
}

type frame struct {
	fn        *ssa.Function
	info      *fnInfo
	env       []Value
	block     *ssa.BasicBlock
	prev      *ssa.BasicBlock
	cur       ssa.Instruction
	defers    []*deferred
	result    Value
	panicking bool
	panic     *goPanic
	symCount  map[*ssa.BasicBlock]int
	caller    *frame
	locals    []Value
}

type fnInfo struct {
	index map[ssa.Value]int
	n     int
	name  string
}

var fnInfos sync.Map

func infoOf(fn *ssa.Function) *fnInfo {
	if v, ok := fnInfos.Load(fn); ok {
		return v.(*fnInfo)
	}
	fi := &fnInfo{index: map[ssa.Value]int{}, name: fn.String()}
	for _, p := range fn.Params {
		fi.index[p] = fi.n
		fi.n++
	}
	for _, fv := range fn.FreeVars {
		fi.index[fv] = fi.n
		fi.n++
	}
	for _, b := range fn.Blocks {
		for _, in := range b.Instrs {
			if v, ok := in.(ssa.Value); ok {
				fi.index[v] = fi.n
				fi.n++
			}
		}
	}
	v, _ := fnInfos.LoadOrStore(fn, fi)
	return v.(*fnInfo)
}

func (p *Path) get(fr *frame, v ssa.Value) Value {
	switch x := v.(type) {
	case *ssa.Const:
		return p.constValue(x)
	case *ssa.Global:
		return Ptr{Obj: p.global(x)}
	case *ssa.Function:
		return &Closure{Fn: x}
	case *ssa.Builtin:
		return &Closure{Built: x}
	}
	ix, ok := fr.info.index[v]
	if !ok {
		panic(p.abort("internal: unknown ssa value " + v.Name()))
	}
	r := fr.env[ix]
	if r == nil {
		panic(p.abort("internal: use of unset ssa value " + v.Name() + " in " + fr.fn.String()))
	}
	return r
}

func (p *Path) set(fr *frame, v ssa.Value, val Value) {
	fr.env[fr.info.index[v]] = val
}

func (p *Path) constValue(c *ssa.Const) Value {
	t := c.Type()
	if c.Value == nil {
		return p.zero(t)
	}
	if b, ok := t.Underlying().(*types.Basic); ok {
		switch {
		case b.Info()&types.IsBoolean != 0:
			return BoolT(constant.BoolVal(c.Value))
		case b.Info()&types.IsInteger != 0:
			w, _ := intWidth(b)
			bi, ok := constant.Val(constant.ToInt(c.Value)).(interface{})
			_ = ok
			switch v := bi.(type) {
			case int64:
				return BVConstI(v, w)
			default:
				// *big.Int
				return BVConst(bigOf(c.Value), w)
			}
		case b.Info()&types.IsFloat != 0:
			f, _ := constant.Float64Val(c.Value)
			return FloatV(f)
		case b.Info()&types.IsString != 0:
			if c.Value.Kind() == constant.String {
				return StrV(constant.StringVal(c.Value))
			}
			return StrV(c.Value.ExactString())
		}
	}
	return Opaque{"const " + c.String()}
}

// ---------------------------------------------------------------------------

const maxDepth = 400

func (p *Path) callFunction(fn *ssa.Function, args []Value, env []Value) (res Value) {
	fi := infoOf(fn)
	if p.hr != nil {
		if ov, ok := p.hr.overrides[fi.name]; ok && p.bypass[fi.name] == 0 {
			return ov(p, fn, args)
		}
		if p.hr.prefixOverrides != nil {
			for _, po := range p.hr.prefixOverrides {
				if strings.HasPrefix(fi.name, po.prefix) {
					return po.fn(p, fn, args)
				}
			}
		}
	}
	if in, ok := intrinsics[fi.name]; ok {
		return in(p, fn, args)
	}
	if fn.Blocks == nil {
		if in := intrinsicByPattern(fi.name); in != nil {
			return in(p, fn, args)
		}
		panic(p.abort("external function without model: " + fi.name))
	}
	if reflGuard(fn) {
		panic(p.abort("reflect function without model: " + fi.name))
	}
	if p.fnSeen != nil {
		p.fnSeen[fn] = true
	}
	if p.depth > maxDepth {
		panic(pathAbort{abBound, "call depth exceeded" + p.where()})
	}
	fr := &frame{fn: fn, info: fi, env: make([]Value, fi.n)}
	if len(p.frames) > 0 {
		fr.caller = p.frames[len(p.frames)-1]
	}
	for i, prm := range fn.Params {
		fr.env[fi.index[prm]] = args[i]
	}
	for i, fv := range fn.FreeVars {
		fr.env[fi.index[fv]] = env[i]
	}
	p.depth++
	p.frames = append(p.frames, fr)
	nframes := len(p.frames)
	defer func() {
		p.depth--
		p.frames = p.frames[:nframes-1]
	}()
	fr.block = fn.Blocks[0]
	for fr.block != nil {
		p.runFrame(fr)
	}
	return fr.result
}

func (p *Path) runFrame(fr *frame) {
	defer func() {
		if fr.block == nil {
			return
		}
		r := recover()
		gp, ok := r.(*goPanic)
		if !ok {
			if re, isRt := r.(runtime.Error); isRt {
				buf := make([]byte, 4096)
				n := runtime.Stack(buf, false)
				panic(pathAbort{abUnsupported, "engine internal error: " + re.Error() + p.where() + "\n" + string(buf[:n])})
			}
			panic(r)
		}
		p.frames = p.frames[:indexOfFrame(p.frames, fr)+1]
		fr.panicking = true
		fr.panic = gp
		p.runDefers(fr)
		fr.block = fr.fn.Recover
		if fr.block == nil {
			// recovered but no recover block: return zero results
			fr.result = p.zeroResults(fr.fn)
		}
	}()
	for {
		if p.hr != nil && p.hr.cutBlocks != nil {
			if cb, ok := p.hr.cutBlocks[fr.block]; ok && fr.prev != nil && fr.prev.Index >= fr.block.Index {
				cb(p, fr)
			}
		}
	instrs:
		for _, in := range fr.block.Instrs {
			fr.cur = in
			p.steps++
			if p.steps > p.maxSteps() {
				panic(pathAbort{abBudget, "instruction budget exceeded" + p.where()})
			}
			var k cont
			if p.hr.tmpl {
				k = p.visitTolerant(fr, in)
			} else {
				k = p.visit(fr, in)
			}
			switch k {
			case kReturn:
				return
			case kJump:
				break instrs
			}
		}
	}
}

func indexOfFrame(fs []*frame, fr *frame) int {
	for i := len(fs) - 1; i >= 0; i-- {
		if fs[i] == fr {
			return i
		}
	}
	return len(fs) - 1
}

func (p *Path) zeroResults(fn *ssa.Function) Value {
	res := fn.Signature.Results()
	switch res.Len() {
	case 0:
		return nil
	case 1:
		return p.zero(res.At(0).Type())
	}
	return p.zero(res)
}

func (p *Path) runDefers(fr *frame) {
	for len(fr.defers) > 0 {
		d := fr.defers[len(fr.defers)-1]
		fr.defers = fr.defers[:len(fr.defers)-1]
		p.runDefer(fr, d)
	}
	if fr.panicking {
		panic(fr.panic)
	}
}

func (p *Path) runDefer(fr *frame, d *deferred) {
	ok := false
	defer func() {
		if !ok {
			r := recover()
			if gp, isGo := r.(*goPanic); isGo {
				fr.panicking = true
				fr.panic = gp
				return
			}
			panic(r)
		}
	}()
	p.callValue(fr, d.fn, d.args, d.call)
	ok = true
}

type cont int

const (
	kNext cont = iota
	kReturn
	kJump
)

func (p *Path) visit(fr *frame, instr ssa.Instruction) cont {
	switch in := instr.(type) {
	case *ssa.DebugRef:
	case *ssa.UnOp:
		p.set(fr, in, p.unop(fr, in))
	case *ssa.BinOp:
		p.set(fr, in, p.binop(in.Op, in.X.Type(), p.get(fr, in.X), p.get(fr, in.Y), in.Y.Type()))
	case *ssa.Call:
		p.set(fr, in, p.doCall(fr, &in.Call))
	case *ssa.ChangeInterface:
		p.set(fr, in, p.get(fr, in.X))
	case *ssa.ChangeType:
		p.set(fr, in, p.get(fr, in.X))
	case *ssa.Convert:
		p.set(fr, in, p.convert(in.X.Type(), in.Type(), p.get(fr, in.X)))
	case *ssa.SliceToArrayPointer:
		p.set(fr, in, p.sliceToArrayPtr(fr, in))
	case *ssa.MakeInterface:
		p.set(fr, in, IfaceV{T: in.X.Type(), V: p.get(fr, in.X)})
	case *ssa.Extract:
		p.set(fr, in, p.get(fr, in.Tuple).(TupleV)[in.Index])
	case *ssa.Slice:
		p.set(fr, in, p.sliceOp(fr, in))
	case *ssa.Return:
		switch len(in.Results) {
		case 0:
		case 1:
			fr.result = p.get(fr, in.Results[0])
		default:
			res := make(TupleV, len(in.Results))
			for i, r := range in.Results {
				res[i] = p.get(fr, r)
			}
			fr.result = res
		}
		fr.block = nil
		return kReturn
	case *ssa.RunDefers:
		p.runDefers(fr)
	case *ssa.Panic:
		v := p.get(fr, in.X)
		panic(&goPanic{val: v, msg: p.panicString(v), stack: p.where()})
	case *ssa.Send:
		p.chanSend(fr, in)
	case *ssa.Store:
		p.store(p.ptrOf(p.get(fr, in.Addr)), p.get(fr, in.Val))
	case *ssa.If:
		c := p.get(fr, in.Cond)
		ct, ok := c.(*Term)
		if !ok {
			panic(p.abort("branch on non-term " + describe(c)))
		}
		succ := 1
		if ct.IsConst() {
			if ct.IsTrue() {
				succ = 0
			}
		} else {
			if done := p.tryMerge(fr, in, ct); done {
				return kJump
			}
			if fr.symCount == nil {
				fr.symCount = map[*ssa.BasicBlock]int{}
			}
			fr.symCount[fr.block]++
			if fr.symCount[fr.block] > p.hr.h.unwind() {
				// unwinding assertion: can the loop still continue?
				panic(pathAbort{abBound, fmt.Sprintf("unwind bound %d exceeded", p.hr.h.unwind()) + p.where()})
			}
			if p.branch(ct) {
				succ = 0
			}
		}
		fr.prev, fr.block = fr.block, fr.block.Succs[succ]
		return kJump
	case *ssa.Jump:
		fr.prev, fr.block = fr.block, fr.block.Succs[0]
		return kJump
	case *ssa.Defer:
		fn, args := p.prepareCall(fr, &in.Call)
		fr.defers = append(fr.defers, &deferred{fn: fn, args: args, call: &in.Call, pos: in.Pos()})
	case *ssa.Go:
		p.goStmt(fr, in)
	case *ssa.MakeChan:
		sz, ok := constInt(p.get(fr, in.Size))
		if !ok {
			panic(p.abort("symbolic channel size"))
		}
		p.objCounter++
		p.set(fr, in, &ChanObj{ID: p.objCounter, Cap: int(sz), T: in.Type()})
	case *ssa.Alloc:
		t := in.Type().Underlying().(*types.Pointer).Elem()
		o := p.newObject(p.zero(t), t)
		p.set(fr, in, Ptr{Obj: o})
	case *ssa.MakeSlice:
		p.set(fr, in, p.makeSlice(fr, in))
	case *ssa.MakeMap:
		p.objCounter++
		p.set(fr, in, &MapObj{T: in.Type().Underlying().(*types.Map), ID: p.objCounter})
	case *ssa.Range:
		p.set(fr, in, p.rangeIter(fr, in))
	case *ssa.Next:
		p.set(fr, in, p.next(fr, in))
	case *ssa.FieldAddr:
		ptr := p.ptrOf(p.get(fr, in.X))
		if ptr.Obj == nil {
			p.goPanicRuntime("invalid memory address or nil pointer dereference")
		}
		if ptr.Sym != nil {
			ptr = p.concretizePtr(ptr)
		}
		p.set(fr, in, ptr.child(in.Field))
	case *ssa.Field:
		s := p.get(fr, in.X)
		sv, ok := s.(*StructV)
		if !ok {
			panic(p.abort("Field of " + describe(s)))
		}
		p.set(fr, in, copyVal(sv.F[in.Field]))
	case *ssa.IndexAddr:
		p.set(fr, in, p.indexAddr(fr, in))
	case *ssa.Index:
		p.set(fr, in, p.index(fr, in))
	case *ssa.Lookup:
		p.set(fr, in, p.lookup(fr, in))
	case *ssa.MapUpdate:
		m := p.get(fr, in.Map).(*MapObj)
		p.mapUpdate(m, p.get(fr, in.Key), p.get(fr, in.Value))
	case *ssa.TypeAssert:
		p.set(fr, in, p.typeAssert(fr, in))
	case *ssa.MakeClosure:
		fn := in.Fn.(*ssa.Function)
		env := make([]Value, len(in.Bindings))
		for i, b := range in.Bindings {
			env[i] = p.get(fr, b)
		}
		p.set(fr, in, &Closure{Fn: fn, Env: env})
	case *ssa.Phi:
		for i, pred := range in.Block().Preds {
			if fr.prev == pred {
				p.set(fr, in, p.get(fr, in.Edges[i]))
				break
			}
		}
	case *ssa.Select:
		p.set(fr, in, p.selectStmt(fr, in)) // sequential model, see intr_reflect.go
	default:
		panic(p.abort(fmt.Sprintf("unsupported instruction %T", instr)))
	}
	return kNext
}

func (p *Path) ptrOf(v Value) Ptr {
	switch x := v.(type) {
	case Ptr:
		return x
	case Opaque:
		panic(p.abort("dereference of opaque value: " + x.Why))
	}
	panic(p.abort("not a pointer: " + describe(v)))
}

func (p *Path) concretizePtr(ptr Ptr) Ptr {
	v := p.concretize(ptr.Sym, "pointer index")
	np := make([]int, len(ptr.Path))
	copy(np, ptr.Path)
	np[len(np)-1] += int(v.Int64())
	return Ptr{Obj: ptr.Obj, Path: np}
}

func (p *Path) panicString(v Value) string {
	if iv, ok := v.(IfaceV); ok {
		if iv.T == nil {
			return "panic(nil)"
		}
		switch x := iv.V.(type) {
		case StrV:
			return string(x)
		case Ptr:
			// error values: try errorString
			if x.Obj != nil {
				if sv, ok := (*p.slot(x)).(*StructV); ok && len(sv.F) > 0 {
					if s, ok := sv.F[0].(StrV); ok {
						return string(s)
					}
				}
			}
		}
		return "panic(" + iv.T.String() + ")"
	}
	return "panic"
}

// ---------------------------------------------------------------------------
// calls

func (p *Path) prepareCall(fr *frame, cc *ssa.CallCommon) (Value, []Value) {
	var args []Value
	var fn Value
	if cc.IsInvoke() {
		recv := p.get(fr, cc.Value)
		iv, ok := recv.(IfaceV)
		if !ok {
			panic(p.abort("invoke on " + describe(recv)))
		}
		if iv.T == nil {
			p.goPanicRuntime("invalid memory address or nil pointer dereference")
		}
		m := p.eng.lookupMethod(iv.T, cc.Method)
		if m == nil {
			panic(p.abort("method not found: " + iv.T.String() + "." + cc.Method.Name()))
		}
		fn = &Closure{Fn: m}
		args = append(args, iv.V)
	} else {
		fn = p.get(fr, cc.Value)
	}
	for _, a := range cc.Args {
		args = append(args, p.get(fr, a))
	}
	return fn, args
}

func (p *Path) doCall(fr *frame, cc *ssa.CallCommon) Value {
	fn, args := p.prepareCall(fr, cc)
	return p.callValue(fr, fn, args, cc)
}

func (p *Path) callValue(fr *frame, fn Value, args []Value, cc *ssa.CallCommon) Value {
	cl, ok := fn.(*Closure)
	if !ok {
		if o, isOp := fn.(Opaque); isOp {
			panic(p.abort("call of opaque function value: " + o.Why))
		}
		panic(p.abort("call of non-function " + describe(fn)))
	}
	if cl == nil {
		p.goPanicRuntime("invalid memory address or nil pointer dereference")
	}
	if cl.Built != nil {
		return p.builtin(fr, cl.Built, args, cc)
	}
	if cl.Fn == nil {
		if in, ok := intrinsics[cl.Name]; ok {
			return in(p, nil, args)
		}
		panic(p.abort("call of placeholder " + cl.Name))
	}
	if cl.Recv != nil {
		args = append([]Value{cl.Recv}, args...)
	}
	return p.callFunction(cl.Fn, args, cl.Env)
}

func (p *Path) goStmt(fr *frame, in *ssa.Go) {
	// A goroutine is dropped (not executed) only if the suite says so explicitly:
	// override "go:<ssa name of the callee>": "skip" (fire-and-forget notifications
	// whose effects are outside the claim; recorded in the evidence).
	if callee := in.Call.StaticCallee(); callee != nil && p.hr != nil {
		name := "go:" + callee.String()
		ov, ok := p.hr.overrides[name]
		for _, po := range p.hr.prefixOverrides {
			if strings.HasPrefix(name, po.prefix) && strings.HasPrefix(po.prefix, "go:") {
				ov, ok = po.fn, true
			}
		}
		if ok {
			if _, inl := ov(p, nil, nil).(goInline); inl {
				// "go:<callee>": "inline" - run the goroutine to completion right here.
				// Exact as long as it never blocks: a channel operation that would
				// block aborts the path (sequential channel model), so nothing that
				// needs real interleaving is ever reported as decided.
				p.hr.noteOutside("goroutine executed synchronously at its go statement (suite override; paths where it would block are refused): " + callee.String())
				fn, args := p.prepareCall(fr, &in.Call)
				p.callValue(fr, fn, args, &in.Call)
				return
			}
			p.hr.noteOutside("goroutine not executed (suite override): " + callee.String())
			return
		}
		panic(p.abort("go statement (callee " + callee.String() + ")"))
	}
	panic(p.abort("go statement"))
}

func (p *Path) chanSend(fr *frame, in *ssa.Send) {
	ch, ok := p.get(fr, in.Chan).(*ChanObj)
	if !ok || ch == nil {
		panic(p.abort("send on nil/unknown channel"))
	}
	if ch.Closed {
		panic(&goPanic{msg: "send on closed channel", stack: p.where()})
	}
	if len(ch.Buf) >= ch.Cap {
		panic(p.abort("send would block (sequential channel model)"))
	}
	ch.Buf = append(ch.Buf, p.get(fr, in.X))
}

// ---------------------------------------------------------------------------
// globals / template

func (p *Path) global(g *ssa.Global) *Object {
	if o, ok := p.globals[g]; ok {
		return o
	}
	if p.eng.tmpl == p {
		// we are the template path: make sure the package is initialised
		o := p.eng.tmplGlobal(g)
		return o
	}
	p.eng.tmplMu.Lock()
	to := p.eng.tmplGlobal(g)
	if p.cp == nil {
		p.cp = &copier{objs: map[*Object]*Object{}, maps: map[*MapObj]*MapObj{}, p: p}
	}
	o := p.cp.obj(to)
	p.eng.tmplMu.Unlock()
	p.globals[g] = o
	return o
}

// visitTolerant is used while running package initialisers concretely: a call
// (or, in the init function itself, any instruction) the engine cannot execute
// yields an Opaque value instead of aborting the whole initialiser.  Opaque
// values can be stored and passed around but never branched on or asserted.
func (p *Path) visitTolerant(fr *frame, in ssa.Instruction) (k cont) {
	_, isCall := in.(*ssa.Call)
	top := fr.fn.Name() == "init" || strings.HasPrefix(fr.fn.Name(), "init#")
	if !isCall && !top {
		return p.visit(fr, in)
	}
	nfr, depth := len(p.frames), p.depth
	defer func() {
		r := recover()
		if r == nil {
			return
		}
		why := ""
		switch x := r.(type) {
		case pathAbort:
			if x.kind != abUnsupported {
				panic(r)
			}
			why = x.msg
		case *goPanic:
			why = "panic: " + x.msg
		case runtime.Error:
			why = "engine: " + x.Error()
		default:
			panic(r)
		}
		p.frames = p.frames[:nfr]
		p.depth = depth
		switch in.(type) {
		case *ssa.If, *ssa.Jump, *ssa.Return, *ssa.Panic:
			panic(r)
		}
		if v, ok := in.(ssa.Value); ok {
			if len(why) > 200 {
				why = why[:200]
			}
			p.set(fr, v, Opaque{why})
		}
		k = kNext
	}()
	return p.visit(fr, in)
}
