package main

// Strings with symbolic bytes (fixed, concrete length).
//
// Go strings are otherwise concrete only (StrV).  SymStrV is the exact value of
// string(b) for a byte slice b of concrete length whose bytes are terms; it is
// what the typed RLP decoder produces for a Go string target (decodeString) and
// what a harness builds with string(vs.Bytes(..)).
//
// SymStrV is a distinct Value type on purpose (like SymSliceV): every consumer
// that does not know about it fails its type switch/assertion and ends the path
// as "unsupported" (a machinery fault) - never a silent mis-computation.
// Supported consumers: len, s[i], ==/!= (against StrV or SymStrV), []byte(s),
// string(s), append(bytes, s...), copy(bytes, s), reflect Value.SetString /
// String / Len (intr_reflect_rlp.go).  Everything else (concatenation, ordering,
// slicing, range, map keys via strArg, fmt) is refused.

type SymStrV struct{ B []*Term } // immutable

// symStrFromBytes: string(b) for byte terms; all-constant bytes give a plain StrV.
func symStrFromBytes(bs []*Term) Value {
	allConst := true
	for _, b := range bs {
		if !b.IsConst() {
			allConst = false
			break
		}
	}
	if allConst {
		buf := make([]byte, len(bs))
		for i, b := range bs {
			buf[i] = byte(b.Uint64())
		}
		return StrV(buf)
	}
	return SymStrV{B: append([]*Term(nil), bs...)}
}

func symStrTerms(v Value) ([]*Term, bool) {
	switch s := v.(type) {
	case SymStrV:
		return s.B, true
	case StrV:
		out := make([]*Term, len(s))
		for i := 0; i < len(s); i++ {
			out[i] = BVConstU(uint64(s[i]), 8)
		}
		return out, true
	}
	return nil, false
}

// symStrEq: equality of two string values at least one of which is symbolic.
func (p *Path) symStrEq(x, y Value) (*Term, bool) {
	_, xs := x.(SymStrV)
	_, ys := y.(SymStrV)
	if !xs && !ys {
		return nil, false
	}
	a, ok1 := symStrTerms(x)
	b, ok2 := symStrTerms(y)
	if !ok1 || !ok2 {
		return nil, false
	}
	if len(a) != len(b) {
		return FalseT, true
	}
	r := TrueT
	for i := range a {
		r = p.tt.And(r, p.tt.Eq(a[i], b[i]))
	}
	return r, true
}

// symStrIndex: s[idx] with the Go bounds check.
func (p *Path) symStrIndex(s SymStrV, idx *Term) Value {
	p.check(p.tt.ULt(idx, BVConstU(uint64(len(s.B)), 64)), "index out of range")
	if idx.IsConst() {
		return s.B[idx.Int64()]
	}
	var res *Term
	for k := len(s.B) - 1; k >= 0; k-- {
		if res == nil {
			res = s.B[k]
			continue
		}
		res = p.tt.Ite(p.tt.Eq(idx, BVConstU(uint64(k), 64)), s.B[k], res)
	}
	return res
}
