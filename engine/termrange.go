package main

// Unsigned interval analysis for bit-vector terms whose value provably fits 63
// bits (lengths, indexes, shift amounts).  Used to decide comparisons without
// a solver query (TermTable.bvCmp) and to bound symbolic shift amounts.
//
// urange(t) = (lo, hi, ok): if ok, then lo <= value(t) <= hi < 2^63 for every
// assignment, the value being read as an unsigned integer.  Everything not
// covered returns ok=false (no information) - never a guess.

import "math/big"

type uRange struct {
	lo, hi uint64
	ok     bool
}

const uRangeMax = uint64(1) << 62 // keep well below 2^63 so signed and unsigned orders agree and sums cannot wrap

func (tt *TermTable) urange(t *Term) uRange {
	if t.S.K != SBV {
		return uRange{}
	}
	if t.Op == OpConst {
		if t.Val.BitLen() <= 62 {
			v := t.Val.Uint64()
			return uRange{v, v, true}
		}
		return uRange{}
	}
	if tt.rng == nil {
		tt.rng = map[*Term]uRange{}
	}
	if r, ok := tt.rng[t]; ok {
		return r
	}
	tt.rng[t] = uRange{} // cycle/recursion guard (terms are DAGs, so only a depth guard in effect)
	r := tt.urange1(t)
	tt.rng[t] = r
	return r
}

func (tt *TermTable) urange1(t *Term) uRange {
	w := t.S.W
	full := func() uRange {
		if w <= 62 {
			return uRange{0, uint64(1)<<uint(w) - 1, true}
		}
		return uRange{}
	}
	switch t.Op {
	case OpIte:
		a, b := tt.urange(t.Args[1]), tt.urange(t.Args[2])
		if a.ok && b.ok {
			return uRange{min(a.lo, b.lo), max(a.hi, b.hi), true}
		}
	case OpZExt:
		if a := tt.urange(t.Args[0]); a.ok {
			return a
		}
	case OpExtract:
		// low bits of a small value are the value itself
		if t.P2 == 0 {
			if a := tt.urange(t.Args[0]); a.ok && (w > 62 || a.hi < uint64(1)<<uint(w)) {
				return a
			}
		}
	case OpBVAnd:
		// x & y <= min(x, y) for unsigned values
		a, b := tt.urange(t.Args[0]), tt.urange(t.Args[1])
		switch {
		case a.ok && b.ok:
			return uRange{0, min(a.hi, b.hi), true}
		case a.ok:
			return uRange{0, a.hi, true}
		case b.ok:
			return uRange{0, b.hi, true}
		}
	case OpBVLShr:
		if a := tt.urange(t.Args[0]); a.ok {
			return uRange{0, a.hi, true}
		}
	case OpBVURem:
		// x urem y <= x always (y = 0 gives x)
		if a := tt.urange(t.Args[0]); a.ok {
			return uRange{0, a.hi, true}
		}
	case OpBVAdd:
		a, b := tt.urange(t.Args[0]), tt.urange(t.Args[1])
		if a.ok && b.ok && w >= 63 {
			// both < 2^62: the sum cannot wrap in >= 63 bits
			if s := a.hi + b.hi; s < uRangeMax {
				return uRange{a.lo + b.lo, s, true}
			}
		}
		// x + (-c) with x >= c  (the term table rewrites x - c into x + (2^w - c))
		if a.ok && t.Args[1].IsConst() && w >= 63 {
			neg := new(big.Int).Sub(new(big.Int).Lsh(bigOne, uint(w)), t.Args[1].Val)
			if neg.BitLen() <= 62 {
				c := neg.Uint64()
				if a.lo >= c {
					return uRange{a.lo - c, a.hi - c, true}
				}
			}
		}
	case OpBVSub:
		a, b := tt.urange(t.Args[0]), tt.urange(t.Args[1])
		if a.ok && b.ok && a.lo >= b.hi {
			return uRange{a.lo - b.hi, a.hi - b.lo, true}
		}
	}
	if w <= 62 {
		return full()
	}
	return uRange{}
}

// cmpByRange decides an unsigned/signed comparison from the operand intervals;
// nil if undecided.  Both intervals lie below 2^62, where the signed and the
// unsigned order coincide (for widths >= 63; for narrower widths only the
// unsigned comparisons are decided).
func (tt *TermTable) cmpByRange(op Op, a, b *Term) *Term {
	if a.S.W > 64 && !(a.Op == OpZExt || a.IsConst()) && !(b.Op == OpZExt || b.IsConst()) {
		return nil // wide terms: only zero-extended small values are worth a look
	}
	if (op == OpBVSLt || op == OpBVSLe) && a.S.W < 63 {
		return nil
	}
	ra := tt.urange(a)
	if !ra.ok {
		return nil
	}
	rb := tt.urange(b)
	if !rb.ok {
		return nil
	}
	switch op {
	case OpBVULt, OpBVSLt:
		if ra.hi < rb.lo {
			return TrueT
		}
		if ra.lo >= rb.hi {
			return FalseT
		}
	case OpBVULe, OpBVSLe:
		if ra.hi <= rb.lo {
			return TrueT
		}
		if ra.lo > rb.hi {
			return FalseT
		}
	}
	return nil
}
