package main

// A Path is one execution of a harness under a prefix of recorded decisions
// (stateless re-execution: forks are explored by re-running from the start).

import (
	"fmt"
	"math/big"
	"sort"
	"strings"

	"golang.org/x/tools/go/ssa"
)

type Decision struct {
	Kind byte // 'b' branch, 'c' runtime check, 'v' value take, 'x' value exclude, 'n' n-way choice
	N    int
	Val  *big.Int
}

type abortKind int

const (
	abInfeasible abortKind = iota
	abUnsupported
	abBound
	abBudget
	abStop // path ended after recording a failure
	abAssumeFalse
)

type pathAbort struct {
	kind abortKind
	msg  string
}

type goPanic struct {
	val   Value
	msg   string
	stack string
}

type Input struct {
	Name string
	Kind string // u8,u16,u32,u64,i64,bool,big,bytes:<n>
	T    *Term
	W    int
}

type Failure struct {
	Harness string            `json:"harness"`
	Kind    string            `json:"kind"` // assert | panic | bound | unknown
	Label   string            `json:"label"`
	Inputs  map[string]string `json:"inputs"`
	Order   []string          `json:"order"`
	Choices []int             `json:"choices"`
	Trace   string            `json:"trace,omitempty"`
	Known   string            `json:"known,omitempty"`
	Params  map[string]int    `json:"params,omitempty"`
	Observed []string         `json:"observed,omitempty"`
}

type Path struct {
	eng    *Engine
	hr     *HarnessRun
	sol    *Solver
	tt     *TermTable
	prefix []Decision
	// whether the last decision of the prefix still needs a feasibility check
	unverified bool
	trace      []Decision
	pc         []*Term
	inputs     []Input
	inputSeen  map[string]int
	choices    []int // values returned by verifsym.Choice in order (for replay)

	globals    map[*ssa.Global]*Object
	cp         *copier
	objCounter int
	steps      int64
	depth      int
	frames     []*frame

	observed []string
	events   []Value
	fnSeen   map[*ssa.Function]bool

	pcUnknown bool // a feasibility check returned unknown somewhere on this path
	nforks    int
	concrete  map[string]*big.Int // fixed input values (translator validation / replay in engine)

	asserts   int
	assumes   int
	reachedOK bool
	lockHeld  map[string]int
	onceDone  map[string]bool
	bounds    map[*Term]int
	nonneg    map[*Term]bool // bignonneg.go
	eqParent  map[*Term]*Term // eqcanon.go
	noFork    bool           // speculative arm execution (mergemem.go): solver decisions cancel the merge
	storeLog  *[]storeRec
	concreteChoices map[string]string
	choiceNames []string
	lastPanic *goPanic
	panicMsg  string
	known     string
	obs       []obsRec
	prodOf    map[*Term][2]*Term // non-overflowing BV-mode products -> factors (big.go)
	bypass    map[string]int // functions whose override is bypassed on this path right now (callBody)
}

func (p *Path) abort(msg string) pathAbort {
	return pathAbort{abUnsupported, msg + p.where()}
}

func (p *Path) where() string {
	if len(p.frames) == 0 {
		return ""
	}
	var sb strings.Builder
	sb.WriteString(" @")
	for i := len(p.frames) - 1; i >= 0 && i >= len(p.frames)-6; i-- {
		f := p.frames[i]
		sb.WriteString(" ")
		sb.WriteString(f.fn.String())
		if f.cur != nil {
			pos := f.fn.Prog.Fset.Position(f.cur.Pos())
			if pos.IsValid() {
				fn := pos.Filename
				if i := strings.LastIndex(fn, "/"); i >= 0 {
					fn = fn[i+1:]
				}
				fmt.Fprintf(&sb, "(%s:%d)", fn, pos.Line)
			}
		}
		sb.WriteString(" <-")
	}
	return sb.String()
}

func (p *Path) assertPC(c *Term) {
	if c.IsTrue() {
		return
	}
	p.pc = append(p.pc, c)
	p.noteEqs(c) // eqcanon.go
	p.sol.Assert(c)
}

func (p *Path) nextRecorded() (Decision, bool, bool) {
	k := len(p.trace)
	if k < len(p.prefix) {
		last := k == len(p.prefix)-1 && p.unverified
		return p.prefix[k], true, last
	}
	return Decision{}, false, false
}

func (p *Path) record(d Decision) { p.trace = append(p.trace, d) }

func (p *Path) enqueueAlt(d Decision, unverified bool) {
	np := make([]Decision, len(p.trace)+1)
	copy(np, p.trace)
	np[len(p.trace)] = d
	p.hr.enqueue(workItem{prefix: np, unverified: unverified})
	p.nforks++
}

func (p *Path) verifyLast() {
	r := p.sol.Check()
	if r == Unsat {
		panic(pathAbort{abInfeasible, ""})
	}
	if r == Unknown {
		p.pcUnknown = true
	}
}

// branch decides a symbolic condition.
func (p *Path) branch(c *Term) bool {
	if c.IsConst() {
		return c.IsTrue()
	}
	if p.noFork {
		panic(mergeFail{})
	}
	if d, ok, last := p.nextRecorded(); ok {
		if d.Kind != 'b' {
			panic(p.abort(fmt.Sprintf("internal: replay divergence (want branch, have %c)", d.Kind)))
		}
		p.record(d)
		if d.N == 1 {
			p.assertPC(c)
		} else {
			p.assertPC(p.tt.Not(c))
		}
		if last {
			p.verifyLast()
		}
		return d.N == 1
	}
	r := p.sol.CheckWith(c, false)
	if r == Unsat {
		p.record(Decision{Kind: 'b', N: 0})
		p.assertPC(p.tt.Not(c))
		return false
	}
	if r == Unknown {
		p.pcUnknown = true
	}
	r2 := p.sol.CheckWith(p.tt.Not(c), false)
	if r2 == Unsat {
		p.record(Decision{Kind: 'b', N: 1})
		p.assertPC(c)
		return true
	}
	p.enqueueAlt(Decision{Kind: 'b', N: 0}, false)
	p.record(Decision{Kind: 'b', N: 1})
	p.assertPC(c)
	return true
}

// check is an implicit run-time check: if the negation is feasible the panic
// path is explored as well.
func (p *Path) check(ok *Term, msg string) {
	if ok.IsConst() {
		if ok.IsTrue() {
			return
		}
		p.goPanicRuntime(msg)
	}
	if p.noFork {
		panic(mergeFail{})
	}
	if d, rec, last := p.nextRecorded(); rec {
		if d.Kind != 'c' {
			panic(p.abort(fmt.Sprintf("internal: replay divergence (want check, have %c)", d.Kind)))
		}
		p.record(d)
		switch d.N {
		case 0: // check known to hold
			return
		case 1: // panic side
			p.assertPC(p.tt.Not(ok))
			if last {
				p.verifyLast()
			}
			p.goPanicRuntime(msg)
		default: // 2: ok side of a feasible panic
			p.assertPC(ok)
			if last {
				p.verifyLast()
			}
			return
		}
	}
	r := p.sol.CheckWith(p.tt.Not(ok), false)
	switch r {
	case Unsat:
		p.record(Decision{Kind: 'c', N: 0})
		return
	case Unknown:
		p.hr.noteUnknown("runtime check undecided: " + msg + p.where())
		p.record(Decision{Kind: 'c', N: 0})
		return
	}
	// panic feasible
	r2 := p.sol.CheckWith(ok, false)
	if r2 == Unsat {
		p.record(Decision{Kind: 'c', N: 1})
		p.assertPC(p.tt.Not(ok))
		p.goPanicRuntime(msg)
	}
	p.enqueueAlt(Decision{Kind: 'c', N: 1}, false)
	p.record(Decision{Kind: 'c', N: 2})
	p.assertPC(ok)
}

// concretize forks over the feasible values of t.
func (p *Path) concretize(t *Term, why string) *big.Int {
	if t.IsConst() {
		return t.Val
	}
	if p.noFork {
		panic(mergeFail{})
	}
	for n := 0; ; n++ {
		if n > p.hr.h.maxValues() {
			panic(pathAbort{abBound, "too many values for " + why + p.where()})
		}
		if d, rec, last := p.nextRecorded(); rec {
			if d.Kind != 'v' && d.Kind != 'x' {
				panic(p.abort(fmt.Sprintf("internal: replay divergence (want value, have %c)", d.Kind)))
			}
			p.record(d)
			c := p.tt.Eq(t, constLike(t, d.Val))
			if d.Kind == 'v' {
				p.assertPC(c)
				if last {
					p.verifyLast()
				}
				return d.Val
			}
			p.assertPC(p.tt.Not(c))
			if last {
				p.verifyLast()
			}
			continue
		}
		r := p.sol.Check()
		if r == Unsat {
			panic(pathAbort{abInfeasible, ""})
		}
		if r == Unknown {
			panic(pathAbort{abUnsupported, "solver unknown while concretizing " + why + p.where()})
		}
		vals, err := p.sol.GetValues([]*Term{t})
		if err != nil {
			panic(pathAbort{abUnsupported, "model read failed: " + err.Error()})
		}
		v := vals[0]
		if t.S.K == SBV {
			v = normBV(v, t.S.W)
		}
		if p.sol.CheckWith(p.tt.Not(p.tt.Eq(t, constLike(t, v))), false) != Unsat {
			p.enqueueAlt(Decision{Kind: 'x', Val: v}, false)
		}
		p.record(Decision{Kind: 'v', Val: v})
		p.assertPC(p.tt.Eq(t, constLike(t, v)))
		return v
	}
}

func constLike(t *Term, v *big.Int) *Term {
	switch t.S.K {
	case SBV:
		return BVConst(v, t.S.W)
	case SInt:
		return IConst(v)
	}
	return BoolT(v.Sign() != 0)
}

// choice is an eager n-way structural fork (all alternatives feasible).
func (p *Path) choice(n int) int {
	if n <= 1 {
		return 0
	}
	if d, rec, _ := p.nextRecorded(); rec {
		if d.Kind != 'n' {
			panic(p.abort(fmt.Sprintf("internal: replay divergence (want choice, have %c)", d.Kind)))
		}
		p.record(d)
		return d.N
	}
	for i := n - 1; i >= 1; i-- {
		p.enqueueAlt(Decision{Kind: 'n', N: i}, false)
	}
	p.record(Decision{Kind: 'n', N: 0})
	return 0
}

// assume adds a constraint; the path dies if it becomes infeasible.
func (p *Path) assume(c *Term) {
	p.assumes++
	if c.IsConst() {
		if c.IsFalse() {
			panic(pathAbort{abAssumeFalse, ""})
		}
		return
	}
	p.assertPC(c)
	if d, rec, _ := p.nextRecorded(); rec && d.Kind == 'a' {
		p.record(d)
		return
	}
	r := p.sol.Check()
	if r == Unsat {
		panic(pathAbort{abAssumeFalse, ""})
	}
	if r == Unknown {
		p.pcUnknown = true
	}
	p.record(Decision{Kind: 'a'})
}

// obligation checks an explicit assertion.
func (p *Path) obligation(c *Term, label string) {
	p.asserts++
	p.hr.noteObligation(label)
	if c.IsConst() {
		if c.IsTrue() {
			p.hr.noteDischarged(label, "const")
			return
		}
		p.fail("assert", label)
		panic(pathAbort{abStop, ""})
	}
	if d, rec, _ := p.nextRecorded(); rec && d.Kind == 'o' {
		// already decided on an ancestor run: holds
		p.record(d)
		p.assertPC(c)
		return
	}
	r := p.sol.CheckWith(p.tt.Not(c), true)
	switch r {
	case Unsat:
		p.hr.noteDischarged(label, "unsat")
		p.record(Decision{Kind: 'o'})
		p.assertPC(c)
	case Unknown:
		p.hr.noteUnknown("assertion undecided: " + label + " " + p.sol.lastErr)
		p.record(Decision{Kind: 'o'})
		p.assertPC(c)
	case Sat:
		p.failWithModel("assert", label)
		p.sol.PopModel()
		panic(pathAbort{abStop, ""})
	}
}

func (p *Path) fail(kind, label string) {
	// need a model of the current PC
	r := p.sol.Check()
	if r != Sat {
		if r == Unknown {
			p.hr.noteUnknown("failure on path with undecided feasibility: " + label)
		}
		return
	}
	p.failWithModel(kind, label)
}

func (p *Path) failWithModel(kind, label string) {
	f := Failure{Harness: p.hr.h.Entry, Kind: kind, Label: label, Inputs: map[string]string{}, Choices: append([]int(nil), p.choices...), Known: p.known}
	for i, n := range p.choiceNames {
		f.Inputs[n] = fmt.Sprint(p.choices[i])
	}
	var ts []*Term
	for _, in := range p.inputs {
		ts = append(ts, in.T)
	}
	vals, err := p.sol.GetValues(ts)
	if err != nil {
		p.hr.noteUnknown("model read failed: " + err.Error())
		return
	}
	for i, in := range p.inputs {
		v := vals[i]
		if in.T.S.K == SBV {
			v = normBV(v, in.T.S.W)
		}
		f.Inputs[in.Name] = v.String()
		f.Order = append(f.Order, in.Name)
	}
	f.Trace = p.where()
	p.hr.addFailure(f)
}

func (p *Path) goPanicRuntime(msg string) {
	panic(&goPanic{val: IfaceV{T: p.eng.runtimeErrorType, V: StrV("runtime error: " + msg)}, msg: "runtime error: " + msg, stack: p.where()})
}

// newInput creates (or, in concrete mode, fixes) a harness input.
func (p *Path) newInput(name, kind string, s Sort) *Term {
	n := p.inputSeen[name]
	p.inputSeen[name] = n + 1
	full := name
	if n > 0 {
		full = fmt.Sprintf("%s#%d", name, n)
	}
	if p.concrete != nil {
		v, ok := p.concrete[full]
		if !ok {
			v = new(big.Int)
		}
		t := constLike(&Term{S: s}, v)
		p.inputs = append(p.inputs, Input{Name: full, Kind: kind, T: t})
		return t
	}
	t := p.tt.Var("in_"+full, s)
	p.sol.em.Define(t)
	p.sol.send(p.sol.em.Take())
	p.inputs = append(p.inputs, Input{Name: full, Kind: kind, T: t})
	return t
}

func sortedKeys(m map[string]int) []string {
	var ks []string
	for k := range m {
		ks = append(ks, k)
	}
	sort.Strings(ks)
	return ks
}
