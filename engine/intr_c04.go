package main

// (*sync.RWMutex).TryLock / TryRLock in the sequential lock model of
// intrinsics.go (same hold-count table and key as Lock/RLock): used by the C04
// harnesses to ask "is any hold left on this lock?" with code that means the
// same thing natively.

import (
	"fmt"

	"golang.org/x/tools/go/ssa"
)

func init() {
	try := func(write bool) intrinsic {
		return func(p *Path, fn *ssa.Function, a []Value) Value {
			ptr := p.ptrOf(a[0])
			if ptr.Obj == nil {
				p.goPanicRuntime("invalid memory address or nil pointer dereference")
			}
			if p.lockHeld == nil {
				p.lockHeld = map[string]int{}
			}
			k := fmt.Sprintf("%p%v", ptr.Obj, ptr.Path)
			if write {
				if p.lockHeld[k] != 0 {
					return FalseT
				}
				p.lockHeld[k] = -1
				return TrueT
			}
			if p.lockHeld[k] < 0 {
				return FalseT
			}
			p.lockHeld[k]++
			return TrueT
		}
	}
	intrinsics["(*sync.RWMutex).TryLock"] = try(true)
	intrinsics["(*sync.RWMutex).TryRLock"] = try(false)
}
