package main

// "fresh" solver mode (suite option "solver_mode": "fresh"): every query is
// decided non-incrementally.  z3's incremental core (anything after a push)
// skips the preprocessing that makes wide bit-vector queries easy, and its
// define-fun macros cost milliseconds each when their bodies reference large
// terms (minutes for the 70k definitions of a 2048-iteration loop).  In this
// mode the transcript of the path is buffered; each check sends
//   (reset) <options> <transcript> [<extra assertion>] (check-sat)
// to the long-lived process, with definitions written as
//   (declare-fun t () S) (assert (= t body))
// so that the solver's equation solving, not its macro expander, handles them.
// Models are read from the state the last check left behind.

import (
	"io"
	"strings"
)

func (s *Solver) newEmitter() *Emitter {
	e := NewEmitter()
	e.assertStyle = s.fresh
	s.freshBuf.Reset()
	s.freshExtra = ""
	return e
}

// freshSend buffers what send would have written; push/pop never reach the solver.
func (s *Solver) freshSend(txt string) {
	switch {
	case txt == "(push)\n" || txt == "(pop)\n":
	case strings.HasPrefix(txt, "(push)\n(assert "):
		s.freshExtra = txt[len("(push)\n"):]
	case strings.HasPrefix(txt, "(check-sat"):
		full := "(reset)\n" + s.hdr + s.freshBuf.String() + s.freshExtra + "(check-sat)\n"
		s.freshExtra = ""
		s.sendNow(full)
	default:
		s.freshBuf.WriteString(txt)
	}
}

// sendNow writes to the solver process unconditionally.
func (s *Solver) sendNow(txt string) {
	if s.logf != nil {
		s.logf.WriteString(txt)
	}
	if _, err := io.WriteString(s.in, txt); err != nil {
		s.dead = true
	}
}
