package main

// Model of package reflect, part 2: what the reflection-driven RLP codec
// (rlp/decode.go, encode.go, typecache.go) uses.  Extends intr_reflect.go
// (same canonical type objects, same three-field layout of reflect.Value);
// this file's init runs after intr_reflect.go's and intr_c18.go's (file name
// order) and re-registers ValueOf/TypeOf/IsValid/Kind/Type/Interface/Indirect
// with versions that also understand addressable Values.
//
// Representation of reflect.Value (superset of intr_reflect.go)
//   F[0] = Ptr to the canonical type object of the *static* type T of the value
//   F[1] = Ptr to the LOCATION holding the value (engine pointer Obj+Path):
//            - not addressable: a private box object (Tag "reflect.Value box")
//              holding a copy, exactly like Go's non-addressable Values;
//            - addressable (Elem of a pointer, Index of a slice, Field/Index of
//              an addressable struct/array): the real location, so that
//              Set*/SetLen/Field/Index write through.
//   F[2] = flag word, constant: Kind | rvFlagRO | rvFlagAddr  (0 = invalid Value)
// Values of interface kind exist (location holds an IfaceV).  A big.Int location
// holds the SMT term of the theory (big.go); Field on it is refused.
//
// Everything is exact or refuses (p.abort).  Anything of package reflect that
// has no model stays refused by reflGuard.

import (
	"fmt"
	"go/types"
	"math/big"
	"reflect"

	"golang.org/x/tools/go/ssa"
)

const (
	rvFlagRO   = 1 << 5
	rvFlagAddr = 1 << 8
	rvKindMask = 1<<5 - 1
)

const (
	rkBool          = 1
	rkInt           = 2
	rkUint          = 7
	rkUint8         = 8
	rkUintptr       = 12
	rkComplex128    = 16
	rkArray         = 17
	rkChan          = 18
	rkFunc          = 19
	rkInterface     = 20
	rkMap           = 21
	rkPtr           = 22
	rkSlice         = 23
	rkString        = 24
	rkStruct        = 25
	rkUnsafePointer = 26
)

type rval struct {
	T     types.Type
	loc   Ptr
	flag  uint64
	valid bool
}

func (r rval) kind() int       { k, _ := reflKind(r.T); return k }
func (r rval) addr() bool      { return r.flag&rvFlagAddr != 0 }
func (r rval) ro() bool        { return r.flag&rvFlagRO != 0 }
func (r rval) inherit() uint64 { return r.flag & rvFlagRO }

func (p *Path) reflGoPanic(msg string) {
	panic(&goPanic{val: IfaceV{T: types.Typ[types.String], V: StrV(msg)}, msg: msg, stack: p.where()})
}

func (p *Path) reflTypeStr(T types.Type) string {
	return types.TypeString(T, func(pk *types.Package) string { return pk.Name() })
}

// rvUnpack decodes a reflect.Value built by this model (or by intr_reflect.go).
func (p *Path) rvUnpack(v Value, what string) rval {
	sv, ok := v.(*StructV)
	if !ok || len(sv.F) != 3 {
		panic(p.abort("reflect model: " + what + " on " + describe(v)))
	}
	fl, ok := sv.F[2].(*Term)
	if !ok || !fl.IsConst() {
		panic(p.abort("reflect model: " + what + ": non-constant flag word"))
	}
	tp, ok1 := sv.F[0].(Ptr)
	lp, ok2 := sv.F[1].(Ptr)
	if !ok1 || !ok2 {
		panic(p.abort("reflect model: " + what + ": malformed Value"))
	}
	if fl.Uint64() == 0 {
		if tp.Obj != nil || lp.Obj != nil {
			panic(p.abort("reflect model: " + what + ": malformed zero Value"))
		}
		return rval{}
	}
	if tp.Obj == nil || lp.Obj == nil || lp.Sym != nil {
		panic(p.abort("reflect model: " + what + ": Value not created by the model"))
	}
	reflTypes.mu.Lock()
	T, known := reflTypes.byObj[tp.Obj]
	reflTypes.mu.Unlock()
	if !known || len(tp.Path) != 0 {
		panic(p.abort("reflect model: " + what + ": Value with a type descriptor the model did not create"))
	}
	flag := fl.Uint64()
	if flag&rvFlagAddr == 0 && (lp.Obj.Tag != "reflect.Value box") {
		panic(p.abort("reflect model: " + what + ": non-addressable Value without box"))
	}
	if k, okk := reflKind(T); !okk || uint64(k) != flag&rvKindMask {
		panic(p.abort("reflect model: " + what + ": flag word does not match the type"))
	}
	return rval{T: T, loc: lp, flag: flag, valid: true}
}

func (p *Path) rvPack(T types.Type, loc Ptr, extra uint64) Value {
	k, ok := reflKind(T)
	if !ok {
		panic(p.abort("reflect model: no Kind for " + T.String()))
	}
	return &StructV{F: []Value{Ptr{Obj: p.reflTypeObj(T)}, loc, BVConstU(uint64(k)|extra, 64)}}
}

// rvBox builds a non-addressable Value holding a copy of v (static type T).
func (p *Path) rvBox(T types.Type, v Value, extra uint64) Value {
	if _, isOp := v.(Opaque); isOp {
		panic(p.abort("reflect model: Value of an opaque value: " + v.(Opaque).Why))
	}
	box := p.newObject(copyVal(v), T)
	box.Tag = "reflect.Value box"
	return p.rvPack(T, Ptr{Obj: box}, extra&^rvFlagAddr)
}

func (p *Path) rvInvalid() Value { return p.zero(p.reflPkgType("Value")) }

func (p *Path) rvLoad(r rval) Value { return p.load(r.loc) }

func (p *Path) rvMustBe(r rval, method string, kinds ...int) {
	if !r.valid {
		p.reflValuePanic("reflect.Value." + method)
	}
	k := r.kind()
	for _, w := range kinds {
		if k == w {
			return
		}
	}
	p.reflGoPanic("reflect: call of reflect.Value." + method + " on " + reflect.Kind(k).String() + " Value")
}

func (p *Path) rvMustBeAssignable(r rval, method string) {
	if !r.valid {
		p.reflValuePanic("reflect.Value." + method)
	}
	if r.ro() {
		p.reflGoPanic("reflect: reflect.Value." + method + " using value obtained using unexported field")
	}
	if !r.addr() {
		p.reflGoPanic("reflect: reflect.Value." + method + " using unaddressable value")
	}
}

func (p *Path) rvMustBeExported(r rval, method string) {
	if !r.valid {
		p.reflValuePanic("reflect.Value." + method)
	}
	if r.ro() {
		p.reflGoPanic("reflect: reflect.Value." + method + " using value obtained using unexported field")
	}
}

// reflTypeArg decodes a reflect.Type argument (nil interface -> nil, false).
func (p *Path) reflTypeArg(v Value, what string) (types.Type, bool) {
	iv, ok := v.(IfaceV)
	if !ok {
		panic(p.abort("reflect model: " + what + ": type argument is " + describe(v)))
	}
	if iv.T == nil {
		return nil, false
	}
	return p.reflTypeOfRecv(iv.V, what), true
}

func (p *Path) reflIntArg(v Value, what string) int {
	t, ok := v.(*Term)
	if !ok {
		panic(p.abort("reflect model: " + what + ": integer argument is " + describe(v)))
	}
	if t.IsConst() {
		return int(t.Int64())
	}
	n := new(big.Int).Set(p.concretize(t, what))
	if t.S.K == SBV && n.Bit(t.S.W-1) == 1 {
		n.Sub(n, pow2(t.S.W))
	}
	return int(n.Int64())
}

// reflBits: Type.Bits for the sized kinds (amd64).
func reflBits(k int) (int, bool) {
	switch k {
	case 2, 6, 7, 11, 12, 14, 15:
		return 64, true
	case 3, 8:
		return 8, true
	case 4, 9:
		return 16, true
	case 5, 10, 13:
		return 32, true
	case 16:
		return 128, true
	}
	return 0, false
}

func (p *Path) reflAssignable(from, to types.Type) bool {
	return types.AssignableTo(from, to)
}

// rvAssignValue returns the value to store into a location of type to when
// assigning Value x (Value.Set semantics: identical/compatible types are stored
// as they are, a concrete value assigned to an interface location is wrapped).
func (p *Path) rvAssignValue(x rval, to types.Type, context string) Value {
	if !p.reflAssignable(x.T, to) {
		p.reflGoPanic(context + ": value of type " + p.reflTypeStr(x.T) + " is not assignable to type " + p.reflTypeStr(to))
	}
	v := p.rvLoad(x)
	_, toIface := to.Underlying().(*types.Interface)
	_, fromIface := x.T.Underlying().(*types.Interface)
	if toIface && !fromIface {
		return IfaceV{T: x.T, V: v}
	}
	return v
}

func (p *Path) reflStructField(T types.Type, st *types.Struct, i int) Value {
	sft := p.reflPkgType("StructField")
	sst, ok := sft.Underlying().(*types.Struct)
	if !ok {
		panic(p.abort("reflect model: reflect.StructField is not a struct"))
	}
	f := st.Field(i)
	res := p.zero(sft).(*StructV)
	for k := 0; k < sst.NumFields(); k++ {
		switch sst.Field(k).Name() {
		case "Name":
			res.F[k] = StrV(f.Name())
		case "PkgPath":
			if !f.Exported() {
				if f.Pkg() == nil {
					panic(p.abort("reflect model: unexported field without package"))
				}
				res.F[k] = StrV(f.Pkg().Path())
			} else {
				res.F[k] = StrV("")
			}
		case "Type":
			res.F[k] = p.reflTypeValue(f.Type())
		case "Tag":
			res.F[k] = StrV(st.Tag(i))
		case "Offset":
			res.F[k] = Opaque{"reflect.StructField.Offset is not modelled"}
		case "Index":
			arr := &ArrayV{E: []Value{BVConstU(uint64(i), 64)}}
			o := p.newObject(arr, types.NewArray(types.Typ[types.Int], 1))
			res.F[k] = SliceV{Arr: Ptr{Obj: o}, Len: BVConstU(1, 64), Cap: BVConstU(1, 64)}
		case "Anonymous":
			res.F[k] = BoolT(f.Embedded())
		default:
			panic(p.abort("reflect model: unknown field reflect.StructField." + sst.Field(k).Name()))
		}
	}
	return res
}

func init() {
	reg := func(name string, f intrinsic) { intrinsics[name] = f }
	V := "(reflect.Value)."
	T := "(*reflect.rtype)."

	// ---------------- package functions ----------------
	reg("reflect.ValueOf", func(p *Path, fn *ssa.Function, a []Value) Value {
		iv, ok := a[0].(IfaceV)
		if !ok {
			panic(p.abort("reflect.ValueOf of " + describe(a[0])))
		}
		if iv.T == nil {
			return p.rvInvalid()
		}
		if _, isIface := iv.T.Underlying().(*types.Interface); isIface {
			panic(p.abort("reflect.ValueOf: dynamic type is an interface type"))
		}
		return p.rvBox(iv.T, iv.V, 0)
	})
	reg("reflect.TypeOf", func(p *Path, fn *ssa.Function, a []Value) Value {
		iv, ok := a[0].(IfaceV)
		if !ok {
			panic(p.abort("reflect.TypeOf of " + describe(a[0])))
		}
		if iv.T == nil {
			return IfaceV{}
		}
		return p.reflTypeValue(iv.T)
	})
	ptrTo := func(p *Path, fn *ssa.Function, a []Value) Value {
		t, ok := p.reflTypeArg(a[0], "PointerTo")
		if !ok {
			p.goPanicRuntime("invalid memory address or nil pointer dereference")
		}
		return p.reflTypeValue(types.NewPointer(t))
	}
	reg("reflect.PtrTo", ptrTo)
	reg("reflect.PointerTo", ptrTo)
	reg("reflect.New", func(p *Path, fn *ssa.Function, a []Value) Value {
		t, ok := p.reflTypeArg(a[0], "New")
		if !ok {
			p.reflGoPanic("reflect: New(nil)")
		}
		o := p.newObject(p.zero(t), t)
		return p.rvBox(types.NewPointer(t), Ptr{Obj: o}, 0)
	})
	reg("reflect.Zero", func(p *Path, fn *ssa.Function, a []Value) Value {
		t, ok := p.reflTypeArg(a[0], "Zero")
		if !ok {
			p.reflGoPanic("reflect: Zero(nil)")
		}
		return p.rvBox(t, p.zero(t), 0)
	})
	reg("reflect.MakeSlice", func(p *Path, fn *ssa.Function, a []Value) Value {
		t, ok := p.reflTypeArg(a[0], "MakeSlice")
		if !ok {
			p.goPanicRuntime("invalid memory address or nil pointer dereference")
		}
		st, isSlice := t.Underlying().(*types.Slice)
		if !isSlice {
			p.reflGoPanic("reflect.MakeSlice of non-slice type")
		}
		ln, cp := p.reflIntArg(a[1], "MakeSlice len"), p.reflIntArg(a[2], "MakeSlice cap")
		if ln < 0 {
			p.reflGoPanic("reflect.MakeSlice: negative len")
		}
		if cp < 0 {
			p.reflGoPanic("reflect.MakeSlice: negative cap")
		}
		if ln > cp {
			p.reflGoPanic("reflect.MakeSlice: len > cap")
		}
		if int64(cp) > p.hr.h.allocLimit() {
			panic(p.abort("reflect.MakeSlice beyond the allocation limit of the harness"))
		}
		if p.hr.allocHook != nil {
			p.hr.allocHook(p, BVConstU(uint64(cp), 64))
		}
		at := types.NewArray(st.Elem(), int64(cp))
		o := p.newObject(p.zero(at), at)
		return p.rvBox(t, SliceV{Arr: Ptr{Obj: o}, Len: BVConstU(uint64(ln), 64), Cap: BVConstU(uint64(cp), 64)}, 0)
	})
	reg("reflect.Copy", func(p *Path, fn *ssa.Function, a []Value) Value {
		d, s := p.rvUnpack(a[0], "Copy dst"), p.rvUnpack(a[1], "Copy src")
		p.rvMustBe(d, "Copy", rkSlice, rkArray)
		p.rvMustBe(s, "Copy", rkSlice, rkArray, rkString)
		if d.kind() != rkSlice || s.kind() != rkSlice {
			panic(p.abort("reflect.Copy: only slice to slice is modelled"))
		}
		p.rvMustBeExported(d, "Copy")
		p.rvMustBeExported(s, "Copy")
		de := d.T.Underlying().(*types.Slice).Elem()
		se := s.T.Underlying().(*types.Slice).Elem()
		if !types.Identical(de, se) {
			p.reflGoPanic("reflect.Copy: " + p.reflTypeStr(de) + " != " + p.reflTypeStr(se))
		}
		dv, ok1 := p.rvLoad(d).(SliceV)
		sv, ok2 := p.rvLoad(s).(SliceV)
		if !ok1 || !ok2 {
			panic(p.abort("reflect.Copy: slice representation not supported"))
		}
		return p.copyOp(dv, sv)
	})
	reg("reflect.Indirect", func(p *Path, fn *ssa.Function, a []Value) Value {
		r := p.rvUnpack(a[0], "Indirect")
		if !r.valid || r.kind() != rkPtr {
			return a[0]
		}
		return p.rvElem(r)
	})

	// ---------------- reflect.StructTag ----------------
	reg("(reflect.StructTag).Get", func(p *Path, fn *ssa.Function, a []Value) Value {
		return StrV(reflect.StructTag(p.strArg(a[0], "StructTag.Get")).Get(p.strArg(a[1], "StructTag.Get key")))
	})
	reg("(reflect.StructTag).Lookup", func(p *Path, fn *ssa.Function, a []Value) Value {
		s, ok := reflect.StructTag(p.strArg(a[0], "StructTag.Lookup")).Lookup(p.strArg(a[1], "StructTag.Lookup key"))
		return TupleV{StrV(s), BoolT(ok)}
	})

	// ---------------- reflect.Type ----------------
	reg(T+"Len", func(p *Path, fn *ssa.Function, a []Value) Value {
		t := p.reflTypeOfRecv(a[0], "Type.Len")
		at, ok := t.Underlying().(*types.Array)
		if !ok {
			p.reflGoPanic("reflect: Len of non-array type " + p.reflTypeStr(t))
		}
		return BVConstI(at.Len(), 64)
	})
	reg(T+"NumField", func(p *Path, fn *ssa.Function, a []Value) Value {
		t := p.reflTypeOfRecv(a[0], "Type.NumField")
		st, ok := t.Underlying().(*types.Struct)
		if !ok {
			p.reflGoPanic("reflect: NumField of non-struct type " + p.reflTypeStr(t))
		}
		return BVConstI(int64(st.NumFields()), 64)
	})
	reg(T+"Field", func(p *Path, fn *ssa.Function, a []Value) Value {
		t := p.reflTypeOfRecv(a[0], "Type.Field")
		st, ok := t.Underlying().(*types.Struct)
		if !ok {
			p.reflGoPanic("reflect: Field of non-struct type " + p.reflTypeStr(t))
		}
		i := p.reflIntArg(a[1], "Type.Field index")
		if i < 0 || i >= st.NumFields() {
			p.reflGoPanic("reflect: Field index out of bounds")
		}
		return p.reflStructField(t, st, i)
	})
	reg(T+"Bits", func(p *Path, fn *ssa.Function, a []Value) Value {
		t := p.reflTypeOfRecv(a[0], "Type.Bits")
		k, _ := reflKind(t)
		b, ok := reflBits(k)
		if !ok {
			p.reflGoPanic("reflect: Bits of non-arithmetic Type " + p.reflTypeStr(t))
		}
		return BVConstI(int64(b), 64)
	})
	reg(T+"Implements", func(p *Path, fn *ssa.Function, a []Value) Value {
		t := p.reflTypeOfRecv(a[0], "Type.Implements")
		u, ok := p.reflTypeArg(a[1], "Type.Implements")
		if !ok {
			p.reflGoPanic("reflect: nil type passed to Type.Implements")
		}
		it, isIface := u.Underlying().(*types.Interface)
		if !isIface {
			p.reflGoPanic("reflect: non-interface type passed to Type.Implements")
		}
		return BoolT(types.Implements(t, it))
	})
	reg(T+"AssignableTo", func(p *Path, fn *ssa.Function, a []Value) Value {
		t := p.reflTypeOfRecv(a[0], "Type.AssignableTo")
		u, ok := p.reflTypeArg(a[1], "Type.AssignableTo")
		if !ok {
			p.reflGoPanic("reflect: nil type passed to Type.AssignableTo")
		}
		return BoolT(p.reflAssignable(t, u))
	})
	reg(T+"NumMethod", func(p *Path, fn *ssa.Function, a []Value) Value {
		t := p.reflTypeOfRecv(a[0], "Type.NumMethod")
		if it, ok := t.Underlying().(*types.Interface); ok {
			return BVConstI(int64(it.NumMethods()), 64) // interface types: exported and unexported
		}
		ms := types.NewMethodSet(t)
		n := 0
		for i := 0; i < ms.Len(); i++ {
			if ms.At(i).Obj().Exported() {
				n++
			}
		}
		return BVConstI(int64(n), 64)
	})
	reg(T+"PkgPath", func(p *Path, fn *ssa.Function, a []Value) Value {
		t := p.reflTypeOfRecv(a[0], "Type.PkgPath")
		if n, ok := t.(*types.Named); ok && n.Obj().Pkg() != nil {
			return StrV(n.Obj().Pkg().Path())
		}
		if _, ok := t.(*types.Alias); ok {
			panic(p.abort("reflect Type.PkgPath of an alias type"))
		}
		return StrV("")
	})

	// ---------------- reflect.Value: inspection ----------------
	reg(V+"IsValid", func(p *Path, fn *ssa.Function, a []Value) Value {
		return BoolT(p.rvUnpack(a[0], "Value.IsValid").valid)
	})
	reg(V+"Kind", func(p *Path, fn *ssa.Function, a []Value) Value {
		r := p.rvUnpack(a[0], "Value.Kind")
		if !r.valid {
			return BVConstU(0, 64)
		}
		return BVConstU(uint64(r.kind()), 64)
	})
	reg(V+"Type", func(p *Path, fn *ssa.Function, a []Value) Value {
		r := p.rvUnpack(a[0], "Value.Type")
		if !r.valid {
			p.reflValuePanic("reflect.Value.Type")
		}
		return p.reflTypeValue(r.T)
	})
	reg(V+"CanAddr", func(p *Path, fn *ssa.Function, a []Value) Value {
		r := p.rvUnpack(a[0], "Value.CanAddr")
		return BoolT(r.valid && r.addr())
	})
	reg(V+"CanSet", func(p *Path, fn *ssa.Function, a []Value) Value {
		r := p.rvUnpack(a[0], "Value.CanSet")
		return BoolT(r.valid && r.addr() && !r.ro())
	})
	reg(V+"CanInterface", func(p *Path, fn *ssa.Function, a []Value) Value {
		r := p.rvUnpack(a[0], "Value.CanInterface")
		if !r.valid {
			p.reflValuePanic("reflect.Value.CanInterface")
		}
		return BoolT(!r.ro())
	})
	reg(V+"Interface", func(p *Path, fn *ssa.Function, a []Value) Value {
		r := p.rvUnpack(a[0], "Value.Interface")
		p.rvMustBeExported(r, "Interface")
		v := p.rvLoad(r)
		if r.kind() == rkInterface {
			iv, ok := v.(IfaceV)
			if !ok {
				panic(p.abort("reflect model: interface location holds " + describe(v)))
			}
			return iv // the interface value itself (nil stays nil)
		}
		return IfaceV{T: r.T, V: v}
	})
	reg(V+"IsNil", func(p *Path, fn *ssa.Function, a []Value) Value {
		r := p.rvUnpack(a[0], "Value.IsNil")
		p.rvMustBe(r, "IsNil", rkChan, rkFunc, rkInterface, rkMap, rkPtr, rkSlice, rkUnsafePointer)
		switch x := p.rvLoad(r).(type) {
		case Ptr:
			if x.Sym != nil {
				panic(p.abort("reflect Value.IsNil on symbolic-index pointer"))
			}
			return BoolT(x.Obj == nil && x.Global == nil)
		case SliceV:
			return BoolT(x.Arr.Obj == nil)
		case IfaceV:
			return BoolT(x.T == nil)
		case *MapObj:
			return BoolT(x == nil)
		case *Closure:
			return BoolT(x == nil)
		case *ChanObj:
			return BoolT(x == nil)
		default:
			panic(p.abort("reflect Value.IsNil on " + describe(x)))
		}
	})
	reg(V+"Len", func(p *Path, fn *ssa.Function, a []Value) Value {
		r := p.rvUnpack(a[0], "Value.Len")
		if r.valid && r.kind() == rkPtr {
			panic(p.abort("reflect Value.Len on a pointer (pointer-to-array form is not modelled)"))
		}
		p.rvMustBe(r, "Len", rkArray, rkChan, rkMap, rkSlice, rkString)
		switch x := p.rvLoad(r).(type) {
		case SliceV:
			return x.Len
		case *ArrayV:
			return BVConstU(uint64(len(x.E)), 64)
		case StrV:
			return BVConstU(uint64(len(x)), 64)
		case SymStrV: // symstr.go
			return BVConstU(uint64(len(x.B)), 64)
		case *MapObj:
			if x == nil {
				return BVConstU(0, 64)
			}
			return BVConstU(uint64(len(x.Entries)), 64)
		default:
			panic(p.abort("reflect Value.Len on " + describe(x)))
		}
	})
	reg(V+"Cap", func(p *Path, fn *ssa.Function, a []Value) Value {
		r := p.rvUnpack(a[0], "Value.Cap")
		if r.valid && r.kind() == rkPtr {
			panic(p.abort("reflect Value.Cap on a pointer (pointer-to-array form is not modelled)"))
		}
		p.rvMustBe(r, "Cap", rkArray, rkChan, rkSlice)
		switch x := p.rvLoad(r).(type) {
		case SliceV:
			return x.Cap
		case *ArrayV:
			return BVConstU(uint64(len(x.E)), 64)
		default:
			panic(p.abort("reflect Value.Cap on " + describe(x)))
		}
	})
	reg(V+"NumField", func(p *Path, fn *ssa.Function, a []Value) Value {
		r := p.rvUnpack(a[0], "Value.NumField")
		p.rvMustBe(r, "NumField", rkStruct)
		return BVConstI(int64(r.T.Underlying().(*types.Struct).NumFields()), 64)
	})
	reg(V+"Uint", func(p *Path, fn *ssa.Function, a []Value) Value {
		r := p.rvUnpack(a[0], "Value.Uint")
		p.rvMustBe(r, "Uint", 7, 8, 9, 10, 11, 12)
		t, ok := p.rvLoad(r).(*Term)
		if !ok {
			panic(p.abort("reflect Value.Uint: location does not hold an integer term"))
		}
		return p.tt.Resize(t, 64, false)
	})
	reg(V+"Bool", func(p *Path, fn *ssa.Function, a []Value) Value {
		r := p.rvUnpack(a[0], "Value.Bool")
		p.rvMustBe(r, "Bool", rkBool)
		t, ok := p.rvLoad(r).(*Term)
		if !ok {
			panic(p.abort("reflect Value.Bool: location does not hold a term"))
		}
		return t
	})
	reg(V+"String", func(p *Path, fn *ssa.Function, a []Value) Value {
		r := p.rvUnpack(a[0], "Value.String")
		if !r.valid {
			return StrV("<invalid Value>")
		}
		if r.kind() != rkString {
			return StrV("<" + p.reflTypeStr(r.T) + " Value>")
		}
		switch s := p.rvLoad(r).(type) {
		case StrV:
			return s
		case SymStrV: // symstr.go
			return s
		}
		panic(p.abort("reflect Value.String: location does not hold a string"))
	})
	reg(V+"Bytes", func(p *Path, fn *ssa.Function, a []Value) Value {
		r := p.rvUnpack(a[0], "Value.Bytes")
		p.rvMustBe(r, "Bytes", rkSlice, rkArray)
		switch u := r.T.Underlying().(type) {
		case *types.Slice:
			if k, _ := reflKind(u.Elem()); k != rkUint8 {
				p.reflGoPanic("reflect.Value.Bytes of non-byte slice")
			}
			return p.rvLoad(r)
		case *types.Array:
			if k, _ := reflKind(u.Elem()); k != rkUint8 {
				p.reflGoPanic("reflect.Value.Bytes of non-byte array")
			}
			if !r.addr() {
				p.reflGoPanic("reflect.Value.Bytes of unaddressable byte array")
			}
			n := BVConstI(u.Len(), 64)
			return SliceV{Arr: r.loc, Len: n, Cap: n}
		}
		panic(p.abort("reflect Value.Bytes: unexpected type"))
	})

	// ---------------- reflect.Value: navigation ----------------
	reg(V+"Elem", func(p *Path, fn *ssa.Function, a []Value) Value {
		r := p.rvUnpack(a[0], "Value.Elem")
		p.rvMustBe(r, "Elem", rkInterface, rkPtr)
		return p.rvElem(r)
	})
	reg(V+"Addr", func(p *Path, fn *ssa.Function, a []Value) Value {
		r := p.rvUnpack(a[0], "Value.Addr")
		if !r.valid {
			p.reflValuePanic("reflect.Value.Addr")
		}
		if !r.addr() {
			p.reflGoPanic("reflect.Value.Addr of unaddressable value")
		}
		return p.rvBox(types.NewPointer(r.T), r.loc, r.inherit())
	})
	reg(V+"Field", func(p *Path, fn *ssa.Function, a []Value) Value {
		r := p.rvUnpack(a[0], "Value.Field")
		p.rvMustBe(r, "Field", rkStruct)
		if isBigIntUnder(r.T) {
			panic(p.abort("reflect Value.Field on math/big.Int (theory value)"))
		}
		st := r.T.Underlying().(*types.Struct)
		i := p.reflIntArg(a[1], "Value.Field index")
		if i < 0 || i >= st.NumFields() {
			p.reflGoPanic("reflect: Field index out of range")
		}
		if _, ok := (*p.slot(r.loc)).(*StructV); !ok {
			panic(p.abort("reflect Value.Field: location holds " + describe(*p.slot(r.loc))))
		}
		fl := r.flag & (rvFlagRO | rvFlagAddr)
		if !st.Field(i).Exported() {
			if st.Field(i).Embedded() {
				// reflect's flagEmbedRO is not inherited by the fields of the embedded struct; only flagStickyRO is modelled
				panic(p.abort("reflect Value.Field: unexported embedded field (flagEmbedRO is not modelled)"))
			}
			fl |= rvFlagRO
		}
		return p.rvPack(st.Field(i).Type(), r.loc.child(i), fl)
	})
	reg(V+"Index", func(p *Path, fn *ssa.Function, a []Value) Value {
		r := p.rvUnpack(a[0], "Value.Index")
		p.rvMustBe(r, "Index", rkArray, rkSlice, rkString)
		switch u := r.T.Underlying().(type) {
		case *types.Array:
			i := p.reflIntArg(a[1], "Value.Index index")
			if i < 0 || int64(i) >= u.Len() {
				p.reflGoPanic("reflect: array index out of range")
			}
			return p.rvPack(u.Elem(), r.loc.child(i), r.flag&(rvFlagRO|rvFlagAddr))
		case *types.Slice:
			s, ok := p.rvLoad(r).(SliceV)
			if !ok {
				panic(p.abort("reflect Value.Index: slice representation not supported"))
			}
			it, isT := a[1].(*Term)
			if !isT {
				panic(p.abort("reflect Value.Index: index is " + describe(a[1])))
			}
			p.check(p.tt.ULt(it, s.Len), "reflect: slice index out of range")
			i := p.reflIntArg(a[1], "Value.Index index")
			return p.rvPack(u.Elem(), s.Arr.child(s.Off+i), r.inherit()|rvFlagAddr)
		}
		panic(p.abort("reflect Value.Index on a string is not modelled"))
	})
	reg(V+"Slice", func(p *Path, fn *ssa.Function, a []Value) Value {
		r := p.rvUnpack(a[0], "Value.Slice")
		p.rvMustBe(r, "Slice", rkArray, rkSlice, rkString)
		i, j := p.reflIntArg(a[1], "Value.Slice i"), p.reflIntArg(a[2], "Value.Slice j")
		switch u := r.T.Underlying().(type) {
		case *types.Array:
			if !r.addr() {
				p.reflGoPanic("reflect.Value.Slice: slice of unaddressable array")
			}
			n := int(u.Len())
			if i < 0 || j < i || j > n {
				p.reflGoPanic("reflect.Value.Slice: slice index out of bounds")
			}
			return p.rvBox(types.NewSlice(u.Elem()), SliceV{Arr: r.loc, Off: i, Len: BVConstU(uint64(j-i), 64), Cap: BVConstU(uint64(n-i), 64)}, r.inherit())
		case *types.Slice:
			s, ok := p.rvLoad(r).(SliceV)
			if !ok {
				panic(p.abort("reflect Value.Slice: slice representation not supported"))
			}
			tt := p.tt
			ci, cj := BVConstU(uint64(i), 64), BVConstU(uint64(j), 64)
			if i < 0 || j < i {
				p.reflGoPanic("reflect.Value.Slice: slice index out of bounds")
			}
			p.check(tt.ULe(cj, s.Cap), "reflect.Value.Slice: slice index out of bounds")
			if s.Arr.Obj == nil {
				return p.rvBox(r.T, s, r.inherit())
			}
			return p.rvBox(r.T, SliceV{Arr: s.Arr, Off: s.Off + i, Len: tt.BVSub(cj, ci), Cap: tt.BVSub(s.Cap, ci)}, r.inherit())
		}
		panic(p.abort("reflect Value.Slice on a string is not modelled"))
	})

	// ---------------- reflect.Value: mutation ----------------
	reg(V+"Set", func(p *Path, fn *ssa.Function, a []Value) Value {
		r := p.rvUnpack(a[0], "Value.Set")
		p.rvMustBeAssignable(r, "Set")
		x := p.rvUnpack(a[1], "Value.Set argument")
		p.rvMustBeExported(x, "Set") // also panics on the zero Value
		p.store(r.loc, p.rvAssignValue(x, r.T, "reflect.Set"))
		return nil
	})
	reg(V+"SetUint", func(p *Path, fn *ssa.Function, a []Value) Value {
		r := p.rvUnpack(a[0], "Value.SetUint")
		p.rvMustBeAssignable(r, "SetUint")
		p.rvMustBe(r, "SetUint", 7, 8, 9, 10, 11, 12)
		w, _ := reflBits(r.kind())
		x, ok := a[1].(*Term)
		if !ok || x.S.K != SBV || x.S.W != 64 {
			panic(p.abort("reflect Value.SetUint: argument is " + describe(a[1])))
		}
		p.store(r.loc, p.tt.Resize(x, w, false))
		return nil
	})
	reg(V+"SetBool", func(p *Path, fn *ssa.Function, a []Value) Value {
		r := p.rvUnpack(a[0], "Value.SetBool")
		p.rvMustBeAssignable(r, "SetBool")
		p.rvMustBe(r, "SetBool", rkBool)
		x, ok := a[1].(*Term)
		if !ok || x.S.K != SBool {
			panic(p.abort("reflect Value.SetBool: argument is " + describe(a[1])))
		}
		p.store(r.loc, x)
		return nil
	})
	reg(V+"SetString", func(p *Path, fn *ssa.Function, a []Value) Value {
		r := p.rvUnpack(a[0], "Value.SetString")
		p.rvMustBeAssignable(r, "SetString")
		p.rvMustBe(r, "SetString", rkString)
		if ss, isSym := a[1].(SymStrV); isSym { // symstr.go
			p.store(r.loc, ss)
			return nil
		}
		p.store(r.loc, StrV(p.strArg(a[1], "Value.SetString")))
		return nil
	})
	reg(V+"SetBytes", func(p *Path, fn *ssa.Function, a []Value) Value {
		r := p.rvUnpack(a[0], "Value.SetBytes")
		p.rvMustBeAssignable(r, "SetBytes")
		p.rvMustBe(r, "SetBytes", rkSlice)
		if k, _ := reflKind(r.T.Underlying().(*types.Slice).Elem()); k != rkUint8 {
			p.reflGoPanic("reflect.Value.SetBytes of non-byte slice")
		}
		x, ok := a[1].(SliceV)
		if !ok {
			panic(p.abort("reflect Value.SetBytes: argument is " + describe(a[1])))
		}
		p.store(r.loc, x)
		return nil
	})
	reg(V+"SetLen", func(p *Path, fn *ssa.Function, a []Value) Value {
		r := p.rvUnpack(a[0], "Value.SetLen")
		p.rvMustBeAssignable(r, "SetLen")
		p.rvMustBe(r, "SetLen", rkSlice)
		s, ok := p.rvLoad(r).(SliceV)
		n, ok2 := a[1].(*Term)
		if !ok || !ok2 || n.S.K != SBV || n.S.W != 64 {
			panic(p.abort("reflect Value.SetLen: unsupported operands"))
		}
		p.check(p.tt.ULe(n, s.Cap), "reflect: slice length out of range in SetLen")
		s.Len = n
		p.store(r.loc, s)
		return nil
	})
}

// rvElem implements Value.Elem for pointer and interface kinds.
func (p *Path) rvElem(r rval) Value {
	switch r.kind() {
	case rkPtr:
		ptr, ok := p.rvLoad(r).(Ptr)
		if !ok {
			panic(p.abort("reflect Value.Elem: pointer location holds " + describe(p.rvLoad(r))))
		}
		if ptr.Sym != nil || ptr.Global != nil {
			panic(p.abort("reflect Value.Elem: unsupported pointer form"))
		}
		if ptr.Obj == nil {
			return p.rvInvalid()
		}
		et := r.T.Underlying().(*types.Pointer).Elem()
		if _, okk := reflKind(et); !okk {
			panic(p.abort("reflect Value.Elem: no Kind for " + et.String()))
		}
		return p.rvPack(et, Ptr{Obj: ptr.Obj, Path: ptr.Path}, r.inherit()|rvFlagAddr)
	case rkInterface:
		iv, ok := p.rvLoad(r).(IfaceV)
		if !ok {
			panic(p.abort("reflect Value.Elem: interface location holds " + describe(p.rvLoad(r))))
		}
		if iv.T == nil {
			return p.rvInvalid()
		}
		return p.rvBox(iv.T, iv.V, r.inherit())
	}
	panic(p.abort(fmt.Sprintf("reflect Value.Elem on kind %d", r.kind())))
}
