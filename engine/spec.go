package main

// SMT-level specification operators exposed to harnesses (verifsym.Spec256).

import (
	"golang.org/x/tools/go/ssa"
)

func (p *Path) word256(v Value) *Term {
	t := p.bigLoad(v)
	if t.S.K == SBV {
		return p.tt.Extract(t, 255, 0)
	}
	// Int mode: x mod 2^256 as a bit-vector
	return p.tt.Int2BV(p.tt.IMod(t, IConst(pow2(256))), 256)
}

func (p *Path) fromWord256(t *Term) Value {
	if p.bvMode() {
		r := p.tt.ZExt(t, p.bigW())
		p.setBound(r, 256)
		return p.newBig(r)
	}
	r := p.tt.BV2Nat(t)
	p.setBound(r, 256)
	return p.newBig(r)
}

func init() {
	intrinsics[vsPkg+".Spec256"] = func(p *Path, fn *ssa.Function, a []Value) Value {
		op := p.strArg(a[0], "Spec256 op")
		var w []*Term
		for _, e := range p.sliceElems(a[1].(SliceV)) {
			w = append(w, p.word256(e))
		}
		tt := p.tt
		c := func(v uint64) *Term { return BVConstU(v, 256) }
		b2w := func(b *Term) *Term { return tt.Ite(b, c(1), c(0)) }
		zero := c(0)
		var r *Term
		switch op {
		case "add":
			r = tt.BVAdd(w[0], w[1])
		case "sub":
			r = tt.BVSub(w[0], w[1])
		case "mul":
			r = tt.BVMul(w[0], w[1])
		case "div":
			r = tt.Ite(tt.Eq(w[1], zero), zero, tt.BVUDiv(w[0], w[1]))
		case "mod":
			r = tt.Ite(tt.Eq(w[1], zero), zero, tt.BVURem(w[0], w[1]))
		case "sdiv":
			r = tt.Ite(tt.Eq(w[1], zero), zero, tt.BVSDiv(w[0], w[1]))
		case "smod":
			r = tt.Ite(tt.Eq(w[1], zero), zero, tt.BVSRem(w[0], w[1]))
		case "addmod":
			x, y, m := tt.ZExt(w[0], 257), tt.ZExt(w[1], 257), tt.ZExt(w[2], 257)
			r = tt.Ite(tt.Eq(w[2], zero), zero, tt.Extract(tt.BVURem(tt.BVAdd(x, y), m), 255, 0))
		case "mulmod":
			x, y, m := tt.ZExt(w[0], 512), tt.ZExt(w[1], 512), tt.ZExt(w[2], 512)
			r = tt.Ite(tt.Eq(w[2], zero), zero, tt.Extract(tt.BVURem(tt.BVMul(x, y), m), 255, 0))
		case "and":
			r = tt.BVAnd(w[0], w[1])
		case "or":
			r = tt.BVOr(w[0], w[1])
		case "xor":
			r = tt.BVXor(w[0], w[1])
		case "not":
			r = tt.BVNot(w[0])
		case "lt":
			r = b2w(tt.ULt(w[0], w[1]))
		case "gt":
			r = b2w(tt.ULt(w[1], w[0]))
		case "slt":
			r = b2w(tt.SLt(w[0], w[1]))
		case "sgt":
			r = b2w(tt.SLt(w[1], w[0]))
		case "eq":
			r = b2w(tt.Eq(w[0], w[1]))
		case "iszero":
			r = b2w(tt.Eq(w[0], zero))
		case "shl":
			r = tt.BVShl(w[1], w[0])
		case "shr":
			r = tt.BVLShr(w[1], w[0])
		case "sar":
			r = tt.BVAShr(w[1], w[0])
		case "byte":
			// index 0 = most significant byte
			amt := tt.BVMul(tt.BVSub(c(31), w[0]), c(8))
			r = tt.Ite(tt.ULt(w[0], c(32)), tt.BVAnd(tt.BVLShr(w[1], amt), c(0xff)), zero)
		case "signextend":
			r = w[1]
			for k := 30; k >= 0; k-- {
				ext := tt.SExt(tt.Extract(w[1], 8*k+7, 0), 256)
				r = tt.Ite(tt.Eq(w[0], c(uint64(k))), ext, r)
			}
		default:
			panic(p.abort("Spec256: unknown op " + op))
		}
		return p.fromWord256(r)
	}
}

func init() {
	intrinsics[vsPkg+".Mul64"] = func(p *Path, fn *ssa.Function, a []Value) Value {
		x, y := p.tt.ZExt(a[0].(*Term), 128), p.tt.ZExt(a[1].(*Term), 128)
		m := p.tt.BVMul(x, y)
		return TupleV{p.tt.Extract(m, 127, 64), p.tt.Extract(m, 63, 0)}
	}
}

func init() {
	// vs.Concretize(x): fork over the feasible values of x and return it as a constant
	intrinsics[vsPkg+".Concretize"] = func(p *Path, fn *ssa.Function, a []Value) Value {
		t := a[0].(*Term)
		return BVConst(p.concretize(t, "vs.Concretize"), t.S.W)
	}
}
