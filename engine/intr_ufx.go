package main

// vs.UFX(name, outLen, args ...interface{}) []byte : uninterpreted function of
// mixed-sort arguments ([]byte, *big.Int, integers, bool).  Unlike vs.UF a
// *big.Int argument is passed in its native sort (Int or bit-vector), so no
// byte-length forks and no int2bv terms are created.  The function symbol is
// keyed by the name and the argument sorts, hence applications with different
// argument shapes are different (unrelated) functions - which only ever
// weakens what can be concluded from equal results.

import (
	"fmt"
	"strings"

	"golang.org/x/tools/go/ssa"
)

func init() {
	intrinsics[vsPkg+".UFX"] = func(p *Path, fn *ssa.Function, a []Value) Value {
		name := p.strArg(a[0], "UFX name")
		outLen := p.intArg(a[1], "UFX outLen")
		if outLen <= 0 {
			panic(p.abort("UFX: outLen must be positive"))
		}
		var args []*Term
		var shape []string
		for _, e := range p.sliceElems(a[2].(SliceV)) {
			iv, ok := e.(IfaceV)
			if !ok || iv.T == nil {
				panic(p.abort("UFX: nil or non-interface argument"))
			}
			switch x := iv.V.(type) {
			case *Term:
				args = append(args, x)
				shape = append(shape, x.S.String())
			case SliceV:
				bs := p.sliceBytes(x)
				shape = append(shape, fmt.Sprintf("b%d", len(bs)))
				if len(bs) == 0 {
					continue
				}
				var cat *Term
				for _, b := range bs {
					if cat == nil {
						cat = b
					} else {
						cat = p.tt.Concat(cat, b)
					}
				}
				args = append(args, cat)
			case Ptr:
				if x.Obj == nil || x.Obj.T == nil || !isBigIntUnder(x.Obj.T) {
					panic(p.abort("UFX: pointer argument must be a non-nil *big.Int"))
				}
				t := p.bigTerm(p.load(x))
				args = append(args, t)
				shape = append(shape, "big")
			default:
				panic(p.abort("UFX: unsupported argument " + describe(iv.V)))
			}
		}
		fname := fmt.Sprintf("ufx_%s_%s_%d", name, strings.NewReplacer("(", "", ")", "", " ", "", "_", "").Replace(strings.Join(shape, "_")), outLen)
		r := p.tt.App(fname, BV(8*outLen), args...)
		p.hr.noteUF(fname)
		out := make([]*Term, outLen)
		for i := range out {
			out[i] = p.tt.Extract(r, 8*(outLen-1-i)+7, 8*(outLen-1-i))
		}
		return p.termsToSlice(out)
	}
}
