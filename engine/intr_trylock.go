package main

// (*sync.Mutex).TryLock in the sequential lock model of intrinsics.go (same
// hold-count table, same key): succeeds and takes the lock iff it is not held.
// Without this model the real body would run on the mutex's state word, which
// the sequential model does not maintain.

import (
	"fmt"

	"golang.org/x/tools/go/ssa"
)

func init() {
	intrinsics["(*sync.Mutex).TryLock"] = func(p *Path, fn *ssa.Function, a []Value) Value {
		ptr := p.ptrOf(a[0])
		if ptr.Obj == nil {
			p.goPanicRuntime("invalid memory address or nil pointer dereference")
		}
		if p.lockHeld == nil {
			p.lockHeld = map[string]int{}
		}
		k := fmt.Sprintf("%p%v", ptr.Obj, ptr.Path)
		if p.lockHeld[k] != 0 {
			return FalseT
		}
		p.lockHeld[k] = -1
		return TrueT
	}
}
