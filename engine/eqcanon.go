package main

// Equalities asserted on the path (branch outcomes like  a == b  on arrays
// are conjunctions of byte equalities) are kept in a union-find, so that
// uninterpreted-function applications built later on equal arguments become
// the *same* term: keccak(x) and keccak(y) after x == y was decided.  Sound:
// a term is only ever replaced by one that the path condition makes equal.

func (p *Path) noteEqs(c *Term) {
	if c.Op != OpAnd && c.Op != OpEq {
		return
	}
	stack := []*Term{c}
	for n := 0; len(stack) > 0 && n < 4096; n++ {
		t := stack[len(stack)-1]
		stack = stack[:len(stack)-1]
		switch t.Op {
		case OpAnd:
			stack = append(stack, t.Args...)
		case OpEq:
			if t.Args[0].S.K == SBV {
				p.eqUnion(t.Args[0], t.Args[1])
			}
		}
	}
}

func (p *Path) eqFind(t *Term) *Term {
	if p.eqParent == nil {
		return t
	}
	r := t
	for {
		n, ok := p.eqParent[r]
		if !ok {
			break
		}
		r = n
	}
	for t != r { // path compression
		n := p.eqParent[t]
		p.eqParent[t] = r
		t = n
	}
	return r
}

func (p *Path) eqUnion(a, b *Term) {
	a, b = p.eqFind(a), p.eqFind(b)
	if sameTerm(a, b) {
		return
	}
	if a.IsConst() && b.IsConst() {
		return // contradictory path condition; the solver will say so
	}
	// representative: a constant if there is one, else the older term
	if b.IsConst() || (!a.IsConst() && b.ID < a.ID) {
		a, b = b, a
	}
	if p.eqParent == nil {
		p.eqParent = map[*Term]*Term{}
	}
	p.eqParent[b] = a
}
