package main

// math/big.Int as an SMT theory.  A big.Int cell holds a *Term of sort Int
// (Int mode, exact) or (_ BitVec W) two's complement (BV mode, with width
// obligations).  Template (package-init) constants are always Int-sorted
// constants and are converted on use.

import (
	"fmt"
	"math/big"
	"strings"

	"golang.org/x/tools/go/ssa"
)

func (p *Path) bigZero() Value { return IConstI(0) }

func (p *Path) bvMode() bool { return p.hr != nil && p.hr.h.bigW() > 0 }
func (p *Path) bigW() int    { return p.hr.h.bigW() }

// bigTerm normalises a stored big.Int content to the harness mode.
func (p *Path) bigTerm(v Value) *Term {
	t, ok := v.(*Term)
	if !ok {
		panic(p.abort("big.Int cell holds " + describe(v)))
	}
	if p.bvMode() && t.S.K == SInt {
		if !t.IsConst() {
			panic(p.abort("Int-sorted symbolic big.Int in BV mode"))
		}
		w := p.bigW()
		if t.Val.BitLen() >= w-1 {
			panic(p.abort(fmt.Sprintf("constant of %d bits does not fit big width %d", t.Val.BitLen(), w)))
		}
		r := BVConst(t.Val, w)
		p.setBound(r, t.Val.BitLen())
		return r
	}
	if !p.bvMode() && t.S.K == SBV {
		panic(p.abort("BV-sorted big.Int in Int mode"))
	}
	return t
}

func (p *Path) bigLoad(v Value) *Term {
	ptr := p.ptrOf(v)
	if ptr.Obj == nil {
		p.goPanicRuntime("invalid memory address or nil pointer dereference")
	}
	return p.bigTerm(p.load(ptr))
}

func (p *Path) bigStore(v Value, t *Term) Value {
	ptr := p.ptrOf(v)
	if ptr.Obj == nil {
		p.goPanicRuntime("invalid memory address or nil pointer dereference")
	}
	p.store(ptr, t)
	return v
}

func (p *Path) newBig(t *Term) Value {
	o := p.newObject(t, p.eng.bigIntType)
	return Ptr{Obj: o}
}

// --- magnitude bounds (bits of |x|), tracked syntactically to avoid width queries

func (p *Path) setBound(t *Term, bits int) {
	if t.IsConst() {
		return
	}
	if p.bounds == nil {
		p.bounds = map[*Term]int{}
	}
	if old, ok := p.bounds[t]; !ok || bits < old {
		p.bounds[t] = bits
	}
}

func (p *Path) bound(t *Term) int {
	if t.IsConst() {
		if t.S.K == SBV {
			return t.Signed().BitLen()
		}
		return t.Val.BitLen()
	}
	if b, ok := p.bounds[t]; ok {
		return b
	}
	if t.Op == OpIte {
		a, b := p.bound(t.Args[1]), p.bound(t.Args[2])
		if a > b {
			return a
		}
		return b
	}
	if t.S.K == SBV {
		return t.S.W // unknown
	}
	return 1 << 30
}

// widthOK records the obligation that an intermediate result fits W-1 bits.
func (p *Path) widthOK(resBits int, exact func() *Term, what string) {
	w := p.bigW()
	if resBits <= w-1 {
		return
	}
	// ask the solver
	c := exact()
	if c.IsTrue() {
		return
	}
	if c.IsFalse() {
		p.hr.noteUnknown("big width " + fmt.Sprint(w) + " insufficient for " + what + p.where())
		return
	}
	r := p.sol.CheckWith(p.tt.Not(c), false)
	if r != Unsat {
		p.hr.noteUnknown(fmt.Sprintf("big width %d insufficient (%s) for %s%s", w, r, what, p.where()))
	}
}

// ---------------------------------------------------------------------------

func (p *Path) bigAdd(x, y *Term) *Term {
	if !p.bvMode() {
		return p.tt.IAdd(x, y)
	}
	r := p.tt.BVAdd(x, y)
	bx, by := p.bound(x), p.bound(y)
	nb := max(bx, by) + 1
	p.widthOK(nb, func() *Term { return p.noSignedOverflowAdd(x, y, false) }, "Add")
	p.setBound(r, min(nb, p.bigW()))
	return r
}

func (p *Path) bigSub(x, y *Term) *Term {
	if !p.bvMode() {
		return p.tt.ISub(x, y)
	}
	r := p.tt.BVSub(x, y)
	nb := max(p.bound(x), p.bound(y)) + 1
	p.widthOK(nb, func() *Term { return p.noSignedOverflowAdd(x, y, true) }, "Sub")
	p.setBound(r, min(nb, p.bigW()))
	return r
}

func (p *Path) noSignedOverflowAdd(x, y *Term, sub bool) *Term {
	w := x.S.W
	ex, ey := p.tt.SExt(x, w+1), p.tt.SExt(y, w+1)
	var wide, narrow *Term
	if sub {
		wide, narrow = p.tt.BVSub(ex, ey), p.tt.BVSub(x, y)
	} else {
		wide, narrow = p.tt.BVAdd(ex, ey), p.tt.BVAdd(x, y)
	}
	return p.tt.Eq(wide, p.tt.SExt(narrow, w+1))
}

func (p *Path) bigMul(x, y *Term) *Term {
	if !p.bvMode() {
		return p.tt.IMul(x, y)
	}
	r := p.tt.BVMul(x, y)
	nb := p.bound(x) + p.bound(y)
	p.widthOK(nb, func() *Term {
		w := x.S.W
		wide := p.tt.BVMul(p.tt.SExt(x, 2*w), p.tt.SExt(y, 2*w))
		return p.tt.Eq(wide, p.tt.SExt(r, 2*w))
	}, "Mul")
	p.setBound(r, min(nb, p.bigW()))
	if nb <= p.bigW()-1 && !r.IsConst() {
		// product that provably does not overflow: remember the factors so that its sign
		// and zero-ness can be decided from theirs without bit-blasting the multiplier
		if p.prodOf == nil {
			p.prodOf = map[*Term][2]*Term{}
		}
		p.prodOf[r] = [2]*Term{x, y}
	}
	return r
}

// prodSign returns (isNegative, isZero) of a non-overflowing product from its factors.
func (p *Path) prodSign(r *Term) (neg, zero *Term, ok bool) {
	f, ok := p.prodOf[r]
	if !ok {
		return nil, nil, false
	}
	tt := p.tt
	z := BVConstU(0, r.S.W)
	xz, yz := tt.Eq(f[0], z), tt.Eq(f[1], z)
	xn, yn := p.bigIsNeg(f[0]), p.bigIsNeg(f[1])
	zero = tt.Or(xz, yz)
	neg = tt.And(tt.Not(zero), tt.Not(tt.Eq(xn, yn)))
	return neg, zero, true
}

func (p *Path) bigNeg(x *Term) *Term {
	if !p.bvMode() {
		return p.tt.INeg(x)
	}
	r := p.tt.BVNeg(x)
	p.setBound(r, p.bound(x))
	p.widthOK(p.bound(x)+1, func() *Term {
		return p.tt.Not(p.tt.Eq(x, BVConst(new(big.Int).Neg(pow2(x.S.W-1)), x.S.W)))
	}, "Neg")
	return r
}

func (p *Path) bigIsNeg(x *Term) *Term {
	if !p.bvMode() {
		return p.tt.ILt(x, IConstI(0))
	}
	if neg, _, ok := p.prodSign(x); ok {
		return neg
	}
	return p.tt.SLt(x, BVConstU(0, x.S.W))
}

func (p *Path) bigConst(v *big.Int) *Term {
	if p.bvMode() {
		return BVConst(v, p.bigW())
	}
	return IConst(v)
}

func (p *Path) bigEq(x, y *Term) *Term { return p.tt.Eq(x, y) }

func (p *Path) bigLt(x, y *Term) *Term {
	if !p.bvMode() {
		return p.tt.ILt(x, y)
	}
	return p.tt.SLt(x, y)
}

func (p *Path) bigAbs(x *Term) *Term {
	if p.bvMode() && p.isNonneg(x) { // bignonneg.go
		return x
	}
	r := p.tt.Ite(p.bigIsNeg(x), p.bigNeg(x), x)
	p.setBound(r, p.bound(x))
	return r
}

// truncated division (Quo/Rem) and Euclidean (Div/Mod)
func (p *Path) bigQuoRem(x, y *Term) (q, r *Term) {
	tt := p.tt
	if p.bvMode() {
		q, r = tt.BVSDiv(x, y), tt.BVSRem(x, y)
		p.setBound(q, p.bound(x))
		p.setBound(r, min(p.bound(x), p.bound(y)))
		return
	}
	// SMT div/mod are Euclidean: x = y*d + m, 0 <= m < |y|
	d, m := tt.IDiv(x, y), tt.IMod(x, y)
	// truncated: if x >= 0 or m == 0: q=d, r=m; else (x<0, m>0): q = d + sign(y) , r = m - |y|
	zero := IConstI(0)
	adj := tt.And(tt.ILt(x, zero), tt.Not(tt.Eq(m, zero)))
	ypos := tt.ILt(zero, y)
	q = tt.Ite(adj, tt.Ite(ypos, tt.IAdd(d, IConstI(1)), tt.ISub(d, IConstI(1))), d)
	r = tt.Ite(adj, tt.Ite(ypos, tt.ISub(m, y), tt.IAdd(m, y)), m)
	return
}

func (p *Path) bigDivMod(x, y *Term) (d, m *Term) {
	tt := p.tt
	if !p.bvMode() {
		return tt.IDiv(x, y), tt.IMod(x, y)
	}
	if y.IsConst() && y.Signed().Sign() > 0 {
		// Euclidean division by a positive constant 2^k is floor division:
		// arithmetic shift right, remainder = the low k bits (exact; avoids a
		// W-bit divider circuit).
		if yv := y.Signed(); yv.BitLen() >= 2 && new(big.Int).And(yv, new(big.Int).Sub(yv, bigOne)).Sign() == 0 {
			k := yv.BitLen() - 1
			w := x.S.W
			d = tt.BVAShr(x, BVConstU(uint64(k), w))
			m = tt.ZExt(tt.Extract(x, k-1, 0), w)
			p.setBound(d, p.bound(x))
			p.setBound(m, k)
			return
		}
	}
	q, r := tt.BVSDiv(x, y), tt.BVSRem(x, y)
	zero := BVConstU(0, x.S.W)
	one := BVConstU(1, x.S.W)
	neg := tt.SLt(r, zero)
	ypos := tt.SLt(zero, y)
	// Euclidean: if r < 0: if y > 0 {q-1, r+y} else {q+1, r-y}
	d = tt.Ite(neg, tt.Ite(ypos, tt.BVSub(q, one), tt.BVAdd(q, one)), q)
	m = tt.Ite(neg, tt.Ite(ypos, tt.BVAdd(r, y), tt.BVSub(r, y)), r)
	p.setBound(d, min(p.bound(x)+1, p.bigW()))
	p.setBound(m, p.bound(y))
	return
}

func (p *Path) bigCmp(x, y *Term) *Term {
	tt := p.tt
	return tt.Ite(p.bigLt(x, y), BVConstI(-1, 64), tt.Ite(tt.Eq(x, y), BVConstU(0, 64), BVConstU(1, 64)))
}

func pow2(n int) *big.Int { return new(big.Int).Lsh(bigOne, uint(n)) }

// isMask reports whether v == 2^k - 1, k >= 1.
func isMask(v *big.Int) (int, bool) {
	if v.Sign() <= 0 {
		return 0, false
	}
	k := v.BitLen()
	if new(big.Int).Add(v, bigOne).Cmp(pow2(k)) == 0 {
		return k, true
	}
	return 0, false
}

func (p *Path) bigAnd(x, y *Term) *Term {
	if p.bvMode() {
		r := p.tt.BVAnd(x, y)
		if p.isNonneg(x) || p.isNonneg(y) {
			p.setNonneg(r)
		}
		// bound: if either is non-negative with known bound
		bx, by := p.bound(x), p.bound(y)
		b := p.bigW()
		if y.IsConst() && y.Signed().Sign() >= 0 {
			b = min(b, by)
		}
		if x.IsConst() && x.Signed().Sign() >= 0 {
			b = min(b, bx)
		}
		p.setBound(r, b)
		return r
	}
	if x.IsConst() && y.IsConst() {
		return IConst(new(big.Int).And(x.Val, y.Val))
	}
	if x.IsConst() {
		x, y = y, x
	}
	if y.IsConst() {
		if k, ok := isMask(y.Val); ok {
			return p.tt.IMod(x, IConst(pow2(k)))
		}
		if y.Val.Sign() == 0 {
			return y
		}
	}
	panic(p.abort("big.Int.And with non-mask operand in Int mode"))
}

func (p *Path) bigLsh(x *Term, n *Term) *Term {
	tt := p.tt
	if !n.IsConst() && !p.bvMode() {
		v := p.concretize(n, "Lsh amount (Int mode)")
		n = BVConst(v, 64)
	}
	if n.IsConst() {
		k := int(n.Uint64())
		if !p.bvMode() {
			return tt.IMul(x, IConst(pow2(k)))
		}
		w := p.bigW()
		nb := p.bound(x) + k
		if k >= w {
			p.hr.noteUnknown(fmt.Sprintf("big width %d insufficient for Lsh by %d", w, k))
			k = w - 1
		}
		r := tt.BVShl(x, BVConstU(uint64(k), w))
		p.widthOK(nb, func() *Term {
			return tt.Eq(tt.BVAShr(r, BVConstU(uint64(k), w)), x)
		}, "Lsh")
		p.setBound(r, min(nb, w))
		if p.isNonneg(x) {
			p.setNonneg(r)
		}
		return r
	}
	w := p.bigW()
	amt := p.tt.Resize(n, w, false)
	if n.S.W > w {
		panic(p.abort("shift amount wider than big width"))
	}
	r := p.lshWide(x, n, amt) // bignonneg.go
	p.widthOK(w, func() *Term {
		if bx := p.bound(x); bx < w-1 {
			return tt.ULe(amt, BVConstU(uint64(w-1-bx), w))
		}
		return tt.And(tt.ULt(amt, BVConstU(uint64(w), w)), tt.Eq(tt.BVAShr(r, amt), x))
	}, "Lsh(symbolic)")
	nb := w
	if ra := tt.urange(amt); ra.ok && ra.hi < uint64(w) { // shift amount bounded syntactically (termrange.go)
		nb = min(w, p.bound(x)+int(ra.hi))
	}
	p.setBound(r, nb)
	if p.isNonneg(x) {
		p.setNonneg(r)
	}
	return r
}

func (p *Path) bigRsh(x *Term, n *Term) *Term {
	tt := p.tt
	if !p.bvMode() {
		if !n.IsConst() {
			v := p.concretize(n, "Rsh amount (Int mode)")
			n = BVConst(v, 64)
		}
		return tt.IDiv(x, IConst(pow2(int(n.Uint64()))))
	}
	w := p.bigW()
	var amt *Term
	if n.S.W <= w {
		amt = tt.ZExt(n, w)
	} else {
		panic(p.abort("shift amount wider than big width"))
	}
	r := tt.BVAShr(x, amt)
	p.setBound(r, p.bound(x))
	if p.isNonneg(x) {
		p.setNonneg(r)
	}
	return r
}

func (p *Path) bigBitLen(x *Term) *Term {
	tt := p.tt
	a := p.bigAbs(x)
	if a.IsConst() {
		if a.S.K == SBV {
			return BVConstU(uint64(a.Val.BitLen()), 64)
		}
		return BVConstU(uint64(a.Val.BitLen()), 64)
	}
	maxb := 0
	if p.bvMode() {
		maxb = min(p.bound(x), p.bigW()-1)
	} else {
		maxb = p.hr.h.intBitLenCap()
		if b := p.bound(x); b < maxb {
			maxb = b
		} else {
			// obligation: |x| < 2^maxb
			c := tt.ILt(a, IConst(pow2(maxb)))
			r := p.sol.CheckWith(tt.Not(c), false)
			if r != Unsat {
				p.hr.noteUnknown(fmt.Sprintf("BitLen cap %d insufficient (%s)%s", maxb, r, p.where()))
			}
		}
	}
	// bitlen in [0,maxb]; bitlen >= k+1 iff a >= 2^k.  Built as a balanced
	// decision tree (depth log2 maxb): a linear ite chain of several hundred
	// levels costs z3 ~10 s of macro expansion per query.
	var tree func(lo, hi int) *Term
	tree = func(lo, hi int) *Term {
		if lo == hi {
			return BVConstU(uint64(lo), 64)
		}
		mid := (lo + hi) / 2
		var ge *Term
		if p.bvMode() {
			ge = tt.ULe(BVConst(pow2(mid), a.S.W), a)
		} else {
			ge = tt.ILe(IConst(pow2(mid)), a)
		}
		return tt.Ite(ge, tree(mid+1, hi), tree(lo, mid))
	}
	return tree(0, maxb)
}

// bigBytesLen returns concrete byte length of |x| (forking over the possibilities).
func (p *Path) bigByteLen(x *Term) int {
	bl := p.bigBitLen(x)
	tt := p.tt
	n := tt.BVLShr(tt.BVAdd(bl, BVConstU(7, 64)), BVConstU(3, 64))
	return int(p.concretize(n, "big.Int byte length").Int64())
}

func (p *Path) bigByte(a *Term, k int) *Term { // k-th byte (little-endian index) of non-negative a
	tt := p.tt
	if p.bvMode() {
		if 8*k+7 >= a.S.W {
			return BVConstU(0, 8)
		}
		return tt.Extract(a, 8*k+7, 8*k)
	}
	return tt.Int2BV(tt.IMod(tt.IDiv(a, IConst(pow2(8*k))), IConstI(256)), 8)
}

func (p *Path) bigFromBytes(bs []*Term) *Term {
	tt := p.tt
	if len(bs) == 0 {
		return p.bigConst(bigZero)
	}
	var cat *Term
	for _, b := range bs {
		if cat == nil {
			cat = b
		} else {
			cat = tt.Concat(cat, b)
		}
	}
	if p.bvMode() {
		w := p.bigW()
		if cat.S.W >= w {
			// allowed only if the top bits are zero
			hi := tt.Extract(cat, cat.S.W-1, w-1)
			c := tt.Eq(hi, BVConstU(0, hi.S.W))
			if !c.IsTrue() {
				r := p.sol.CheckWith(tt.Not(c), false)
				if r != Unsat {
					p.hr.noteUnknown(fmt.Sprintf("big width %d insufficient for SetBytes of %d bytes", w, len(bs)))
				}
			}
			r := tt.Extract(cat, w-1, 0)
			p.setBound(r, w-1)
			p.setNonneg(r)
			return r
		}
		// SetBytes(x.Bytes()) for a non-negative x below 2^(8n): the bytes are x itself
		if cat.Op == OpExtract && cat.P2 == 0 && cat.Args[0].S.W == w && p.isNonneg(cat.Args[0]) && p.bound(cat.Args[0]) <= cat.S.W {
			return cat.Args[0]
		}
		r := tt.ZExt(cat, w)
		p.setBound(r, cat.S.W)
		return r
	}
	if cat.Op == OpApp && strings.Contains(cat.Name, ".nat_") {
		// opt-in by UF name (vs.UF("<name>.nat", ...)): the unsigned value of the
		// whole result is a companion Int-valued uninterpreted function of the same
		// arguments, in [0, 2^w).  The link between the result's bytes and this
		// value is dropped (over-approximation: every real behaviour remains a
		// model; bv2nat of a wide UF result next to nonlinear Int arithmetic makes
		// z3 give up).
		r := tt.App(cat.Name+"$int", IntSort, cat.Args...)
		p.hr.noteUF(cat.Name + "$int")
		p.assertPC(tt.ILe(IConstI(0), r))
		p.assertPC(tt.ILt(r, IConst(pow2(cat.S.W))))
		p.setBound(r, cat.S.W)
		return r
	}
	r := tt.BV2Nat(cat)
	p.setBound(r, cat.S.W)
	return r
}

func (p *Path) bigLow64(x *Term) *Term { // low 64 bits of |x|
	a := p.bigAbs(x)
	if p.bvMode() {
		return p.tt.Extract(a, 63, 0)
	}
	return p.tt.Int2BV(a, 64)
}

// ---------------------------------------------------------------------------

type intrinsic func(p *Path, fn *ssa.Function, args []Value) Value

func init() {
	B := "(*math/big.Int)."
	reg := func(name string, f intrinsic) { intrinsics[name] = f }
	reg("math/big.NewInt", func(p *Path, fn *ssa.Function, a []Value) Value {
		x := a[0].(*Term)
		if p.bvMode() {
			r := p.tt.SExt(x, p.bigW())
			p.setBound(r, 64)
			return p.newBig(r)
		}
		if x.IsConst() {
			return p.newBig(IConst(x.Signed()))
		}
		// signed 64 -> Int
		tt := p.tt
		neg := tt.SLt(x, BVConstU(0, 64))
		r := tt.Ite(neg, tt.INeg(tt.BV2Nat(tt.BVNeg(x))), tt.BV2Nat(x))
		p.setBound(r, 64)
		return p.newBig(r)
	})
	bin := func(name string, f func(p *Path, x, y *Term) *Term) {
		reg(B+name, func(p *Path, fn *ssa.Function, a []Value) Value {
			x, y := p.bigLoad(a[1]), p.bigLoad(a[2])
			return p.bigStore(a[0], f(p, x, y))
		})
	}
	bin("Add", (*Path).bigAdd)
	bin("Sub", (*Path).bigSub)
	bin("Mul", (*Path).bigMul)
	bin("And", (*Path).bigAnd)
	bin("Or", func(p *Path, x, y *Term) *Term {
		if p.bvMode() {
			r := p.tt.BVOr(x, y)
			if p.isNonneg(x) && p.isNonneg(y) {
				p.setNonneg(r)
			}
			p.setBound(r, max(p.bound(x), p.bound(y)))
			return r
		}
		if x.IsConst() && y.IsConst() {
			return IConst(new(big.Int).Or(x.Val, y.Val))
		}
		panic(p.abort("big.Int.Or in Int mode"))
	})
	bin("Xor", func(p *Path, x, y *Term) *Term {
		if p.bvMode() {
			r := p.tt.BVXor(x, y)
			if p.isNonneg(x) && p.isNonneg(y) {
				p.setNonneg(r)
			}
			p.setBound(r, max(p.bound(x), p.bound(y)))
			return r
		}
		if x.IsConst() && y.IsConst() {
			return IConst(new(big.Int).Xor(x.Val, y.Val))
		}
		panic(p.abort("big.Int.Xor in Int mode"))
	})
	divz := func(p *Path, y *Term) {
		p.check(p.tt.Not(p.tt.Eq(y, p.bigConst(bigZero))), "division by zero")
	}
	bin("Div", func(p *Path, x, y *Term) *Term { divz(p, y); d, _ := p.bigDivMod(x, y); return d })
	bin("Mod", func(p *Path, x, y *Term) *Term { divz(p, y); _, m := p.bigDivMod(x, y); return m })
	bin("Quo", func(p *Path, x, y *Term) *Term { divz(p, y); q, _ := p.bigQuoRem(x, y); return q })
	bin("Rem", func(p *Path, x, y *Term) *Term { divz(p, y); _, r := p.bigQuoRem(x, y); return r })
	reg(B+"DivMod", func(p *Path, fn *ssa.Function, a []Value) Value {
		x, y := p.bigLoad(a[1]), p.bigLoad(a[2])
		divz(p, y)
		d, m := p.bigDivMod(x, y)
		p.bigStore(a[0], d)
		p.bigStore(a[3], m)
		return TupleV{a[0], a[3]}
	})
	reg(B+"QuoRem", func(p *Path, fn *ssa.Function, a []Value) Value {
		x, y := p.bigLoad(a[1]), p.bigLoad(a[2])
		divz(p, y)
		q, r := p.bigQuoRem(x, y)
		p.bigStore(a[0], q)
		p.bigStore(a[3], r)
		return TupleV{a[0], a[3]}
	})
	un := func(name string, f func(p *Path, x *Term) *Term) {
		reg(B+name, func(p *Path, fn *ssa.Function, a []Value) Value {
			return p.bigStore(a[0], f(p, p.bigLoad(a[1])))
		})
	}
	un("Set", func(p *Path, x *Term) *Term { return x })
	un("Neg", (*Path).bigNeg)
	un("Abs", (*Path).bigAbs)
	un("Not", func(p *Path, x *Term) *Term {
		if p.bvMode() {
			r := p.tt.BVNot(x)
			p.setBound(r, min(p.bound(x)+1, p.bigW()))
			return r
		}
		return p.tt.ISub(p.tt.INeg(x), IConstI(1))
	})
	reg(B+"Cmp", func(p *Path, fn *ssa.Function, a []Value) Value {
		return p.bigCmp(p.bigLoad(a[0]), p.bigLoad(a[1]))
	})
	reg(B+"CmpAbs", func(p *Path, fn *ssa.Function, a []Value) Value {
		return p.bigCmp(p.bigAbs(p.bigLoad(a[0])), p.bigAbs(p.bigLoad(a[1])))
	})
	reg(B+"Sign", func(p *Path, fn *ssa.Function, a []Value) Value {
		x := p.bigLoad(a[0])
		zero := p.bigConst(bigZero)
		if p.bvMode() {
			if neg, isz, ok := p.prodSign(x); ok {
				return p.tt.Ite(neg, BVConstI(-1, 64), p.tt.Ite(isz, BVConstU(0, 64), BVConstU(1, 64)))
			}
		}
		return p.tt.Ite(p.bigLt(x, zero), BVConstI(-1, 64), p.tt.Ite(p.tt.Eq(x, zero), BVConstU(0, 64), BVConstU(1, 64)))
	})
	reg(B+"SetInt64", func(p *Path, fn *ssa.Function, a []Value) Value {
		x := a[1].(*Term)
		if p.bvMode() {
			r := p.tt.SExt(x, p.bigW())
			p.setBound(r, 64)
			return p.bigStore(a[0], r)
		}
		tt := p.tt
		if x.IsConst() {
			return p.bigStore(a[0], IConst(x.Signed()))
		}
		neg := tt.SLt(x, BVConstU(0, 64))
		r := tt.Ite(neg, tt.INeg(tt.BV2Nat(tt.BVNeg(x))), tt.BV2Nat(x))
		p.setBound(r, 64)
		return p.bigStore(a[0], r)
	})
	reg(B+"SetUint64", func(p *Path, fn *ssa.Function, a []Value) Value {
		x := a[1].(*Term)
		var r *Term
		if p.bvMode() {
			r = p.tt.ZExt(x, p.bigW())
		} else {
			r = p.tt.BV2Nat(x)
		}
		p.setBound(r, 64)
		return p.bigStore(a[0], r)
	})
	reg(B+"Uint64", func(p *Path, fn *ssa.Function, a []Value) Value { return p.bigLow64(p.bigLoad(a[0])) })
	reg(B+"Int64", func(p *Path, fn *ssa.Function, a []Value) Value {
		x := p.bigLoad(a[0])
		lo := p.bigLow64(x)
		return p.tt.Ite(p.bigIsNeg(x), p.tt.BVNeg(lo), lo)
	})
	reg(B+"IsUint64", func(p *Path, fn *ssa.Function, a []Value) Value {
		x := p.bigLoad(a[0])
		return p.tt.And(p.tt.Not(p.bigIsNeg(x)), p.bigLt(x, p.bigConst(pow2(64))))
	})
	reg(B+"IsInt64", func(p *Path, fn *ssa.Function, a []Value) Value {
		x := p.bigLoad(a[0])
		lo := p.bigConst(new(big.Int).Neg(pow2(63)))
		return p.tt.And(p.tt.Not(p.bigLt(x, lo)), p.bigLt(x, p.bigConst(pow2(63))))
	})
	reg(B+"BitLen", func(p *Path, fn *ssa.Function, a []Value) Value { return p.bigBitLen(p.bigLoad(a[0])) })
	reg(B+"Bit", func(p *Path, fn *ssa.Function, a []Value) Value {
		x := p.bigLoad(a[0])
		i := a[1].(*Term)
		tt := p.tt
		p.check(tt.SLe(BVConstU(0, 64), i), "negative bit index")
		if p.bvMode() {
			w := p.bigW()
			sh := tt.BVAShr(x, tt.Resize(i, w, false))
			return tt.ZExt(tt.Extract(sh, 0, 0), 64)
		}
		k := p.concretize(i, "Bit index (Int mode)")
		return tt.Int2BV(tt.IMod(tt.IDiv(x, IConst(pow2(int(k.Int64())))), IConstI(2)), 64)
	})
	reg(B+"Lsh", func(p *Path, fn *ssa.Function, a []Value) Value {
		return p.bigStore(a[0], p.bigLsh(p.bigLoad(a[1]), a[2].(*Term)))
	})
	reg(B+"Rsh", func(p *Path, fn *ssa.Function, a []Value) Value {
		return p.bigStore(a[0], p.bigRsh(p.bigLoad(a[1]), a[2].(*Term)))
	})
	reg(B+"SetBytes", func(p *Path, fn *ssa.Function, a []Value) Value {
		bs := p.bigEndianBytes(a[1]) // symslice.go: also accepts a symbolic-window slice
		return p.bigStore(a[0], p.bigFromBytes(bs))
	})
	reg(B+"Bytes", func(p *Path, fn *ssa.Function, a []Value) Value {
		x := p.bigAbs(p.bigLoad(a[0]))
		if v, ok := p.bigBytesSym(x); ok { // symslice.go (suite option sym_slices)
			return v
		}
		n := p.bigByteLen(x)
		out := make([]*Term, n)
		for i := 0; i < n; i++ {
			out[i] = p.bigByte(x, n-1-i)
		}
		return p.termsToSlice(out)
	})
	reg(B+"FillBytes", func(p *Path, fn *ssa.Function, a []Value) Value {
		x := p.bigAbs(p.bigLoad(a[0]))
		s := a[1].(SliceV)
		n := int(p.concretize(s.Len, "FillBytes len").Int64())
		// panics if too small
		bl := p.bigBitLen(x)
		p.check(p.tt.ULe(bl, BVConstU(uint64(8*n), 64)), "math/big: buffer too small to fit value")
		if n > 0 {
			arr := (*p.slot(s.Arr)).(*ArrayV)
			for i := 0; i < n; i++ {
				arr.E[s.Off+i] = p.bigByte(x, n-1-i)
			}
		}
		return s
	})
	reg(B+"Bits", func(p *Path, fn *ssa.Function, a []Value) Value {
		x := p.bigAbs(p.bigLoad(a[0]))
		bl := p.bigBitLen(x)
		tt := p.tt
		nw := tt.BVLShr(tt.BVAdd(bl, BVConstU(63, 64)), BVConstU(6, 64))
		n := int(p.concretize(nw, "big.Int word length").Int64())
		arr := &ArrayV{E: make([]Value, n)}
		for i := 0; i < n; i++ {
			var word *Term
			for k := 7; k >= 0; k-- {
				b := p.bigByte(x, 8*i+k)
				if word == nil {
					word = b
				} else {
					word = tt.Concat(word, b)
				}
			}
			arr.E[i] = word
		}
		o := p.newObject(arr, nil)
		ln := BVConstU(uint64(n), 64)
		return SliceV{Arr: Ptr{Obj: o}, Len: ln, Cap: ln}
	})
	reg(B+"SetString", func(p *Path, fn *ssa.Function, a []Value) Value {
		s, ok := a[1].(StrV)
		base, ok2 := constInt(a[2])
		if !ok || !ok2 {
			panic(p.abort("big.Int.SetString on symbolic input"))
		}
		v, good := new(big.Int).SetString(string(s), int(base))
		if !good {
			return TupleV{Ptr{}, FalseT}
		}
		p.bigStore(a[0], IConst(v))
		return TupleV{a[0], TrueT}
	})
	strOf := func(p *Path, fn *ssa.Function, a []Value) Value {
		x := p.ptrOf(a[0])
		if x.Obj == nil {
			return StrV("<nil>")
		}
		t := p.bigTerm(p.load(x))
		if t.IsConst() {
			return StrV(t.Signed().String())
		}
		return StrV("<symbolic big.Int>")
	}
	reg(B+"String", strOf)
	reg(B+"Text", strOf)
	reg(B+"Exp", func(p *Path, fn *ssa.Function, a []Value) Value {
		x, y := p.bigLoad(a[1]), p.bigLoad(a[2])
		var m *Term
		if mp := p.ptrOf(a[3]); mp.Obj != nil {
			m = p.bigTerm(p.load(mp))
		}
		if x.IsConst() && y.IsConst() && (m == nil || m.IsConst()) {
			var mv *big.Int
			if m != nil {
				mv = m.Signed()
			}
			if mv == nil && y.Signed().BitLen() > 20 {
				panic(p.abort("big.Int.Exp with huge constant exponent"))
			}
			r := new(big.Int).Exp(x.Signed(), y.Signed(), mv)
			return p.bigStore(a[0], IConst(r))
		}
		if y.IsConst() && m == nil && y.Signed().Sign() >= 0 && y.Signed().BitLen() <= 6 {
			n := int(y.Signed().Int64())
			r := p.bigConst(bigOne)
			for i := 0; i < n; i++ {
				r = p.bigMul(r, x)
			}
			return p.bigStore(a[0], r)
		}
		panic(p.abort("big.Int.Exp with symbolic operands"))
	})
	reg(B+"SetBit", func(p *Path, fn *ssa.Function, a []Value) Value {
		x := p.bigLoad(a[1])
		i, ok := constInt(a[2])
		b, ok2 := constInt(a[3])
		if !ok || !ok2 {
			panic(p.abort("big.Int.SetBit with symbolic index"))
		}
		if p.bvMode() {
			m := BVConst(pow2(int(i)), p.bigW())
			var r *Term
			if b != 0 {
				r = p.tt.BVOr(x, m)
			} else {
				r = p.tt.BVAnd(x, p.tt.BVNot(m))
			}
			p.setBound(r, max(p.bound(x), int(i)+1))
			return p.bigStore(a[0], r)
		}
		if x.IsConst() {
			return p.bigStore(a[0], IConst(new(big.Int).SetBit(x.Val, int(i), uint(b))))
		}
		panic(p.abort("big.Int.SetBit in Int mode"))
	})
	reg(B+"ProbablyPrime", func(p *Path, fn *ssa.Function, a []Value) Value { return Opaque{"ProbablyPrime"} })
	reg(B+"TrailingZeroBits", func(p *Path, fn *ssa.Function, a []Value) Value {
		x := p.bigLoad(a[0])
		if x.IsConst() {
			return BVConstU(uint64(x.Signed().TrailingZeroBits()), 64)
		}
		panic(p.abort("TrailingZeroBits symbolic"))
	})
}

var intrinsics = map[string]intrinsic{}

func intrinsicByPattern(name string) intrinsic {
	if strings.HasPrefix(name, "(*math/big.Int).") || strings.HasPrefix(name, "math/big.") {
		return func(p *Path, fn *ssa.Function, a []Value) Value {
			panic(p.abort("math/big function without model: " + name))
		}
	}
	return nil
}
