package main

import (
	"math/big"
	"encoding/json"
	"fmt"
	"go/types"
	"os"
	"path/filepath"
	"sort"
	"strconv"
	"strings"
	"sync"
	"sync/atomic"
	"time"

	"golang.org/x/tools/go/packages"
	"golang.org/x/tools/go/ssa"
	"golang.org/x/tools/go/ssa/ssautil"
)

const repoMod = "gitlab.com/aquachain/aquachain"
const vsPkg = repoMod + "/internal/verifsym"

type TierCfg struct {
	Unwind    int            `json:"unwind"`
	MaxPaths  int            `json:"max_paths"`
	MaxSteps  int64          `json:"max_steps"`
	Params    map[string]int `json:"params"`
	TimeoutMs int            `json:"timeout_ms"`
	Skip      bool           `json:"skip"`
}

type Harness struct {
	Entry       string            `json:"entry"` // pkgpath.Func
	Big         string            `json:"big"`   // "int" (default) | "bv:<W>"
	Quick       TierCfg           `json:"quick"`
	Thorough    TierCfg           `json:"thorough"`
	Known       []string          `json:"known"`
	MapPerm     int               `json:"map_perm"`
	AllocLimit  int64             `json:"alloc_limit"`
	MaxValues   int               `json:"max_values"`
	MaxSymIndex int               `json:"max_sym_index"`
	IntBitLen   int               `json:"int_bitlen_cap"`
	AppendSlack bool              `json:"append_slack"`
	Tactic      string            `json:"check_sat_using"` // z3 tactic for every query, e.g. "qfufbv" (wide bit-vectors: the incremental core is very slow)
	SolverMode  string            `json:"solver_mode"` // "fresh": every query non-incremental (solver_fresh.go)
	MergeStores bool              `json:"merge_stores"` // merge diamonds whose arms load/store scalars (mergemem.go)
	SymSlices   bool              `json:"sym_slices"` // slices with a symbolic window start instead of forking (symslice.go)
	LazyMake    int               `json:"lazy_make"` // >0: make() with a symbolic cap that may exceed this materialises only this many elements (intr_lazymake.go)
	NoMerge     bool              `json:"no_merge"`
	Overrides   map[string]string `json:"overrides"`
	Doc         string            `json:"doc"`
	Outside     []string          `json:"outside"`
	ExpectReach []string          `json:"expect_reach"`
	Totality    bool              `json:"totality"` // unexpected Go panics are violations (default: true)
	NoNativeReplay bool           `json:"no_native"`
	Validate    int               `json:"validate"`
	ReachPairs  [][2]string       `json:"reach_pairs"` // [a,b]: every reached label a+X needs a reached label b+X (else fault)
	cfg         *TierCfg
	w           int
}

func (h *Harness) unwind() int {
	if h.cfg.Unwind > 0 {
		return h.cfg.Unwind
	}
	return 16
}
func (h *Harness) maxValues() int {
	if h.MaxValues > 0 {
		return h.MaxValues
	}
	return 300
}
func (h *Harness) allocLimit() int64 {
	if h.AllocLimit > 0 {
		return h.AllocLimit
	}
	return 1 << 16
}
func (h *Harness) mapPerm() int {
	if h.MapPerm > 0 {
		return h.MapPerm
	}
	return 3
}
func (h *Harness) maxSymIndex() int {
	if h.MaxSymIndex > 0 {
		return h.MaxSymIndex
	}
	return 256
}
func (h *Harness) intBitLenCap() int {
	if h.IntBitLen > 0 {
		return h.IntBitLen
	}
	return 264
}
func (h *Harness) bigW() int { return h.w }

type Suite struct {
	Property   string            `json:"property"`
	Packages   []string          `json:"packages"`
	Overrides  map[string]string `json:"overrides"`
	Harnesses  []*Harness        `json:"harnesses"`
	Assumes    []string          `json:"assumptions"`
	Outside    []string          `json:"outside"`
	SolverBin  string            `json:"solver"`
	InitEagerly []string         `json:"init"`
	Generate   []string          `json:"generate"` // source generators run on the loaded tree before the final load (gen.go)
}

type Engine struct {
	prog     *ssa.Program
	pkgs     map[string]*ssa.Package
	overlay  map[string][]byte
	tmpl     *Path
	tmplMu   sync.Mutex
	tmplGlob map[*ssa.Global]*Object
	tmplInit map[*ssa.Package]bool

	runtimeErrorType types.Type
	bigIntType       types.Type
	loadSecs         float64
	workers          int
	solverBin        string
	tier             string
	verbose          bool
	methodCache      sync.Map
}

func (e *Engine) lookupMethod(T types.Type, m *types.Func) *ssa.Function {
	type key struct {
		T types.Type
		m *types.Func
	}
	k := key{T, m}
	if v, ok := e.methodCache.Load(k); ok {
		return v.(*ssa.Function)
	}
	fn := e.prog.LookupMethod(T, m.Pkg(), m.Name())
	e.methodCache.Store(k, fn)
	return fn
}

func harnessOverlay(harnessDir string) (map[string][]byte, error) {
	ov := map[string][]byte{}
	err := filepath.Walk(harnessDir, func(path string, info os.FileInfo, err error) error {
		if err != nil {
			return err
		}
		if info.IsDir() || !strings.HasSuffix(path, ".go") {
			return nil
		}
		rel, _ := filepath.Rel(harnessDir, path)
		b, err := os.ReadFile(path)
		if err != nil {
			return err
		}
		ov[filepath.Join(repoDir, rel)] = b
		return nil
	})
	return ov, err
}

func LoadEngine(patterns []string, harnessDir string) (*Engine, error) {
	t0 := time.Now()
	ov, err := harnessOverlay(harnessDir)
	if err != nil {
		return nil, err
	}
	// the engine never sees the native body of verifsym: drop files tagged as native-only? (single body is fine)
	for k, v := range generatedOverlay { // files produced by suite generators (gen.go), never written to disk
		ov[k] = v
	}
	cfg := &packages.Config{
		Mode:    packages.LoadAllSyntax,
		Dir:     repoDir,
		Overlay: ov,
		Env:     append(os.Environ(), "GOFLAGS=-mod=mod", "GOPROXY=off", "CGO_ENABLED=1"),
	}
	pkgs, err := packages.Load(cfg, patterns...)
	if err != nil {
		return nil, err
	}
	nerr := 0
	packages.Visit(pkgs, nil, func(p *packages.Package) {
		for _, e := range p.Errors {
			if strings.HasPrefix(p.PkgPath, repoMod) {
				fmt.Fprintln(os.Stderr, "load error:", e)
				nerr++
			}
		}
	})
	if nerr > 0 {
		return nil, fmt.Errorf("%d package load errors", nerr)
	}
	prog, _ := ssautil.AllPackages(pkgs, ssa.InstantiateGenerics)
	prog.Build()
	e := &Engine{prog: prog, pkgs: map[string]*ssa.Package{}, overlay: ov,
		tmplGlob: map[*ssa.Global]*Object{}, tmplInit: map[*ssa.Package]bool{}}
	for _, sp := range prog.AllPackages() {
		e.pkgs[sp.Pkg.Path()] = sp
	}
	if bp := e.pkgs["math/big"]; bp != nil {
		e.bigIntType = bp.Type("Int").Type()
		bigStruct = e.bigIntType.Underlying()
	}
	if rp := e.pkgs["runtime"]; rp != nil {
		if m, ok := rp.Members["errorString"]; ok {
			e.runtimeErrorType = m.Type()
		}
	}
	if e.runtimeErrorType == nil {
		e.runtimeErrorType = types.Typ[types.String]
	}
	e.tmpl = &Path{eng: e, tt: NewTermTable(), globals: map[*ssa.Global]*Object{}, inputSeen: map[string]int{}}
	e.tmpl.hr = &HarnessRun{eng: e, h: &Harness{cfg: &TierCfg{Unwind: 1 << 30, MaxSteps: 1 << 40}}, tmpl: true}
	e.loadSecs = time.Since(t0).Seconds()
	return e, nil
}

// tmplGlobal returns the template object of a global, running its package
// initialiser (concretely) first.  Caller holds tmplMu (or is the template path).
func (e *Engine) tmplGlobal(g *ssa.Global) *Object {
	if o, ok := e.tmplGlob[g]; ok {
		return o
	}
	pkg := g.Pkg
	// allocate all globals of the package first
	if !e.tmplInit[pkg] {
		e.tmplInit[pkg] = true
		for _, m := range pkg.Members {
			if gg, ok := m.(*ssa.Global); ok {
				et := gg.Type().(*types.Pointer).Elem()
				e.tmplGlob[gg] = &Object{V: e.tmpl.zero(et), T: et, Tag: gg.String()}
			}
		}
		if skipInit[pkg.Pkg.Path()] {
			return e.tmplGlob[g]
		}
		if initFn := pkg.Func("init"); initFn != nil {
			e.runInit(initFn)
		}
	}
	o := e.tmplGlob[g]
	if o == nil {
		et := g.Type().(*types.Pointer).Elem()
		o = &Object{V: e.tmpl.zero(et), T: et, Tag: g.String()}
		e.tmplGlob[g] = o
	}
	return o
}

var skipInit = map[string]bool{
	"runtime": true, "os": true, "syscall": true, "net": true, "net/http": true, "crypto/tls": true,
	"internal/poll": true, "internal/godebug": true, "time": true, "reflect": true, "unicode": true,
	"crypto/x509": true, "log": true, "flag": true, "testing": true, "internal/cpu": true,
	"golang.org/x/sys/cpu": true, "golang.org/x/sys/unix": true, "os/signal": true, "os/exec": true,
	"internal/testlog": true, "math/big": true, "math/rand": true, "crypto/rand": true, "internal/reflectlite": true, "sync": true, "internal/bisect": true, "context": false,
}

func (e *Engine) runInit(fn *ssa.Function) {
	p := e.tmpl
	defer func() {
		if r := recover(); r != nil {
			switch x := r.(type) {
			case pathAbort:
				if e.verbose {
					fmt.Fprintf(os.Stderr, "init %s: aborted: %s\n", fn.Pkg.Pkg.Path(), x.msg)
				}
			case *goPanic:
				if e.verbose {
					fmt.Fprintf(os.Stderr, "init %s: panicked: %s %s\n", fn.Pkg.Pkg.Path(), x.msg, x.stack)
				}
			default:
				panic(r)
			}
		}
	}()
	saved := p.frames
	p.frames = nil
	defer func() { p.frames = saved }()
	p.callFunction(fn, nil, nil)
}

// ---------------------------------------------------------------------------

type workItem struct {
	prefix     []Decision
	unverified bool
}

type prefixOverride struct {
	prefix string
	fn     intrinsic
}

type HarnessRun struct {
	eng   *Engine
	h     *Harness
	entry *ssa.Function
	tmpl  bool

	mu     sync.Mutex
	cond   *sync.Cond
	queue  []workItem
	active int
	stop   bool

	overrides       map[string]intrinsic
	prefixOverrides []prefixOverride
	cutBlocks       map[*ssa.BasicBlock]func(*Path, *frame)
	allocHook       func(p *Path, n *Term)

	failures    []Failure
	unknowns    map[string]int
	errors      map[string]int
	obligations map[string]int
	discharged  map[string]int
	reach       map[string]int
	fnSeen      map[string]bool
	mapFixed    map[int]int

	paths, completed, infeasible, assumedAway, boundHits, stopped int64
	steps                                                          int64
	merges                                                         int
	stats                                                          SolverStats
	maxAlloc                                                       int64
	samples                                                        []map[string]interface{}
	wall                                                           float64
	concreteRuns                                                   int
	validated                                                      int
	validation                                                     []*Failure
	seed                                                           int64
	ufs                                                            map[string]bool
	outside                                                        map[string]int
}

func (hr *HarnessRun) noteOutside(n string) {
	hr.mu.Lock()
	if hr.outside == nil {
		hr.outside = map[string]int{}
	}
	hr.outside[n]++
	hr.mu.Unlock()
}

func (hr *HarnessRun) noteUF(n string) {
	hr.mu.Lock()
	if hr.ufs == nil {
		hr.ufs = map[string]bool{}
	}
	hr.ufs[n] = true
	hr.mu.Unlock()
}

func (hr *HarnessRun) enqueue(w workItem) {
	hr.mu.Lock()
	hr.queue = append(hr.queue, w)
	hr.mu.Unlock()
	hr.cond.Signal()
}

func (hr *HarnessRun) noteUnknown(msg string) {
	hr.mu.Lock()
	if hr.unknowns == nil {
		hr.unknowns = map[string]int{}
	}
	hr.unknowns[msg]++
	hr.mu.Unlock()
}
func (hr *HarnessRun) noteError(msg string) {
	hr.mu.Lock()
	if hr.errors == nil {
		hr.errors = map[string]int{}
	}
	hr.errors[msg]++
	hr.mu.Unlock()
}
func (hr *HarnessRun) noteObligation(l string) {
	hr.mu.Lock()
	hr.obligations[l]++
	hr.mu.Unlock()
}
func (hr *HarnessRun) noteDischarged(l, how string) {
	hr.mu.Lock()
	hr.discharged[l]++
	hr.mu.Unlock()
}
func (hr *HarnessRun) noteReach(l string) {
	hr.mu.Lock()
	hr.reach[l]++
	hr.mu.Unlock()
}
func (hr *HarnessRun) noteMapOrderFixed(n int) {
	hr.mu.Lock()
	if hr.mapFixed == nil {
		hr.mapFixed = map[int]int{}
	}
	hr.mapFixed[n]++
	hr.mu.Unlock()
}
func (hr *HarnessRun) addFailure(f Failure) {
	hr.mu.Lock()
	keep := len(hr.failures) < 64
	if !keep {
		// the cap must never drop a failure of a kind not recorded yet (e.g. one
		// outside a known-finding class after 64 failures inside it)
		keep = true
		for i := range hr.failures {
			if g := &hr.failures[i]; g.Kind == f.Kind && g.Label == f.Label && g.Known == f.Known {
				keep = false
				break
			}
		}
	}
	if keep {
		hr.failures = append(hr.failures, f)
	}
	// enough counterexamples outside every known-finding class: the verdict is
	// VIOLATION whatever the remaining paths show, stop exploring (failing
	// queries on wide bit-vectors are slow)
	nu := 0
	for i := range hr.failures {
		if hr.failures[i].Known == "" {
			nu++
		}
	}
	if nu >= 8 {
		hr.stop = true
	}
	hr.mu.Unlock()
	hr.cond.Broadcast()
}

func (p *Path) maxSteps() int64 {
	if p.hr != nil && p.hr.h.cfg != nil && p.hr.h.cfg.MaxSteps > 0 {
		return p.hr.h.cfg.MaxSteps
	}
	return 20_000_000
}

func (e *Engine) findFunc(entry string) (*ssa.Function, error) {
	i := strings.LastIndex(entry, ".")
	if i < 0 {
		return nil, fmt.Errorf("bad entry %q", entry)
	}
	pkg := e.pkgs[entry[:i]]
	if pkg == nil {
		return nil, fmt.Errorf("package %q not loaded", entry[:i])
	}
	fn := pkg.Func(entry[i+1:])
	if fn == nil {
		return nil, fmt.Errorf("function %q not found", entry)
	}
	return fn, nil
}

func (e *Engine) RunHarness(s *Suite, h *Harness) *HarnessRun {
	t0 := time.Now()
	hr := &HarnessRun{eng: e, h: h, obligations: map[string]int{}, discharged: map[string]int{}, reach: map[string]int{}, fnSeen: map[string]bool{}}
	hr.cond = sync.NewCond(&hr.mu)
	if e.tier == "thorough" {
		h.cfg = &h.Thorough
		if h.cfg.Unwind == 0 && h.cfg.Params == nil && h.cfg.MaxPaths == 0 {
			h.cfg = &h.Quick
		}
	} else {
		h.cfg = &h.Quick
	}
	h.w = 0
	if strings.HasPrefix(h.Big, "bv:") {
		h.w, _ = strconv.Atoi(h.Big[3:])
	}
	fn, err := e.findFunc(h.Entry)
	if err != nil {
		hr.noteError(err.Error())
		return hr
	}
	hr.entry = fn
	hr.overrides = map[string]intrinsic{}
	for _, m := range []map[string]string{s.Overrides, h.Overrides} {
		for name, spec := range m {
			in, err := e.makeOverride(name, spec)
			if err != nil {
				hr.noteError(err.Error())
				return hr
			}
			if strings.HasSuffix(name, "*") {
				hr.prefixOverrides = append(hr.prefixOverrides, prefixOverride{strings.TrimSuffix(name, "*"), in})
			} else {
				hr.overrides[name] = in
			}
		}
	}
	timeout := h.cfg.TimeoutMs
	if timeout == 0 {
		timeout = 60000
		if e.tier == "thorough" {
			timeout = 300000
		}
	}
	maxPaths := h.cfg.MaxPaths
	if maxPaths == 0 {
		maxPaths = 200000
	}
	hr.queue = []workItem{{}}
	var wg sync.WaitGroup
	for w := 0; w < e.workers; w++ {
		wg.Add(1)
		go func() {
			defer wg.Done()
			sol, err := NewSolver(e.solverBin, timeout)
			if err != nil {
				hr.noteError("solver start: " + err.Error())
				return
			}
			sol.tactic = h.Tactic
			if h.SolverMode == "fresh" { // solver_fresh.go
				sol.fresh, sol.noOneShot = true, true
			}
			defer func() {
				hr.stats.add(&sol.stats)
				sol.Close()
			}()
			for {
				hr.mu.Lock()
				for len(hr.queue) == 0 && hr.active > 0 && !hr.stop {
					hr.cond.Wait()
				}
				if hr.stop || (len(hr.queue) == 0 && hr.active == 0) {
					hr.mu.Unlock()
					hr.cond.Broadcast()
					return
				}
				it := hr.queue[len(hr.queue)-1]
				hr.queue = hr.queue[:len(hr.queue)-1]
				hr.active++
				hr.mu.Unlock()

				e.runPath(hr, sol, it, nil)

				hr.mu.Lock()
				hr.active--
				n := atomic.LoadInt64(&hr.paths)
				if int(n) >= maxPaths && !hr.stop {
					hr.stop = true
					if hr.errors == nil {
						hr.errors = map[string]int{}
					}
					hr.errors[fmt.Sprintf("path budget %d exhausted (exploration incomplete)", maxPaths)]++
				}
				hr.mu.Unlock()
				hr.cond.Broadcast()
			}
		}()
	}
	wg.Wait()
	hr.wall = time.Since(t0).Seconds()
	return hr
}

// runPath executes one path; concrete != nil fixes all inputs (validation mode).
func (e *Engine) runPath(hr *HarnessRun, sol *Solver, it workItem, concrete map[string]string) (p *Path) {
	atomic.AddInt64(&hr.paths, 1)
	p = &Path{eng: e, hr: hr, sol: sol, tt: NewTermTable(), prefix: it.prefix, unverified: it.unverified,
		globals: map[*ssa.Global]*Object{}, inputSeen: map[string]int{}, fnSeen: map[*ssa.Function]bool{}}
	if concrete != nil {
		p.concrete = parseConcrete(concrete)
		p.concreteChoices = concrete
	}
	sol.Reset()
	sol.context = func() string { return fmt.Sprint(p.choices) + p.where() }
	sol.modelTerms = func() []*Term { // what a model of this path is read for (solver_oneshot.go)
		var ts []*Term
		for _, in := range p.inputs {
			ts = append(ts, in.T)
		}
		for _, o := range p.obs {
			ts = append(ts, o.terms...)
		}
		return ts
	}
	defer func() {
		atomic.AddInt64(&hr.steps, p.steps)
		hr.mu.Lock()
		for f := range p.fnSeen {
			hr.fnSeen[f.String()] = true
		}
		hr.mu.Unlock()
		r := recover()
		if r == nil {
			return
		}
		switch x := r.(type) {
		case pathAbort:
			switch x.kind {
			case abInfeasible:
				atomic.AddInt64(&hr.infeasible, 1)
			case abAssumeFalse:
				atomic.AddInt64(&hr.assumedAway, 1)
			case abStop:
				atomic.AddInt64(&hr.stopped, 1)
			case abBound, abBudget:
				atomic.AddInt64(&hr.boundHits, 1)
				hr.noteError("bound: " + x.msg)
			default:
				hr.noteError("unsupported: " + x.msg)
			}
		case *goPanic:
			// unrecovered Go panic on a feasible path
			if len(p.prefix) > len(p.trace) {
				// diverged replay; ignore
				hr.noteError("internal: panic before prefix consumed: " + x.msg)
				return
			}
			hr.noteObligation("no-panic")
			if p.concrete != nil {
				p.panicMsg = x.msg
				return
			}
			p.frames = nil
			p.fail("panic", x.msg+x.stack)
		default:
			panic(r)
		}
	}()
	p.callFunction(hr.entry, nil, nil)
	atomic.AddInt64(&hr.completed, 1)
	hr.noteReach("end")
	p.reachedOK = true
	nval := hr.h.Validate
	if nval == 0 {
		nval = 6
	}
	if p.concrete == nil && !hr.h.NoNativeReplay && (len(hr.validation) < nval) {
		if v := p.sampleValidation(); v != nil {
			hr.mu.Lock()
			if len(hr.validation) < nval {
				hr.validation = append(hr.validation, v)
			}
			hr.mu.Unlock()
		}
	}
	if len(hr.samples) < 3 {
		hr.mu.Lock()
		if len(hr.samples) < 3 {
			var ins []string
			for _, in := range p.inputs {
				ins = append(ins, in.Name+":"+in.T.S.String())
			}
			hr.samples = append(hr.samples, map[string]interface{}{"harness": hr.h.Entry, "path_decisions": len(p.trace),
				"pc_conjuncts": len(p.pc), "inputs": ins, "asserts_on_path": p.asserts, "instructions": p.steps})
		}
		hr.mu.Unlock()
	}
	return p
}

func parseConcrete(m map[string]string) map[string]*big.Int {
	out := map[string]*big.Int{}
	for k, v := range m {
		b, ok := new(big.Int).SetString(v, 10)
		if ok {
			out[k] = b
		}
	}
	return out
}

// ---------------------------------------------------------------------------

func loadSuite(path string) (*Suite, error) {
	b, err := os.ReadFile(path)
	if err != nil {
		return nil, err
	}
	var s Suite
	dec := json.NewDecoder(strings.NewReader(string(b)))
	dec.DisallowUnknownFields()
	if err := dec.Decode(&s); err != nil {
		return nil, fmt.Errorf("%s: %v", path, err)
	}
	return &s, nil
}

func sortedStrKeys[V any](m map[string]V) []string {
	ks := make([]string, 0, len(m))
	for k := range m {
		ks = append(ks, k)
	}
	sort.Strings(ks)
	return ks
}
