package main

// Models needed by the C18 harnesses (rpc.Server.RegisterName):
//   * github.com/go-stack/stack.Caller: answered from the engine's own frame
//     stack with the run-time spelling of the function name;
//   * reflect.Indirect, (*reflect.rtype).Name on top of the representation of
//     intr_reflect.go;
//   * unicode predicates / case mapping for concrete runes (package unicode's
//     initialiser is skipped, its tables would read as zero).
// Everything is exact or refuses.

import (
	"go/types"
	"path/filepath"
	"unicode"

	"golang.org/x/tools/go/ssa"
)

// runtimeFuncName spells fn the way runtime.Frame.Function does.  ok=false for
// functions whose run-time name the model does not reproduce (closures,
// wrappers, generics).
func runtimeFuncName(fn *ssa.Function) (string, bool) {
	if fn == nil || fn.Pkg == nil || fn.Synthetic != "" || fn.Parent() != nil || len(fn.TypeArgs()) > 0 {
		return "", false
	}
	pkg := fn.Pkg.Pkg.Path()
	recv := fn.Signature.Recv()
	if recv == nil {
		return pkg + "." + fn.Name(), true
	}
	t := recv.Type()
	ptr := false
	if pt, ok := t.(*types.Pointer); ok {
		ptr = true
		t = pt.Elem()
	}
	nm, ok := t.(*types.Named)
	if !ok || nm.TypeArgs().Len() > 0 {
		return "", false
	}
	if ptr {
		return pkg + ".(*" + nm.Obj().Name() + ")." + fn.Name(), true
	}
	return pkg + "." + nm.Obj().Name() + "." + fn.Name(), true
}

func (p *Path) setFieldByName(sv *StructV, st *types.Struct, name string, v Value) {
	for i := 0; i < st.NumFields(); i++ {
		if st.Field(i).Name() == name {
			sv.F[i] = v
			return
		}
	}
	panic(p.abort("model: struct has no field " + name))
}

func init() {
	reg := func(name string, f intrinsic) { intrinsics[name] = f }

	reg("github.com/go-stack/stack.Caller", func(p *Path, fn *ssa.Function, a []Value) Value {
		skip, ok := constInt(a[0])
		if !ok || skip < 0 {
			panic(p.abort("stack.Caller: symbolic or negative skip"))
		}
		res := fn.Signature.Results().At(0).Type()
		call := p.zero(res).(*StructV)
		// frames[len-1] is the caller of stack.Caller (skip 0)
		i := len(p.frames) - 1 - int(skip)
		if i < 0 {
			return call // above the harness entry: the zero Call, as natively above main
		}
		name, ok := runtimeFuncName(p.frames[i].fn)
		if !ok {
			panic(p.abort("stack.Caller: no run-time name model for " + p.frames[i].fn.String()))
		}
		cst := res.Underlying().(*types.Struct)
		if cst.NumFields() != 1 {
			panic(p.abort("stack.Caller: unexpected layout of stack.Call"))
		}
		frame := call.F[0].(*StructV)
		p.setFieldByName(frame, cst.Field(0).Type().Underlying().(*types.Struct), "Function", StrV(name))
		return call
	})

	reg("reflect.Indirect", func(p *Path, fn *ssa.Function, a []Value) Value {
		T, v, valid := p.reflUnpack(a[0], "reflect.Indirect")
		if !valid {
			return a[0]
		}
		pt, isPtr := T.Underlying().(*types.Pointer)
		if !isPtr {
			return a[0]
		}
		ptr, ok := v.(Ptr)
		if !ok {
			panic(p.abort("reflect.Indirect: pointer value is " + describe(v)))
		}
		if ptr.Obj == nil {
			return p.zero(p.reflPkgType("Value"))
		}
		if _, isIface := pt.Elem().Underlying().(*types.Interface); isIface {
			panic(p.abort("reflect.Indirect: pointer to interface"))
		}
		return p.reflMakeValue(pt.Elem(), p.load(ptr))
	})
	reg("(*reflect.rtype).Name", func(p *Path, fn *ssa.Function, a []Value) Value {
		T := p.reflTypeOfRecv(a[0], "Type.Name")
		switch t := T.(type) {
		case *types.Named:
			if t.TypeArgs().Len() > 0 {
				panic(p.abort("reflect Type.Name of an instantiated generic type"))
			}
			return StrV(t.Obj().Name())
		case *types.Basic:
			return StrV(t.Name())
		case *types.Alias:
			panic(p.abort("reflect Type.Name of an alias type"))
		}
		return StrV("")
	})

	// unicode, concrete runes only
	runeArg := func(p *Path, v Value, what string) rune {
		i, ok := constInt(v)
		if !ok {
			panic(p.abort(what + ": symbolic rune"))
		}
		return rune(int32(i))
	}
	pred := func(name string, f func(rune) bool) {
		reg("unicode."+name, func(p *Path, fn *ssa.Function, a []Value) Value {
			return BoolT(f(runeArg(p, a[0], "unicode."+name)))
		})
	}
	pred("IsUpper", unicode.IsUpper)
	pred("IsLower", unicode.IsLower)
	pred("IsLetter", unicode.IsLetter)
	pred("IsDigit", unicode.IsDigit)
	pred("IsSpace", unicode.IsSpace)
	conv := func(name string, f func(rune) rune) {
		reg("unicode."+name, func(p *Path, fn *ssa.Function, a []Value) Value {
			return BVConstI(int64(f(runeArg(p, a[0], "unicode."+name))), 32)
		})
	}
	conv("ToLower", unicode.ToLower)
	conv("ToUpper", unicode.ToUpper)

	reg("path/filepath.Base", func(p *Path, fn *ssa.Function, a []Value) Value {
		// the engine models a linux build, like the native replay
		return StrV(filepath.Base(p.strArg(a[0], "filepath.Base")))
	})
}
