package main

import (
	"fmt"
	"go/types"
	"math/big"
	"strings"

	"golang.org/x/tools/go/ssa"
)

// Value is one of:
//   *Term            bool, integers (BV), math/big.Int contents (Int or BV sort)
//   FloatV           concrete float
//   StrV             concrete string
//   *StructV, *ArrayV aggregates (mutable in place when owned by an Object or parent aggregate)
//   Ptr              pointer (object + path); Obj == nil is the nil pointer
//   SliceV
//   *MapObj          map (nil = nil map)
//   IfaceV           interface value (T == nil: nil interface)
//   *Closure         function value (nil = nil func)
//   TupleV
//   *ChanObj
//   Opaque           value the engine could not compute
type Value interface{}

type FloatV float64
type StrV string
type TupleV []Value

type Opaque struct{ Why string }

// UnsafeV is a value converted to unsafe.Pointer; T is the type it had before.
type UnsafeV struct {
	V Value
	T types.Type
}

type StructV struct{ F []Value }
type ArrayV struct{ E []Value }

type Object struct {
	V   Value
	ID  int
	T   types.Type
	Tag string
}

type Ptr struct {
	Obj  *Object
	Path []int
	// symbolic last index (Path's last element is a placeholder) over N elements
	Sym *Term
	N   int
	// function pointer pseudo-objects etc.
	Global *ssa.Global
}

func (p Ptr) IsNil() bool { return p.Obj == nil }

type SliceV struct {
	Arr Ptr // pointer to the backing *ArrayV (Obj nil for nil slice)
	Off int
	Len *Term // BV64
	Cap *Term // BV64
}

type IfaceV struct {
	T types.Type
	V Value
}

type Closure struct {
	Fn    *ssa.Function
	Env   []Value
	Recv  Value        // bound method receiver (for method values built by engine)
	Built *ssa.Builtin // builtin function value
	Name  string       // intrinsic placeholder name
}

type mapEntry struct {
	K, V Value
}

type MapObj struct {
	T       *types.Map
	Entries []mapEntry
	ID      int
}

type ChanObj struct {
	ID  int
	Cap int
	Buf []Value
	T   types.Type
	// Closed: close(ch) was executed; receives drain Buf and then yield (zero, false)
	Closed bool
}

// ---------------------------------------------------------------------------

func isBigInt(t types.Type) bool {
	n, ok := t.(*types.Named)
	if !ok {
		return false
	}
	o := n.Obj()
	return o.Pkg() != nil && o.Pkg().Path() == "math/big" && o.Name() == "Int"
}

// isBigIntUnder reports whether t is math/big.Int or a named type defined as it (hexutil.Big).
func isBigIntUnder(t types.Type) bool {
	for {
		if isBigInt(t) {
			return true
		}
		n, ok := t.(*types.Named)
		if !ok {
			return false
		}
		// type Big big.Int -> underlying is struct; detect via declared RHS is impossible, so compare struct identity
		u := n.Underlying()
		if bigStruct != nil && types.Identical(u, bigStruct) {
			return true
		}
		return false
	}
}

var bigStruct types.Type // underlying struct of math/big.Int, set at load

func intWidth(b *types.Basic) (w int, signed bool) {
	switch b.Kind() {
	case types.Int8:
		return 8, true
	case types.Int16:
		return 16, true
	case types.Int32, types.UntypedRune:
		return 32, true
	case types.Int64, types.Int, types.UntypedInt:
		return 64, true
	case types.Uint8:
		return 8, false
	case types.Uint16:
		return 16, false
	case types.Uint32:
		return 32, false
	case types.Uint64, types.Uint, types.Uintptr:
		return 64, false
	}
	return 0, false
}

func (p *Path) zero(t types.Type) Value {
	if isBigIntUnder(t) {
		return p.bigZero()
	}
	switch u := t.Underlying().(type) {
	case *types.Basic:
		switch {
		case u.Kind() == types.Bool || u.Kind() == types.UntypedBool:
			return FalseT
		case u.Info()&types.IsInteger != 0:
			w, _ := intWidth(u)
			return BVConstU(0, w)
		case u.Info()&types.IsFloat != 0:
			return FloatV(0)
		case u.Info()&types.IsString != 0:
			return StrV("")
		case u.Kind() == types.UnsafePointer:
			return Ptr{}
		case u.Kind() == types.UntypedNil:
			return Ptr{}
		}
		return Opaque{"zero of " + t.String()}
	case *types.Struct:
		s := &StructV{F: make([]Value, u.NumFields())}
		for i := range s.F {
			s.F[i] = p.zero(u.Field(i).Type())
		}
		return s
	case *types.Array:
		n := int(u.Len())
		a := &ArrayV{E: make([]Value, n)}
		if n > 0 {
			z := p.zero(u.Elem())
			switch z.(type) {
			case *StructV, *ArrayV:
				a.E[0] = z
				for i := 1; i < n; i++ {
					a.E[i] = p.zero(u.Elem())
				}
			default:
				for i := range a.E {
					a.E[i] = z
				}
			}
		}
		return a
	case *types.Pointer:
		return Ptr{}
	case *types.Slice:
		return SliceV{Len: BVConstU(0, 64), Cap: BVConstU(0, 64)}
	case *types.Map:
		return (*MapObj)(nil)
	case *types.Interface:
		return IfaceV{}
	case *types.Signature:
		return (*Closure)(nil)
	case *types.Chan:
		return (*ChanObj)(nil)
	case *types.Tuple:
		tv := make(TupleV, u.Len())
		for i := range tv {
			tv[i] = p.zero(u.At(i).Type())
		}
		return tv
	}
	return Opaque{"zero of " + t.String()}
}

func copyVal(v Value) Value {
	switch x := v.(type) {
	case *StructV:
		n := &StructV{F: make([]Value, len(x.F))}
		for i, f := range x.F {
			n.F[i] = copyVal(f)
		}
		return n
	case *ArrayV:
		n := &ArrayV{E: make([]Value, len(x.E))}
		for i, f := range x.E {
			n.E[i] = copyVal(f)
		}
		return n
	}
	return v
}

func (p *Path) newObject(v Value, t types.Type) *Object {
	p.objCounter++
	return &Object{V: v, ID: p.objCounter, T: t}
}

// slot returns the addressable Go slot the pointer designates.
func (p *Path) slot(ptr Ptr) *Value {
	if ptr.Obj == nil {
		p.goPanicRuntime("invalid memory address or nil pointer dereference")
	}
	if ptr.Sym != nil {
		panic(p.abort("internal: slot() on symbolic-index pointer"))
	}
	cur := &ptr.Obj.V
	for _, ix := range ptr.Path {
		switch c := (*cur).(type) {
		case *StructV:
			cur = &c.F[ix]
		case *ArrayV:
			if ix < 0 || ix >= len(c.E) {
				panic(p.abort(fmt.Sprintf("internal: path index %d out of range %d", ix, len(c.E))))
			}
			cur = &c.E[ix]
		default:
			panic(p.abort(fmt.Sprintf("internal: bad pointer path through %T", *cur)))
		}
	}
	return cur
}

func (ptr Ptr) child(i int) Ptr {
	np := make([]int, len(ptr.Path)+1)
	copy(np, ptr.Path)
	np[len(ptr.Path)] = i
	return Ptr{Obj: ptr.Obj, Path: np}
}

func (p *Path) load(ptr Ptr) Value {
	if ptr.Sym != nil {
		return p.loadSym(ptr)
	}
	return copyVal(*p.slot(ptr))
}

func (p *Path) loadSym(ptr Ptr) Value {
	base := Ptr{Obj: ptr.Obj, Path: ptr.Path[:len(ptr.Path)-1]}
	arr, ok := (*p.slot(base)).(*ArrayV)
	if !ok {
		panic(p.abort("internal: sym pointer base not array"))
	}
	var res Value
	for k := ptr.N - 1; k >= 0; k-- {
		ev := arr.E[ptr.Path[len(ptr.Path)-1]+k]
		if res == nil {
			res = copyVal(ev)
			continue
		}
		c := p.tt.Eq(ptr.Sym, BVConstU(uint64(k), 64))
		res = p.iteValue(c, ev, res)
	}
	return res
}

// iteValue merges two values of the same shape under a condition.
func (p *Path) iteValue(c *Term, a, b Value) Value {
	if c.IsTrue() {
		return a
	}
	if c.IsFalse() {
		return b
	}
	switch x := a.(type) {
	case *Term:
		y, ok := b.(*Term)
		if !ok {
			panic(p.abort("ite: mismatched values"))
		}
		return p.tt.Ite(c, x, y)
	case *StructV:
		y := b.(*StructV)
		n := &StructV{F: make([]Value, len(x.F))}
		for i := range x.F {
			n.F[i] = p.iteValue(c, x.F[i], y.F[i])
		}
		return n
	case *ArrayV:
		y := b.(*ArrayV)
		n := &ArrayV{E: make([]Value, len(x.E))}
		for i := range x.E {
			n.E[i] = p.iteValue(c, x.E[i], y.E[i])
		}
		return n
	case SliceV:
		y, ok := b.(SliceV)
		if ok && x.Arr.Obj == y.Arr.Obj && pathEq(x.Arr.Path, y.Arr.Path) && x.Off == y.Off {
			return SliceV{Arr: x.Arr, Off: x.Off, Len: p.tt.Ite(c, x.Len, y.Len), Cap: p.tt.Ite(c, x.Cap, y.Cap)}
		}
	case Ptr:
		if y, ok := b.(Ptr); ok && x.Obj == y.Obj && pathEq(x.Path, y.Path) && x.Sym == nil && y.Sym == nil {
			return x
		}
	case StrV:
		if y, ok := b.(StrV); ok && x == y {
			return x
		}
	case IfaceV:
		if y, ok := b.(IfaceV); ok && x.T == nil && y.T == nil {
			return x
		}
		if y, ok := b.(IfaceV); ok && x.T != nil && y.T != nil && types.Identical(x.T, y.T) {
			return IfaceV{T: x.T, V: p.iteValue(c, x.V, y.V)}
		}
	case *Closure:
		if y, ok := b.(*Closure); ok && x == y {
			return x
		}
	case *MapObj:
		if y, ok := b.(*MapObj); ok && x == y {
			return x
		}
	case FloatV:
		if y, ok := b.(FloatV); ok && x == y {
			return x
		}
	}
	panic(mergeFail{})
}

type mergeFail struct{}

func pathEq(a, b []int) bool {
	if len(a) != len(b) {
		return false
	}
	for i := range a {
		if a[i] != b[i] {
			return false
		}
	}
	return true
}

func (p *Path) store(ptr Ptr, v Value) {
	if p.storeLog != nil { // speculative arm execution, mergemem.go
		p.logStore(ptr, v)
	}
	if ptr.Sym != nil {
		base := Ptr{Obj: ptr.Obj, Path: ptr.Path[:len(ptr.Path)-1]}
		arr := (*p.slot(base)).(*ArrayV)
		off := ptr.Path[len(ptr.Path)-1]
		for k := 0; k < ptr.N; k++ {
			c := p.tt.Eq(ptr.Sym, BVConstU(uint64(k), 64))
			arr.E[off+k] = p.iteValue(c, v, arr.E[off+k])
		}
		return
	}
	s := p.slot(ptr)
	storeInto(s, v)
}

func storeInto(s *Value, v Value) {
	switch x := v.(type) {
	case *StructV:
		if d, ok := (*s).(*StructV); ok && len(d.F) == len(x.F) {
			for i := range x.F {
				storeInto(&d.F[i], x.F[i])
			}
			return
		}
		*s = copyVal(v)
	case *ArrayV:
		if d, ok := (*s).(*ArrayV); ok && len(d.E) == len(x.E) {
			for i := range x.E {
				storeInto(&d.E[i], x.E[i])
			}
			return
		}
		*s = copyVal(v)
	default:
		*s = v
	}
}

// ---------------------------------------------------------------------------
// deep copy of the init-time template heap into a path

type copier struct {
	objs map[*Object]*Object
	maps map[*MapObj]*MapObj
	p    *Path
}

func (c *copier) val(v Value) Value {
	switch x := v.(type) {
	case *StructV:
		n := &StructV{F: make([]Value, len(x.F))}
		for i, f := range x.F {
			n.F[i] = c.val(f)
		}
		return n
	case *ArrayV:
		n := &ArrayV{E: make([]Value, len(x.E))}
		for i, f := range x.E {
			n.E[i] = c.val(f)
		}
		return n
	case Ptr:
		if x.Obj == nil {
			return x
		}
		return Ptr{Obj: c.obj(x.Obj), Path: x.Path, Sym: x.Sym, N: x.N}
	case SliceV:
		if x.Arr.Obj == nil {
			return x
		}
		return SliceV{Arr: Ptr{Obj: c.obj(x.Arr.Obj), Path: x.Arr.Path}, Off: x.Off, Len: x.Len, Cap: x.Cap}
	case *MapObj:
		if x == nil {
			return x
		}
		if n, ok := c.maps[x]; ok {
			return n
		}
		n := &MapObj{T: x.T, ID: x.ID, Entries: make([]mapEntry, len(x.Entries))}
		c.maps[x] = n
		for i, e := range x.Entries {
			n.Entries[i] = mapEntry{c.val(e.K), c.val(e.V)}
		}
		return n
	case IfaceV:
		if x.T == nil {
			return x
		}
		return IfaceV{T: x.T, V: c.val(x.V)}
	case *Closure:
		if x == nil || (len(x.Env) == 0 && x.Recv == nil) {
			return x
		}
		n := &Closure{Fn: x.Fn, Built: x.Built, Name: x.Name, Env: make([]Value, len(x.Env))}
		for i, e := range x.Env {
			n.Env[i] = c.val(e)
		}
		if x.Recv != nil {
			n.Recv = c.val(x.Recv)
		}
		return n
	case TupleV:
		n := make(TupleV, len(x))
		for i, e := range x {
			n[i] = c.val(e)
		}
		return n
	}
	return v
}

func (c *copier) obj(o *Object) *Object {
	if n, ok := c.objs[o]; ok {
		return n
	}
	if strings.HasPrefix(o.Tag, "reflect.Type:") {
		return o // canonical type descriptors are process-wide and immutable (intr_reflect.go): identity must survive the template copy
	}
	n := &Object{ID: o.ID, T: o.T, Tag: o.Tag}
	c.objs[o] = n
	n.V = c.val(o.V)
	return n
}

// ---------------------------------------------------------------------------

func describe(v Value) string {
	switch x := v.(type) {
	case nil:
		return "<nil>"
	case *Term:
		return x.String()
	case StrV:
		return fmt.Sprintf("%q", string(x))
	case FloatV:
		return fmt.Sprint(float64(x))
	case *StructV:
		var sb strings.Builder
		sb.WriteString("{")
		for i, f := range x.F {
			if i > 0 {
				sb.WriteString(", ")
			}
			if i > 8 {
				sb.WriteString("…")
				break
			}
			sb.WriteString(describe(f))
		}
		sb.WriteString("}")
		return sb.String()
	case *ArrayV:
		var sb strings.Builder
		sb.WriteString("[")
		for i, f := range x.E {
			if i > 0 {
				sb.WriteString(" ")
			}
			if i > 8 {
				sb.WriteString("…")
				break
			}
			sb.WriteString(describe(f))
		}
		sb.WriteString("]")
		return sb.String()
	case Ptr:
		if x.Obj == nil {
			return "nil"
		}
		return fmt.Sprintf("&obj%d%v", x.Obj.ID, x.Path)
	case SliceV:
		return fmt.Sprintf("slice(obj=%v off=%d len=%v cap=%v)", x.Arr.Obj != nil, x.Off, x.Len, x.Cap)
	case IfaceV:
		if x.T == nil {
			return "iface(nil)"
		}
		return "iface(" + x.T.String() + ":" + describe(x.V) + ")"
	case *Closure:
		if x == nil {
			return "func(nil)"
		}
		if x.Fn != nil {
			return "func " + x.Fn.String()
		}
		return "func " + x.Name
	case Opaque:
		return "opaque(" + x.Why + ")"
	case TupleV:
		var sb strings.Builder
		sb.WriteString("(")
		for i, f := range x {
			if i > 0 {
				sb.WriteString(", ")
			}
			sb.WriteString(describe(f))
		}
		sb.WriteString(")")
		return sb.String()
	}
	return fmt.Sprintf("%T", v)
}

func constInt(v Value) (int64, bool) {
	t, ok := v.(*Term)
	if !ok || !t.IsConst() {
		return 0, false
	}
	return t.Int64(), true
}

func bigFromInt(i int64) *big.Int { return big.NewInt(i) }
