package main

// Lazy materialisation of large symbolic allocations (harness option
// "lazy_make": N).
//
// make([]T, n) with a symbolic n normally forks over every feasible value of
// n.  Network code allocates "as many bytes as the peer announced" (up to
// 2^24 in RLPx) and then fails on the first short read; forking over 2^24
// sizes is neither possible nor useful.  With lazy_make = N the engine forks
// once on n <= N:
//   * n <= N : the ordinary treatment (one path per feasible value);
//   * n >  N : a single path whose slice keeps the *symbolic* len/cap, backed
//              by an array of which only the first N elements are
//              materialised.
// Soundness: every element below N exists in the real slice too (n > N), so
// accesses to the materialised part are exact.  Any access that could touch an
// element at or beyond N is refused: constant indices and concretised lengths
// run into the array bounds of the backing object (engine abort, reported as a
// machinery fault), symbolic indices are guarded by lazyGuard below.  Nothing
// is approximated silently.

import (
	"fmt"
	"go/types"

	"golang.org/x/tools/go/ssa"
)

const lazyTag = "lazy-make"

func (p *Path) lazyMake(in *ssa.MakeSlice, ln, cp *Term, lz int) (Value, bool) {
	elem := in.Type().Underlying().(*types.Slice).Elem()
	if !isScalarType(elem) || isBigIntUnder(elem) {
		return nil, false
	}
	if p.branch(p.tt.SLe(cp, BVConstI(int64(lz), 64))) {
		return nil, false // small: ordinary concretisation
	}
	at := types.NewArray(elem, int64(lz))
	o := p.newObject(p.zero(at), at)
	o.Tag = lazyTag
	return SliceV{Arr: Ptr{Obj: o}, Len: ln, Cap: cp}, true
}

// lazyGuard refuses a symbolic index into a slice over a lazily materialised
// array unless the index provably lies inside the materialised part (n
// elements from the slice offset).
func (p *Path) lazyGuard(s SliceV, idx *Term, n int) {
	if s.Arr.Obj == nil || s.Arr.Obj.Tag != lazyTag {
		return
	}
	beyond := p.tt.ULe(BVConstU(uint64(n), 64), idx)
	if p.sol.CheckWith(beyond, false) != Unsat {
		panic(p.abort(fmt.Sprintf("symbolic index may reach beyond the %d materialised elements of a large symbolic allocation (lazy_make)", n)))
	}
}
