package main

import (
	"encoding/json"
	"flag"
	"fmt"
	"os"
	"path/filepath"
	"runtime"
	"sort"
	"strconv"
	"strings"
	"time"
)

type KnownFinding struct {
	ID       string `json:"id"`
	Property string `json:"property"`
	Status   string `json:"status"` // open | fixed
	What     string `json:"what"`
	Commit   string `json:"commit,omitempty"`
	Line     string `json:"line,omitempty"`
}

var verifDir = "/verif"
var repoDir = "/repo" // VERIF_REPO overrides (used to run the checks against a scratch worktree)

func loadKnown() map[string]KnownFinding {
	out := map[string]KnownFinding{}
	b, err := os.ReadFile(filepath.Join(verifDir, "known_findings.json"))
	if err != nil {
		return out
	}
	var ks []KnownFinding
	if err := json.Unmarshal(b, &ks); err != nil {
		fmt.Fprintln(os.Stderr, "known_findings.json:", err)
		os.Exit(2)
	}
	for _, k := range ks {
		out[k.ID] = k
	}
	return out
}

func main() {
	prop := flag.String("prop", "", "property id (suite /verif/suites/<id>.json)")
	tier := flag.String("tier", "quick", "quick|thorough")
	only := flag.String("harness", "", "run only harnesses whose entry contains this")
	verbose := flag.Bool("v", false, "verbose")
	workers := flag.Int("j", runtime.NumCPU(), "workers")
	solver := flag.String("solver", "z3", "solver binary")
	noReplay := flag.Bool("noreplay", false, "skip native replay of counterexamples (diagnostic)")
	noValidate := flag.Bool("novalidate", false, "skip native validation of sampled paths (diagnostic)")
	replayFile := flag.String("replay", "", "replay a recorded counterexample file natively")
	flag.Parse()
	if d := os.Getenv("VERIF_REPO"); d != "" {
		repoDir = d
	}
	if d := os.Getenv("VERIF_DIR"); d != "" {
		verifDir = d
	}
	if t := os.Getenv("VERIF_TIER"); t != "" && !isFlagSet("tier") {
		*tier = t
	}
	seed := int64(1)
	if s := os.Getenv("VERIF_SEED"); s != "" {
		seed, _ = strconv.ParseInt(s, 10, 64)
	}
	if *replayFile != "" {
		os.Exit(replayOnly(*replayFile))
	}
	if *prop == "" {
		fmt.Fprintln(os.Stderr, "usage: gosym -prop Cxx [-tier quick|thorough]")
		os.Exit(2)
	}
	t0 := time.Now()
	suite, err := loadSuite(filepath.Join(verifDir, "suites", *prop+".json"))
	if err != nil {
		fmt.Fprintln(os.Stderr, err)
		os.Exit(2)
	}
	if suite.SolverBin != "" && !isFlagSet("solver") {
		*solver = suite.SolverBin
	}
	pats := append([]string{vsPkg}, activePackages(suite, *tier, *only)...)
	eng, err := LoadEngine(pats, filepath.Join(verifDir, "harness"))
	if err != nil {
		fmt.Fprintln(os.Stderr, "load:", err)
		os.Exit(2)
	}
	if len(suite.Generate) > 0 { // derive source from the loaded tree, then load again with it (gen.go)
		eng.verbose = *verbose
		if err = runGenerators(eng, suite.Generate); err == nil {
			eng, err = LoadEngine(pats, filepath.Join(verifDir, "harness"))
		}
		suite.Assumes = append(suite.Assumes, generatorNotes...)
		if err != nil {
			fmt.Fprintln(os.Stderr, "generate:", err)
			os.Exit(2)
		}
	}
	eng.workers = *workers
	eng.solverBin = *solver
	eng.tier = *tier
	eng.verbose = *verbose
	known := loadKnown()
	if *verbose {
		slowLog = func(d time.Duration, r SatResult, ctx func() string) {
			c := ""
			if ctx != nil {
				c = ctx()
			}
			fmt.Fprintf(os.Stderr, "   slow query %.1fs %s %s\n", d.Seconds(), r, c)
		}
	}

	var runs []*HarnessRun
	for _, h := range suite.Harnesses {
		if *only != "" && !strings.Contains(h.Entry, *only) {
			continue
		}
		cfg := h.Quick
		if *tier == "thorough" {
			cfg = h.Thorough
		}
		if cfg.Skip {
			continue
		}
		hr := eng.RunHarness(suite, h)
		hr.seed = seed
		runs = append(runs, hr)
		if *verbose {
			fmt.Fprintf(os.Stderr, "%-50s paths=%d done=%d infeasible=%d assumed=%d fail=%d unk=%d err=%d q=%d (sat %d unsat %d unk %d) solver=%.1fs wall=%.1fs\n",
				h.Entry, hr.paths, hr.completed, hr.infeasible, hr.assumedAway, len(hr.failures), len(hr.unknowns), len(hr.errors),
				hr.stats.Queries, hr.stats.Sat, hr.stats.Unsat, hr.stats.Unknown, float64(hr.stats.Nanos)/1e9, hr.wall)
			for _, k := range sortedStrKeys(hr.errors) {
				fmt.Fprintf(os.Stderr, "   ERROR x%d: %s\n", hr.errors[k], k)
			}
			for _, k := range sortedStrKeys(hr.unknowns) {
				fmt.Fprintf(os.Stderr, "   UNKNOWN x%d: %s\n", hr.unknowns[k], k)
			}
			for i, f := range hr.failures {
				if i < 5 {
					fmt.Fprintf(os.Stderr, "   FAIL %s %q known=%q inputs=%v\n", f.Kind, f.Label, f.Known, f.Inputs)
				}
			}
		}
	}
	res := finish(eng, suite, runs, known, *tier, seed, *noReplay, *noValidate, time.Since(t0).Seconds())
	os.Exit(res)
}

func isFlagSet(name string) bool {
	set := false
	flag.Visit(func(f *flag.Flag) {
		if f.Name == name {
			set = true
		}
	})
	return set
}

// finish replays counterexamples, validates sampled paths, writes evidence and
// returns the process exit code.
func finish(eng *Engine, s *Suite, runs []*HarnessRun, known map[string]KnownFinding, tier string, seed int64, noReplay, noValidate bool, wall float64) int {
	prop := s.Property
	exit := 0
	faults := []string{}
	violations := 0
	knownPrinted := map[string]bool{}
	var vioSamples []map[string]interface{}

	// 1. counterexamples
	replayDir := filepath.Join(verifDir, "replays", prop)
	type pend struct {
		hr   *HarnessRun
		f    *Failure
		file string
	}
	var pending []pend
	for _, hr := range runs {
		// dedupe failures by (label, known)
		seen := map[string]int{}
		for i := range hr.failures {
			f := &hr.failures[i]
			key := f.Kind + "|" + f.Label + "|" + f.Known
			seen[key]++
			if seen[key] > 2 {
				continue
			}
			os.MkdirAll(replayDir, 0o755)
			name := fmt.Sprintf("%s-%d.json", shortName(hr.h.Entry), len(pending))
			file := filepath.Join(replayDir, name)
			f.Params = hr.h.cfg.Params
			b, _ := json.MarshalIndent(f, "", " ")
			os.WriteFile(file, b, 0o644)
			pending = append(pending, pend{hr, f, file})
		}
	}
	if len(pending) > 0 {
		var items []replayItem
		for _, pd := range pending {
			items = append(items, replayItem{File: pd.file, Entry: pd.hr.h.Entry})
		}
		var results map[string]replayResult
		if !noReplay {
			var err error
			results, err = nativeRun(eng, items)
			if err != nil {
				faults = append(faults, "native replay failed to run: "+err.Error())
			}
		}
		for _, pd := range pending {
			r, ok := results[pd.file]
			reproduced := ok && r.Reproduced
			if noReplay {
				reproduced = true
			}
			if !reproduced {
				if pd.hr.h.NoNativeReplay {
					// cannot be confirmed natively (uninterpreted crypto on the path): report as unconfirmed
					faults = append(faults, fmt.Sprintf("counterexample for %s %q cannot be replayed natively (harness uses uninterpreted functions)", pd.hr.h.Entry, pd.f.Label))
					continue
				}
				faults = append(faults, fmt.Sprintf("counterexample for %s %q did not reproduce natively (%s): engine/stub fault, see %s", pd.hr.h.Entry, pd.f.Label, r.Detail, pd.file))
				continue
			}
			if pd.f.Known != "" {
				if k, ok := known[pd.f.Known]; ok && k.Status == "open" && k.Property == prop {
					if !knownPrinted[k.ID] {
						knownPrinted[k.ID] = true
						fmt.Printf("KNOWN-FINDING: property=%s %s (%s) replay=%s\n", prop, k.ID, k.What, pd.file)
					}
					continue
				}
			}
			violations++
			fmt.Printf("VIOLATION property=%s replay=%s\n", prop, pd.file)
			fmt.Printf("  harness=%s kind=%s label=%q inputs=%v\n", pd.hr.h.Entry, pd.f.Kind, pd.f.Label, pd.f.Inputs)
			vioSamples = append(vioSamples, map[string]interface{}{"harness": pd.hr.h.Entry, "kind": pd.f.Kind, "label": pd.f.Label, "inputs": pd.f.Inputs, "replay": pd.file})
			exit = 1
		}
	}

	// 2. sampled-path validation against the native build
	validated := 0
	if !noValidate {
		var items []replayItem
		for hi, hr := range runs {
			if hr.h.NoNativeReplay {
				continue
			}
			for i, v := range hr.validation {
				dir := filepath.Join(verifDir, "replays", prop, "validate")
				os.MkdirAll(dir, 0o755)
				file := filepath.Join(dir, fmt.Sprintf("%s-h%d-%d.json", shortName(hr.h.Entry), hi, i))
				v.Params = hr.h.cfg.Params
				b, _ := json.MarshalIndent(v, "", " ")
				os.WriteFile(file, b, 0o644)
				items = append(items, replayItem{File: file, Entry: hr.h.Entry, Validate: true})
			}
		}
		if len(items) > 0 {
			results, err := nativeRun(eng, items)
			if err != nil {
				faults = append(faults, "native validation failed to run: "+err.Error())
			}
			for _, it := range items {
				r, ok := results[it.File]
				if !ok {
					faults = append(faults, "no native validation result for "+it.File)
					continue
				}
				if !r.Agrees {
					faults = append(faults, fmt.Sprintf("translator validation mismatch for %s: %s (%s)", it.Entry, r.Detail, it.File))
					continue
				}
				validated++
			}
			os.RemoveAll(filepath.Join(verifDir, "replays", prop, "validate"))
		}
	}

	// 3. machinery faults
	for _, hr := range runs {
		for _, k := range sortedStrKeys(hr.errors) {
			faults = append(faults, fmt.Sprintf("%s: %s (x%d)", hr.h.Entry, k, hr.errors[k]))
		}
		for _, k := range sortedStrKeys(hr.unknowns) {
			faults = append(faults, fmt.Sprintf("%s: undecided: %s (x%d)", hr.h.Entry, k, hr.unknowns[k]))
		}
		if hr.completed == 0 && len(hr.failures) == 0 {
			faults = append(faults, fmt.Sprintf("%s: vacuous: no path reaches the end of the harness", hr.h.Entry))
		}
		for _, l := range hr.h.ExpectReach {
			if hr.reach[l] == 0 {
				faults = append(faults, fmt.Sprintf("%s: vacuous: reachability witness %q never reached", hr.h.Entry, l))
			}
		}
		for _, rp := range hr.h.ReachPairs {
			for _, l := range sortedStrKeys(hr.reach) {
				if strings.HasPrefix(l, rp[0]) && hr.reach[rp[1]+strings.TrimPrefix(l, rp[0])] == 0 {
					faults = append(faults, fmt.Sprintf("%s: undetermined: %q reached but no %q within the explored space", hr.h.Entry, l, rp[1]+strings.TrimPrefix(l, rp[0])))
				}
			}
		}
		if hr.stats.Errors > 0 {
			faults = append(faults, fmt.Sprintf("%s: %d solver error lines", hr.h.Entry, hr.stats.Errors))
		}
	}
	if len(faults) > 0 && exit == 0 {
		exit = 2
	}
	for _, f := range faults {
		fmt.Printf("MACHINERY-FAULT property=%s %s\n", prop, f)
	}
	writeEvidence(eng, s, runs, tier, seed, wall, violations, validated, faults, vioSamples, knownPrinted)
	if exit == 0 {
		fmt.Printf("OK property=%s tier=%s harnesses=%d wall=%.1fs\n", prop, tier, len(runs), time.Since(time.Now().Add(-time.Duration(wall*float64(time.Second)))).Seconds())
	}
	return exit
}

func shortName(entry string) string {
	i := strings.LastIndex(entry, ".")
	return entry[i+1:]
}

func writeEvidence(eng *Engine, s *Suite, runs []*HarnessRun, tier string, seed int64, wall float64, violations, validated int, faults []string, vioSamples []map[string]interface{}, knownPrinted map[string]bool) {
	var states, transitions int64
	var st SolverStats
	funcs := map[string]bool{}
	var samples []interface{}
	var bounds []map[string]interface{}
	ufs := map[string]bool{}
	obligations, discharged := 0, 0
	for _, hr := range runs {
		states += hr.completed + hr.stopped
		transitions += hr.steps
		st.add(&hr.stats)
		for f := range hr.fnSeen {
			if strings.Contains(f, repoMod) && !strings.Contains(f, "verifsym") {
				funcs[f] = true
			}
		}
		for _, sm := range hr.samples {
			samples = append(samples, sm)
		}
		for u := range hr.ufs {
			ufs[u] = true
		}
		nob, ndis := 0, 0
		for _, v := range hr.obligations {
			nob += v
		}
		for _, v := range hr.discharged {
			ndis += v
		}
		obligations += nob
		discharged += ndis
		bounds = append(bounds, map[string]interface{}{
			"harness": hr.h.Entry, "doc": hr.h.Doc, "big_mode": hr.h.Big, "unwind": hr.h.unwind(), "params": hr.h.cfg.Params,
			"map_permutation_cap": hr.h.mapPerm(), "paths": hr.paths, "completed": hr.completed, "infeasible": hr.infeasible,
			"assumed_away": hr.assumedAway, "diamond_merges": hr.merges, "obligation_instances": nob, "discharged": ndis,
			"distinct_obligations": sortedStrKeys(hr.obligations), "reach": hr.reach, "outside_claim": hr.h.Outside,
			"queries": hr.stats.Queries, "solver_s": float64(hr.stats.Nanos) / 1e9, "wall_s": hr.wall,
			"map_order_not_permuted": hr.mapFixed, "cut_outside_bound": hr.outside,
		})
	}
	for _, v := range vioSamples {
		samples = append(samples, v)
	}
	if len(samples) == 0 {
		samples = append(samples, map[string]interface{}{"note": "no path completed"})
	}
	fl := make([]string, 0, len(funcs))
	for f := range funcs {
		fl = append(fl, f)
	}
	sort.Strings(fl)
	var kf []string
	for k := range knownPrinted {
		kf = append(kf, k)
	}
	sort.Strings(kf)
	if states == 0 {
		states = 1
	}
	if transitions == 0 {
		transitions = 1
	}
	ev := map[string]interface{}{
		"property_id": s.Property,
		"tier":        tier,
		"seed":        seed,
		"level":       "model_checking",
		"wall_s":      wall,
		"violations":  violations,
		"assumptions": append(append([]string{}, s.Assumes...), "uninterpreted functions: "+strings.Join(sortedStrKeys(ufs), ", ")),
		"coverage": map[string]interface{}{
			"states":                        states,
			"transitions":                   transitions,
			"traces_validated_against_impl": validated,
			"samples":                       samples,
			"explanation":                   "bounded symbolic execution of the real Go code (go/ssa regenerated from /repo on this run) with every harness input an SMT variable; states = complete symbolic paths, transitions = SSA instructions interpreted; each obligation is an SMT query (unsat = holds for all inputs within the bound)",
			"functions_encoded":             fl,
			"functions_encoded_count":       len(fl),
			"harnesses":                     bounds,
			"obligations":                   obligations,
			"discharged":                    discharged,
			"queries":                       st.Queries,
			"unsat":                         st.Unsat,
			"sat":                           st.Sat,
			"unknown":                       st.Unknown,
			"solver_error_lines":            st.Errors,
			"solver_s":                      float64(st.Nanos) / 1e9,
			"solver":                        eng.solverBin,
			"ssa_load_s":                    eng.loadSecs,
			"outside_claim":                 s.Outside,
			"machinery_faults":              faults,
			"known_findings_reported":       kf,
		},
	}
	os.MkdirAll(filepath.Join(verifDir, "evidence"), 0o755)
	b, _ := json.MarshalIndent(ev, "", " ")
	os.WriteFile(filepath.Join(verifDir, "evidence", s.Property+".json"), b, 0o644)
}
