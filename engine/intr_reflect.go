package main

// Minimal model of package reflect (exactly what aqua/event/feed.go needs, C19)
// and the sequential model of the `select` statement.
//
// Representation
//   reflect.Type   IfaceV{T: *reflect.rtype, V: Ptr{Obj: <canonical type object>}}
//                  one canonical object per go/types type (process-wide, immutable),
//                  so Go's `==` on reflect.Type values is pointer identity, as in Go.
//   reflect.Value  *StructV with the three fields of the real struct
//                  {typ_ *abi.Type, ptr unsafe.Pointer, flag}:
//                    F[0] = Ptr to the canonical type object
//                    F[1] = Ptr to a box object whose V is the engine value
//                    F[2] = the reflect.Kind as the flag word (non-zero = valid)
//                  the zero struct is the invalid Value, as in Go.
//
// Every function of package reflect that has no model below is refused by the
// guard in callFunction (reflGuard): the real bodies would misread this
// representation.  Value.TrySend and reflect.Select have no model at all: they
// are scheduler points and must be overridden by the suite (redirect:).

import (
	"fmt"
	"go/types"
	"sync"

	"golang.org/x/tools/go/ssa"
)

type reflTypeEnt struct {
	T   types.Type
	obj *Object
}

var reflTypes struct {
	mu    sync.Mutex
	list  []reflTypeEnt
	byObj map[*Object]types.Type
}

func (p *Path) reflPkgType(name string) types.Type {
	rp := p.eng.pkgs["reflect"]
	if rp == nil {
		panic(p.abort("reflect model: package reflect not loaded"))
	}
	m := rp.Type(name)
	if m == nil {
		panic(p.abort("reflect model: reflect." + name + " not found"))
	}
	return m.Type()
}

func (p *Path) reflNoTmpl(what string) {
	if p.hr != nil && p.hr.tmpl {
		panic(p.abort("reflect model: " + what + " during package initialisation"))
	}
}

// reflTypeObj returns the canonical object standing for the run-time type descriptor of T.
func (p *Path) reflTypeObj(T types.Type) *Object {
	reflTypes.mu.Lock()
	defer reflTypes.mu.Unlock()
	for _, e := range reflTypes.list {
		if types.Identical(e.T, T) {
			return e.obj
		}
	}
	// V is Opaque on purpose: nothing may look inside a type descriptor.
	o := &Object{V: Opaque{"reflect type descriptor of " + T.String()}, T: p.reflPkgType("rtype"), Tag: "reflect.Type:" + T.String()}
	reflTypes.list = append(reflTypes.list, reflTypeEnt{T, o})
	if reflTypes.byObj == nil {
		reflTypes.byObj = map[*Object]types.Type{}
	}
	reflTypes.byObj[o] = T
	return o
}

func (p *Path) reflTypeValue(T types.Type) Value {
	return IfaceV{T: types.NewPointer(p.reflPkgType("rtype")), V: Ptr{Obj: p.reflTypeObj(T)}}
}

// reflTypeOfRecv decodes the receiver of a (*reflect.rtype) method.
func (p *Path) reflTypeOfRecv(v Value, what string) types.Type {
	ptr, ok := v.(Ptr)
	if !ok {
		panic(p.abort("reflect model: " + what + " on " + describe(v)))
	}
	if ptr.Obj == nil {
		p.goPanicRuntime("invalid memory address or nil pointer dereference")
	}
	reflTypes.mu.Lock()
	T, ok := reflTypes.byObj[ptr.Obj]
	reflTypes.mu.Unlock()
	if !ok || len(ptr.Path) != 0 {
		panic(p.abort("reflect model: " + what + " on a type descriptor the model did not create"))
	}
	return T
}

func reflKind(T types.Type) (int, bool) {
	switch u := T.Underlying().(type) {
	case *types.Basic:
		switch u.Kind() {
		case types.Bool:
			return 1, true
		case types.Int:
			return 2, true
		case types.Int8:
			return 3, true
		case types.Int16:
			return 4, true
		case types.Int32:
			return 5, true
		case types.Int64:
			return 6, true
		case types.Uint:
			return 7, true
		case types.Uint8:
			return 8, true
		case types.Uint16:
			return 9, true
		case types.Uint32:
			return 10, true
		case types.Uint64:
			return 11, true
		case types.Uintptr:
			return 12, true
		case types.Float32:
			return 13, true
		case types.Float64:
			return 14, true
		case types.Complex64:
			return 15, true
		case types.Complex128:
			return 16, true
		case types.String:
			return 24, true
		case types.UnsafePointer:
			return 26, true
		}
	case *types.Array:
		return 17, true
	case *types.Chan:
		return 18, true
	case *types.Signature:
		return 19, true
	case *types.Interface:
		return 20, true
	case *types.Map:
		return 21, true
	case *types.Pointer:
		return 22, true
	case *types.Slice:
		return 23, true
	case *types.Struct:
		return 25, true
	}
	return 0, false
}

// reflMakeValue builds the reflect.Value holding v of (non-interface) dynamic type T.
func (p *Path) reflMakeValue(T types.Type, v Value) Value {
	if _, isIface := T.Underlying().(*types.Interface); isIface {
		panic(p.abort("reflect model: Value of interface kind"))
	}
	k, ok := reflKind(T)
	if !ok {
		panic(p.abort("reflect model: no Kind for " + T.String()))
	}
	box := p.newObject(copyVal(v), T)
	box.Tag = "reflect.Value box"
	return &StructV{F: []Value{Ptr{Obj: p.reflTypeObj(T)}, Ptr{Obj: box}, BVConstU(uint64(k), 64)}}
}

// reflUnpack decodes a reflect.Value; valid=false for the zero Value.
func (p *Path) reflUnpack(v Value, what string) (T types.Type, val Value, valid bool) {
	sv, ok := v.(*StructV)
	if !ok || len(sv.F) != 3 {
		panic(p.abort("reflect model: " + what + " on " + describe(v)))
	}
	fl, ok := sv.F[2].(*Term)
	if !ok || !fl.IsConst() {
		panic(p.abort("reflect model: " + what + ": non-constant flag word"))
	}
	tp, ok1 := sv.F[0].(Ptr)
	bp, ok2 := sv.F[1].(Ptr)
	if !ok1 || !ok2 {
		panic(p.abort("reflect model: " + what + ": malformed Value"))
	}
	if fl.Uint64() == 0 {
		if tp.Obj != nil || bp.Obj != nil {
			panic(p.abort("reflect model: " + what + ": malformed zero Value"))
		}
		return nil, nil, false
	}
	if tp.Obj == nil || bp.Obj == nil || bp.Obj.Tag != "reflect.Value box" {
		panic(p.abort("reflect model: " + what + ": Value not created by the model"))
	}
	return bp.Obj.T, copyVal(bp.Obj.V), true
}

func (p *Path) reflValuePanic(method string) {
	msg := "reflect: call of " + method + " on zero Value"
	panic(&goPanic{val: IfaceV{T: types.Typ[types.String], V: StrV(msg)}, msg: msg, stack: p.where()})
}

// reflGuard: a function of package reflect without a model must not be interpreted.
func reflGuard(fn *ssa.Function) bool {
	return fn.Blocks != nil && fn.Pkg != nil && fn.Pkg.Pkg.Path() == "reflect"
}

func init() {
	reg := func(name string, f intrinsic) { intrinsics[name] = f }

	reg("reflect.ValueOf", func(p *Path, fn *ssa.Function, a []Value) Value {
		p.reflNoTmpl("ValueOf")
		iv, ok := a[0].(IfaceV)
		if !ok {
			panic(p.abort("reflect.ValueOf of " + describe(a[0])))
		}
		if iv.T == nil {
			return p.zero(p.reflPkgType("Value"))
		}
		return p.reflMakeValue(iv.T, iv.V)
	})
	reg("reflect.TypeOf", func(p *Path, fn *ssa.Function, a []Value) Value {
		p.reflNoTmpl("TypeOf")
		iv, ok := a[0].(IfaceV)
		if !ok {
			panic(p.abort("reflect.TypeOf of " + describe(a[0])))
		}
		if iv.T == nil {
			return IfaceV{}
		}
		return p.reflTypeValue(iv.T)
	})
	reg("(reflect.Value).IsValid", func(p *Path, fn *ssa.Function, a []Value) Value {
		_, _, valid := p.reflUnpack(a[0], "Value.IsValid")
		return BoolT(valid)
	})
	reg("(reflect.Value).Kind", func(p *Path, fn *ssa.Function, a []Value) Value {
		T, _, valid := p.reflUnpack(a[0], "Value.Kind")
		if !valid {
			return BVConstU(0, 64)
		}
		k, _ := reflKind(T)
		return BVConstU(uint64(k), 64)
	})
	reg("(reflect.Value).Type", func(p *Path, fn *ssa.Function, a []Value) Value {
		T, _, valid := p.reflUnpack(a[0], "Value.Type")
		if !valid {
			p.reflValuePanic("reflect.Value.Type")
		}
		return p.reflTypeValue(T)
	})
	reg("(reflect.Value).Interface", func(p *Path, fn *ssa.Function, a []Value) Value {
		T, v, valid := p.reflUnpack(a[0], "Value.Interface")
		if !valid {
			p.reflValuePanic("reflect.Value.Interface")
		}
		return IfaceV{T: T, V: v}
	})
	refuse := func(name string) {
		reg(name, func(p *Path, fn *ssa.Function, a []Value) Value {
			panic(p.abort(name + " is a scheduler point: it has no model and must be overridden by the suite"))
		})
	}
	refuse("(reflect.Value).TrySend")
	refuse("(reflect.Value).TryRecv")
	refuse("(reflect.Value).Send")
	refuse("(reflect.Value).Recv")
	refuse("reflect.Select")

	// --- reflect.Type methods (dynamic type *reflect.rtype) ---
	reg("(*reflect.rtype).Kind", func(p *Path, fn *ssa.Function, a []Value) Value {
		k, _ := reflKind(p.reflTypeOfRecv(a[0], "Type.Kind"))
		return BVConstU(uint64(k), 64)
	})
	reg("(*reflect.rtype).String", func(p *Path, fn *ssa.Function, a []Value) Value {
		// types.TypeString differs from reflect's spelling only in how package
		// paths are written; strings are diagnostics here (error texts).
		return StrV(types.TypeString(p.reflTypeOfRecv(a[0], "Type.String"), func(pk *types.Package) string { return pk.Name() }))
	})
	reg("(*reflect.rtype).ChanDir", func(p *Path, fn *ssa.Function, a []Value) Value {
		T := p.reflTypeOfRecv(a[0], "Type.ChanDir")
		c, ok := T.Underlying().(*types.Chan)
		if !ok {
			msg := "reflect: ChanDir of non-chan type " + T.String()
			panic(&goPanic{val: IfaceV{T: types.Typ[types.String], V: StrV(msg)}, msg: msg, stack: p.where()})
		}
		d := 3 // BothDir
		switch c.Dir() {
		case types.SendOnly:
			d = 2
		case types.RecvOnly:
			d = 1
		}
		return BVConstU(uint64(d), 64)
	})
	reg("(*reflect.rtype).Elem", func(p *Path, fn *ssa.Function, a []Value) Value {
		T := p.reflTypeOfRecv(a[0], "Type.Elem")
		switch u := T.Underlying().(type) {
		case *types.Chan:
			return p.reflTypeValue(u.Elem())
		case *types.Array:
			return p.reflTypeValue(u.Elem())
		case *types.Slice:
			return p.reflTypeValue(u.Elem())
		case *types.Pointer:
			return p.reflTypeValue(u.Elem())
		case *types.Map:
			return p.reflTypeValue(u.Elem())
		}
		msg := "reflect: Elem of invalid type " + T.String()
		panic(&goPanic{val: IfaceV{T: types.Typ[types.String], V: StrV(msg)}, msg: msg, stack: p.where()})
	})
	reg("reflect.ChanOf", func(p *Path, fn *ssa.Function, a []Value) Value {
		p.reflNoTmpl("ChanOf")
		d, ok := constInt(a[0])
		if !ok {
			panic(p.abort("reflect.ChanOf: symbolic direction"))
		}
		iv, ok := a[1].(IfaceV)
		if !ok || iv.T == nil {
			panic(p.abort("reflect.ChanOf: element type " + describe(a[1])))
		}
		et := p.reflTypeOfRecv(iv.V, "ChanOf element")
		var dir types.ChanDir
		switch d {
		case 1:
			dir = types.RecvOnly
		case 2:
			dir = types.SendOnly
		case 3:
			dir = types.SendRecv
		default:
			msg := "reflect.ChanOf: invalid dir"
			panic(&goPanic{val: IfaceV{T: types.Typ[types.String], V: StrV(msg)}, msg: msg, stack: p.where()})
		}
		return p.reflTypeValue(types.NewChan(dir, et))
	})
}

// ---------------------------------------------------------------------------
// select statement, sequential channel model: a send case is ready iff the
// buffer has room, a receive case iff the buffer is non-empty (nil channels are
// never ready; close is not modelled, so a closed channel is never "ready").
// Several ready cases: every one is explored (structural fork).  A blocking
// select without a ready case cannot proceed in a single-goroutine world: refused.

func (p *Path) selectStmt(fr *frame, in *ssa.Select) Value {
	var ready []int
	chans := make([]*ChanObj, len(in.States))
	for i, st := range in.States {
		ch, ok := p.get(fr, st.Chan).(*ChanObj)
		if !ok {
			panic(p.abort("select on unknown channel value"))
		}
		chans[i] = ch
		if ch == nil {
			continue
		}
		if st.Dir == types.SendOnly {
			if len(ch.Buf) < ch.Cap || ch.Closed {
				ready = append(ready, i)
			}
		} else if len(ch.Buf) > 0 || ch.Closed { // a closed channel is always ready to receive
			ready = append(ready, i)
		}
	}
	res := TupleV{BVConstI(-1, 64), FalseT}
	for _, st := range in.States {
		if st.Dir == types.RecvOnly {
			res = append(res, p.zero(st.Chan.Type().Underlying().(*types.Chan).Elem()))
		}
	}
	if len(ready) == 0 {
		if in.Blocking {
			panic(p.abort(fmt.Sprintf("select would block: none of its %d cases is ready (sequential channel model)", len(in.States))))
		}
		return res
	}
	pick := ready[p.choice(len(ready))]
	res[0] = BVConstI(int64(pick), 64)
	st := in.States[pick]
	ch := chans[pick]
	if st.Dir == types.SendOnly {
		if ch.Closed {
			panic(&goPanic{msg: "send on closed channel", stack: p.where()})
		}
		ch.Buf = append(ch.Buf, p.get(fr, st.Send))
		return res
	}
	if len(ch.Buf) == 0 { // closed and drained: zero value, recvOk = false
		return res
	}
	v := ch.Buf[0]
	ch.Buf = ch.Buf[1:]
	k := 2
	for i, s := range in.States {
		if s.Dir != types.RecvOnly {
			continue
		}
		if i == pick {
			res[k] = v
		}
		k++
	}
	res[1] = TrueT
	return res
}
