package main

import "strings"

// activePackages returns the suite's package patterns without those packages
// whose harnesses are all inactive in this run (skipped in the tier or
// filtered out by -harness).  A package that has no harness entry at all is
// always kept (it may be listed for redirect targets or initialisation).
// Dependencies of the remaining packages are loaded by go/packages anyway.
func activePackages(s *Suite, tier, only string) []string {
	has := map[string]bool{}
	active := map[string]bool{}
	for _, h := range s.Harnesses {
		i := strings.LastIndex(h.Entry, ".")
		if i < 0 {
			continue
		}
		pkg := h.Entry[:i]
		has[pkg] = true
		cfg := h.Quick
		if tier == "thorough" {
			cfg = h.Thorough
		}
		if cfg.Skip || (only != "" && !strings.Contains(h.Entry, only)) {
			continue
		}
		active[pkg] = true
	}
	// A package that holds the target of a suite-level redirect:/before: override
	// is needed by every harness of the suite (RunHarness resolves all suite-level
	// overrides), so it stays loaded even when none of its own harnesses is active.
	for _, spec := range s.Overrides {
		for _, pre := range []string{"redirect:", "before:"} {
			if strings.HasPrefix(spec, pre) {
				if i := strings.LastIndex(spec, "."); i > len(pre) {
					active[spec[len(pre):i]] = true
				}
			}
		}
	}
	var out []string
	for _, p := range s.Packages {
		if has[p] && !active[p] {
			continue
		}
		out = append(out, p)
	}
	return out
}
