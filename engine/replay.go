package main

// Native replay / validation: the same harness sources are compiled against
// the real build (go test -overlay) and run with recorded input vectors.

import (
	"bufio"
	"encoding/json"
	"fmt"
	"math/big"
	"os"
	"os/exec"
	"path/filepath"
	"sort"
	"strings"
)

type replayItem struct {
	File     string
	Entry    string
	Validate bool
}

type replayResult struct {
	File       string `json:"file"`
	Outcome    string `json:"outcome"`
	Reproduced bool   `json:"reproduced"`
	Agrees     bool   `json:"agrees"`
	Detail     string `json:"detail"`
}

func splitEntry(entry string) (pkg, fn string) {
	i := strings.LastIndex(entry, ".")
	return entry[:i], entry[i+1:]
}

func nativeRun(eng *Engine, items []replayItem) (map[string]replayResult, error) {
	out := map[string]replayResult{}
	byPkg := map[string][]replayItem{}
	for _, it := range items {
		pkg, _ := splitEntry(it.Entry)
		byPkg[pkg] = append(byPkg[pkg], it)
	}
	tmp, err := os.MkdirTemp("", "verif-replay-")
	if err != nil {
		return nil, err
	}
	defer os.RemoveAll(tmp)
	pkgs := make([]string, 0, len(byPkg))
	for p := range byPkg {
		pkgs = append(pkgs, p)
	}
	sort.Strings(pkgs)
	var firstErr error
	for pi, pkg := range pkgs {
		its := byPkg[pkg]
		sp := eng.pkgs[pkg]
		if sp == nil {
			return nil, fmt.Errorf("package %s not loaded", pkg)
		}
		resFile := filepath.Join(tmp, fmt.Sprintf("res%d.jsonl", pi))
		var sb strings.Builder
		fmt.Fprintf(&sb, "package %s\n\nimport (\n\t\"testing\"\n\tvs \"%s\"\n)\n\n", sp.Pkg.Name(), vsPkg)
		fmt.Fprintf(&sb, "func TestVerifReplay(t *testing.T) {\n\tvs.RunNative(%q, []vs.NativeItem{\n", resFile)
		for _, it := range its {
			_, fn := splitEntry(it.Entry)
			fmt.Fprintf(&sb, "\t\t{File: %q, Validate: %v, F: %s},\n", it.File, it.Validate, fn)
		}
		sb.WriteString("\t})\n}\n")
		testFile := filepath.Join(tmp, fmt.Sprintf("replay%d_test.go", pi))
		if err := os.WriteFile(testFile, []byte(sb.String()), 0o644); err != nil {
			return nil, err
		}
		rel := strings.TrimPrefix(strings.TrimPrefix(pkg, repoMod), "/")
		ov := map[string]string{filepath.Join(repoDir, rel, "zz_verif_replay_test.go"): testFile}
		// harness sources: written out from the in-memory overlay
		for path := range eng.overlay {
			if g, ok := materialiseGenerated(tmp, path, len(ov)+100*pi); ok { // suite-generated source (gen.go)
				ov[path] = g
				continue
			}
			src := filepath.Join(verifDir, "harness", strings.TrimPrefix(path, repoDir+"/"))
			ov[path] = src
		}
		ovb, _ := json.Marshal(map[string]interface{}{"Replace": ov})
		ovFile := filepath.Join(tmp, fmt.Sprintf("ov%d.json", pi))
		os.WriteFile(ovFile, ovb, 0o644)
		cmd := exec.Command("go", "test", "-vet=off", "-count=1", "-timeout", "10m", "-overlay", ovFile, "-run", "^TestVerifReplay$", "./"+rel)
		cmd.Dir = repoDir
		cmd.Env = append(os.Environ(), "GOFLAGS=-mod=mod", "GOPROXY=off")
		outb, err := cmd.CombinedOutput()
		if err != nil && firstErr == nil {
			// a crash of the test binary (fatal error) still may have produced partial results
			firstErr = fmt.Errorf("go test %s: %v\n%s", rel, err, tail(string(outb), 2000))
		}
		f, err2 := os.Open(resFile)
		if err2 != nil {
			if firstErr == nil {
				firstErr = err2
			}
			continue
		}
		sc := bufio.NewScanner(f)
		sc.Buffer(make([]byte, 1<<20), 1<<24)
		for sc.Scan() {
			var r replayResult
			if json.Unmarshal(sc.Bytes(), &r) == nil {
				out[r.File] = r
			}
		}
		f.Close()
	}
	if len(out) == len(items) {
		firstErr = nil
	}
	return out, firstErr
}

func tail(s string, n int) string {
	if len(s) > n {
		return s[len(s)-n:]
	}
	return s
}

// replayOnly re-runs one recorded counterexample natively (manifest replay_cmd_template).
func replayOnly(file string) int {
	b, err := os.ReadFile(file)
	if err != nil {
		fmt.Fprintln(os.Stderr, err)
		return 2
	}
	var f Failure
	if err := json.Unmarshal(b, &f); err != nil {
		fmt.Fprintln(os.Stderr, err)
		return 2
	}
	pkg, _ := splitEntry(f.Harness)
	pats, gens := []string{vsPkg, pkg}, []string(nil)
	if s := suiteOfHarness(f.Harness); s != nil && len(s.Generate) > 0 { // generated sources are needed to compile the harness (gen.go)
		pats, gens = append([]string{vsPkg}, s.Packages...), s.Generate
	}
	eng, err := loadWithGenerators(pats, gens, false)
	if err != nil {
		fmt.Fprintln(os.Stderr, err)
		return 2
	}
	res, err := nativeRun(eng, []replayItem{{File: file, Entry: f.Harness}})
	if err != nil {
		fmt.Fprintln(os.Stderr, err)
		return 2
	}
	r := res[file]
	fmt.Printf("replay %s: %s (reproduced=%v)\n", file, r.Outcome, r.Reproduced)
	if r.Reproduced {
		return 1
	}
	return 0
}

// sampleValidation turns the completed path into a concrete vector using a
// model of its path condition.
func (p *Path) sampleValidation() *Failure {
	if p.sol.Check() != Sat {
		return nil
	}
	var ts []*Term
	for _, in := range p.inputs {
		ts = append(ts, in.T)
	}
	nIn := len(ts)
	for _, o := range p.obs {
		ts = append(ts, o.terms...)
	}
	vals, err := p.sol.GetValues(ts)
	if err != nil {
		return nil
	}
	f := &Failure{Harness: p.hr.h.Entry, Kind: "validate", Inputs: map[string]string{}}
	for i, in := range p.inputs {
		v := vals[i]
		if in.T.S.K == SBV {
			v = normBV(v, in.T.S.W)
		}
		f.Inputs[in.Name] = v.String()
		f.Order = append(f.Order, in.Name)
	}
	for i, n := range p.choiceNames {
		f.Inputs[n] = fmt.Sprint(p.choices[i])
	}
	k := nIn
	for _, o := range p.obs {
		vs := vals[k : k+len(o.terms)]
		k += len(o.terms)
		f.Observed = append(f.Observed, o.label+"="+o.render(vs))
	}
	return f
}

type obsRec struct {
	label  string
	terms  []*Term
	render func(vals []*big.Int) string
}
