package main

// Concrete float helpers met on the transaction pool's paths (reorg depth:
// math.Abs(float64(old) - float64(new))).  Floats are concrete only; anything
// else refuses.

import (
	"math"

	"golang.org/x/tools/go/ssa"
)

func init() {
	f1 := func(name string, f func(float64) float64) {
		intrinsics[name] = func(p *Path, fn *ssa.Function, a []Value) Value {
			x, ok := a[0].(FloatV)
			if !ok {
				panic(p.abort(name + " of a non-concrete float: " + describe(a[0])))
			}
			return FloatV(f(float64(x)))
		}
	}
	if _, ok := intrinsics["math.Abs"]; !ok {
		f1("math.Abs", math.Abs)
	}
}
