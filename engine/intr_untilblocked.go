package main

// vs.UntilBlocked(f func()) bool — "another goroutine runs f now, until it blocks".
//
// f is executed in place.  If it reaches a channel send / receive / blocking
// select that cannot proceed in the sequential channel model, f is abandoned at
// that point: everything it did so far persists (heap, channel buffers, lock and
// Once state), its frames are dropped WITHOUT running deferred calls (a blocked
// goroutine is parked, not unwound), and the result is true.  If f runs to
// completion the result is false.  Go panics and every other abort propagate
// unchanged.  A mutex f still holds when it is abandoned stays held, so a later
// Lock by the harness goroutine is refused as self-deadlock (which is what the
// real program would do).
//
// The three blocking points (exec.go chanSend, ops.go receive, selectStmt) raise
// an abUnsupported abort whose text contains "would block"; that text is the
// recognition criterion.  Should it be reworded, UntilBlocked propagates the
// abort (machinery fault), it never turns into a silent pass.

import (
	"strings"

	"golang.org/x/tools/go/ssa"
)

func isBlockedAbort(r interface{}) bool {
	pa, ok := r.(pathAbort)
	return ok && pa.kind == abUnsupported && strings.Contains(pa.msg, "would block")
}

func init() {
	intrinsics[vsPkg+".UntilBlocked"] = func(p *Path, fn *ssa.Function, a []Value) Value {
		cl, ok := a[0].(*Closure)
		if !ok || cl == nil {
			panic(p.abort("UntilBlocked: expected a function value"))
		}
		blocked := false
		nfr, depth := len(p.frames), p.depth
		func() {
			defer func() {
				if r := recover(); r != nil {
					if isBlockedAbort(r) {
						blocked = true
						p.frames = p.frames[:nfr]
						p.depth = depth
						return
					}
					panic(r)
				}
			}()
			var cur *frame
			if nfr > 0 {
				cur = p.frames[nfr-1]
			}
			p.callValue(cur, cl, nil, nil)
		}()
		return BoolT(blocked)
	}
}
