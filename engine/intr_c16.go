package main

import (
	"go/types"

	"golang.org/x/tools/go/ssa"
)

func init() {
	// internal/bytealg.MakeNoZero(n) []byte: a fresh slice of length n whose
	// contents are unspecified; its callers in the standard library
	// (bytes.Repeat, strings.Builder.Grow, ...) overwrite every byte they expose.
	// Modelled as a zeroed allocation of exactly n bytes.
	intrinsics["internal/bytealg.MakeNoZero"] = func(p *Path, fn *ssa.Function, a []Value) Value {
		n := int(p.concretize(a[0].(*Term), "MakeNoZero length").Int64())
		if n < 0 || int64(n) > p.hr.h.allocLimit() {
			panic(p.abort("MakeNoZero: length outside the harness allocation limit"))
		}
		return p.bytesToSlice(make([]byte, n), types.Typ[types.Uint8])
	}
}
