package main

// Sign and magnitude facts for wide bit-vector terms (big.Int in BV mode),
// decided syntactically so that trivial range obligations ("x & mask < 2^256",
// "x & mask >= 0") never drag 520-bit multipliers or shifters into a query.

import "math/big"

// wideUpper returns an upper bound on the unsigned value of t, or nil.
func (tt *TermTable) wideUpper(t *Term, depth int) *big.Int {
	if t.S.K != SBV || depth == 0 {
		return nil
	}
	switch t.Op {
	case OpConst:
		return t.Val
	case OpBVAnd:
		var best *big.Int
		for _, a := range t.Args {
			if u := tt.wideUpper(a, depth-1); u != nil && (best == nil || u.Cmp(best) < 0) {
				best = u
			}
		}
		return best
	case OpZExt:
		if u := tt.wideUpper(t.Args[0], depth-1); u != nil {
			return u
		}
		return mask(t.Args[0].S.W)
	case OpIte:
		a, b := tt.wideUpper(t.Args[1], depth-1), tt.wideUpper(t.Args[2], depth-1)
		if a == nil || b == nil {
			return nil
		}
		if a.Cmp(b) > 0 {
			return a
		}
		return b
	case OpBVLShr:
		return tt.wideUpper(t.Args[0], depth-1)
	case OpBVURem:
		if u := tt.wideUpper(t.Args[1], depth-1); u != nil && u.Sign() > 0 {
			// x urem y <= max(y)-1 when y != 0; when y == 0 result is x: fall back to x's bound
			if ux := tt.wideUpper(t.Args[0], depth-1); ux != nil {
				if ux.Cmp(u) > 0 {
					return ux
				}
				return u
			}
		}
	case OpBVUDiv:
		// x udiv y <= x for y != 0; for y == 0 the result is all ones: no bound
		return nil
	}
	return nil
}

// cmpWide decides comparisons of a wide term against a constant using wideUpper.
func (tt *TermTable) cmpWide(op Op, a, b *Term) *Term {
	if a.S.W <= 64 {
		return nil
	}
	top := func(v *big.Int) bool { return v.Bit(a.S.W-1) == 1 } // sign bit set
	if b.IsConst() {
		ua := tt.wideUpper(a, 6)
		if ua == nil || top(ua) {
			return nil
		}
		// a is non-negative and <= ua
		switch op {
		case OpBVULt:
			if ua.Cmp(b.Val) < 0 {
				return TrueT
			}
		case OpBVULe:
			if ua.Cmp(b.Val) <= 0 {
				return TrueT
			}
		case OpBVSLt:
			if top(b.Val) || b.Val.Sign() == 0 { // b <= 0, a non-negative
				return FalseT
			}
			if ua.Cmp(b.Val) < 0 {
				return TrueT
			}
		case OpBVSLe:
			if top(b.Val) {
				return FalseT
			}
			if ua.Cmp(b.Val) <= 0 {
				return TrueT
			}
		}
		return nil
	}
	if a.IsConst() {
		ub := tt.wideUpper(b, 6)
		if ub == nil || top(ub) {
			return nil
		}
		switch op {
		case OpBVSLt, OpBVSLe:
			if top(a.Val) { // a negative < non-negative b
				return TrueT
			}
			if op == OpBVSLe && a.Val.Sign() == 0 {
				return TrueT
			}
		case OpBVULe:
			if a.Val.Sign() == 0 {
				return TrueT
			}
		}
	}
	return nil
}
