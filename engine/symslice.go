package main

// Slices whose window start inside a fixed backing array is symbolic.
//
// The idiom  copy(dst[N-len(b):], b)  with  b = x.Bytes()  (Bloom.SetBytes,
// common.Hash.SetBytes, LeftPadBytes, ...) otherwise forks once per feasible
// byte length of x (up to 256 re-executions for a 2048-bit bloom).  A
// SymSliceV is the exact value of such a slice: the elements live at fixed
// positions of a backing array, only the window [Start, Start+Len) is a term.
//
// SymSliceV is a distinct Value type on purpose: every consumer that does not
// know about it fails its type switch/assertion and ends the path as
// "unsupported" (a machinery fault) - never a silent mis-computation.  It is
// produced only when the harness sets "sym_slices": true in the suite, by
//   - (*big.Int).Bytes() in BV mode for a symbolic value (big.go), and
//   - a slice expression with a symbolic low bound (ops.go sliceOp).
// Supported consumers: len, cap, copy (either side), re-slicing, indexing.

import (
	"go/types"
	"math/big"
)

type SymSliceV struct {
	Arr   Ptr   // backing *ArrayV of scalars
	Start *Term // BV64 absolute index of element 0 in the backing array
	Len   *Term // BV64
	Cap   *Term // BV64
	// ZeroBefore: every backing element at a position < Start is zero (holds for
	// Bytes(): the positions above the most significant byte).
	ZeroBefore bool
}

func (p *Path) symSlicesOn() bool { return p.hr != nil && p.hr.h.SymSlices }

// --- tiny linear arithmetic over BV64 terms: c + k*atom (wrap-around, like the terms)

type linT struct {
	c    int64
	k    int64
	atom *Term
	ok   bool
}

func linOf(t *Term) linT {
	if t.S.K != SBV || t.S.W != 64 {
		return linT{}
	}
	if t.IsConst() {
		return linT{c: int64(t.Val.Uint64()), ok: true}
	}
	switch t.Op {
	case OpBVAdd, OpBVSub:
		a, b := linOf(t.Args[0]), linOf(t.Args[1])
		if !a.ok || !b.ok {
			break
		}
		if t.Op == OpBVSub {
			b.c, b.k = -b.c, -b.k
		}
		if a.atom != nil && b.atom != nil && a.atom != b.atom {
			break
		}
		r := linT{c: a.c + b.c, k: a.k + b.k, atom: a.atom, ok: true}
		if r.atom == nil {
			r.atom = b.atom
		}
		if r.k == 0 {
			r.atom = nil
		}
		return r
	}
	return linT{k: 1, atom: t, ok: true}
}

// linConstDiff returns a-b when it is a constant syntactically.
func linConstDiff(a, b *Term) (int64, bool) {
	la, lb := linOf(a), linOf(b)
	if !la.ok || !lb.ok {
		return 0, false
	}
	if la.k != lb.k || (la.k != 0 && la.atom != lb.atom) {
		return 0, false
	}
	return la.c - lb.c, true
}

// linConstSum returns a+b when it is a constant syntactically.
func linConstSum(a, b *Term) (int64, bool) {
	la, lb := linOf(a), linOf(b)
	if !la.ok || !lb.ok {
		return 0, false
	}
	if la.k+lb.k != 0 || (la.k != 0 && la.atom != lb.atom) {
		return 0, false
	}
	return la.c + lb.c, true
}

// --- construction

// bigBytesSym is (*big.Int).Bytes() for a symbolic non-negative BV value a:
// big-endian bytes at fixed positions of a maxN-byte array, window = the last
// n bytes, n = byte length of a.
func (p *Path) bigBytesSym(a *Term) (Value, bool) {
	if !p.symSlicesOn() || !p.bvMode() || a.IsConst() {
		return nil, false
	}
	tt := p.tt
	bits := min(p.bound(a), p.bigW()-1)
	maxN := (bits + 7) / 8
	if maxN == 0 || maxN > p.hr.h.maxSymIndex()*8 {
		return nil, false
	}
	arr := &ArrayV{E: make([]Value, maxN)}
	for j := 0; j < maxN; j++ {
		arr.E[j] = p.bigByte(a, maxN-1-j)
	}
	// n = number of k in [1,maxN] with a >= 2^(8(k-1)); a is non-negative and < 2^(W-1)
	// (n >= k iff a >= 2^(8(k-1)): a balanced decision tree, not a linear ite chain)
	var tree func(lo, hi int) *Term
	tree = func(lo, hi int) *Term {
		if lo == hi {
			return BVConstU(uint64(lo), 64)
		}
		mid := (lo + hi + 1) / 2
		ge := tt.ULe(BVConst(pow2(8*(mid-1)), a.S.W), a)
		return tt.Ite(ge, tree(mid, hi), tree(lo, mid-1))
	}
	n := tree(0, maxN)
	o := p.newObject(arr, types.NewArray(types.Typ[types.Uint8], int64(maxN)))
	return SymSliceV{Arr: Ptr{Obj: o}, Start: tt.BVSub(BVConstU(uint64(maxN), 64), n), Len: n, Cap: n, ZeroBefore: true}, true
}

// symSliceOfArray is  base[lo:hi:max]  for a symbolic lo; bounds were checked by the caller.
func (p *Path) symSliceOf(arr Ptr, off int, lo, hi, mx *Term, elem types.Type) (Value, bool) {
	if !p.symSlicesOn() || lo.IsConst() || !isScalarType(elem) || isBigIntUnder(elem) {
		return nil, false
	}
	tt := p.tt
	return SymSliceV{Arr: arr, Start: tt.BVAdd(BVConstU(uint64(off), 64), lo), Len: tt.BVSub(hi, lo), Cap: tt.BVSub(mx, lo)}, true
}

// symReslice is s[lo:hi:max] on a SymSliceV.
func (p *Path) symReslice(s SymSliceV, lo, hi, mx *Term) Value {
	tt := p.tt
	if hi == nil {
		hi = s.Len
	}
	if mx == nil {
		mx = s.Cap
	}
	p.check(tt.And(tt.And(tt.ULe(lo, hi), tt.ULe(hi, mx)), tt.ULe(mx, s.Cap)), "slice bounds out of range")
	zb := s.ZeroBefore && lo.IsConst() && lo.Val.Sign() == 0
	return SymSliceV{Arr: s.Arr, Start: tt.BVAdd(s.Start, lo), Len: tt.BVSub(hi, lo), Cap: tt.BVSub(mx, lo), ZeroBefore: zb}
}

// symIndexAddr is &s[idx].
func (p *Path) symIndexAddr(s SymSliceV, idx *Term) Value {
	tt := p.tt
	p.check(tt.ULt(idx, s.Len), "index out of range")
	n := p.arrayLen(s.Arr)
	if n > p.hr.h.maxSymIndex() {
		panic(p.abort("index into symbolic-window slice over a large array"))
	}
	pos := tt.BVAdd(s.Start, idx)
	if pos.IsConst() {
		return s.Arr.child(int(pos.Int64()))
	}
	r := s.Arr.child(0)
	r.Sym, r.N = pos, n
	return r
}

// --- copy

type copyView struct {
	arr   Ptr
	start *Term
	ln    *Term
	zb    bool
}

func (p *Path) copyViewOf(v Value) (copyView, bool) {
	switch x := v.(type) {
	case SliceV:
		return copyView{arr: x.Arr, start: BVConstU(uint64(x.Off), 64), ln: x.Len}, true
	case SymSliceV:
		return copyView{arr: x.Arr, start: x.Start, ln: x.Len, zb: x.ZeroBefore}, true
	}
	return copyView{}, false
}

// symCopy implements copy(dst, src) when at least one side is a SymSliceV.
func (p *Path) symCopy(dst, src Value) (Value, bool) {
	_, ds := dst.(SymSliceV)
	_, ss := src.(SymSliceV)
	if !ds && !ss {
		return nil, false
	}
	d, ok1 := p.copyViewOf(dst)
	s, ok2 := p.copyViewOf(src)
	if !ok1 || !ok2 {
		panic(p.abort("copy between symbolic-window slice and " + describe(src)))
	}
	tt := p.tt
	// n = min(len(dst), len(src))
	var n *Term
	if df, ok := linConstDiff(d.ln, s.ln); ok {
		if df < 0 {
			n = d.ln
		} else {
			n = s.ln
		}
	} else {
		n = tt.Ite(tt.ULt(s.ln, d.ln), s.ln, d.ln)
	}
	if n.IsConst() && n.Val.Sign() == 0 {
		return n, true
	}
	if d.arr.Obj == nil || s.arr.Obj == nil {
		panic(p.abort("copy through a nil symbolic-window slice of non-constant length"))
	}
	// delta = src.start - dst.start must be one concrete number per path
	var delta int64
	if df, ok := linConstDiff(s.start, d.start); ok {
		delta = df
	} else {
		// 64-bit two's complement value of the difference (forks if it is not unique)
		delta = int64(p.concretize(tt.BVSub(s.start, d.start), "copy window offset").Uint64())
	}
	A := (*p.slot(s.arr)).(*ArrayV)
	B := (*p.slot(d.arr)).(*ArrayV)
	snap := A.E
	if A == B {
		snap = append([]Value(nil), A.E...) // memmove semantics for overlapping windows
	}
	// both windows suffixes of their arrays?  (then j >= dst.start <=> j+delta >= src.start)
	suffix := false
	if s.zb {
		se, ok1 := linConstSum(s.start, n)
		de, ok2 := linConstSum(d.start, n)
		suffix = ok1 && ok2 && se == int64(len(A.E)) && de == int64(len(B.E))
	}
	for j := range B.E {
		k := int64(j) + delta
		if k < 0 || k >= int64(len(snap)) {
			continue // outside the source array: cannot be inside the copied window (slice invariant start+len <= array length)
		}
		sv, ok := snap[k].(*Term)
		old, ok2 := B.E[j].(*Term)
		if !ok || !ok2 {
			panic(p.abort("copy through symbolic-window slice of non-scalar elements"))
		}
		if suffix && old.IsConst() && old.Val.Sign() == 0 {
			// outside the window the source element is zero (ZeroBefore) and so is the old value
			B.E[j] = sv
			continue
		}
		jc := BVConstU(uint64(j), 64)
		in := tt.And(tt.ULe(d.start, jc), tt.ULt(jc, tt.BVAdd(d.start, n)))
		B.E[j] = tt.Ite(in, sv, old)
	}
	return n, true
}

var _ = big.NewInt

// symToSlice is the generic fallback: fix the window start (forking over its
// feasible values) and continue with an ordinary slice.
func (p *Path) symToSlice(s SymSliceV) SliceV {
	st := int(p.concretize(s.Start, "symbolic slice window start").Int64())
	return SliceV{Arr: s.Arr, Off: st, Len: s.Len, Cap: s.Cap}
}

// symBytesTerms returns the byte terms of a byte slice argument; for a
// zero-padded suffix window (the result of Bytes()) the whole backing array has
// the same big-endian value, so no fork is needed.
func (p *Path) bigEndianBytes(v Value) []*Term {
	ss, ok := v.(SymSliceV)
	if !ok {
		return p.sliceBytes(v.(SliceV))
	}
	if ss.ZeroBefore {
		n := p.arrayLen(ss.Arr)
		if e, ok := linConstSum(ss.Start, ss.Len); ok && e == int64(n) {
			arr := (*p.slot(ss.Arr)).(*ArrayV)
			out := make([]*Term, n)
			for i := range out {
				out[i] = arr.E[i].(*Term)
			}
			return out
		}
	}
	return p.sliceBytes(p.symToSlice(ss))
}
