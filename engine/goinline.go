package main

// goInline is the marker returned by a "go:<callee>": "inline" override (exec.go goStmt).
type goInline struct{}
