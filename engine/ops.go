package main

import (
	"fmt"
	"go/constant"
	"go/token"
	"go/types"
	"math"
	"math/big"
	"strings"
	"unicode/utf8"

	"golang.org/x/tools/go/ssa"
)

func bigOf(c constant.Value) *big.Int {
	c = constant.ToInt(c)
	if v, ok := constant.Int64Val(c); ok {
		return big.NewInt(v)
	}
	b, _ := new(big.Int).SetString(c.ExactString(), 10)
	return b
}

func intInfo(t types.Type) (w int, signed bool, ok bool) {
	b, isB := t.Underlying().(*types.Basic)
	if !isB || b.Info()&types.IsInteger == 0 {
		return 0, false, false
	}
	w, signed = intWidth(b)
	return w, signed, true
}

func (p *Path) term(v Value, what string) *Term {
	t, ok := v.(*Term)
	if !ok {
		panic(p.abort("expected scalar for " + what + ", have " + describe(v)))
	}
	return t
}

// to64 widens an integer term to 64 bits according to the signedness of its type.
func (p *Path) to64(t *Term, typ types.Type) *Term {
	if t.S.W == 64 {
		return t
	}
	_, signed, _ := intInfo(typ)
	return p.tt.Resize(t, 64, signed)
}

func (p *Path) unop(fr *frame, in *ssa.UnOp) Value {
	x := p.get(fr, in.X)
	if _, ok := x.(Opaque); ok {
		if in.Op == token.MUL {
			panic(p.abort("load through opaque pointer: " + x.(Opaque).Why))
		}
		return x
	}
	switch in.Op {
	case token.MUL:
		ptr := p.ptrOf(x)
		if ptr.Obj == nil {
			p.goPanicRuntime("invalid memory address or nil pointer dereference")
		}
		return p.load(ptr)
	case token.NOT:
		return p.tt.Not(p.term(x, "!"))
	case token.SUB:
		if f, ok := x.(FloatV); ok {
			return -f
		}
		return p.tt.BVNeg(p.term(x, "neg"))
	case token.XOR:
		return p.tt.BVNot(p.term(x, "^"))
	case token.ARROW:
		ch, ok := x.(*ChanObj)
		if !ok || ch == nil {
			panic(p.abort("receive on nil/unknown channel"))
		}
		if len(ch.Buf) == 0 && ch.Closed {
			z := p.zero(in.X.Type().Underlying().(*types.Chan).Elem())
			if in.CommaOk {
				return TupleV{z, FalseT}
			}
			return z
		}
		if len(ch.Buf) == 0 {
			panic(p.abort("receive would block (sequential channel model)"))
		}
		v := ch.Buf[0]
		ch.Buf = ch.Buf[1:]
		if in.CommaOk {
			return TupleV{v, TrueT}
		}
		return v
	}
	panic(p.abort("unop " + in.Op.String()))
}

func (p *Path) binop(op token.Token, xt types.Type, x, y Value, yt types.Type) Value {
	if _, ok := x.(Opaque); ok {
		return x
	}
	if _, ok := y.(Opaque); ok {
		return y
	}
	switch op {
	case token.EQL:
		return p.eqValue(x, y)
	case token.NEQ:
		return p.tt.Not(p.eqValue(x, y))
	}
	switch a := x.(type) {
	case StrV:
		b := y.(StrV)
		switch op {
		case token.ADD:
			return a + b
		case token.LSS:
			return BoolT(a < b)
		case token.LEQ:
			return BoolT(a <= b)
		case token.GTR:
			return BoolT(a > b)
		case token.GEQ:
			return BoolT(a >= b)
		}
	case FloatV:
		b := y.(FloatV)
		switch op {
		case token.ADD:
			return a + b
		case token.SUB:
			return a - b
		case token.MUL:
			return a * b
		case token.QUO:
			return a / b
		case token.LSS:
			return BoolT(a < b)
		case token.LEQ:
			return BoolT(a <= b)
		case token.GTR:
			return BoolT(a > b)
		case token.GEQ:
			return BoolT(a >= b)
		}
	case *Term:
		b, ok := y.(*Term)
		if !ok {
			panic(p.abort("binop operand mismatch"))
		}
		tt := p.tt
		if a.S.K == SBool {
			switch op {
			case token.AND, token.LAND:
				return tt.And(a, b)
			case token.OR, token.LOR:
				return tt.Or(a, b)
			}
		}
		w, signed, isInt := intInfo(xt)
		if !isInt {
			panic(p.abort("binop " + op.String() + " on " + xt.String()))
		}
		_ = w
		switch op {
		case token.ADD:
			return tt.BVAdd(a, b)
		case token.SUB:
			return tt.BVSub(a, b)
		case token.MUL:
			return tt.BVMul(a, b)
		case token.QUO:
			p.check(tt.Not(tt.Eq(b, BVConstU(0, b.S.W))), "integer divide by zero")
			if signed {
				return tt.BVSDiv(a, b)
			}
			return tt.BVUDiv(a, b)
		case token.REM:
			p.check(tt.Not(tt.Eq(b, BVConstU(0, b.S.W))), "integer divide by zero")
			if signed {
				return tt.BVSRem(a, b)
			}
			return tt.BVURem(a, b)
		case token.AND:
			return tt.BVAnd(a, b)
		case token.OR:
			return tt.BVOr(a, b)
		case token.XOR:
			return tt.BVXor(a, b)
		case token.AND_NOT:
			return tt.BVAnd(a, tt.BVNot(b))
		case token.SHL, token.SHR:
			return p.shift(op, a, signed, b, yt)
		case token.LSS:
			if signed {
				return tt.SLt(a, b)
			}
			return tt.ULt(a, b)
		case token.LEQ:
			if signed {
				return tt.SLe(a, b)
			}
			return tt.ULe(a, b)
		case token.GTR:
			if signed {
				return tt.SLt(b, a)
			}
			return tt.ULt(b, a)
		case token.GEQ:
			if signed {
				return tt.SLe(b, a)
			}
			return tt.ULe(b, a)
		}
	}
	panic(p.abort(fmt.Sprintf("binop %s on %s", op, describe(x))))
}

func (p *Path) shift(op token.Token, a *Term, signed bool, b *Term, yt types.Type) Value {
	tt := p.tt
	w := a.S.W
	_, ysigned, _ := intInfo(yt)
	if ysigned {
		p.check(tt.SLe(BVConstU(0, b.S.W), b), "negative shift amount")
	}
	// bring shift count to width w, saturating
	var cnt *Term
	var big_ *Term // condition: count >= w
	if b.S.W > w {
		big_ = tt.ULe(BVConstU(uint64(w), b.S.W), b)
		cnt = tt.Extract(b, w-1, 0)
	} else {
		cnt = tt.ZExt(b, w)
		if w < 256 && (b.S.W >= 8 || (1<<uint(b.S.W)) > w) {
			big_ = tt.ULe(BVConstU(uint64(w), w), cnt)
		} else {
			big_ = FalseT
		}
	}
	var r, over *Term
	switch {
	case op == token.SHL:
		r, over = tt.BVShl(a, cnt), BVConstU(0, w)
	case signed:
		r = tt.BVAShr(a, cnt)
		over = tt.BVAShr(a, BVConstU(uint64(w-1), w))
	default:
		r, over = tt.BVLShr(a, cnt), BVConstU(0, w)
	}
	return tt.Ite(big_, over, r)
}

func (p *Path) eqValue(x, y Value) *Term {
	if r, ok := p.symStrEq(x, y); ok { // symstr.go
		return r
	}
	switch a := x.(type) {
	case *Term:
		b, ok := y.(*Term)
		if !ok {
			break
		}
		return p.tt.Eq(a, b)
	case StrV:
		if b, ok := y.(StrV); ok {
			return BoolT(a == b)
		}
	case FloatV:
		if b, ok := y.(FloatV); ok {
			return BoolT(a == b)
		}
	case Ptr:
		b, ok := y.(Ptr)
		if !ok {
			break
		}
		if a.Sym != nil || b.Sym != nil {
			panic(p.abort("comparison of symbolic-index pointers"))
		}
		return BoolT(a.Obj == b.Obj && pathEq(a.Path, b.Path))
	case IfaceV:
		b, ok := y.(IfaceV)
		if !ok {
			break
		}
		if a.T == nil || b.T == nil {
			return BoolT(a.T == nil && b.T == nil)
		}
		if !types.Identical(a.T, b.T) {
			return FalseT
		}
		return p.eqValue(a.V, b.V)
	case *StructV:
		b := y.(*StructV)
		r := TrueT
		for i := range a.F {
			r = p.tt.And(r, p.eqValue(a.F[i], b.F[i]))
		}
		return r
	case *ArrayV:
		b := y.(*ArrayV)
		r := TrueT
		for i := range a.E {
			r = p.tt.And(r, p.eqValue(a.E[i], b.E[i]))
		}
		return r
	case *Closure:
		b, ok := y.(*Closure)
		if ok && (a == nil || b == nil) {
			return BoolT(a == nil && b == nil)
		}
	case *MapObj:
		if b, ok := y.(*MapObj); ok {
			return BoolT(a == b)
		}
	case *ChanObj:
		if b, ok := y.(*ChanObj); ok {
			return BoolT(a == b)
		}
	case SliceV:
		if b, ok := y.(SliceV); ok && (a.Arr.Obj == nil || b.Arr.Obj == nil) {
			return BoolT(a.Arr.Obj == nil && b.Arr.Obj == nil)
		}
	}
	panic(p.abort(fmt.Sprintf("comparison of %s and %s", describe(x), describe(y))))
}

// ---------------------------------------------------------------------------

func (p *Path) convert(from, to types.Type, v Value) Value {
	if _, ok := v.(Opaque); ok {
		return v
	}
	fu, tu := from.Underlying(), to.Underlying()
	// pointer/unsafe conversions.  unsafe.Pointer round trips are tracked: converting
	// back is allowed only to the very pointer type the value came from (the
	// noescape idiom); type punning through unsafe.Pointer is refused, never guessed.
	if fb, ok := fu.(*types.Basic); ok && fb.Kind() == types.UnsafePointer {
		if uv, isU := v.(UnsafeV); isU {
			if types.Identical(uv.T, to) {
				return uv.V
			}
			if tb, ok := tu.(*types.Basic); ok && tb.Kind() == types.UnsafePointer {
				return v
			}
			panic(p.abort(fmt.Sprintf("unsafe.Pointer reinterpretation %s -> %s", uv.T, to)))
		}
		if ptr, isP := v.(Ptr); isP && ptr.Obj == nil {
			if _, toPtr := tu.(*types.Pointer); toPtr {
				return Ptr{}
			}
			return v
		}
		panic(p.abort("conversion from unsafe.Pointer of unknown origin to " + to.String()))
	}
	switch tu.(type) {
	case *types.Pointer:
		return v
	}
	if tb, ok := tu.(*types.Basic); ok {
		switch {
		case tb.Kind() == types.UnsafePointer:
			if ptr, isP := v.(Ptr); isP && ptr.Obj == nil {
				return v
			}
			return UnsafeV{V: v, T: from}
		case tb.Info()&types.IsInteger != 0:
			w, _ := intWidth(tb)
			switch x := v.(type) {
			case *Term:
				_, fsigned, _ := intInfo(from)
				return p.tt.Resize(x, w, fsigned)
			case FloatV:
				f := float64(x)
				_, signed := intWidth(tb)
				if signed {
					return BVConstI(int64(f), w)
				}
				return BVConstU(uint64(f), w)
			case Ptr:
				return v // uintptr(unsafe.Pointer)
			}
		case tb.Info()&types.IsFloat != 0:
			switch x := v.(type) {
			case FloatV:
				if tb.Kind() == types.Float32 {
					return FloatV(float32(x))
				}
				return x
			case *Term:
				if !x.IsConst() {
					panic(p.abort("symbolic integer to float conversion"))
				}
				_, fsigned, _ := intInfo(from)
				if fsigned {
					return FloatV(float64(x.Int64()))
				}
				f, _ := new(big.Float).SetInt(x.Val).Float64()
				return FloatV(f)
			}
		case tb.Info()&types.IsString != 0:
			switch x := v.(type) {
			case StrV:
				return x
			case SymStrV: // symstr.go
				return x
			case *Term: // integer -> string
				if !x.IsConst() {
					panic(p.abort("symbolic rune to string"))
				}
				return StrV(string(rune(x.Int64())))
			case SliceV:
				// []byte or []rune -> string
				n := p.concretize(x.Len, "len in string conversion").Int64()
				el := fu.(*types.Slice).Elem().Underlying().(*types.Basic)
				if el.Kind() == types.Uint8 {
					buf := make([]byte, n)
					for i := range buf {
						e := p.load(x.Arr.child(x.Off + i)).(*Term)
						if !e.IsConst() {
							return symStrFromBytes(p.sliceBytes(x)) // symstr.go: string with symbolic bytes
						}
						buf[i] = byte(e.Uint64())
					}
					return StrV(buf)
				}
				rs := make([]rune, n)
				for i := range rs {
					e := p.load(x.Arr.child(x.Off + i)).(*Term)
					if !e.IsConst() {
						panic(p.abort("string conversion of symbolic runes"))
					}
					rs[i] = rune(e.Int64())
				}
				return StrV(string(rs))
			}
		}
	}
	if ts, ok := tu.(*types.Slice); ok {
		if s, isSym := v.(SymStrV); isSym { // symstr.go
			if el, isB := ts.Elem().Underlying().(*types.Basic); isB && el.Kind() == types.Uint8 {
				return p.termsToSlice(append([]*Term(nil), s.B...))
			}
			panic(p.abort("conversion of a symbolic string to a non-byte slice"))
		}
		if s, isStr := v.(StrV); isStr {
			el := ts.Elem().Underlying().(*types.Basic)
			if el.Kind() == types.Uint8 {
				return p.bytesToSlice([]byte(s), ts.Elem())
			}
			rs := []rune(string(s))
			arr := &ArrayV{E: make([]Value, len(rs))}
			for i, r := range rs {
				arr.E[i] = BVConstI(int64(r), 32)
			}
			o := p.newObject(arr, types.NewArray(ts.Elem(), int64(len(rs))))
			n := BVConstU(uint64(len(rs)), 64)
			return SliceV{Arr: Ptr{Obj: o}, Len: n, Cap: n}
		}
		return v
	}
	switch tu.(type) {
	case *types.Struct, *types.Array, *types.Map, *types.Chan, *types.Signature, *types.Interface:
		return v
	}
	panic(p.abort(fmt.Sprintf("convert %s -> %s (%s)", from, to, describe(v))))
}

func (p *Path) bytesToSlice(b []byte, elem types.Type) SliceV {
	arr := &ArrayV{E: make([]Value, len(b))}
	for i, c := range b {
		arr.E[i] = BVConstU(uint64(c), 8)
	}
	o := p.newObject(arr, types.NewArray(elem, int64(len(b))))
	n := BVConstU(uint64(len(b)), 64)
	return SliceV{Arr: Ptr{Obj: o}, Len: n, Cap: n}
}

func (p *Path) termsToSlice(ts []*Term) SliceV {
	arr := &ArrayV{E: make([]Value, len(ts))}
	for i, c := range ts {
		arr.E[i] = c
	}
	o := p.newObject(arr, types.NewArray(types.Typ[types.Uint8], int64(len(ts))))
	n := BVConstU(uint64(len(ts)), 64)
	return SliceV{Arr: Ptr{Obj: o}, Len: n, Cap: n}
}

// sliceBytes returns the element terms of a byte slice (length concretized).
func (p *Path) sliceBytes(s SliceV) []*Term {
	n := int(p.concretize(s.Len, "byte slice length").Int64())
	out := make([]*Term, n)
	if n == 0 {
		return out
	}
	arr := (*p.slot(s.Arr)).(*ArrayV)
	for i := 0; i < n; i++ {
		out[i] = arr.E[s.Off+i].(*Term)
	}
	return out
}

func (p *Path) sliceElems(s SliceV) []Value {
	n := int(p.concretize(s.Len, "slice length").Int64())
	out := make([]Value, n)
	if n == 0 {
		return out
	}
	arr := (*p.slot(s.Arr)).(*ArrayV)
	for i := 0; i < n; i++ {
		out[i] = arr.E[s.Off+i]
	}
	return out
}

// ---------------------------------------------------------------------------

func (p *Path) makeSlice(fr *frame, in *ssa.MakeSlice) Value {
	ln := p.to64(p.term(p.get(fr, in.Len), "make len"), in.Len.Type())
	cp := p.to64(p.term(p.get(fr, in.Cap), "make cap"), in.Cap.Type())
	tt := p.tt
	p.check(tt.And(tt.SLe(BVConstU(0, 64), ln), tt.SLe(ln, cp)), "makeslice: len out of range")
	limit := p.hr.h.allocLimit()
	if !cp.IsConst() || cp.Int64() > limit {
		// allocations beyond the harness limit are outside the bound (stated in the evidence), not a Go panic
		within := tt.SLe(cp, BVConstI(limit, 64))
		if !within.IsTrue() {
			p.hr.noteOutside(fmt.Sprintf("paths allocating more than %d elements in one make() are cut (outside the bound)", limit))
			p.assume(within)
		}
	}
	if p.hr.allocHook != nil {
		p.hr.allocHook(p, cp)
	}
	if lz := p.hr.h.LazyMake; lz > 0 && !cp.IsConst() { // intr_lazymake.go
		if v, ok := p.lazyMake(in, ln, cp, lz); ok {
			return v
		}
	}
	n := int(p.concretize(cp, "make cap").Int64())
	elem := in.Type().Underlying().(*types.Slice).Elem()
	at := types.NewArray(elem, int64(n))
	o := p.newObject(p.zero(at), at)
	if ln == cp { // make([]T, n): len and cap are the same term, now fixed to n by the path condition
		ln = BVConstU(uint64(n), 64)
	}
	return SliceV{Arr: Ptr{Obj: o}, Len: ln, Cap: BVConstU(uint64(n), 64)}
}

func (p *Path) arrayLen(ptr Ptr) int {
	a, ok := (*p.slot(ptr)).(*ArrayV)
	if !ok {
		panic(p.abort("internal: slice base is not an array"))
	}
	return len(a.E)
}

func (p *Path) sliceOp(fr *frame, in *ssa.Slice) Value {
	x := p.get(fr, in.X)
	tt := p.tt
	var lo, hi, mx *Term
	if in.Low != nil {
		lo = p.to64(p.term(p.get(fr, in.Low), "slice low"), in.Low.Type())
	} else {
		lo = BVConstU(0, 64)
	}
	if in.High != nil {
		hi = p.to64(p.term(p.get(fr, in.High), "slice high"), in.High.Type())
	}
	if in.Max != nil {
		mx = p.to64(p.term(p.get(fr, in.Max), "slice max"), in.Max.Type())
	}
	switch s := x.(type) {
	case StrV:
		n := BVConstU(uint64(len(s)), 64)
		if hi == nil {
			hi = n
		}
		p.check(tt.And(tt.ULe(lo, hi), tt.ULe(hi, n)), "slice bounds out of range")
		l := p.concretize(lo, "string slice low").Int64()
		h := p.concretize(hi, "string slice high").Int64()
		return s[l:h]
	case Ptr: // *array
		if s.Obj == nil {
			p.goPanicRuntime("invalid memory address or nil pointer dereference")
		}
		n := BVConstU(uint64(p.arrayLen(s)), 64)
		if hi == nil {
			hi = n
		}
		if mx == nil {
			mx = n
		}
		p.check(tt.And(tt.And(tt.ULe(lo, hi), tt.ULe(hi, mx)), tt.ULe(mx, n)), "slice bounds out of range")
		if !lo.IsConst() && p.symSlicesOn() { // symslice.go
			if v, ok := p.symSliceOf(s, 0, lo, hi, mx, in.X.Type().Underlying().(*types.Pointer).Elem().Underlying().(*types.Array).Elem()); ok {
				return v
			}
		}
		l := int(p.concretize(lo, "slice low").Int64())
		return SliceV{Arr: s, Off: l, Len: tt.BVSub(hi, lo), Cap: tt.BVSub(mx, BVConstU(uint64(l), 64))}
	case SliceV:
		if hi == nil {
			hi = s.Len
		}
		if mx == nil {
			mx = s.Cap
		}
		p.check(tt.And(tt.And(tt.ULe(lo, hi), tt.ULe(hi, mx)), tt.ULe(mx, s.Cap)), "slice bounds out of range")
		if !lo.IsConst() && p.symSlicesOn() && s.Arr.Obj != nil { // symslice.go
			if v, ok := p.symSliceOf(s.Arr, s.Off, lo, hi, mx, in.X.Type().Underlying().(*types.Slice).Elem()); ok {
				return v
			}
		}
		l := int(p.concretize(lo, "slice low").Int64())
		lc := BVConstU(uint64(l), 64)
		if s.Arr.Obj == nil {
			return s
		}
		return SliceV{Arr: s.Arr, Off: s.Off + l, Len: tt.BVSub(hi, lc), Cap: tt.BVSub(mx, lc)}
	}
	if s, ok := x.(SymSliceV); ok { // symslice.go
		return p.symReslice(s, lo, hi, mx)
	}
	panic(p.abort("slice of " + describe(x)))
}

func (p *Path) sliceToArrayPtr(fr *frame, in *ssa.SliceToArrayPointer) Value {
	s := p.get(fr, in.X).(SliceV)
	n := in.Type().Underlying().(*types.Pointer).Elem().Underlying().(*types.Array).Len()
	p.check(p.tt.ULe(BVConstU(uint64(n), 64), s.Len), "cannot convert slice to array pointer: length too short")
	if s.Arr.Obj == nil {
		return Ptr{}
	}
	if s.Off == 0 && p.arrayLen(s.Arr) == int(n) {
		return s.Arr
	}
	panic(p.abort("slice to array pointer at non-zero offset"))
}

func isScalarType(t types.Type) bool {
	if isBigIntUnder(t) {
		return true
	}
	b, ok := t.Underlying().(*types.Basic)
	return ok && (b.Info()&(types.IsInteger|types.IsBoolean) != 0)
}

func (p *Path) indexAddr(fr *frame, in *ssa.IndexAddr) Value {
	x := p.get(fr, in.X)
	idx := p.to64(p.term(p.get(fr, in.Index), "index"), in.Index.Type())
	tt := p.tt
	switch s := x.(type) {
	case Ptr: // *array
		if s.Obj == nil {
			p.goPanicRuntime("invalid memory address or nil pointer dereference")
		}
		if s.Sym != nil {
			s = p.concretizePtr(s)
		}
		n := p.arrayLen(s)
		p.check(tt.ULt(idx, BVConstU(uint64(n), 64)), "index out of range")
		if idx.IsConst() {
			return s.child(int(idx.Int64()))
		}
		et := in.X.Type().Underlying().(*types.Pointer).Elem().Underlying().(*types.Array).Elem()
		if isScalarType(et) && n <= p.hr.h.maxSymIndex() {
			r := s.child(0)
			r.Sym, r.N = idx, n
			return r
		}
		return s.child(int(p.concretize(idx, "array index").Int64()))
	case SliceV:
		p.check(tt.ULt(idx, s.Len), "index out of range")
		if idx.IsConst() {
			return s.Arr.child(s.Off + int(idx.Int64()))
		}
		et := in.X.Type().Underlying().(*types.Slice).Elem()
		n := 0
		if s.Len.IsConst() {
			n = int(s.Len.Int64())
		} else {
			n = p.arrayLen(s.Arr) - s.Off
			p.lazyGuard(s, idx, n) // intr_lazymake.go
		}
		if isScalarType(et) && n <= p.hr.h.maxSymIndex() {
			r := s.Arr.child(s.Off)
			r.Sym, r.N = idx, n
			return r
		}
		return s.Arr.child(s.Off + int(p.concretize(idx, "slice index").Int64()))
	}
	if s, ok := x.(SymSliceV); ok { // symslice.go
		return p.symIndexAddr(s, idx)
	}
	panic(p.abort("IndexAddr of " + describe(x)))
}

func (p *Path) index(fr *frame, in *ssa.Index) Value {
	x := p.get(fr, in.X)
	idx := p.to64(p.term(p.get(fr, in.Index), "index"), in.Index.Type())
	switch s := x.(type) {
	case *ArrayV:
		p.check(p.tt.ULt(idx, BVConstU(uint64(len(s.E)), 64)), "index out of range")
		if idx.IsConst() {
			return copyVal(s.E[idx.Int64()])
		}
		var res Value
		for k := len(s.E) - 1; k >= 0; k-- {
			if res == nil {
				res = s.E[k]
				continue
			}
			res = p.iteValue(p.tt.Eq(idx, BVConstU(uint64(k), 64)), s.E[k], res)
		}
		return res
	case StrV:
		return p.strIndex(s, idx)
	case SymStrV: // symstr.go
		return p.symStrIndex(s, idx)
	}
	panic(p.abort("Index of " + describe(x)))
}

func (p *Path) strIndex(s StrV, idx *Term) Value {
	p.check(p.tt.ULt(idx, BVConstU(uint64(len(s)), 64)), "index out of range")
	if idx.IsConst() {
		return BVConstU(uint64(s[idx.Int64()]), 8)
	}
	var res *Term
	for k := len(s) - 1; k >= 0; k-- {
		c := BVConstU(uint64(s[k]), 8)
		if res == nil {
			res = c
			continue
		}
		res = p.tt.Ite(p.tt.Eq(idx, BVConstU(uint64(k), 64)), c, res)
	}
	return res
}

// ---------------------------------------------------------------------------
// maps

// mapFind returns the index of the entry whose key equals k, forking when
// equality is symbolic. -1 = absent.
func (p *Path) mapFind(m *MapObj, k Value) int {
	if m == nil {
		return -1
	}
	for i := range m.Entries {
		c := p.eqValue(m.Entries[i].K, k)
		if c.IsConst() {
			if c.IsTrue() {
				return i
			}
			continue
		}
		if p.branch(c) {
			return i
		}
	}
	return -1
}

func (p *Path) lookup(fr *frame, in *ssa.Lookup) Value {
	x := p.get(fr, in.X)
	k := p.get(fr, in.Index)
	if s, ok := x.(StrV); ok {
		return p.strIndex(s, p.to64(p.term(k, "string index"), in.Index.Type()))
	}
	if s, ok := x.(SymStrV); ok { // symstr.go
		return p.symStrIndex(s, p.to64(p.term(k, "string index"), in.Index.Type()))
	}
	m, ok := x.(*MapObj)
	if !ok {
		panic(p.abort("lookup in " + describe(x)))
	}
	mt := in.X.Type().Underlying().(*types.Map)
	i := p.mapFind(m, k)
	var v Value
	if i >= 0 {
		v = copyVal(m.Entries[i].V)
	} else {
		v = p.zero(mt.Elem())
	}
	if in.CommaOk {
		return TupleV{v, BoolT(i >= 0)}
	}
	return v
}

func (p *Path) mapUpdate(m *MapObj, k, v Value) {
	if m == nil {
		panic(&goPanic{msg: "assignment to entry in nil map", stack: p.where()})
	}
	i := p.mapFind(m, k)
	if i >= 0 {
		m.Entries[i].V = copyVal(v)
		return
	}
	m.Entries = append(m.Entries, mapEntry{copyVal(k), copyVal(v)})
}

func (p *Path) mapDelete(m *MapObj, k Value) {
	i := p.mapFind(m, k)
	if i >= 0 {
		m.Entries = append(m.Entries[:i:i], m.Entries[i+1:]...)
	}
}

type mapIter struct {
	m     *MapObj
	keys  []Value
	order []int
	pos   int
}

type strIter struct {
	s   string
	pos int
}

func (p *Path) rangeIter(fr *frame, in *ssa.Range) Value {
	x := p.get(fr, in.X)
	switch s := x.(type) {
	case StrV:
		return &strIter{s: string(s)}
	case *MapObj:
		it := &mapIter{m: s}
		if s == nil {
			return it
		}
		n := len(s.Entries)
		idx := make([]int, n)
		for i := range idx {
			idx[i] = i
		}
		// iteration order: fork over permutations when small
		if n > 1 && n <= p.hr.h.mapPerm() {
			for i := 0; i < n-1; i++ {
				c := p.choice(n - i)
				idx[i], idx[i+c] = idx[i+c], idx[i]
			}
		} else if n > 1 {
			p.hr.noteMapOrderFixed(n)
		}
		for _, i := range idx {
			it.keys = append(it.keys, s.Entries[i].K)
		}
		return it
	}
	panic(p.abort("range over " + describe(x)))
}

func (p *Path) next(fr *frame, in *ssa.Next) Value {
	it := p.get(fr, in.Iter)
	switch x := it.(type) {
	case *strIter:
		if x.pos >= len(x.s) {
			return TupleV{FalseT, BVConstU(0, 64), BVConstU(0, 32)}
		}
		r, sz := utf8.DecodeRuneInString(x.s[x.pos:])
		res := TupleV{TrueT, BVConstU(uint64(x.pos), 64), BVConstI(int64(r), 32)}
		x.pos += sz
		return res
	case *mapIter:
		tup := in.Type().(*types.Tuple)
		for x.pos < len(x.keys) {
			k := x.keys[x.pos]
			x.pos++
			// entry may have been deleted during iteration
			for _, e := range x.m.Entries {
				c := p.eqValue(e.K, k)
				if c.IsTrue() {
					return TupleV{TrueT, copyVal(e.K), copyVal(e.V)}
				}
			}
		}
		return TupleV{FalseT, p.zero(tup.At(1).Type()), p.zero(tup.At(2).Type())}
	}
	panic(p.abort("next on " + describe(it)))
}

// ---------------------------------------------------------------------------

func (p *Path) implements(dyn types.Type, iface *types.Interface) bool {
	return types.Implements(dyn, iface)
}

func (p *Path) typeAssert(fr *frame, in *ssa.TypeAssert) Value {
	x := p.get(fr, in.X)
	iv, ok := x.(IfaceV)
	if !ok {
		if o, isOp := x.(Opaque); isOp {
			panic(p.abort("type assertion on opaque value: " + o.Why))
		}
		panic(p.abort("type assertion on " + describe(x)))
	}
	var holds bool
	var res Value
	if it, isIface := in.AssertedType.Underlying().(*types.Interface); isIface {
		holds = iv.T != nil && p.implements(iv.T, it)
		res = iv
	} else {
		holds = iv.T != nil && types.Identical(iv.T, in.AssertedType)
		res = iv.V
	}
	if in.CommaOk {
		if !holds {
			return TupleV{p.zero(in.AssertedType), FalseT}
		}
		return TupleV{res, TrueT}
	}
	if !holds {
		have := "nil"
		if iv.T != nil {
			have = iv.T.String()
		}
		panic(&goPanic{val: IfaceV{T: p.eng.runtimeErrorType, V: StrV("interface conversion")},
			msg: fmt.Sprintf("interface conversion: interface is %s, not %s", have, in.AssertedType), stack: p.where()})
	}
	return res
}

// ---------------------------------------------------------------------------
// builtins

func (p *Path) builtin(fr *frame, b *ssa.Builtin, args []Value, cc *ssa.CallCommon) Value {
	switch b.Name() {
	case "len":
		switch x := args[0].(type) {
		case StrV:
			return BVConstU(uint64(len(x)), 64)
		case SymStrV: // symstr.go
			return BVConstU(uint64(len(x.B)), 64)
		case SliceV:
			return x.Len
		case SymSliceV:
			return x.Len
		case *MapObj:
			if x == nil {
				return BVConstU(0, 64)
			}
			return BVConstU(uint64(len(x.Entries)), 64)
		case *ArrayV:
			return BVConstU(uint64(len(x.E)), 64)
		case Ptr:
			return BVConstU(uint64(p.arrayLen(x)), 64)
		case *ChanObj:
			if x == nil {
				return BVConstU(0, 64)
			}
			return BVConstU(uint64(len(x.Buf)), 64)
		}
	case "cap":
		switch x := args[0].(type) {
		case SliceV:
			return x.Cap
		case SymSliceV:
			return x.Cap
		case *ArrayV:
			return BVConstU(uint64(len(x.E)), 64)
		case Ptr:
			return BVConstU(uint64(p.arrayLen(x)), 64)
		case *ChanObj:
			return BVConstU(uint64(x.Cap), 64)
		}
	case "append":
		return p.appendOp(args[0], args[1], cc)
	case "copy":
		return p.copyOp(args[0], args[1])
	case "delete":
		m := args[0].(*MapObj)
		if m != nil {
			p.mapDelete(m, args[1])
		}
		return nil
	case "close":
		ch, ok := args[0].(*ChanObj)
		if !ok {
			panic(p.abort("close of " + describe(args[0])))
		}
		if ch == nil {
			panic(&goPanic{msg: "close of nil channel", stack: p.where()})
		}
		if ch.Closed {
			panic(&goPanic{msg: "close of closed channel", stack: p.where()})
		}
		ch.Closed = true
		return nil
	case "panic":
		panic(&goPanic{val: args[0], msg: p.panicString(args[0]), stack: p.where()})
	case "recover":
		return p.doRecover(fr)
	case "print", "println":
		return nil
	case "min", "max":
		r := args[0]
		for _, a := range args[1:] {
			var less Value
			if b.Name() == "min" {
				less = p.binop(token.LSS, cc.Args[0].Type(), a, r, cc.Args[0].Type())
			} else {
				less = p.binop(token.GTR, cc.Args[0].Type(), a, r, cc.Args[0].Type())
			}
			r = p.iteValue(less.(*Term), a, r)
		}
		return r
	case "ssa:wrapnilchk":
		if ptr, ok := args[0].(Ptr); ok && ptr.Obj == nil {
			p.goPanicRuntime("value method called using nil pointer")
		}
		return args[0]
	case "clear":
		switch x := args[0].(type) {
		case *MapObj:
			if x != nil {
				x.Entries = nil
			}
			return nil
		}
	}
	panic(p.abort("builtin " + b.Name() + " on " + describe(args[0])))
}

func (p *Path) doRecover(fr *frame) Value {
	// recover() is effective only when called directly by a deferred function:
	// fr is the deferred function's frame; its caller is the panicking frame.
	c := fr.caller
	if c != nil && c.panicking {
		c.panicking = false
		gp := c.panic
		c.panic = nil
		if gp.val == nil {
			return IfaceV{T: types.Typ[types.String], V: StrV(gp.msg)}
		}
		if iv, ok := gp.val.(IfaceV); ok {
			return iv
		}
		return IfaceV{T: types.Typ[types.String], V: StrV(gp.msg)}
	}
	return IfaceV{}
}

func (p *Path) appendOp(a, b Value, cc *ssa.CallCommon) Value {
	s := a.(SliceV)
	var add []Value
	switch x := b.(type) {
	case StrV:
		for i := 0; i < len(x); i++ {
			add = append(add, BVConstU(uint64(x[i]), 8))
		}
	case SymStrV: // symstr.go
		for _, e := range x.B {
			add = append(add, e)
		}
	case SliceV:
		for _, e := range p.sliceElems(x) {
			add = append(add, copyVal(e))
		}
	default:
		panic(p.abort("append of " + describe(b)))
	}
	if len(add) == 0 {
		return s
	}
	ln := int(p.concretize(s.Len, "append len").Int64())
	cp := int(p.concretize(s.Cap, "append cap").Int64())
	if ln+len(add) <= cp {
		arr := (*p.slot(s.Arr)).(*ArrayV)
		for i, e := range add {
			storeInto(&arr.E[s.Off+ln+i], e)
		}
		return SliceV{Arr: s.Arr, Off: s.Off, Len: BVConstU(uint64(ln+len(add)), 64), Cap: s.Cap}
	}
	need := ln + len(add)
	ncap := need
	if p.hr.h.AppendSlack {
		ncap = 2 * need
	}
	st := cc.Args[0].Type().Underlying().(*types.Slice)
	at := types.NewArray(st.Elem(), int64(ncap))
	na := p.zero(at).(*ArrayV)
	if ln > 0 {
		old := (*p.slot(s.Arr)).(*ArrayV)
		for i := 0; i < ln; i++ {
			na.E[i] = copyVal(old.E[s.Off+i])
		}
	}
	for i, e := range add {
		na.E[ln+i] = e
	}
	o := p.newObject(na, at)
	return SliceV{Arr: Ptr{Obj: o}, Len: BVConstU(uint64(need), 64), Cap: BVConstU(uint64(ncap), 64)}
}

func (p *Path) copyOp(dst, src Value) Value {
	if v, ok := p.symCopy(dst, src); ok { // symslice.go
		return v
	}
	d := dst.(SliceV)
	var srcVals []Value
	minDone := false
	switch x := src.(type) {
	case StrV:
		for i := 0; i < len(x); i++ {
			srcVals = append(srcVals, BVConstU(uint64(x[i]), 8))
		}
	case SymStrV: // symstr.go
		for _, e := range x.B {
			srcVals = append(srcVals, e)
		}
	case SliceV:
		// n = min(len(dst), len(src))
		if !x.Len.IsConst() || !d.Len.IsConst() {
			n := p.tt.Ite(p.tt.ULt(x.Len, d.Len), x.Len, d.Len)
			nv := int(p.concretize(n, "copy length").Int64())
			minDone = true // srcVals holds exactly min(len(dst), len(src)) elements: dst length needs no further concretization
			if nv == 0 {
				return BVConstU(0, 64)
			}
			arr := (*p.slot(x.Arr)).(*ArrayV)
			for i := 0; i < nv; i++ {
				srcVals = append(srcVals, copyVal(arr.E[x.Off+i]))
			}
		} else {
			for _, e := range p.sliceElems(x) {
				srcVals = append(srcVals, copyVal(e))
			}
		}
	}
	dl := len(srcVals)
	if d.Len.IsConst() {
		if int(d.Len.Int64()) < dl {
			dl = int(d.Len.Int64())
		}
	} else if !minDone {
		dn := int(p.concretize(d.Len, "copy dst length").Int64())
		if dn < dl {
			dl = dn
		}
	}
	if dl == 0 {
		return BVConstU(0, 64)
	}
	arr := (*p.slot(d.Arr)).(*ArrayV)
	for i := 0; i < dl; i++ {
		storeInto(&arr.E[d.Off+i], srcVals[i])
	}
	return BVConstU(uint64(dl), 64)
}

// ---------------------------------------------------------------------------
// pure-diamond merging

func pureInstr(in ssa.Instruction) bool {
	switch x := in.(type) {
	case *ssa.BinOp:
		switch x.Op {
		case token.QUO, token.REM:
			return false
		case token.SHL, token.SHR:
			if _, s, _ := intInfo(x.Y.Type()); s {
				return false
			}
		}
		if _, _, ok := intInfo(x.X.Type()); ok {
			return true
		}
		if b, ok := x.X.Type().Underlying().(*types.Basic); ok && b.Info()&types.IsBoolean != 0 {
			return true
		}
		return false
	case *ssa.UnOp:
		return x.Op == token.NOT || x.Op == token.SUB || x.Op == token.XOR
	case *ssa.Convert:
		_, _, a := intInfo(x.X.Type())
		_, _, b := intInfo(x.Type())
		return a && b
	case *ssa.ChangeType, *ssa.DebugRef:
		return true
	}
	return false
}

func pureArm(b *ssa.BasicBlock, from *ssa.BasicBlock) (join *ssa.BasicBlock, ok bool) {
	if len(b.Preds) != 1 || b.Preds[0] != from {
		return nil, false
	}
	n := len(b.Instrs)
	if n == 0 || n > 12 {
		return nil, false
	}
	j, isJ := b.Instrs[n-1].(*ssa.Jump)
	if !isJ {
		return nil, false
	}
	_ = j
	for _, in := range b.Instrs[:n-1] {
		if !pureInstr(in) {
			return nil, false
		}
	}
	return b.Succs[0], true
}

// tryMerge handles "if c { pure } [else { pure }]" diamonds without forking:
// both arms are evaluated and the phis at the join become ite terms.
func (p *Path) tryMerge(fr *frame, in *ssa.If, c *Term) bool {
	if p.hr.h.NoMerge {
		return false
	}
	if p.hr.h.MergeStores { // mergemem.go
		return p.tryMergeMem(fr, in, c)
	}
	blk := fr.block
	tb, fb := blk.Succs[0], blk.Succs[1]
	var join *ssa.BasicBlock
	var arms [2]*ssa.BasicBlock // nil = direct edge
	jt, okT := pureArm(tb, blk)
	jf, okF := pureArm(fb, blk)
	switch {
	case okT && okF && jt == jf:
		join, arms[0], arms[1] = jt, tb, fb
	case okT && jt == fb:
		join, arms[0] = fb, tb
	case okF && jf == tb:
		join, arms[1] = tb, fb
	default:
		return false
	}
	if len(join.Preds) < 2 {
		return false
	}
	if len(join.Preds) > 2 {
		// join with further predecessors (e.g. a loop header reached by "if c { x++ }; continue"):
		// fine as long as the two edges taken here are distinct predecessors of join
		n0, n1 := 0, 0
		for _, pred := range join.Preds {
			if pred == tb && arms[0] != nil || pred == blk && arms[0] == nil {
				n0++
			}
			if pred == fb && arms[1] != nil || pred == blk && arms[1] == nil {
				n1++
			}
		}
		if n0 != 1 || n1 != 1 {
			return false
		}
	}
	// every phi in join must merge scalars
	var phis []*ssa.Phi
	for _, ji := range join.Instrs {
		ph, ok := ji.(*ssa.Phi)
		if !ok {
			break
		}
		phis = append(phis, ph)
	}
	// evaluate arms
	for _, a := range arms {
		if a == nil {
			continue
		}
		for _, ai := range a.Instrs[:len(a.Instrs)-1] {
			fr.cur = ai
			p.visit(fr, ai)
		}
	}
	predOf := func(arm *ssa.BasicBlock) *ssa.BasicBlock {
		if arm == nil {
			return blk
		}
		return arm
	}
	vals := make([]Value, len(phis))
	for i, ph := range phis {
		var tv, fv Value
		for k, pred := range join.Preds {
			if pred == predOf(arms[0]) {
				tv = p.get(fr, ph.Edges[k])
			}
			if pred == predOf(arms[1]) {
				fv = p.get(fr, ph.Edges[k])
			}
		}
		if tv == nil || fv == nil {
			return false
		}
		merged, ok := p.tryIte(c, tv, fv)
		if !ok {
			return false
		}
		vals[i] = merged
	}
	for i, ph := range phis {
		p.set(fr, ph, vals[i])
	}
	// continue in join after the phis
	p.hr.merges++
	fr.prev, fr.block = predOf(arms[0]), join
	p.runJoinTail(fr, join, len(phis))
	return true
}

func (p *Path) tryIte(c *Term, a, b Value) (v Value, ok bool) {
	defer func() {
		if r := recover(); r != nil {
			if _, isMF := r.(mergeFail); isMF {
				v, ok = nil, false
				return
			}
			panic(r)
		}
	}()
	return p.iteValue(c, a, b), true
}

// runJoinTail marks that the phis of the join block are already set: the
// frame loop will execute join from its first non-phi instruction.
func (p *Path) runJoinTail(fr *frame, join *ssa.BasicBlock, nphi int) {
	fr.prev = nil // no predecessor matches, so phis are skipped (values already set)
	_ = nphi
	_ = join
	_ = math.MaxInt
	_ = strings.TrimSpace
}
