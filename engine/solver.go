package main

// One long-lived SMT solver process (z3 -in by default) per worker.

import (
	"bufio"
	"fmt"
	"io"
	"math/big"
	"os"
	"os/exec"
	"strconv"
	"strings"
	"sync/atomic"
	"time"
)

type SatResult int

const (
	Unsat SatResult = iota
	Sat
	Unknown
)

func (r SatResult) String() string { return [...]string{"unsat", "sat", "unknown"}[r] }

type SolverStats struct {
	Queries, Sat, Unsat, Unknown, Errors int64
	Nanos                                int64
}

func (s *SolverStats) add(o *SolverStats) {
	atomic.AddInt64(&s.Queries, o.Queries)
	atomic.AddInt64(&s.Sat, o.Sat)
	atomic.AddInt64(&s.Unsat, o.Unsat)
	atomic.AddInt64(&s.Unknown, o.Unknown)
	atomic.AddInt64(&s.Errors, o.Errors)
	atomic.AddInt64(&s.Nanos, o.Nanos)
}

type Solver struct {
	cmd       *exec.Cmd
	in        io.WriteCloser
	out       *bufio.Reader
	em        *Emitter
	depth     int
	stats     SolverStats
	timeoutMs int
	bin       string
	// transcript of the current path (for cross-solver replay of queries)
	script   strings.Builder
	keepLog  bool
	dead     bool
	lastErr  string
	scopeDef []map[uint64]bool
	context  func() string
	asserted  []*Term // assertions of the current path (for one-shot retries, solver_oneshot.go)
	oneShotMs int     // 0: 4x the incremental timeout
	noOneShot bool
	fresh      bool // solver_fresh.go
	freshBuf   strings.Builder
	freshExtra string
	hdr        string
	retryBin  string // solver spec for one-shot retries (default: bin)
	modelTerms func() []*Term      // terms whose values a one-shot model must carry (the path's inputs and observations)
	osModel    map[*Term]*big.Int  // model of the last query, when a one-shot retry decided it "sat" (solver_oneshot.go)
	osKeep     bool                // CheckWith(.., keepOnSat) was decided by a one-shot retry: no scope to pop
	tactic   string   // non-empty: (check-sat-using <tactic>) instead of (check-sat)
	fbInit   bool     // "fallback:" mode: short timeout for the incremental attempt has been set
	logf     *os.File // VERIF_SMTLOG=<dir>: transcript of everything sent (diagnostics)
}

// solverExe maps a solver spec to the executable ("cvc5-bvint" = cvc5 with
// bit-vectors translated to integer arithmetic, for uint64 x big.Int products).
func solverExe(bin string) string {
	if bin == "cvc5-bvint" {
		return "cvc5"
	}
	return bin
}

func solverArgs(bin string) []string {
	switch {
	case bin == "cvc5-bvint":
		return []string{"--incremental", "--lang=smt2", "--produce-models", "--solve-bv-as-int=sum"}
	case strings.Contains(bin, "cvc5"):
		return []string{"--incremental", "--lang=smt2", "--produce-models"}
	default:
		return []string{"-in", "-smt2"}
	}
}

func NewSolver(bin string, timeoutMs int) (*Solver, error) {
	s := &Solver{bin: bin, timeoutMs: timeoutMs}
	if i := strings.Index(bin, "+"); i > 0 { // "main+retry": e.g. z3+cvc5-bvint (solver_oneshot.go)
		s.bin, s.retryBin = bin[:i], bin[i+1:]
	}
	if err := s.start(); err != nil {
		return nil, err
	}
	return s, nil
}

func (s *Solver) start() error {
	s.cmd = exec.Command(solverExe(s.bin), solverArgs(s.bin)...)
	in, err := s.cmd.StdinPipe()
	if err != nil {
		return err
	}
	out, err := s.cmd.StdoutPipe()
	if err != nil {
		return err
	}
	s.cmd.Stderr = nil
	if err := s.cmd.Start(); err != nil {
		return err
	}
	s.in = in
	s.out = bufio.NewReaderSize(out, 1<<16)
	s.em = s.newEmitter()
	s.depth = 0
	s.dead = false
	s.fbInit = false
	if d := os.Getenv("VERIF_SMTLOG"); d != "" && s.logf == nil {
		s.logf, _ = os.Create(fmt.Sprintf("%s/solver-%d-%d.smt2", d, os.Getpid(), atomic.AddInt64(&solverSeq, 1)))
	}
	hdr := "(set-option :produce-models true)\n"
	if strings.Contains(s.bin, "cvc5") {
		hdr += "(set-logic ALL)\n"
		hdr += fmt.Sprintf("(set-option :tlimit-per %d)\n", s.timeoutMs)
	} else {
		hdr += fmt.Sprintf("(set-option :timeout %d)\n", s.timeoutMs)
	}
	s.hdr = hdr
	s.sendNow(hdr)
	return nil
}

func (s *Solver) Close() {
	if s.cmd != nil && s.cmd.Process != nil {
		s.in.Close()
		s.cmd.Process.Kill()
		s.cmd.Wait()
	}
}

func (s *Solver) restart() {
	s.Close()
	s.start()
}

func (s *Solver) send(txt string) {
	if s.fresh { // solver_fresh.go
		s.freshSend(txt)
		return
	}
	if s.keepLog {
		s.script.WriteString(txt)
	}
	if s.logf != nil {
		s.logf.WriteString(txt)
	}
	if _, err := io.WriteString(s.in, txt); err != nil {
		s.dead = true
	}
}

var solverSeq int64

var queryLog = func() *os.File {
	if f := os.Getenv("VERIF_QUERYLOG"); f != "" {
		fh, _ := os.OpenFile(f, os.O_CREATE|os.O_WRONLY|os.O_APPEND, 0o644)
		return fh
	}
	return nil
}()

// VERIF_FORCE_UNKNOWN=<n> (diagnostics): every n-th answer of the long-lived
// solver process is discarded as "unknown", so that the recovery and one-shot
// retry paths (solver_oneshot.go) can be exercised on any suite.
var forceUnknown = func() int64 {
	n, _ := strconv.ParseInt(os.Getenv("VERIF_FORCE_UNKNOWN"), 10, 64)
	return n
}()

// Reset discards all assertions (start of a new path).
func (s *Solver) Reset() {
	s.asserted = s.asserted[:0]
	s.osModel, s.osKeep = nil, false
	if s.dead {
		s.restart()
		return
	}
	for s.depth > 0 {
		s.send("(pop)\n")
		s.depth--
	}
	s.em = s.newEmitter()
	s.script.Reset()
	s.asserted = s.asserted[:0]
	s.send("(push)\n")
	s.depth = 1
}

func (s *Solver) Assert(t *Term) {
	s.osModel = nil
	s.asserted = append(s.asserted, t)
	s.em.Define(t)
	s.send(s.em.Take())
	s.send("(assert " + s.em.ref(t) + ")\n")
}

func (s *Solver) readLine() (string, error) {
	line, err := s.out.ReadString('\n')
	return strings.TrimSpace(line), err
}

// checkRaw sends (check-sat) and reads the answer.  A tactic of the form
// "fallback:<tactic>" means: ask the incremental core first (5 s), and only if
// that is undecided ask (check-sat-using <tactic>) with the full timeout.
// Caveat (z3 4.8.12): a timed-out check can leave the context "canceled", so
// that the next (push) fails with an error line - reported as a solver-error
// fault, never as a pass; under heavy machine load this makes fallback mode
// flaky.  Prefer the plain tactic form for registered suites.
func (s *Solver) checkRaw() SatResult {
	t0 := time.Now()
	tactic, fallback := s.tactic, ""
	if strings.HasPrefix(tactic, "fallback:") {
		tactic, fallback = "", strings.TrimPrefix(tactic, "fallback:")
		if !s.fbInit {
			s.fbInit = true
			s.send("(set-option :timeout 5000)\n")
		}
	}
	if tactic != "" {
		// (set-option :timeout) does not bound tactics: try-for does
		s.send(fmt.Sprintf("(check-sat-using (try-for %s %d))\n", tactic, s.timeoutMs))
	} else {
		s.send("(check-sat)\n")
	}
	s.stats.Queries++
	res := s.readAnswer()
	if res == Unknown && fallback != "" && s.lastErr == "" && !s.dead {
		// the global :timeout also bounds check-sat-using: lift it for the retry
		s.send(fmt.Sprintf("(set-option :timeout %d)\n(check-sat-using (try-for %s %d))\n", s.timeoutMs, fallback, s.timeoutMs))
		res = s.readAnswer()
		s.send("(set-option :timeout 5000)\n")
	}
	if s.lastErr != "" {
		res = Unknown
	}
	if forceUnknown > 0 && s.stats.Queries%forceUnknown == 0 {
		res = Unknown // diagnostics: exercise the retry paths
	}
	s.stats.Nanos += int64(time.Since(t0))
	if d := time.Since(t0); d > 3*time.Second && slowLog != nil {
		slowLog(d, res, s.context)
	}
	if queryLog != nil && s.context != nil { // VERIF_QUERYLOG=<file>: one line per query (diagnostics)
		fmt.Fprintf(queryLog, "%.3f %s %s\n", time.Since(t0).Seconds(), res, s.context())
	}
	switch res {
	case Sat:
		s.stats.Sat++
	case Unsat:
		s.stats.Unsat++
	default:
		s.stats.Unknown++
	}
	return res
}

func (s *Solver) readAnswer() SatResult {
	res := Unknown
	for {
		line, err := s.readLine()
		if err != nil {
			s.dead = true
			s.stats.Errors++
			s.lastErr = "solver died: " + err.Error()
			break
		}
		if line == "" {
			continue
		}
		if strings.HasPrefix(line, "(error") {
			s.stats.Errors++
			s.lastErr = line
			// an error line may precede the actual answer; keep reading one more line
			continue
		}
		switch line {
		case "sat":
			res = Sat
		case "unsat":
			res = Unsat
		default:
			res = Unknown
		}
		break
	}
	return res
}

// Check asks whether the current assertions are satisfiable.
func (s *Solver) Check() SatResult {
	s.lastErr = ""
	s.osModel = nil
	r := s.checkRaw()
	if r == Unknown {
		s.recover()
		if !s.noOneShot && !s.dead && s.lastErr == "" && s.modelTerms != nil {
			// retry in a fresh non-incremental process, which also delivers the model a caller may read
			if r2 := s.oneShot(nil, true); r2 != Unknown {
				s.stats.Unknown--
				if r2 == Unsat {
					s.stats.Unsat++
				} else {
					s.stats.Sat++
				}
				return r2
			}
		}
	}
	return r
}

// CheckWith asks whether assertions ∧ extra is satisfiable; the scope is
// popped afterwards unless keep is set and the result is Sat (so that a model
// can be read).  Call PopModel afterwards in that case.
func (s *Solver) CheckWith(extra *Term, keepOnSat bool) SatResult {
	s.lastErr = ""
	s.osModel = nil
	s.em.Define(extra)
	defs := s.em.Take()
	// definitions go outside the push so they survive (they are just macros)
	s.send(defs)
	s.send("(push)\n(assert " + s.em.ref(extra) + ")\n")
	r := s.checkRaw()
	if r == Sat && keepOnSat {
		s.depth++
		return r
	}
	if r == Unknown {
		s.recover()
	} else {
		s.send("(pop)\n")
	}
	if r == Unknown && !s.noOneShot && !s.dead && s.lastErr == "" {
		// retry in a fresh non-incremental process; where a model is wanted the retry delivers
		// it (s.osModel) and no scope stays pushed in the long-lived process (s.osKeep)
		if r2 := s.oneShot(extra, keepOnSat && s.modelTerms != nil); r2 == Unsat || (r2 == Sat && (!keepOnSat || s.osModel != nil)) {
			s.stats.Unknown--
			if r2 == Unsat {
				s.stats.Unsat++
			} else {
				s.stats.Sat++
				s.osKeep = keepOnSat
			}
			return r2
		}
	}
	return r
}

// recover rebuilds the solver context after an undecided or failed query: z3
// 4.8.12 can be left "canceled" by a timed-out check, after which (push)/(pop)
// fail and later declarations clash ("already declared").  A new process is
// started and the assertions of the current path are sent again.
func (s *Solver) recover() {
	if s.fresh {
		return
	}
	lastErr := s.lastErr
	s.restart()
	s.send("(push)\n")
	s.depth = 1
	for _, t := range s.asserted {
		s.em.Define(t)
		s.send(s.em.Take())
		s.send("(assert " + s.em.ref(t) + ")\n")
	}
	s.lastErr = lastErr
}

func (s *Solver) PopModel() {
	if s.osKeep {
		s.osKeep, s.osModel = false, nil
		return
	}
	s.send("(pop)\n")
	s.depth--
}

// GetValues reads model values for the given terms (vars or defined terms).
func (s *Solver) GetValues(ts []*Term) ([]*big.Int, error) {
	if len(ts) == 0 {
		return nil, nil
	}
	if s.osModel != nil {
		vals := make([]*big.Int, len(ts))
		for i, t := range ts {
			v, ok := s.osModel[t]
			if !ok {
				return nil, fmt.Errorf("solver: term not in the one-shot model")
			}
			vals[i] = v
		}
		return vals, nil
	}
	var sb strings.Builder
	if s.fresh { // solver_fresh.go: new terms become macros here (an assertion would invalidate the model)
		s.em.assertStyle = false
	}
	for _, t := range ts {
		s.em.Define(t)
	}
	if s.fresh {
		s.em.assertStyle = true
		defs := s.em.Take()
		s.freshBuf.WriteString(defs)
		s.sendNow(defs)
	}
	s.send(s.em.Take())
	sb.WriteString("(get-value (")
	for _, t := range ts {
		sb.WriteString(s.em.ref(t))
		sb.WriteByte(' ')
	}
	sb.WriteString("))\n")
	if s.fresh {
		s.sendNow(sb.String())
	} else {
		s.send(sb.String())
	}
	// read balanced s-expression
	var buf strings.Builder
	depth := 0
	started := false
	for {
		line, err := s.out.ReadString('\n')
		if err != nil {
			s.dead = true
			return nil, err
		}
		if strings.HasPrefix(strings.TrimSpace(line), "(error") {
			return nil, fmt.Errorf("solver: %s", line)
		}
		buf.WriteString(line)
		inBar := false
		for _, c := range line {
			if c == '|' {
				inBar = !inBar
			}
			if inBar {
				continue
			}
			if c == '(' {
				depth++
				started = true
			} else if c == ')' {
				depth--
			}
		}
		if started && depth == 0 {
			break
		}
	}
	vals, err := parseValues(buf.String(), len(ts))
	if err != nil {
		return nil, err
	}
	return vals, nil
}

// parseValues parses "((name val) (name val) ...)".
func parseValues(s string, n int) ([]*big.Int, error) {
	toks := tokenize(s)
	pos := 0
	expect := func(t string) error {
		if pos >= len(toks) || toks[pos] != t {
			return fmt.Errorf("parse model: expected %q at %d in %q", t, pos, s)
		}
		pos++
		return nil
	}
	if err := expect("("); err != nil {
		return nil, err
	}
	var out []*big.Int
	for i := 0; i < n; i++ {
		if err := expect("("); err != nil {
			return nil, err
		}
		// skip the term expression (may be a symbol or s-expr)
		if toks[pos] == "(" {
			d := 0
			for {
				if toks[pos] == "(" {
					d++
				} else if toks[pos] == ")" {
					d--
				}
				pos++
				if d == 0 {
					break
				}
			}
		} else {
			pos++
		}
		v, np, err := parseVal(toks, pos)
		if err != nil {
			return nil, err
		}
		pos = np
		out = append(out, v)
		if err := expect(")"); err != nil {
			return nil, err
		}
	}
	return out, nil
}

func parseVal(toks []string, pos int) (*big.Int, int, error) {
	t := toks[pos]
	switch {
	case t == "true":
		return big.NewInt(1), pos + 1, nil
	case t == "false":
		return big.NewInt(0), pos + 1, nil
	case strings.HasPrefix(t, "#x"):
		v, ok := new(big.Int).SetString(t[2:], 16)
		if !ok {
			return nil, 0, fmt.Errorf("bad hex %q", t)
		}
		return v, pos + 1, nil
	case strings.HasPrefix(t, "#b"):
		v, ok := new(big.Int).SetString(t[2:], 2)
		if !ok {
			return nil, 0, fmt.Errorf("bad bin %q", t)
		}
		return v, pos + 1, nil
	case t == "(":
		// (- N) or (_ bvN w)
		if toks[pos+1] == "-" {
			v, np, err := parseVal(toks, pos+2)
			if err != nil {
				return nil, 0, err
			}
			if toks[np] != ")" {
				return nil, 0, fmt.Errorf("bad neg")
			}
			return v.Neg(v), np + 1, nil
		}
		if toks[pos+1] == "_" && strings.HasPrefix(toks[pos+2], "bv") {
			v, ok := new(big.Int).SetString(toks[pos+2][2:], 10)
			if !ok {
				return nil, 0, fmt.Errorf("bad bv literal")
			}
			return v, pos + 5, nil
		}
		return nil, 0, fmt.Errorf("unsupported model value at %v", toks[pos:min(pos+6, len(toks))])
	default:
		v, ok := new(big.Int).SetString(t, 10)
		if !ok {
			return nil, 0, fmt.Errorf("bad value %q", t)
		}
		return v, pos + 1, nil
	}
}

func tokenize(s string) []string {
	var toks []string
	i := 0
	for i < len(s) {
		c := s[i]
		switch {
		case c == ' ' || c == '\n' || c == '\t' || c == '\r':
			i++
		case c == '(' || c == ')':
			toks = append(toks, string(c))
			i++
		case c == '|':
			j := i + 1
			for j < len(s) && s[j] != '|' {
				j++
			}
			toks = append(toks, s[i:j+1])
			i = j + 1
		default:
			j := i
			for j < len(s) && !strings.ContainsRune(" \n\t\r()", rune(s[j])) {
				j++
			}
			toks = append(toks, s[i:j])
			i = j
		}
	}
	return toks
}

// slowLog, when set, is called for queries slower than 3 s (diagnostics).
var slowLog func(d time.Duration, r SatResult, ctx func() string)
