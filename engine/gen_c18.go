package main

// C18 generator ("rpcapi"): enumerates, from the SSA/go-types view of the
// current source tree, every receiver type that is registered as an RPC
// service (value stored into rpc.API.Service, or passed to Server.RegisterName),
// all exported methods of those types (what rpc.suitableCallbacks sees by
// reflection, a superset of it), and prunes by static (CHA) call-graph
// reachability of the keystore / accounts.Wallet signing entry points.
//
// The result is emitted as Go source that is added to the overlay (nothing is
// written to disk): tables for the harnesses in rpc and internal/aquaapi plus
// type-directed call glue for every candidate method.

import (
	"fmt"
	"go/types"
	"os"
	"sort"
	"strings"
	"time"

	"golang.org/x/tools/go/callgraph"
	"golang.org/x/tools/go/callgraph/cha"
	"golang.org/x/tools/go/callgraph/vta"
	"golang.org/x/tools/go/ssa"
	"golang.org/x/tools/go/ssa/ssautil"
)

type c18Method struct {
	Recv     types.Type // type as registered (normally *T)
	RecvName string     // "pkg.T"
	PkgPath  string
	TypeName string
	NS       string
	Fn       *types.Func
	SSA      *ssa.Function
	MaySign  bool   // static call graph reaches a signing entry point
	Witness  string // one static call chain (diagnostic)
}

type c18Info struct {
	Methods  []*c18Method
	Dynamic  []string // registrations whose receiver type is not statically known
	Targets  []string
	Sites    []string // RegisterName call sites (informational: the "outside" part of the claim)
	Order    []c18Reg // registrations in the order node start-up performs them (walk of Node.startRPC), the rest appended
	OrderSrc string
}

type c18Reg struct {
	T  types.Type
	NS string
}

var c18SignNames = map[string]bool{"SignHash": true, "SignTx": true, "SignHashWithPassphrase": true, "SignTxWithPassphrase": true,
	"SignHashAllowed": true, "SignHashOK": true, "signHashAllowed": true}

func c18Scan(e *Engine) (*c18Info, error) {
	info := &c18Info{}
	rpcPkg := e.pkgs[repoMod+"/rpc"]
	accPkg := e.pkgs[repoMod+"/aqua/accounts"]
	ksPkg := e.pkgs[repoMod+"/aqua/accounts/keystore"]
	if rpcPkg == nil || accPkg == nil || ksPkg == nil {
		return nil, fmt.Errorf("c18 generator: packages rpc, aqua/accounts, aqua/accounts/keystore must be loaded")
	}
	apiT := rpcPkg.Type("API")
	if apiT == nil {
		return nil, fmt.Errorf("c18 generator: rpc.API not found")
	}
	apiStruct := apiT.Type().Underlying().(*types.Struct)
	svcIdx, nsIdx := -1, -1
	for i := 0; i < apiStruct.NumFields(); i++ {
		switch apiStruct.Field(i).Name() {
		case "Service":
			svcIdx = i
		case "Namespace":
			nsIdx = i
		}
	}
	if svcIdx < 0 || nsIdx < 0 {
		return nil, fmt.Errorf("c18 generator: rpc.API has no Service/Namespace field")
	}
	walletT := accPkg.Type("Wallet")
	if walletT == nil {
		return nil, fmt.Errorf("c18 generator: accounts.Wallet not found")
	}
	walletI := walletT.Type().Underlying().(*types.Interface)

	allFns := ssautil.AllFunctions(e.prog)

	// ---- 1. registered receiver types
	type reg struct {
		T  types.Type
		NS string
	}
	var regs []reg
	svcStores := map[*ssa.Store]c18Reg{}
	seenReg := map[string]bool{}
	addReg := func(T types.Type, ns, where string) {
		k := T.String() + "|" + ns
		if seenReg[k] {
			return
		}
		seenReg[k] = true
		regs = append(regs, reg{T, ns})
	}
	isAPIPtr := func(t types.Type) bool {
		pt, ok := t.Underlying().(*types.Pointer)
		return ok && types.Identical(pt.Elem(), apiT.Type())
	}
	var regName *ssa.Function
	if srv := rpcPkg.Type("Server"); srv != nil {
		regName = e.prog.LookupMethod(types.NewPointer(srv.Type()), rpcPkg.Pkg, "RegisterName")
	}
	for fn := range allFns {
		if fn.Blocks == nil {
			continue
		}
		inRepo := fn.Pkg != nil && strings.HasPrefix(fn.Pkg.Pkg.Path(), repoMod)
		for _, b := range fn.Blocks {
			for _, in := range b.Instrs {
				switch x := in.(type) {
				case *ssa.Store:
					fa, ok := x.Addr.(*ssa.FieldAddr)
					if !ok || fa.Field != svcIdx || !isAPIPtr(fa.X.Type()) {
						continue
					}
					if strings.HasPrefix(shortFile(e.prog.Fset.Position(x.Pos()).Filename), "zz_verif_") {
						// a harness (overlay file, not part of the tree under test) building an
						// []rpc.API from the generated tables (node.VerifC18_Transports): it
						// re-registers receivers this scan already produced, not a service of the node
						continue
					}
					pos := e.prog.Fset.Position(x.Pos()).String()
					ns := "?"
					// namespace: a constant stored to the Namespace field of the same struct address
					for _, ref := range *fa.X.Referrers() {
						if fa2, ok := ref.(*ssa.FieldAddr); ok && fa2.Field == nsIdx {
							for _, r2 := range *fa2.Referrers() {
								if st, ok := r2.(*ssa.Store); ok && st.Addr == fa2 {
									if c, ok := st.Val.(*ssa.Const); ok && c.Value != nil {
										ns = strings.Trim(c.Value.ExactString(), "\"")
									}
								}
							}
						}
					}
					switch v := x.Val.(type) {
					case *ssa.MakeInterface:
						addReg(v.X.Type(), ns, pos)
						svcStores[x] = c18Reg{v.X.Type(), ns}
					case *ssa.Const:
						// nil service: nothing registered
					default:
						info.Dynamic = append(info.Dynamic, fmt.Sprintf("%s: rpc.API.Service set from a value of static type %s", pos, x.Val.Type()))
					}
				case ssa.CallInstruction:
					cc := x.Common()
					if regName == nil || cc.IsInvoke() || cc.StaticCallee() != regName {
						continue
					}
					pos := e.prog.Fset.Position(x.Pos())
					info.Sites = append(info.Sites, fmt.Sprintf("%s (%s:%d)", fn.String(), shortFile(pos.Filename), pos.Line))
					if !inRepo {
						continue
					}
					if mi, ok := cc.Args[2].(*ssa.MakeInterface); ok {
						ns := "?"
						if c, ok := cc.Args[1].(*ssa.Const); ok && c.Value != nil {
							ns = strings.Trim(c.Value.ExactString(), "\"")
						}
						addReg(mi.X.Type(), ns, pos.String())
					}
					// a non-constant receiver is the api.Service field read back: covered by the Store scan
				}
			}
		}
	}
	sort.Strings(info.Sites)
	sort.Strings(info.Dynamic)
	sort.Slice(regs, func(i, j int) bool {
		if regs[i].T.String() != regs[j].T.String() {
			return regs[i].T.String() < regs[j].T.String()
		}
		return regs[i].NS < regs[j].NS
	})

	// ---- 2. exported methods
	for _, r := range regs {
		ms := types.NewMethodSet(r.T)
		var named *types.Named
		t := r.T
		if pt, ok := t.(*types.Pointer); ok {
			t = pt.Elem()
		}
		named, _ = t.(*types.Named)
		if named == nil || named.Obj().Pkg() == nil {
			info.Dynamic = append(info.Dynamic, "registered service of unnamed type "+r.T.String())
			continue
		}
		for i := 0; i < ms.Len(); i++ {
			sel := ms.At(i)
			f := sel.Obj().(*types.Func)
			if !f.Exported() {
				continue
			}
			m := &c18Method{Recv: r.T, PkgPath: named.Obj().Pkg().Path(), TypeName: named.Obj().Name(), NS: r.NS, Fn: f}
			m.RecvName = named.Obj().Pkg().Name() + "." + named.Obj().Name()
			m.SSA = e.prog.MethodValue(sel)
			info.Methods = append(info.Methods, m)
		}
	}

	// ---- 3. signing entry points: the Sign* methods of every type implementing
	// accounts.Wallet and of keystore.KeyStore (harness stubs included).
	targets := map[*ssa.Function]bool{}
	for fn := range allFns {
		if fn.Signature.Recv() == nil || !c18SignNames[fn.Name()] {
			continue
		}
		rt := fn.Signature.Recv().Type()
		base := rt
		if pt, ok := base.(*types.Pointer); ok {
			base = pt.Elem()
		}
		nm, ok := base.(*types.Named)
		if !ok || nm.Obj().Pkg() == nil {
			continue
		}
		isKS := nm.Obj().Pkg().Path() == ksPkg.Pkg.Path() && nm.Obj().Name() == "KeyStore"
		if isKS || types.Implements(rt, walletI) || types.Implements(types.NewPointer(base), walletI) {
			targets[fn] = true
		}
	}
	for fn := range targets {
		info.Targets = append(info.Targets, fn.String())
	}
	sort.Strings(info.Targets)
	if len(targets) == 0 {
		return nil, fmt.Errorf("c18 generator: no signing entry points found")
	}

	// ---- 3b. funnel check: inside the keystore package every function that
	// uses a private key to sign (static call of crypto.Sign / types.SignTx)
	// must be one of the entry points above.
	for fn := range allFns {
		if fn.Blocks == nil || fn.Pkg != ksPkg {
			continue
		}
		for _, b := range fn.Blocks {
			for _, in := range b.Instrs {
				ci, ok := in.(ssa.CallInstruction)
				if !ok {
					continue
				}
				cal := ci.Common().StaticCallee()
				if cal == nil || cal.Pkg == nil {
					continue
				}
				cp := cal.Pkg.Pkg.Path()
				if (cp == repoMod+"/crypto" && cal.Name() == "Sign") || (cp == repoMod+"/core/types" && cal.Name() == "SignTx") {
					owner := fn
					for owner.Parent() != nil {
						owner = owner.Parent()
					}
					if !targets[owner] {
						info.Dynamic = append(info.Dynamic, "keystore function "+fn.String()+" signs with a key but is not a known signing entry point")
					}
				}
			}
		}
	}
	// ---- 3c. the transport is recognised by the *name* of RegisterName's caller:
	// the only functions of the tree carrying one of the four names must be the node's start functions.
	for fn := range allFns {
		if fn.Pkg == nil || !strings.HasPrefix(fn.Pkg.Pkg.Path(), repoMod) {
			continue
		}
		switch fn.Name() {
		case "startInProc", "startIPC", "startHTTP", "startWS":
			rn, _ := runtimeFuncName(fn)
			if rn == repoMod+"/node.(*Node)."+fn.Name() || strings.HasPrefix(rn, repoMod+"/rpc.c18node.") {
				continue
			}
			info.Dynamic = append(info.Dynamic, "function "+fn.String()+" carries the name of a transport start function (RegisterName would treat its registrations as that transport)")
		}
	}

	// ---- 4. backward reachability over the CHA call graph
	tcg := time.Now()
	cg := cha.CallGraph(e.prog)
	if e.verbose {
		fmt.Fprintf(os.Stderr, "c18: CHA call graph %d nodes in %.1fs (load %.1fs)\n", len(cg.Nodes), time.Since(tcg).Seconds(), e.loadSecs)
	}
	// refine with VTA (sound modulo reflection and unsafe, given the sound CHA graph as the initial one)
	if os.Getenv("VERIF_C18_CHA_ONLY") == "" {
		tv := time.Now()
		cg = vta.CallGraph(allFns, cg)
		if e.verbose {
			fmt.Fprintf(os.Stderr, "c18: VTA call graph in %.1fs\n", time.Since(tv).Seconds())
		}
	}
	next := map[*ssa.Function]*ssa.Function{} // towards a target
	var queue []*ssa.Function
	for fn := range targets {
		next[fn] = nil
		queue = append(queue, fn)
	}
	sort.Slice(queue, func(i, j int) bool { return queue[i].String() < queue[j].String() })
	for len(queue) > 0 {
		fn := queue[0]
		queue = queue[1:]
		n := cg.Nodes[fn]
		if n == nil {
			continue
		}
		var callers []*ssa.Function
		for _, ed := range n.In {
			callers = append(callers, ed.Caller.Func)
		}
		sort.Slice(callers, func(i, j int) bool { return callers[i].String() < callers[j].String() })
		for _, c := range callers {
			if _, seen := next[c]; seen {
				continue
			}
			if c18CutCaller(c) {
				continue
			}
			next[c] = fn
			queue = append(queue, c)
		}
	}
	for _, m := range info.Methods {
		if m.SSA == nil {
			m.MaySign = true
			m.Witness = "no SSA body"
			continue
		}
		if _, ok := next[m.SSA]; ok {
			m.MaySign = true
			var chain []string
			for f := m.SSA; f != nil && len(chain) < 12; f = next[f] {
				chain = append(chain, f.String())
			}
			m.Witness = strings.Join(chain, " -> ")
		}
	}
	_ = callgraph.CalleesOf

	// ---- 5. registration order: walk Node.startRPC in instruction order, descending
	// into every callee that returns []rpc.API (static or resolved by the call graph).
	apiSlice := types.NewSlice(apiT.Type())
	returnsAPIs := func(f *ssa.Function) bool {
		r := f.Signature.Results()
		return f.Blocks != nil && r.Len() == 1 && types.Identical(r.At(0).Type(), apiSlice)
	}
	seenOrd := map[string]bool{}
	var walk func(f *ssa.Function, depth int)
	onStack := map[*ssa.Function]bool{}
	walk = func(f *ssa.Function, depth int) {
		if onStack[f] || depth > 8 {
			return
		}
		onStack[f] = true
		defer delete(onStack, f)
		node := cg.Nodes[f]
		for _, b := range f.Blocks {
			for _, in := range b.Instrs {
				if st, ok := in.(*ssa.Store); ok {
					if r, ok := svcStores[st]; ok {
						info.Order = append(info.Order, r)
						seenOrd[r.T.String()+"|"+r.NS] = true
					}
					continue
				}
				ci, ok := in.(ssa.CallInstruction)
				if !ok {
					continue
				}
				var callees []*ssa.Function
				if sc := ci.Common().StaticCallee(); sc != nil {
					callees = append(callees, sc)
				} else if node != nil {
					for _, ed := range node.Out {
						if ed.Site == ci {
							callees = append(callees, ed.Callee.Func)
						}
					}
					sort.Slice(callees, func(i, j int) bool { return callees[i].String() < callees[j].String() })
				}
				for _, c := range callees {
					if returnsAPIs(c) {
						walk(c, depth+1)
					}
				}
			}
		}
	}
	if np := e.pkgs[repoMod+"/node"]; np != nil && np.Type("Node") != nil {
		if root := e.prog.LookupMethod(types.NewPointer(np.Type("Node").Type()), np.Pkg, "startRPC"); root != nil && root.Blocks != nil {
			info.OrderSrc = root.String()
			walk(root, 0)
		}
	}
	if len(info.Order) == 0 {
		info.Dynamic = append(info.Dynamic, "cannot derive the registration order: (*node.Node).startRPC not found or registers nothing")
	}
	for _, r := range regs { // registered elsewhere (e.g. rpc.NewServer's own service): appended
		if !seenOrd[r.T.String()+"|"+r.NS] {
			info.Order = append(info.Order, c18Reg{r.T, r.NS})
		}
	}
	return info, nil
}

// c18CutCaller: callers through which static reachability is not propagated.
// Calls made through package reflect (rpc dispatch, event feeds) are resolved
// by CHA to reflect.Value.Call's own callees only; the rpc server's dispatch of
// *other* registered methods is not a way for a method to sign on its own
// (every method is checked as an entry point by itself).
func c18CutCaller(fn *ssa.Function) bool {
	return false
}

func shortFile(f string) string {
	if i := strings.LastIndex(f, "/"); i >= 0 {
		return f[i+1:]
	}
	return f
}

func c18Dump(info *c18Info) {
	fmt.Fprintf(os.Stderr, "c18: %d exported methods on registered services, %d signing entry points\n", len(info.Methods), len(info.Targets))
	for _, t := range info.Targets {
		fmt.Fprintln(os.Stderr, "  target", t)
	}
	for _, d := range info.Dynamic {
		fmt.Fprintln(os.Stderr, "  dynamic", d)
	}
	for _, s := range info.Sites {
		fmt.Fprintln(os.Stderr, "  RegisterName site", s)
	}
	types_ := map[string]int{}
	for _, m := range info.Methods {
		types_[m.NS+" "+m.Recv.String()]++
	}
	for _, k := range sortedStrKeys(types_) {
		fmt.Fprintf(os.Stderr, "  service %s (%d methods)\n", k, types_[k])
	}
	for _, m := range info.Methods {
		if m.MaySign {
			fmt.Fprintf(os.Stderr, "  candidate %s %s.%s: %s\n", m.NS, m.RecvName, m.Fn.Name(), m.Witness)
		}
	}
}

func init() { generators["rpcapi"] = c18Generate }

func c18Generate(e *Engine) (map[string][]byte, error) {
	info, err := c18Scan(e)
	if err != nil {
		return nil, err
	}
	if e.verbose {
		c18Dump(info)
	}
	return c18Emit(e, info)
}

// c18Mangle spells a parameter type as the suffix of the harness helper that
// produces a symbolic value of it (c18Arg_<suffix>), relative to package pkg.
func c18Mangle(t types.Type, pkg *types.Package) string {
	s := types.TypeString(t, func(p *types.Package) string {
		if p == pkg {
			return ""
		}
		return p.Name()
	})
	r := strings.NewReplacer("*", "ptr_", "[]", "slice_", ".", "_", "[", "arr", "]", "_", " ", "", "{", "", "}", "", "(", "", ")", "", ",", "_")
	return r.Replace(s)
}

func c18Emit(e *Engine, info *c18Info) (map[string][]byte, error) {
	files := map[string][]byte{}
	rpcSSA := e.pkgs[repoMod+"/rpc"]
	if rpcSSA.Pkg.Scope().Lookup("c18Methods") == nil {
		return nil, fmt.Errorf("c18 generator: package rpc does not declare c18Methods (harness file missing)")
	}

	// ---- call glue, per package that carries the static harness support (declares c18Cands)
	decided := map[*c18Method]bool{}
	byPkg := map[string][]*c18Method{}
	for _, m := range info.Methods {
		if m.MaySign {
			byPkg[m.PkgPath] = append(byPkg[m.PkgPath], m)
		}
	}
	typeMethods := map[string][]string{}
	for _, m := range info.Methods {
		k := m.PkgPath + "." + m.TypeName
		dup := false
		for _, n := range typeMethods[k] {
			if n == m.Fn.Name() {
				dup = true
			}
		}
		if !dup {
			typeMethods[k] = append(typeMethods[k], m.Fn.Name())
		}
	}
	var undet []string
	for _, pkgPath := range sortedStrKeys(byPkg) {
		sp := e.pkgs[pkgPath]
		scope := sp.Pkg.Scope()
		if scope.Lookup("c18Cands") == nil {
			for _, m := range byPkg[pkgPath] {
				undet = append(undet, fmt.Sprintf("%s.%s (no harness support in package %s)", m.RecvName, m.Fn.Name(), pkgPath))
			}
			continue
		}
		var sb strings.Builder
		fmt.Fprintf(&sb, "// Code generated by the gosym generator \"rpcapi\" from the current source tree; DO NOT EDIT.\n\npackage %s\n\nfunc init() {\n\tc18Cands = []c18Cand{\n", sp.Pkg.Name())
		seen := map[string]bool{}
		for _, m := range byPkg[pkgPath] {
			key := m.TypeName + "." + m.Fn.Name()
			recvFn := "c18Recv_" + m.TypeName
			if scope.Lookup(recvFn) == nil {
				undet = append(undet, fmt.Sprintf("%s.%s (no receiver constructor %s)", m.RecvName, m.Fn.Name(), recvFn))
				continue
			}
			sig := m.Fn.Type().(*types.Signature)
			var args []string
			ok := true
			if sig.Variadic() {
				ok = false
			}
			for i := 0; ok && i < sig.Params().Len(); i++ {
				h := "c18Arg_" + c18Mangle(sig.Params().At(i).Type(), sp.Pkg)
				if scope.Lookup(h) == nil {
					undet = append(undet, fmt.Sprintf("%s.%s (no argument constructor %s)", m.RecvName, m.Fn.Name(), h))
					ok = false
					break
				}
				args = append(args, fmt.Sprintf("%s(f, \"a%d\")", h, i))
			}
			if !ok {
				continue
			}
			decided[m] = true
			if seen[key+"|"+m.NS] {
				continue
			}
			seen[key+"|"+m.NS] = true
			fmt.Fprintf(&sb, "\t\t{NS: %q, Recv: %q, Name: %q, Methods: %#v,\n\t\t\tRun:  func(f *c18Fixture) { %s(f).%s(%s) },\n\t\t\tRcvr: func(f *c18Fixture) interface{} { return %s(f) }},\n",
				m.NS, m.TypeName, m.Fn.Name(), typeMethods[m.PkgPath+"."+m.TypeName], recvFn, m.Fn.Name(), strings.Join(args, ", "), recvFn)
		}
		sb.WriteString("\t}\n}\n")
		rel := strings.TrimPrefix(strings.TrimPrefix(pkgPath, repoMod), "/")
		files[rel+"/zz_verif_c18_gen.go"] = []byte(sb.String())
	}

	// ---- rpc: method table + dummy receiver types
	var sb strings.Builder
	sb.WriteString("// Code generated by the gosym generator \"rpcapi\" from the current source tree; DO NOT EDIT.\n\npackage rpc\n\n")
	names := map[string]bool{}
	for _, m := range info.Methods {
		names[m.Fn.Name()] = true
	}
	for _, n := range sortedStrKeys(names) {
		fmt.Fprintf(&sb, "type C18M_%s struct{}\n\nfunc (C18M_%s) %s() {}\n\n", n, n, n)
	}
	sb.WriteString("func init() {\n\tc18Methods = []C18Method{\n")
	for _, m := range info.Methods {
		fmt.Fprintf(&sb, "\t\t{NS: %q, Recv: %q, Name: %q, MaySign: %v, Decided: %v, Dummy: C18M_%s{}},\n", m.NS, m.RecvName, m.Fn.Name(), m.MaySign, decided[m], m.Fn.Name())
	}
	sb.WriteString("\t}\n")
	// registration sequence with one generated receiver type per real service type (all its exported method names)
	typeIdx := map[string]int{}
	var typeDecl strings.Builder
	sb.WriteString("\tc18Order = []C18Reg{\n")
	var ordNote []string
	for _, r := range info.Order {
		t := r.T
		if pt, ok := t.(*types.Pointer); ok {
			t = pt.Elem()
		}
		nm, ok := t.(*types.Named)
		if !ok || nm.Obj().Pkg() == nil {
			continue
		}
		key := nm.Obj().Pkg().Path() + "." + nm.Obj().Name()
		idx, ok := typeIdx[key]
		if !ok {
			idx = len(typeIdx)
			typeIdx[key] = idx
			fmt.Fprintf(&typeDecl, "// C18T_%d stands for %s\ntype C18T_%d struct{}\n\n", idx, key, idx)
			for _, n := range typeMethods[key] {
				fmt.Fprintf(&typeDecl, "func (C18T_%d) %s() {}\n", idx, n)
			}
			typeDecl.WriteString("\n")
		}
		if len(typeMethods[key]) == 0 {
			continue
		}
		recv := nm.Obj().Pkg().Name() + "." + nm.Obj().Name()
		fmt.Fprintf(&sb, "\t\t{NS: %q, Recv: %q, Names: %#v, Dummy: C18T_%d{}},\n", r.NS, recv, typeMethods[key], idx)
		ordNote = append(ordNote, r.NS+":"+recv)
	}
	sb.WriteString("\t}\n}\n\n")
	sb.WriteString(typeDecl.String())
	files["rpc/zz_verif_c18_gen.go"] = []byte(sb.String())

	sort.Strings(undet)
	c18Notes = nil
	for _, d := range info.Dynamic {
		c18Notes = append(c18Notes, "service with statically unknown receiver type: "+d)
	}
	for _, u := range undet {
		c18Notes = append(c18Notes, "undetermined, treated as signing-capable: "+u)
	}
	nMay := 0
	for _, m := range info.Methods {
		if m.MaySign {
			nMay++
		}
	}
	c18Notes = append(c18Notes, fmt.Sprintf("%d exported methods on %d registered service types; %d statically reach a signing entry point, %d of them decided by executing the body", len(info.Methods), len(typeMethods), nMay, len(decided)))
	c18Notes = append(c18Notes, "RegisterName call sites: "+strings.Join(info.Sites, "; "))
	c18Notes = append(c18Notes, "registration order (walk of "+info.OrderSrc+", others appended): "+strings.Join(ordNote, ", "))
	generatorNotes = append(generatorNotes[:0], c18Notes...)
	if e.verbose {
		for _, n := range c18Notes {
			fmt.Fprintln(os.Stderr, "c18:", n)
		}
	}
	if len(info.Dynamic) > 0 {
		return nil, fmt.Errorf("generator preconditions violated (unknown service receiver type, unlisted keystore signing function, or foreign function named like a start function): %v", info.Dynamic)
	}
	return files, nil
}

// c18Notes: generator findings that belong into the evidence (appended to the suite assumptions).
var c18Notes []string
