package main

import (
	"fmt"
	"go/types"
	"math/big"
	"strings"

	"golang.org/x/tools/go/ssa"
)

func (p *Path) zeroResultsOf(fn *ssa.Function) Value {
	if fn == nil {
		return nil
	}
	return p.zeroResults(fn)
}

func (e *Engine) makeOverride(name, spec string) (intrinsic, error) {
	switch {
	case spec == "inline" && strings.HasPrefix(name, "go:"):
		// marker consulted by goStmt: the goroutine body runs synchronously at the go statement
		return func(p *Path, fn *ssa.Function, a []Value) Value { return goInline{} }, nil
	case spec == "skip" && strings.HasPrefix(name, "go:"):
		// marker consulted by goStmt: the goroutine is not executed
		return func(p *Path, fn *ssa.Function, a []Value) Value { return nil }, nil
	case spec == "noop":
		return func(p *Path, fn *ssa.Function, a []Value) Value { return p.zeroResultsOf(fn) }, nil
	case spec == "opaque":
		return func(p *Path, fn *ssa.Function, a []Value) Value { return Opaque{name} }, nil
	case spec == "real":
		return func(p *Path, fn *ssa.Function, a []Value) Value { return p.callBody(fn, a) }, nil
	case strings.HasPrefix(spec, "before:"):
		// run a harness hook with the same arguments, then the real body
		target, err := e.findFunc(strings.TrimPrefix(spec, "before:"))
		if err != nil {
			return nil, fmt.Errorf("override %s: %v", name, err)
		}
		return func(p *Path, fn *ssa.Function, a []Value) Value {
			p.callFunction(target, a, nil)
			return p.callBody(fn, a)
		}, nil
	case strings.HasPrefix(spec, "redirect:"):
		target, err := e.findFunc(strings.TrimPrefix(spec, "redirect:"))
		if err != nil {
			return nil, fmt.Errorf("override %s: %v", name, err)
		}
		return func(p *Path, fn *ssa.Function, a []Value) Value { return p.callFunction(target, a, nil) }, nil
	case spec == "nondet":
		return func(p *Path, fn *ssa.Function, a []Value) Value {
			res := fn.Signature.Results()
			mk := func(t types.Type, i int) Value {
				nm := fmt.Sprintf("nd_%s_%d", fn.Name(), i)
				if w, _, ok := intInfo(t); ok {
					return p.newInput(nm, fmt.Sprintf("u%d", w), BV(w))
				}
				if b, ok := t.Underlying().(*types.Basic); ok && b.Info()&types.IsBoolean != 0 {
					return p.newInput(nm, "bool", BoolSort)
				}
				panic(p.abort("nondet override: unsupported result type " + t.String()))
			}
			if res.Len() == 1 {
				return mk(res.At(0).Type(), 0)
			}
			tv := make(TupleV, res.Len())
			for i := range tv {
				tv[i] = mk(res.At(i).Type(), i)
			}
			return tv
		}, nil
	}
	return nil, fmt.Errorf("override %s: unknown spec %q", name, spec)
}

// callBody executes a function's real body bypassing overrides/intrinsics.
func (p *Path) callBody(fn *ssa.Function, args []Value) Value {
	// path-local bypass (HarnessRun is shared between workers: never mutate it here)
	name := infoOf(fn).name
	if p.bypass == nil {
		p.bypass = map[string]int{}
	}
	p.bypass[name]++
	defer func() { p.bypass[name]-- }()
	return p.callFunction(fn, args, nil)
}

func (p *Path) strArg(v Value, what string) string {
	s, ok := v.(StrV)
	if !ok {
		panic(p.abort(what + ": expected concrete string, have " + describe(v)))
	}
	return string(s)
}

func (p *Path) intArg(v Value, what string) int {
	i, ok := constInt(v)
	if !ok {
		panic(p.abort(what + ": expected concrete int, have " + describe(v)))
	}
	return int(i)
}

func (p *Path) symBytes(name string, n int) SliceV {
	ts := make([]*Term, n)
	for i := range ts {
		ts[i] = p.newInput(fmt.Sprintf("%s[%d]", name, i), "u8", BV(8))
	}
	return p.termsToSlice(ts)
}

func (p *Path) namedChoice(name string, n int) int {
	k := p.inputSeen["choice:"+name]
	p.inputSeen["choice:"+name] = k + 1
	full := "choice:" + name
	if k > 0 {
		full = fmt.Sprintf("choice:%s#%d", name, k)
	}
	var c int
	if p.concreteChoices != nil {
		fmt.Sscan(p.concreteChoices[full], &c)
		if c < 0 || c >= n {
			c = 0
		}
	} else {
		c = p.choice(n)
	}
	p.choiceNames = append(p.choiceNames, full)
	p.choices = append(p.choices, c)
	return c
}

func (p *Path) makeError(msg string) Value {
	ep := p.eng.pkgs["errors"]
	if ep == nil {
		panic(p.abort("errors package not loaded"))
	}
	t := ep.Type("errorString").Type()
	o := p.newObject(&StructV{F: []Value{StrV(msg)}}, t)
	return IfaceV{T: types.NewPointer(t), V: Ptr{Obj: o}}
}

func init() {
	V := vsPkg + "."
	reg := func(name string, f intrinsic) { intrinsics[name] = f }
	scalar := func(fname, kind string, w int) {
		reg(V+fname, func(p *Path, fn *ssa.Function, a []Value) Value {
			return p.newInput(p.strArg(a[0], fname), kind, BV(w))
		})
	}
	scalar("U8", "u8", 8)
	scalar("U16", "u16", 16)
	scalar("U32", "u32", 32)
	scalar("U64", "u64", 64)
	scalar("I64", "i64", 64)
	scalar("Int", "i64", 64)
	reg(V+"Bool", func(p *Path, fn *ssa.Function, a []Value) Value {
		return p.newInput(p.strArg(a[0], "Bool"), "bool", BoolSort)
	})
	reg(V+"BytesN", func(p *Path, fn *ssa.Function, a []Value) Value {
		return p.symBytes(p.strArg(a[0], "BytesN"), p.intArg(a[1], "BytesN"))
	})
	reg(V+"Bytes", func(p *Path, fn *ssa.Function, a []Value) Value {
		name := p.strArg(a[0], "Bytes")
		n := p.namedChoice(name+".len", p.intArg(a[1], "Bytes")+1)
		return p.symBytes(name, n)
	})
	reg(V+"Big", func(p *Path, fn *ssa.Function, a []Value) Value {
		name := p.strArg(a[0], "Big")
		if p.bvMode() {
			return p.newBig(p.newInput(name, "big", BV(p.bigW())))
		}
		return p.newBig(p.newInput(name, "big", IntSort))
	})
	reg(V+"BigU", func(p *Path, fn *ssa.Function, a []Value) Value {
		name := p.strArg(a[0], "BigU")
		bits := p.intArg(a[1], "BigU")
		var t *Term
		if p.bvMode() {
			t = p.newInput(name, "big", BV(p.bigW()))
			if bits >= p.bigW()-1 {
				panic(p.abort("BigU wider than big width"))
			}
			if !t.IsConst() {
				p.assertPC(p.tt.ULt(t, BVConst(pow2(bits), p.bigW())))
				p.setNonneg(t)
			}
		} else {
			t = p.newInput(name, "big", IntSort)
			if !t.IsConst() {
				p.assertPC(p.tt.ILe(IConstI(0), t))
				p.assertPC(p.tt.ILt(t, IConst(pow2(bits))))
			}
		}
		p.setBound(t, bits)
		return p.newBig(t)
	})
	reg(V+"Choice", func(p *Path, fn *ssa.Function, a []Value) Value {
		return BVConstU(uint64(p.namedChoice(p.strArg(a[0], "Choice"), p.intArg(a[1], "Choice"))), 64)
	})
	reg(V+"Param", func(p *Path, fn *ssa.Function, a []Value) Value {
		name := p.strArg(a[0], "Param")
		v, ok := p.hr.h.cfg.Params[name]
		if !ok {
			panic(p.abort("suite does not define param " + name))
		}
		return BVConstI(int64(v), 64)
	})
	reg(V+"Assume", func(p *Path, fn *ssa.Function, a []Value) Value {
		p.assume(p.term(a[0], "Assume"))
		return nil
	})
	reg(V+"Assert", func(p *Path, fn *ssa.Function, a []Value) Value {
		p.obligation(p.term(a[0], "Assert"), p.strArg(a[1], "Assert label"))
		return nil
	})
	reg(V+"Reach", func(p *Path, fn *ssa.Function, a []Value) Value {
		p.hr.noteReach(p.strArg(a[0], "Reach"))
		return nil
	})
	reg(V+"Observe", func(p *Path, fn *ssa.Function, a []Value) Value {
		p.obs = append(p.obs, p.observe(p.strArg(a[0], "Observe"), a[1]))
		return nil
	})
	reg(V+"Known", func(p *Path, fn *ssa.Function, a []Value) Value {
		id := p.strArg(a[0], "Known id")
		if p.branch(p.term(a[1], "Known cond")) {
			p.known = id
		}
		return nil
	})
	reg(V+"Symbolic", func(p *Path, fn *ssa.Function, a []Value) Value { return TrueT })
	reg(V+"NoPanic", func(p *Path, fn *ssa.Function, a []Value) Value {
		cl := a[0].(*Closure)
		panicked := false
		nfr, depth := len(p.frames), p.depth
		func() {
			defer func() {
				if r := recover(); r != nil {
					if gp, ok := r.(*goPanic); ok {
						panicked = true
						p.lastPanic = gp
						p.frames = p.frames[:nfr]
						p.depth = depth
						return
					}
					panic(r)
				}
			}()
			var cur *frame
			if nfr > 0 {
				cur = p.frames[nfr-1]
			}
			p.callValue(cur, cl, nil, nil)
		}()
		return BoolT(panicked)
	})
	reg(V+"LastPanic", func(p *Path, fn *ssa.Function, a []Value) Value {
		if p.lastPanic == nil {
			return StrV("")
		}
		return StrV(p.lastPanic.msg)
	})
	// UF(name, outLen, args...) []byte : uninterpreted function of byte strings
	reg(V+"UF", func(p *Path, fn *ssa.Function, a []Value) Value {
		name := p.strArg(a[0], "UF name")
		outLen := p.intArg(a[1], "UF outLen")
		var all []*Term
		var lens []string
		for _, s := range p.sliceElems(a[2].(SliceV)) {
			bs := p.sliceBytes(s.(SliceV))
			lens = append(lens, fmt.Sprint(len(bs)))
			for _, b := range bs {
				all = append(all, p.eqFind(b)) // eqcanon.go: equal arguments give the same application term
			}
		}
		fname := fmt.Sprintf("uf_%s_%s_%d", name, strings.Join(lens, "_"), outLen)
		var r *Term
		if len(all) == 0 {
			r = p.tt.App(fname, BV(8*outLen))
		} else {
			var cat *Term
			for _, b := range all {
				if cat == nil {
					cat = b
				} else {
					cat = p.tt.Concat(cat, b)
				}
			}
			r = p.tt.App(fname, BV(8*outLen), cat)
		}
		p.hr.noteUF(fname)
		out := make([]*Term, outLen)
		for i := range out {
			out[i] = p.tt.Extract(r, 8*(outLen-1-i)+7, 8*(outLen-1-i))
		}
		return p.termsToSlice(out)
	})
	reg(V+"UFU64", func(p *Path, fn *ssa.Function, a []Value) Value {
		name := p.strArg(a[0], "UF name")
		var args []*Term
		for _, s := range p.sliceElems(a[1].(SliceV)) {
			args = append(args, s.(*Term))
		}
		fname := fmt.Sprintf("ufw_%s_%d", name, len(args))
		p.hr.noteUF(fname)
		return p.tt.App(fname, BV(64), args...)
	})
	reg(V+"BigEq", func(p *Path, fn *ssa.Function, a []Value) Value {
		return p.tt.Eq(p.bigLoad(a[0]), p.bigLoad(a[1]))
	})

	// --- sync (sequential model) ---
	lock := func(kind int) intrinsic {
		return func(p *Path, fn *ssa.Function, a []Value) Value {
			ptr := p.ptrOf(a[0])
			if ptr.Obj == nil {
				p.goPanicRuntime("invalid memory address or nil pointer dereference")
			}
			if p.lockHeld == nil {
				p.lockHeld = map[string]int{}
			}
			k := fmt.Sprintf("%p%v", ptr.Obj, ptr.Path)
			switch kind {
			case 0: // Lock
				if p.lockHeld[k] != 0 {
					panic(p.abort("sequential lock model: Lock of a held mutex (self-deadlock)"))
				}
				p.lockHeld[k] = -1
			case 1: // Unlock
				if p.lockHeld[k] != -1 {
					panic(&goPanic{msg: "sync: unlock of unlocked mutex", stack: p.where()})
				}
				delete(p.lockHeld, k)
			case 2: // RLock
				if p.lockHeld[k] < 0 {
					panic(p.abort("sequential lock model: RLock of a write-held mutex (self-deadlock)"))
				}
				p.lockHeld[k]++
			case 3: // RUnlock
				if p.lockHeld[k] <= 0 {
					panic(&goPanic{msg: "sync: RUnlock of unlocked RWMutex", stack: p.where()})
				}
				p.lockHeld[k]--
				if p.lockHeld[k] == 0 {
					delete(p.lockHeld, k)
				}
			}
			return nil
		}
	}
	reg("(*sync.Mutex).Lock", lock(0))
	reg("(*sync.Mutex).Unlock", lock(1))
	reg("(*sync.RWMutex).Lock", lock(0))
	reg("(*sync.RWMutex).Unlock", lock(1))
	reg("(*sync.RWMutex).RLock", lock(2))
	reg("(*sync.RWMutex).RUnlock", lock(3))
	reg("(*sync.WaitGroup).Add", func(p *Path, fn *ssa.Function, a []Value) Value { return nil })
	reg("(*sync.WaitGroup).Done", func(p *Path, fn *ssa.Function, a []Value) Value { return nil })
	reg("(*sync.WaitGroup).Wait", func(p *Path, fn *ssa.Function, a []Value) Value { return nil })
	reg("(*sync.Once).Do", func(p *Path, fn *ssa.Function, a []Value) Value {
		ptr := p.ptrOf(a[0])
		if p.onceDone == nil {
			p.onceDone = map[string]bool{}
		}
		k := fmt.Sprintf("%p%v", ptr.Obj, ptr.Path)
		if !p.onceDone[k] {
			p.onceDone[k] = true
			p.callValue(nil, a[1], nil, nil)
		}
		return nil
	})
	reg("(*sync.Pool).Get", func(p *Path, fn *ssa.Function, a []Value) Value {
		ptr := p.ptrOf(a[0])
		sv := (*p.slot(ptr)).(*StructV)
		// field "New" is the last field
		nf := sv.F[len(sv.F)-1]
		if cl, ok := nf.(*Closure); ok && cl != nil {
			return p.callValue(nil, cl, nil, nil)
		}
		return IfaceV{}
	})
	reg("(*sync.Pool).Put", func(p *Path, fn *ssa.Function, a []Value) Value { return nil })

	// --- sync/atomic ---
	for _, ty := range []string{"Int32", "Int64", "Uint32", "Uint64", "Uintptr", "Pointer"} {
		ty := ty
		reg("sync/atomic.Load"+ty, func(p *Path, fn *ssa.Function, a []Value) Value { return p.load(p.ptrOf(a[0])) })
		reg("sync/atomic.Store"+ty, func(p *Path, fn *ssa.Function, a []Value) Value { p.store(p.ptrOf(a[0]), a[1]); return nil })
		reg("sync/atomic.Swap"+ty, func(p *Path, fn *ssa.Function, a []Value) Value {
			old := p.load(p.ptrOf(a[0]))
			p.store(p.ptrOf(a[0]), a[1])
			return old
		})
		reg("sync/atomic.CompareAndSwap"+ty, func(p *Path, fn *ssa.Function, a []Value) Value {
			cur := p.load(p.ptrOf(a[0]))
			eq := p.eqValue(cur, a[1])
			if p.branch(eq) {
				p.store(p.ptrOf(a[0]), a[2])
				return TrueT
			}
			return FalseT
		})
		if ty != "Pointer" {
			reg("sync/atomic.Add"+ty, func(p *Path, fn *ssa.Function, a []Value) Value {
				n := p.tt.BVAdd(p.load(p.ptrOf(a[0])).(*Term), a[1].(*Term))
				p.store(p.ptrOf(a[0]), n)
				return n
			})
		}
	}
	reg("(*sync/atomic.Value).Load", func(p *Path, fn *ssa.Function, a []Value) Value {
		sv := (*p.slot(p.ptrOf(a[0]))).(*StructV)
		if iv, ok := sv.F[0].(IfaceV); ok {
			return iv
		}
		return IfaceV{}
	})
	reg("(*sync/atomic.Value).Store", func(p *Path, fn *ssa.Function, a []Value) Value {
		sv := (*p.slot(p.ptrOf(a[0]))).(*StructV)
		sv.F[0] = a[1]
		return nil
	})

	// --- fmt / errors / logging ---
	fmtStr := func(p *Path, fn *ssa.Function, a []Value) Value {
		if s, ok := a[0].(StrV); ok {
			return StrV("<fmt:" + string(s) + ">")
		}
		return StrV("<fmt>")
	}
	reg("fmt.Sprintf", fmtStr)
	reg("fmt.Sprint", func(p *Path, fn *ssa.Function, a []Value) Value { return StrV("<fmt>") })
	reg("fmt.Sprintln", func(p *Path, fn *ssa.Function, a []Value) Value { return StrV("<fmt>") })
	reg("fmt.Errorf", func(p *Path, fn *ssa.Function, a []Value) Value {
		s, _ := a[0].(StrV)
		return p.makeError("<fmt.Errorf:" + string(s) + ">")
	})
	for _, n := range []string{"fmt.Println", "fmt.Printf", "fmt.Print", "fmt.Fprintf", "fmt.Fprintln", "fmt.Fprint"} {
		reg(n, func(p *Path, fn *ssa.Function, a []Value) Value { return p.zeroResultsOf(fn) })
	}
	reg("runtime.SetFinalizer", func(p *Path, fn *ssa.Function, a []Value) Value { return nil })
	reg("runtime.Gosched", func(p *Path, fn *ssa.Function, a []Value) Value { return nil })
	reg("runtime.KeepAlive", func(p *Path, fn *ssa.Function, a []Value) Value { return nil })
	reg("os.Getenv", func(p *Path, fn *ssa.Function, a []Value) Value { return StrV("") })
	reg("os.LookupEnv", func(p *Path, fn *ssa.Function, a []Value) Value { return TupleV{StrV(""), FalseT} })

	// --- bytes ---
	reg("bytes.Equal", func(p *Path, fn *ssa.Function, a []Value) Value {
		x, y := a[0].(SliceV), a[1].(SliceV)
		return p.bytesEqual(x, y)
	})
	reg("crypto/subtle.ConstantTimeCompare", func(p *Path, fn *ssa.Function, a []Value) Value {
		x, y := a[0].(SliceV), a[1].(SliceV)
		return p.tt.Ite(p.bytesEqual(x, y), BVConstU(1, 64), BVConstU(0, 64))
	})
	reg("bytes.Compare", func(p *Path, fn *ssa.Function, a []Value) Value {
		xs, ys := p.sliceBytes(a[0].(SliceV)), p.sliceBytes(a[1].(SliceV))
		tt := p.tt
		// lexicographic
		var res *Term
		switch {
		case len(xs) < len(ys):
			res = BVConstI(-1, 64)
		case len(xs) > len(ys):
			res = BVConstU(1, 64)
		default:
			res = BVConstU(0, 64)
		}
		for i := min(len(xs), len(ys)) - 1; i >= 0; i-- {
			res = tt.Ite(tt.ULt(xs[i], ys[i]), BVConstI(-1, 64), tt.Ite(tt.ULt(ys[i], xs[i]), BVConstU(1, 64), res))
		}
		return res
	})
	reg("internal/bytealg.IndexByteString", func(p *Path, fn *ssa.Function, a []Value) Value {
		s := p.strArg(a[0], "IndexByteString")
		c, ok := constInt(a[1])
		if !ok {
			panic(p.abort("IndexByteString symbolic byte"))
		}
		return BVConstI(int64(strings.IndexByte(s, byte(c))), 64)
	})
	reg("internal/bytealg.IndexByte", func(p *Path, fn *ssa.Function, a []Value) Value {
		bs := p.sliceBytes(a[0].(SliceV))
		c := a[1].(*Term)
		res := BVConstI(-1, 64)
		for i := len(bs) - 1; i >= 0; i-- {
			res = p.tt.Ite(p.tt.Eq(bs[i], c), BVConstU(uint64(i), 64), res)
		}
		return res
	})
	reg("internal/bytealg.CountString", func(p *Path, fn *ssa.Function, a []Value) Value {
		s := p.strArg(a[0], "CountString")
		c, _ := constInt(a[1])
		return BVConstI(int64(strings.Count(s, string([]byte{byte(c)}))), 64)
	})
	reg("internal/bytealg.IndexString", func(p *Path, fn *ssa.Function, a []Value) Value {
		return BVConstI(int64(strings.Index(p.strArg(a[0], "IndexString"), p.strArg(a[1], "IndexString"))), 64)
	})
	reg("strings.Index", func(p *Path, fn *ssa.Function, a []Value) Value {
		return BVConstI(int64(strings.Index(p.strArg(a[0], "Index"), p.strArg(a[1], "Index"))), 64)
	})
	reg("strings.ToLower", func(p *Path, fn *ssa.Function, a []Value) Value {
		return StrV(strings.ToLower(p.strArg(a[0], "ToLower")))
	})
	reg("strings.ToUpper", func(p *Path, fn *ssa.Function, a []Value) Value {
		return StrV(strings.ToUpper(p.strArg(a[0], "ToUpper")))
	})
	reg("strings.Contains", func(p *Path, fn *ssa.Function, a []Value) Value {
		return BoolT(strings.Contains(p.strArg(a[0], "Contains"), p.strArg(a[1], "Contains")))
	})
	reg("strings.HasPrefix", func(p *Path, fn *ssa.Function, a []Value) Value {
		return BoolT(strings.HasPrefix(p.strArg(a[0], "HasPrefix"), p.strArg(a[1], "HasPrefix")))
	})
	reg("strings.HasSuffix", func(p *Path, fn *ssa.Function, a []Value) Value {
		return BoolT(strings.HasSuffix(p.strArg(a[0], "HasSuffix"), p.strArg(a[1], "HasSuffix")))
	})
	reg("time.Now", func(p *Path, fn *ssa.Function, a []Value) Value { return p.zeroResultsOf(fn) })
	reg("time.Since", func(p *Path, fn *ssa.Function, a []Value) Value { return BVConstU(0, 64) })
}

func (p *Path) bytesEqual(x, y SliceV) *Term {
	tt := p.tt
	if x.Len.IsConst() && y.Len.IsConst() {
		if x.Len.Int64() != y.Len.Int64() {
			return FalseT
		}
	} else {
		// fork on length equality, then concretize
		if !p.branch(tt.Eq(x.Len, y.Len)) {
			return FalseT
		}
	}
	xs, ys := p.sliceBytes(x), p.sliceBytes(y)
	if len(xs) != len(ys) {
		return FalseT
	}
	r := TrueT
	for i := range xs {
		r = tt.And(r, tt.Eq(xs[i], ys[i]))
	}
	return r
}

func (p *Path) observeString(v Value) string {
	iv, ok := v.(IfaceV)
	if ok {
		v = iv.V
	}
	switch x := v.(type) {
	case *Term:
		if x.IsConst() {
			if x.S.K == SBool {
				return fmt.Sprint(x.IsTrue())
			}
			if ok && iv.T != nil {
				if _, signed, isInt := intInfo(iv.T); isInt && signed {
					return x.Signed().String()
				}
			}
			return x.Val.String()
		}
		return "<sym>"
	case StrV:
		return string(x)
	case SliceV:
		if x.Arr.Obj == nil {
			return "[]"
		}
		var sb strings.Builder
		sb.WriteString("[")
		for i, e := range p.sliceElems(x) {
			if i > 0 {
				sb.WriteString(" ")
			}
			sb.WriteString(p.observeString(e))
		}
		sb.WriteString("]")
		return sb.String()
	case Ptr:
		if x.Obj == nil {
			return "<nil>"
		}
		if x.Obj.T != nil && isBigIntUnder(x.Obj.T) {
			t := p.bigTerm(p.load(x))
			if t.IsConst() {
				return t.Signed().String()
			}
			return "<sym>"
		}
		return "<ptr>"
	case *ArrayV:
		var sb strings.Builder
		sb.WriteString("[")
		for i, e := range x.E {
			if i > 0 {
				sb.WriteString(" ")
			}
			sb.WriteString(p.observeString(e))
		}
		sb.WriteString("]")
		return sb.String()
	case IfaceV:
		if x.T == nil {
			return "<nil>"
		}
		return "<iface>"
	}
	return describe(v)
}

var _ = big.NewInt

func (p *Path) observe(label string, v Value) obsRec {
	iv, isIface := v.(IfaceV)
	var T types.Type
	if isIface {
		if iv.T == nil {
			return obsRec{label: label, render: func([]*big.Int) string { return "<nil>" }}
		}
		v, T = iv.V, iv.T
	}
	constStr := func(s string) obsRec {
		return obsRec{label: label, render: func([]*big.Int) string { return s }}
	}
	switch x := v.(type) {
	case *Term:
		signed := false
		if T != nil {
			_, signed, _ = intInfo(T)
		}
		w := x.S.W
		return obsRec{label: label, terms: []*Term{x}, render: func(vs []*big.Int) string {
			if x.S.K == SBV && signed {
				n := normBV(vs[0], w)
				if n.Bit(w-1) == 1 {
					n.Sub(n, pow2(w))
				}
				return n.String()
			}
			if x.S.K == SBV {
				return normBV(vs[0], w).String()
			}
			return vs[0].String()
		}}
	case StrV:
		return constStr(string(x))
	case SliceV:
		if x.Arr.Obj == nil && x.Len.IsConst() && x.Len.Int64() == 0 {
			return constStr("[]")
		}
		bs := p.sliceBytes(x)
		return obsRec{label: label, terms: bs, render: func(vs []*big.Int) string {
			var sb strings.Builder
			sb.WriteString("[")
			for i, b := range vs {
				if i > 0 {
					sb.WriteString(" ")
				}
				sb.WriteString(normBV(b, 8).String())
			}
			sb.WriteString("]")
			return sb.String()
		}}
	case Ptr:
		if x.Obj == nil {
			return constStr("<nil>")
		}
		if T != nil {
			if pt, ok := T.Underlying().(*types.Pointer); ok && isBigIntUnder(pt.Elem()) {
				t := p.bigTerm(p.load(x))
				w := t.S.W
				return obsRec{label: label, terms: []*Term{t}, render: func(vs []*big.Int) string {
					if t.S.K == SBV {
						n := normBV(vs[0], w)
						if n.Bit(w-1) == 1 {
							n.Sub(n, pow2(w))
						}
						return n.String()
					}
					return vs[0].String()
				}}
			}
			if types.Implements(T, errorIface) {
				return constStr("<err>")
			}
		}
		return constStr("<ptr>")
	}
	if T != nil && types.Implements(T, errorIface) {
		return constStr("<err>")
	}
	return constStr("<" + describe(v) + ">")
}

var errorIface = types.Universe.Lookup("error").Type().Underlying().(*types.Interface)
