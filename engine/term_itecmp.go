package main

// Comparison of an ite-tree with constant leaves against a constant, e.g.
// big.Int Sign()/Cmp() results "ite(x<0,-1,ite(x=0,0,1)) < 0": distribute the
// comparison over the leaves so that the query is stated over the conditions
// (exact rewrite; keeps 64-bit encodings of three-valued results out of the
// solver, which matters when bit-vectors are mixed with nonlinear integers).

func (tt *TermTable) cmpIteConst(op Op, a, b *Term) *Term {
	if a.IsConst() == b.IsConst() {
		return nil
	}
	tree, treeLeft := a, true
	if a.IsConst() {
		tree, treeLeft = b, false
	}
	if tree.Op != OpIte {
		return nil
	}
	var rec func(t *Term, d int) *Term
	rec = func(t *Term, d int) *Term {
		if t.IsConst() {
			if op == OpEq {
				if treeLeft {
					return BoolT(t.Val.Cmp(b.Val) == 0)
				}
				return BoolT(t.Val.Cmp(a.Val) == 0)
			}
			if treeLeft {
				return tt.bvCmp(op, t, b)
			}
			return tt.bvCmp(op, a, t)
		}
		if t.Op != OpIte || d == 0 {
			return nil
		}
		x := rec(t.Args[1], d-1)
		if x == nil {
			return nil
		}
		y := rec(t.Args[2], d-1)
		if y == nil {
			return nil
		}
		return tt.Ite(t.Args[0], x, y)
	}
	return rec(tree, 4)
}
