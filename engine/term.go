package main

// Term DAG for the symbolic executor: Bool, BitVec(w), Int sorts, uninterpreted
// function applications, constant folding and light simplification, SMT-LIB2
// printing with one define-fun per shared node.

import (
	"fmt"
	"math/big"
	"strconv"
	"strings"
	"sync/atomic"
)

type SortKind uint8

const (
	SBool SortKind = iota
	SBV
	SInt
)

type Sort struct {
	K SortKind
	W int
}

func (s Sort) String() string {
	switch s.K {
	case SBool:
		return "Bool"
	case SBV:
		return "(_ BitVec " + strconv.Itoa(s.W) + ")"
	}
	return "Int"
}

var BoolSort = Sort{SBool, 0}
var IntSort = Sort{SInt, 0}

func BV(w int) Sort { return Sort{SBV, w} }

type Op uint8

const (
	OpConst Op = iota
	OpVar
	OpApp // uninterpreted function application; Name = function
	OpNot
	OpAnd
	OpOr
	OpIte
	OpEq
	OpBVAdd
	OpBVSub
	OpBVMul
	OpBVUDiv
	OpBVURem
	OpBVSDiv
	OpBVSRem
	OpBVAnd
	OpBVOr
	OpBVXor
	OpBVNot
	OpBVNeg
	OpBVShl
	OpBVLShr
	OpBVAShr
	OpBVULt
	OpBVULe
	OpBVSLt
	OpBVSLe
	OpConcat
	OpExtract // P1=hi P2=lo
	OpZExt    // P1=extra bits
	OpSExt
	OpIAdd
	OpISub
	OpIMul
	OpIDiv // SMT div (Euclidean-ish: floor for positive divisor)
	OpIMod
	OpINeg
	OpILe
	OpILt
	OpBV2Nat
	OpInt2BV // P1 = width
)

var opNames = map[Op]string{
	OpNot: "not", OpAnd: "and", OpOr: "or", OpIte: "ite", OpEq: "=",
	OpBVAdd: "bvadd", OpBVSub: "bvsub", OpBVMul: "bvmul", OpBVUDiv: "bvudiv", OpBVURem: "bvurem",
	OpBVSDiv: "bvsdiv", OpBVSRem: "bvsrem", OpBVAnd: "bvand", OpBVOr: "bvor", OpBVXor: "bvxor",
	OpBVNot: "bvnot", OpBVNeg: "bvneg", OpBVShl: "bvshl", OpBVLShr: "bvlshr", OpBVAShr: "bvashr",
	OpBVULt: "bvult", OpBVULe: "bvule", OpBVSLt: "bvslt", OpBVSLe: "bvsle", OpConcat: "concat",
	OpIAdd: "+", OpISub: "-", OpIMul: "*", OpIDiv: "div", OpIMod: "mod", OpINeg: "-", OpILe: "<=", OpILt: "<",
	OpBV2Nat: "bv2nat",
}

type Term struct {
	Op   Op
	S    Sort
	Args []*Term
	Val  *big.Int // constants: Bool (0/1), BV (unsigned canonical), Int
	Name string   // var / UF name
	P1   int
	P2   int
	ID   uint64
	Dom  []Sort // for OpApp: domain (for declaration)
}

var termCounter uint64

func newID() uint64 { return atomic.AddUint64(&termCounter, 1) }

var (
	bigZero = big.NewInt(0)
	bigOne  = big.NewInt(1)
)

var TrueT = &Term{Op: OpConst, S: BoolSort, Val: bigOne, ID: newID()}
var FalseT = &Term{Op: OpConst, S: BoolSort, Val: bigZero, ID: newID()}

func BoolT(b bool) *Term {
	if b {
		return TrueT
	}
	return FalseT
}

func (t *Term) IsConst() bool { return t.Op == OpConst }
func (t *Term) IsTrue() bool  { return t.Op == OpConst && t.S.K == SBool && t.Val.Sign() != 0 }
func (t *Term) IsFalse() bool { return t.Op == OpConst && t.S.K == SBool && t.Val.Sign() == 0 }

func mask(w int) *big.Int {
	m := new(big.Int).Lsh(bigOne, uint(w))
	return m.Sub(m, bigOne)
}

func normBV(v *big.Int, w int) *big.Int {
	r := new(big.Int).And(v, mask(w)) // big.Int And on negative = two's complement semantics
	return r
}

// small cache of constants
var bvConstCache [65][256]*Term

func BVConst(v *big.Int, w int) *Term {
	n := normBV(v, w)
	return &Term{Op: OpConst, S: BV(w), Val: n, ID: newID()}
}

func BVConstU(v uint64, w int) *Term {
	if w <= 64 && v < 256 {
		if t := bvConstCache[w][v]; t != nil {
			return t
		}
		t := &Term{Op: OpConst, S: BV(w), Val: new(big.Int).SetUint64(v), ID: newID()}
		if w < 64 {
			t.Val = normBV(t.Val, w)
		}
		bvConstCache[w][v] = t // benign race: any instance is fine
		return t
	}
	return BVConst(new(big.Int).SetUint64(v), w)
}

func BVConstI(v int64, w int) *Term { return BVConst(big.NewInt(v), w) }

func IConst(v *big.Int) *Term {
	return &Term{Op: OpConst, S: IntSort, Val: new(big.Int).Set(v), ID: newID()}
}
func IConstI(v int64) *Term { return IConst(big.NewInt(v)) }

// signed value of a BV constant
func (t *Term) Signed() *big.Int {
	if t.S.K != SBV {
		return t.Val
	}
	if t.Val.Bit(t.S.W-1) == 1 {
		return new(big.Int).Sub(t.Val, new(big.Int).Lsh(bigOne, uint(t.S.W)))
	}
	return t.Val
}

func (t *Term) Uint64() uint64 { return t.Val.Uint64() }
func (t *Term) Int64() int64   { return t.Signed().Int64() }

// TermTable: per-path hash-consing of non-constant terms.
type TermTable struct {
	m   map[string]*Term
	rng map[*Term]uRange // memo of termrange.go
}

func NewTermTable() *TermTable { return &TermTable{m: make(map[string]*Term, 1024)} }

func termKey(op Op, s Sort, p1, p2 int, name string, args []*Term) string {
	var sb strings.Builder
	sb.Grow(32 + 12*len(args))
	sb.WriteByte(byte(op))
	sb.WriteByte(byte(s.K))
	sb.WriteString(strconv.Itoa(s.W))
	sb.WriteByte(',')
	sb.WriteString(strconv.Itoa(p1))
	sb.WriteByte(',')
	sb.WriteString(strconv.Itoa(p2))
	sb.WriteByte(',')
	sb.WriteString(name)
	for _, a := range args {
		sb.WriteByte(';')
		if a.Op == OpConst {
			sb.WriteByte('c')
			sb.WriteByte(byte(a.S.K))
			sb.WriteString(strconv.Itoa(a.S.W))
			sb.WriteByte(':')
			sb.WriteString(a.Val.Text(16))
		} else {
			sb.WriteString(strconv.FormatUint(a.ID, 36))
		}
	}
	return sb.String()
}

func (tt *TermTable) mk(op Op, s Sort, p1, p2 int, name string, args ...*Term) *Term {
	k := termKey(op, s, p1, p2, name, args)
	if t, ok := tt.m[k]; ok {
		return t
	}
	t := &Term{Op: op, S: s, Args: args, P1: p1, P2: p2, Name: name, ID: newID()}
	tt.m[k] = t
	return t
}

func sameTerm(a, b *Term) bool {
	if a == b {
		return true
	}
	if a.Op == OpConst && b.Op == OpConst && a.S == b.S {
		return a.Val.Cmp(b.Val) == 0
	}
	return false
}

func (tt *TermTable) Var(name string, s Sort) *Term { return tt.mk(OpVar, s, 0, 0, name) }

func (tt *TermTable) App(name string, ret Sort, args ...*Term) *Term {
	t := tt.mk(OpApp, ret, 0, 0, name, args...)
	if t.Dom == nil {
		for _, a := range args {
			t.Dom = append(t.Dom, a.S)
		}
	}
	return t
}

// ---------- Bool ----------

func (tt *TermTable) Not(a *Term) *Term {
	if a.IsConst() {
		return BoolT(a.Val.Sign() == 0)
	}
	if a.Op == OpNot {
		return a.Args[0]
	}
	return tt.mk(OpNot, BoolSort, 0, 0, "", a)
}

func (tt *TermTable) And(a, b *Term) *Term {
	if a.IsConst() {
		if a.IsTrue() {
			return b
		}
		return FalseT
	}
	if b.IsConst() {
		if b.IsTrue() {
			return a
		}
		return FalseT
	}
	if a == b {
		return a
	}
	return tt.mk(OpAnd, BoolSort, 0, 0, "", a, b)
}

func (tt *TermTable) Or(a, b *Term) *Term {
	if a.IsConst() {
		if a.IsTrue() {
			return TrueT
		}
		return b
	}
	if b.IsConst() {
		if b.IsTrue() {
			return TrueT
		}
		return a
	}
	if a == b {
		return a
	}
	return tt.mk(OpOr, BoolSort, 0, 0, "", a, b)
}

func (tt *TermTable) Implies(a, b *Term) *Term { return tt.Or(tt.Not(a), b) }

func (tt *TermTable) AndN(ts ...*Term) *Term {
	r := TrueT
	for _, t := range ts {
		r = tt.And(r, t)
	}
	return r
}

func (tt *TermTable) Ite(c, a, b *Term) *Term {
	if c.IsConst() {
		if c.IsTrue() {
			return a
		}
		return b
	}
	if sameTerm(a, b) {
		return a
	}
	if a.S.K == SBool {
		if a.IsConst() && b.IsConst() {
			if a.IsTrue() {
				return c
			}
			return tt.Not(c)
		}
		if a.IsTrue() {
			return tt.Or(c, b)
		}
		if a.IsFalse() {
			return tt.And(tt.Not(c), b)
		}
		if b.IsTrue() {
			return tt.Or(tt.Not(c), a)
		}
		if b.IsFalse() {
			return tt.And(c, a)
		}
	}
	return tt.mk(OpIte, a.S, 0, 0, "", c, a, b)
}

func (tt *TermTable) Eq(a, b *Term) *Term {
	if a.S != b.S {
		panic(fmt.Sprintf("Eq sort mismatch %v %v", a.S, b.S))
	}
	if a.IsConst() && b.IsConst() {
		return BoolT(a.Val.Cmp(b.Val) == 0)
	}
	if a == b {
		return TrueT
	}
	if a.S.K == SBool {
		if a.IsConst() {
			if a.IsTrue() {
				return b
			}
			return tt.Not(b)
		}
		if b.IsConst() {
			if b.IsTrue() {
				return a
			}
			return tt.Not(a)
		}
	}
	// (ite c k1 k2) == k  simplification
	if b.IsConst() && a.Op == OpIte && a.Args[1].IsConst() && a.Args[2].IsConst() {
		e1 := a.Args[1].Val.Cmp(b.Val) == 0
		e2 := a.Args[2].Val.Cmp(b.Val) == 0
		switch {
		case e1 && e2:
			return TrueT
		case e1:
			return a.Args[0]
		case e2:
			return tt.Not(a.Args[0])
		default:
			return FalseT
		}
	}
	if a.S.K == SBV {
		if r := tt.cmpIteConst(OpEq, a, b); r != nil { // nested ite-tree of constants vs constant
			return r
		}
	}
	if a.ID > b.ID && !b.IsConst() {
		a, b = b, a
	}
	return tt.mk(OpEq, BoolSort, 0, 0, "", a, b)
}

// ---------- BV ----------

func (tt *TermTable) bvBin(op Op, a, b *Term) *Term {
	if a.S != b.S || a.S.K != SBV {
		panic(fmt.Sprintf("bv binop %v sort mismatch %v %v", opNames[op], a.S, b.S))
	}
	w := a.S.W
	if a.IsConst() && b.IsConst() {
		x, y := a.Val, b.Val
		r := new(big.Int)
		switch op {
		case OpBVAdd:
			r.Add(x, y)
		case OpBVSub:
			r.Sub(x, y)
		case OpBVMul:
			r.Mul(x, y)
		case OpBVUDiv:
			if y.Sign() == 0 {
				r.Set(mask(w))
			} else {
				r.Quo(x, y)
			}
		case OpBVURem:
			if y.Sign() == 0 {
				r.Set(x)
			} else {
				r.Rem(x, y)
			}
		case OpBVSDiv:
			sx, sy := a.Signed(), b.Signed()
			if sy.Sign() == 0 {
				if sx.Sign() >= 0 {
					r.Set(mask(w))
				} else {
					r.SetInt64(1)
				}
			} else {
				r.Quo(sx, sy)
			}
		case OpBVSRem:
			sx, sy := a.Signed(), b.Signed()
			if sy.Sign() == 0 {
				r.Set(sx)
			} else {
				r.Rem(sx, sy)
			}
		case OpBVAnd:
			r.And(x, y)
		case OpBVOr:
			r.Or(x, y)
		case OpBVXor:
			r.Xor(x, y)
		case OpBVShl:
			if y.Cmp(big.NewInt(int64(w))) >= 0 {
				r.SetInt64(0)
			} else {
				r.Lsh(x, uint(y.Uint64()))
			}
		case OpBVLShr:
			if y.Cmp(big.NewInt(int64(w))) >= 0 {
				r.SetInt64(0)
			} else {
				r.Rsh(x, uint(y.Uint64()))
			}
		case OpBVAShr:
			sx := a.Signed()
			if y.Cmp(big.NewInt(int64(w))) >= 0 {
				if sx.Sign() < 0 {
					r.SetInt64(-1)
				} else {
					r.SetInt64(0)
				}
			} else {
				r.Rsh(sx, uint(y.Uint64()))
			}
		}
		return BVConst(r, w)
	}
	// identities
	switch op {
	case OpBVAdd:
		if a.IsConst() && a.Val.Sign() == 0 {
			return b
		}
		if b.IsConst() && b.Val.Sign() == 0 {
			return a
		}
		if a.IsConst() { // canonical: const on right
			a, b = b, a
		}
		// (x + c1) + c2
		if b.IsConst() && a.Op == OpBVAdd && a.Args[1].IsConst() {
			return tt.bvBin(OpBVAdd, a.Args[0], BVConst(new(big.Int).Add(a.Args[1].Val, b.Val), w))
		}
	case OpBVSub:
		if b.IsConst() && b.Val.Sign() == 0 {
			return a
		}
		if a == b {
			return BVConstU(0, w)
		}
		if b.IsConst() {
			return tt.bvBin(OpBVAdd, a, BVConst(new(big.Int).Neg(b.Val), w))
		}
	case OpBVMul:
		if a.IsConst() {
			a, b = b, a
		}
		if b.IsConst() {
			if b.Val.Sign() == 0 {
				return b
			}
			if b.Val.Cmp(bigOne) == 0 {
				return a
			}
		}
	case OpBVAnd:
		if a.IsConst() {
			a, b = b, a
		}
		if b.IsConst() {
			if b.Val.Sign() == 0 {
				return b
			}
			if b.Val.Cmp(mask(w)) == 0 {
				return a
			}
		}
		if a == b {
			return a
		}
		// absorption: (.. | b | ..) & b = b
		if a.Op == OpBVOr || b.Op == OpBVOr {
			budget := 4096
			if a.Op == OpBVOr && orContains(a, b, &budget) {
				return b
			}
			if b.Op == OpBVOr && orContains(b, a, &budget) {
				return a
			}
		}
	case OpBVOr:
		if a.IsConst() {
			a, b = b, a
		}
		if b.IsConst() {
			if b.Val.Sign() == 0 {
				return a
			}
			if b.Val.Cmp(mask(w)) == 0 {
				return b
			}
		}
		if a == b {
			return a
		}
	case OpBVXor:
		if a.IsConst() {
			a, b = b, a
		}
		if b.IsConst() && b.Val.Sign() == 0 {
			return a
		}
		if a == b {
			return BVConstU(0, w)
		}
	case OpBVShl, OpBVLShr, OpBVAShr:
		if b.IsConst() && b.Val.Sign() == 0 {
			return a
		}
		if a.IsConst() && a.Val.Sign() == 0 {
			return a
		}
	case OpBVUDiv:
		if b.IsConst() && b.Val.Cmp(bigOne) == 0 {
			return a
		}
	}
	return tt.mk(op, a.S, 0, 0, "", a, b)
}

func (tt *TermTable) BVAdd(a, b *Term) *Term  { return tt.bvBin(OpBVAdd, a, b) }
func (tt *TermTable) BVSub(a, b *Term) *Term  { return tt.bvBin(OpBVSub, a, b) }
func (tt *TermTable) BVMul(a, b *Term) *Term  { return tt.bvBin(OpBVMul, a, b) }
func (tt *TermTable) BVUDiv(a, b *Term) *Term { return tt.bvBin(OpBVUDiv, a, b) }
func (tt *TermTable) BVURem(a, b *Term) *Term { return tt.bvBin(OpBVURem, a, b) }
func (tt *TermTable) BVSDiv(a, b *Term) *Term { return tt.bvBin(OpBVSDiv, a, b) }
func (tt *TermTable) BVSRem(a, b *Term) *Term { return tt.bvBin(OpBVSRem, a, b) }
func (tt *TermTable) BVAnd(a, b *Term) *Term  { return tt.bvBin(OpBVAnd, a, b) }
func (tt *TermTable) BVOr(a, b *Term) *Term   { return tt.bvBin(OpBVOr, a, b) }
func (tt *TermTable) BVXor(a, b *Term) *Term  { return tt.bvBin(OpBVXor, a, b) }
func (tt *TermTable) BVShl(a, b *Term) *Term  { return tt.bvBin(OpBVShl, a, b) }
func (tt *TermTable) BVLShr(a, b *Term) *Term { return tt.bvBin(OpBVLShr, a, b) }
func (tt *TermTable) BVAShr(a, b *Term) *Term { return tt.bvBin(OpBVAShr, a, b) }

func (tt *TermTable) BVNot(a *Term) *Term {
	if a.IsConst() {
		return BVConst(new(big.Int).Xor(a.Val, mask(a.S.W)), a.S.W)
	}
	if a.Op == OpBVNot {
		return a.Args[0]
	}
	return tt.mk(OpBVNot, a.S, 0, 0, "", a)
}

func (tt *TermTable) BVNeg(a *Term) *Term {
	if a.IsConst() {
		return BVConst(new(big.Int).Neg(a.Val), a.S.W)
	}
	return tt.mk(OpBVNeg, a.S, 0, 0, "", a)
}

func (tt *TermTable) bvCmp(op Op, a, b *Term) *Term {
	if a.S != b.S || a.S.K != SBV {
		panic(fmt.Sprintf("bv cmp %v sort mismatch %v %v", opNames[op], a.S, b.S))
	}
	if a.IsConst() && b.IsConst() {
		switch op {
		case OpBVULt:
			return BoolT(a.Val.Cmp(b.Val) < 0)
		case OpBVULe:
			return BoolT(a.Val.Cmp(b.Val) <= 0)
		case OpBVSLt:
			return BoolT(a.Signed().Cmp(b.Signed()) < 0)
		case OpBVSLe:
			return BoolT(a.Signed().Cmp(b.Signed()) <= 0)
		}
	}
	if a == b {
		return BoolT(op == OpBVULe || op == OpBVSLe)
	}
	switch op {
	case OpBVULt:
		if b.IsConst() && b.Val.Sign() == 0 {
			return FalseT
		}
		// zext(x) < c where c > max(x)
		if b.IsConst() && a.Op == OpZExt && b.Val.BitLen() > a.Args[0].S.W {
			return TrueT
		}
	case OpBVULe:
		if a.IsConst() && a.Val.Sign() == 0 {
			return TrueT
		}
		if b.IsConst() && b.Val.Cmp(mask(b.S.W)) == 0 {
			return TrueT
		}
		if b.IsConst() && a.Op == OpZExt && b.Val.BitLen() > a.Args[0].S.W {
			return TrueT
		}
	}
	if r := tt.cmpWide(op, a, b); r != nil { // sign/magnitude facts of wide terms, termwide.go
		return r
	}
	if r := tt.cmpIteConst(op, a, b); r != nil { // ite-tree of constants vs constant, term_itecmp.go
		return r
	}
	if r := tt.cmpByRange(op, a, b); r != nil { // interval analysis, termrange.go
		return r
	}
	return tt.mk(op, BoolSort, 0, 0, "", a, b)
}

func (tt *TermTable) ULt(a, b *Term) *Term { return tt.bvCmp(OpBVULt, a, b) }
func (tt *TermTable) ULe(a, b *Term) *Term { return tt.bvCmp(OpBVULe, a, b) }
func (tt *TermTable) SLt(a, b *Term) *Term { return tt.bvCmp(OpBVSLt, a, b) }
func (tt *TermTable) SLe(a, b *Term) *Term { return tt.bvCmp(OpBVSLe, a, b) }

func (tt *TermTable) Concat(hi, lo *Term) *Term {
	w := hi.S.W + lo.S.W
	if hi.IsConst() && lo.IsConst() {
		r := new(big.Int).Lsh(hi.Val, uint(lo.S.W))
		r.Or(r, lo.Val)
		return BVConst(r, w)
	}
	// adjacent extracts of the same term
	if hi.Op == OpExtract && lo.Op == OpExtract && hi.Args[0] == lo.Args[0] && hi.P2 == lo.P1+1 {
		return tt.Extract(hi.Args[0], hi.P1, lo.P2)
	}
	return tt.mk(OpConcat, BV(w), 0, 0, "", hi, lo)
}

func (tt *TermTable) Extract(a *Term, hi, lo int) *Term {
	if hi < lo || hi >= a.S.W || lo < 0 {
		panic(fmt.Sprintf("bad extract %d %d of %v", hi, lo, a.S))
	}
	w := hi - lo + 1
	if w == a.S.W {
		return a
	}
	if a.IsConst() {
		r := new(big.Int).Rsh(a.Val, uint(lo))
		return BVConst(r, w)
	}
	switch a.Op {
	case OpExtract:
		return tt.Extract(a.Args[0], a.P2+hi, a.P2+lo)
	case OpConcat:
		lw := a.Args[1].S.W
		if hi < lw {
			return tt.Extract(a.Args[1], hi, lo)
		}
		if lo >= lw {
			return tt.Extract(a.Args[0], hi-lw, lo-lw)
		}
	case OpZExt:
		iw := a.Args[0].S.W
		if hi < iw {
			return tt.Extract(a.Args[0], hi, lo)
		}
		if lo >= iw {
			return BVConstU(0, w)
		}
	case OpSExt:
		iw := a.Args[0].S.W
		if hi < iw {
			return tt.Extract(a.Args[0], hi, lo)
		}
	}
	return tt.mk(OpExtract, BV(w), hi, lo, "", a)
}

func (tt *TermTable) ZExt(a *Term, to int) *Term {
	n := to - a.S.W
	if n == 0 {
		return a
	}
	if n < 0 {
		panic("zext to narrower")
	}
	if a.IsConst() {
		return BVConst(a.Val, to)
	}
	if a.Op == OpZExt {
		return tt.ZExt(a.Args[0], to)
	}
	return tt.mk(OpZExt, BV(to), n, 0, "", a)
}

func (tt *TermTable) SExt(a *Term, to int) *Term {
	n := to - a.S.W
	if n == 0 {
		return a
	}
	if n < 0 {
		panic("sext to narrower")
	}
	if a.IsConst() {
		return BVConst(a.Signed(), to)
	}
	if a.Op == OpZExt { // already non-negative
		return tt.ZExt(a.Args[0], to)
	}
	return tt.mk(OpSExt, BV(to), n, 0, "", a)
}

// Resize converts between widths with the signedness of the source.
func (tt *TermTable) Resize(a *Term, to int, signed bool) *Term {
	switch {
	case to == a.S.W:
		return a
	case to < a.S.W:
		return tt.Extract(a, to-1, 0)
	case signed:
		return tt.SExt(a, to)
	}
	return tt.ZExt(a, to)
}

// ---------- Int ----------

func (tt *TermTable) intBin(op Op, a, b *Term) *Term {
	if a.S.K != SInt || b.S.K != SInt {
		panic("int binop on non-int")
	}
	if a.IsConst() && b.IsConst() {
		r := new(big.Int)
		switch op {
		case OpIAdd:
			r.Add(a.Val, b.Val)
		case OpISub:
			r.Sub(a.Val, b.Val)
		case OpIMul:
			r.Mul(a.Val, b.Val)
		case OpIDiv:
			if b.Val.Sign() == 0 {
				goto symbolic
			}
			r.Div(a.Val, b.Val) // Euclidean, same as SMT-LIB
		case OpIMod:
			if b.Val.Sign() == 0 {
				goto symbolic
			}
			r.Mod(a.Val, b.Val)
		}
		return IConst(r)
	}
symbolic:
	switch op {
	case OpIAdd:
		if a.IsConst() && a.Val.Sign() == 0 {
			return b
		}
		if b.IsConst() && b.Val.Sign() == 0 {
			return a
		}
	case OpISub:
		if b.IsConst() && b.Val.Sign() == 0 {
			return a
		}
		if a == b {
			return IConstI(0)
		}
	case OpIMul:
		if a.IsConst() {
			a, b = b, a
		}
		if b.IsConst() {
			if b.Val.Sign() == 0 {
				return b
			}
			if b.Val.Cmp(bigOne) == 0 {
				return a
			}
		}
	case OpIDiv:
		if b.IsConst() && b.Val.Cmp(bigOne) == 0 {
			return a
		}
	}
	return tt.mk(op, IntSort, 0, 0, "", a, b)
}

func (tt *TermTable) IAdd(a, b *Term) *Term { return tt.intBin(OpIAdd, a, b) }
func (tt *TermTable) ISub(a, b *Term) *Term { return tt.intBin(OpISub, a, b) }
func (tt *TermTable) IMul(a, b *Term) *Term { return tt.intBin(OpIMul, a, b) }
func (tt *TermTable) IDiv(a, b *Term) *Term { return tt.intBin(OpIDiv, a, b) }
func (tt *TermTable) IMod(a, b *Term) *Term { return tt.intBin(OpIMod, a, b) }
func (tt *TermTable) INeg(a *Term) *Term {
	if a.IsConst() {
		return IConst(new(big.Int).Neg(a.Val))
	}
	return tt.mk(OpINeg, IntSort, 0, 0, "", a)
}
func (tt *TermTable) ILe(a, b *Term) *Term {
	if a.IsConst() && b.IsConst() {
		return BoolT(a.Val.Cmp(b.Val) <= 0)
	}
	if a == b {
		return TrueT
	}
	if r := bv2natRange(a, b, true); r != nil {
		return r
	}
	return tt.mk(OpILe, BoolSort, 0, 0, "", a, b)
}
func (tt *TermTable) ILt(a, b *Term) *Term {
	if a.IsConst() && b.IsConst() {
		return BoolT(a.Val.Cmp(b.Val) < 0)
	}
	if a == b {
		return FalseT
	}
	if r := bv2natRange(a, b, false); r != nil {
		return r
	}
	return tt.mk(OpILt, BoolSort, 0, 0, "", a, b)
}

// bv2natRange decides a <= b (le) or a < b when one side is bv2nat(x), whose
// value lies in [0, 2^w), and the other a constant outside/at the edge of that range.
func bv2natRange(a, b *Term, le bool) *Term {
	if a.Op == OpBV2Nat && b.IsConst() {
		w := a.Args[0].S.W
		hi := new(big.Int).Lsh(big.NewInt(1), uint(w)) // bv2nat < hi
		if le {
			if b.Val.Sign() < 0 {
				return FalseT
			}
			if new(big.Int).Add(b.Val, big.NewInt(1)).Cmp(hi) >= 0 {
				return TrueT
			}
		} else {
			if b.Val.Sign() <= 0 {
				return FalseT
			}
			if b.Val.Cmp(hi) >= 0 {
				return TrueT
			}
		}
	}
	if b.Op == OpBV2Nat && a.IsConst() {
		w := b.Args[0].S.W
		hi := new(big.Int).Lsh(big.NewInt(1), uint(w))
		if le {
			if a.Val.Sign() <= 0 {
				return TrueT
			}
			if a.Val.Cmp(hi) >= 0 {
				return FalseT
			}
		} else {
			if a.Val.Sign() < 0 {
				return TrueT
			}
			if new(big.Int).Add(a.Val, big.NewInt(1)).Cmp(hi) >= 0 {
				return FalseT
			}
		}
	}
	return nil
}
func (tt *TermTable) BV2Nat(a *Term) *Term {
	if a.IsConst() {
		return IConst(a.Val)
	}
	if a.Op == OpInt2BV && a.Args[0].Op == OpBV2Nat && a.Args[0].Args[0].S.W <= a.S.W {
		return a.Args[0]
	}
	return tt.mk(OpBV2Nat, IntSort, 0, 0, "", a)
}
func (tt *TermTable) Int2BV(a *Term, w int) *Term {
	if a.IsConst() {
		return BVConst(a.Val, w)
	}
	if a.Op == OpBV2Nat {
		return tt.Resize(a.Args[0], w, false)
	}
	// int2bv is a ring homomorphism Z -> Z/2^w: distribute over a sum when one
	// summand then disappears into the bit-vector world (constant or bv2nat)
	if a.Op == OpIAdd {
		x, y := a.Args[0], a.Args[1]
		if x.IsConst() || y.IsConst() || x.Op == OpBV2Nat || y.Op == OpBV2Nat {
			return tt.BVAdd(tt.Int2BV(x, w), tt.Int2BV(y, w))
		}
	}
	if a.Op == OpINeg {
		if x := tt.Int2BV(a.Args[0], w); x.Op != OpInt2BV {
			return tt.BVNeg(x)
		}
	}
	if a.Op == OpIte {
		x, y := tt.Int2BV(a.Args[1], w), tt.Int2BV(a.Args[2], w)
		if x.Op != OpInt2BV && y.Op != OpInt2BV {
			return tt.Ite(a.Args[0], x, y)
		}
	}
	return tt.mk(OpInt2BV, BV(w), w, 0, "", a)
}

// ---------- printing ----------

func constString(t *Term) string {
	switch t.S.K {
	case SBool:
		if t.Val.Sign() != 0 {
			return "true"
		}
		return "false"
	case SBV:
		if t.S.W%4 == 0 {
			s := t.Val.Text(16)
			return "#x" + strings.Repeat("0", t.S.W/4-len(s)) + s
		}
		s := t.Val.Text(2)
		return "#b" + strings.Repeat("0", t.S.W-len(s)) + s
	default:
		if t.Val.Sign() < 0 {
			return "(- " + new(big.Int).Neg(t.Val).String() + ")"
		}
		return t.Val.String()
	}
}

func smtName(n string) string {
	ok := true
	for _, c := range n {
		if !(c >= 'a' && c <= 'z' || c >= 'A' && c <= 'Z' || c >= '0' && c <= '9' || c == '_' || c == '.' || c == '$') {
			ok = false
		}
	}
	if ok && n != "" {
		return n
	}
	return "|" + strings.ReplaceAll(n, "|", "!") + "|"
}

// Emitter writes declarations/definitions needed for a term exactly once per
// solver scope.
type Emitter struct {
	defined map[uint64]bool
	decl    map[string]bool
	out     *strings.Builder
	// assertStyle: (declare-fun t () S)(assert (= t body)) instead of define-fun (solver_fresh.go)
	assertStyle bool
}

func NewEmitter() *Emitter {
	return &Emitter{defined: map[uint64]bool{}, decl: map[string]bool{}, out: &strings.Builder{}}
}

func (e *Emitter) ref(t *Term) string {
	switch t.Op {
	case OpConst:
		return constString(t)
	case OpVar:
		return smtName(t.Name)
	}
	return "t" + strconv.FormatUint(t.ID, 10)
}

// Define emits everything needed so that ref(t) is meaningful.
func (e *Emitter) Define(t *Term) {
	// iterative post-order
	type fr struct {
		t *Term
		i int
	}
	stack := []fr{{t, 0}}
	for len(stack) > 0 {
		f := &stack[len(stack)-1]
		cur := f.t
		if cur.Op == OpConst || e.defined[cur.ID] {
			stack = stack[:len(stack)-1]
			continue
		}
		if f.i < len(cur.Args) {
			a := cur.Args[f.i]
			f.i++
			if a.Op != OpConst && !e.defined[a.ID] {
				stack = append(stack, fr{a, 0})
			}
			continue
		}
		stack = stack[:len(stack)-1]
		e.defined[cur.ID] = true
		switch cur.Op {
		case OpVar:
			n := smtName(cur.Name)
			if !e.decl[n] {
				e.decl[n] = true
				fmt.Fprintf(e.out, "(declare-fun %s () %s)\n", n, cur.S)
			}
			continue
		case OpApp:
			n := smtName(cur.Name)
			if !e.decl[n] {
				e.decl[n] = true
				fmt.Fprintf(e.out, "(declare-fun %s (", n)
				for i, d := range cur.Dom {
					if i > 0 {
						e.out.WriteByte(' ')
					}
					e.out.WriteString(d.String())
				}
				fmt.Fprintf(e.out, ") %s)\n", cur.S)
			}
		}
		if e.assertStyle {
			fmt.Fprintf(e.out, "(declare-fun t%d () %s)\n(assert (= t%d ", cur.ID, cur.S, cur.ID)
			e.expr(cur)
			e.out.WriteString("))\n")
			continue
		}
		fmt.Fprintf(e.out, "(define-fun t%d () %s ", cur.ID, cur.S)
		e.expr(cur)
		e.out.WriteString(")\n")
	}
}

func (e *Emitter) expr(t *Term) {
	o := e.out
	switch t.Op {
	case OpApp:
		if len(t.Args) == 0 {
			o.WriteString(smtName(t.Name))
			return
		}
		o.WriteByte('(')
		o.WriteString(smtName(t.Name))
	case OpExtract:
		fmt.Fprintf(o, "((_ extract %d %d)", t.P1, t.P2)
	case OpZExt:
		fmt.Fprintf(o, "((_ zero_extend %d)", t.P1)
	case OpSExt:
		fmt.Fprintf(o, "((_ sign_extend %d)", t.P1)
	case OpInt2BV:
		fmt.Fprintf(o, "((_ int2bv %d)", t.P1)
	default:
		o.WriteByte('(')
		o.WriteString(opNames[t.Op])
	}
	for _, a := range t.Args {
		o.WriteByte(' ')
		o.WriteString(e.ref(a))
	}
	o.WriteByte(')')
}

func (e *Emitter) Take() string {
	s := e.out.String()
	e.out.Reset()
	return s
}

// String renders a term as a (possibly large) tree, for diagnostics only.
func (t *Term) String() string {
	return t.str(0)
}

func (t *Term) str(d int) string {
	switch t.Op {
	case OpConst:
		if t.S.K == SBV && t.S.W <= 64 {
			return fmt.Sprintf("%d:bv%d", t.Val, t.S.W)
		}
		return constString(t)
	case OpVar:
		return t.Name
	}
	if d > 6 {
		return "…"
	}
	var sb strings.Builder
	sb.WriteByte('(')
	switch t.Op {
	case OpApp:
		sb.WriteString(t.Name)
	case OpExtract:
		fmt.Fprintf(&sb, "extract[%d:%d]", t.P1, t.P2)
	case OpZExt:
		fmt.Fprintf(&sb, "zext%d", t.P1)
	case OpSExt:
		fmt.Fprintf(&sb, "sext%d", t.P1)
	case OpInt2BV:
		fmt.Fprintf(&sb, "int2bv%d", t.P1)
	default:
		sb.WriteString(opNames[t.Op])
	}
	for _, a := range t.Args {
		sb.WriteByte(' ')
		sb.WriteString(a.str(d + 1))
	}
	sb.WriteByte(')')
	return sb.String()
}
