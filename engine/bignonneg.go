package main

// Sign tracking for BV-mode big.Int terms (syntactic, like the magnitude
// bounds in big.go): a term recorded as non-negative has its top bit clear on
// every assignment that satisfies the width obligations of the run (a run with
// a failed width obligation is a machinery fault in any case).
//
// Used to drop the |x| computation (a W-bit negation and mux) where x >= 0 is
// known, and to recognise  SetBytes(x.Bytes()) == x.

func (p *Path) setNonneg(t *Term) {
	if t.IsConst() {
		return
	}
	if p.nonneg == nil {
		p.nonneg = map[*Term]bool{}
	}
	p.nonneg[t] = true
}

func (p *Path) isNonneg(t *Term) bool {
	if t.S.K != SBV {
		return false
	}
	if t.IsConst() {
		return t.Signed().Sign() >= 0
	}
	if p.nonneg[t] {
		return true
	}
	switch t.Op {
	case OpZExt:
		return t.P1 >= 1
	case OpIte:
		return p.isNonneg(t.Args[1]) && p.isNonneg(t.Args[2])
	}
	return false
}

// orContains reports whether every assignment makes c's set bits a subset of
// t's, decided on the OR-structure only: c is a node of the bvor-tree t, or c
// is itself a bvor whose operands are.
func orContains(t, c *Term, budget *int) bool {
	if *budget <= 0 {
		return false
	}
	*budget--
	if sameTerm(t, c) {
		return true
	}
	if t.Op == OpBVOr && (orContains(t.Args[0], c, budget) || orContains(t.Args[1], c, budget)) {
		return true
	}
	if c.Op == OpBVOr {
		return orContains(t, c.Args[0], budget) && orContains(t, c.Args[1], budget)
	}
	return false
}
