package main

// Sign tracking for BV-mode big.Int terms (syntactic, like the magnitude
// bounds in big.go): a term recorded as non-negative has its top bit clear on
// every assignment that satisfies the width obligations of the run (a run with
// a failed width obligation is a machinery fault in any case).
//
// Used to drop the |x| computation (a W-bit negation and mux) where x >= 0 is
// known, and to recognise  SetBytes(x.Bytes()) == x.

func (p *Path) setNonneg(t *Term) {
	if t.IsConst() {
		return
	}
	if p.nonneg == nil {
		p.nonneg = map[*Term]bool{}
	}
	p.nonneg[t] = true
}

func (p *Path) isNonneg(t *Term) bool {
	if t.S.K != SBV {
		return false
	}
	if t.IsConst() {
		return t.Signed().Sign() >= 0
	}
	if p.nonneg[t] {
		return true
	}
	switch t.Op {
	case OpZExt:
		return t.P1 >= 1
	case OpIte:
		return p.isNonneg(t.Args[1]) && p.isNonneg(t.Args[2])
	}
	return false
}

// orContains reports whether every assignment makes c's set bits a subset of
// t's, decided on the OR-structure only: c is a node of the bvor-tree t, or c
// is itself a bvor whose operands are.
func orContains(t, c *Term, budget *int) bool {
	if *budget <= 0 {
		return false
	}
	*budget--
	if sameTerm(t, c) {
		return true
	}
	if t.Op == OpBVOr && (orContains(t.Args[0], c, budget) || orContains(t.Args[1], c, budget)) {
		return true
	}
	if c.Op == OpBVOr {
		return orContains(t, c.Args[0], budget) && orContains(t, c.Args[1], budget)
	}
	return false
}

// lshWide is x << n (mod 2^W, 0 for n >= W; exactly bvshl) for a symbolic
// 64-bit amount n.  For a small non-negative x (< 2^64) it is built from one
// 128-bit shift by n mod 64 placed at word n div 64: z3 bit-blasts a W-bit
// bvshl with a W-bit amount in time quadratic in W (seconds per shift at
// W = 2056), this form is linear.
func (p *Path) lshWide(x, n, amt *Term) *Term {
	tt := p.tt
	w := x.S.W
	if n.S.W != 64 || w < 256 || !p.isNonneg(x) || p.bound(x) > 64 {
		return tt.BVShl(x, amt)
	}
	x128 := tt.ZExt(tt.Extract(x, 63, 0), 128)
	r6 := tt.ZExt(tt.BVAnd(n, BVConstU(63, 64)), 128)
	q := tt.BVLShr(n, BVConstU(6, 64))
	sh := tt.BVShl(x128, r6)
	lo, hi := tt.Extract(sh, 63, 0), tt.Extract(sh, 127, 64)
	zero := BVConstU(0, 64)
	nw := (w + 63) / 64
	var cat *Term
	for j := 0; j < nw; j++ {
		wj := tt.Ite(tt.Eq(q, BVConstU(uint64(j), 64)), lo, zero)
		if j > 0 {
			wj = tt.BVOr(wj, tt.Ite(tt.Eq(q, BVConstU(uint64(j-1), 64)), hi, zero))
		}
		if cat == nil {
			cat = wj
		} else {
			cat = tt.Concat(wj, cat)
		}
	}
	return tt.Extract(cat, w-1, 0)
}
