package main

// One-shot re-decision of a query the incremental solver answered "unknown".
//
// Incremental mode disables part of the solvers' preprocessing (notably for
// mixed bit-vector / nonlinear-integer queries: gas*price products).  When the
// long-lived process gives up, the same query -- all assertions of the path
// plus the extra literal, with only the definitions it needs -- is sent to a
// fresh non-incremental process.  Only definite answers are used: unsat, or sat
// where no model is needed; anything else stays "unknown" (a machinery fault,
// never a pass).

import (
	"bytes"
	"fmt"
	"math/big"
	"os/exec"
	"strings"
	"time"
)

func oneShotArgs(bin string, timeoutMs int) []string {
	switch {
	case bin == "cvc5-bvint":
		return []string{"--lang=smt2", "--solve-bv-as-int=sum", fmt.Sprintf("--tlimit=%d", timeoutMs)}
	case strings.Contains(bin, "cvc5"):
		return []string{"--lang=smt2", fmt.Sprintf("--tlimit=%d", timeoutMs)}
	default:
		return []string{"-in", "-smt2", fmt.Sprintf("-t:%d", timeoutMs)}
	}
}

// oneShot decides asserted ∧ extra in a fresh process.  With wantModel the
// script also asks for the values of the terms s.modelTerms() names (the path's
// inputs and observations); on "sat" they are kept in s.osModel, from which
// GetValues answers until the next query.  A "sat" whose model cannot be read
// stays "unknown".
func (s *Solver) oneShot(extra *Term, wantModel bool) SatResult {
	t0 := time.Now()
	em := NewEmitter()
	var body strings.Builder
	all := append([]*Term{}, s.asserted...)
	if extra != nil {
		all = append(all, extra)
	}
	var want []*Term
	if wantModel {
		if s.modelTerms == nil {
			return Unknown
		}
		want = s.modelTerms()
		body.WriteString("(set-option :produce-models true)\n")
	}
	for _, t := range all {
		if t == nil {
			continue
		}
		em.Define(t)
	}
	body.WriteString("(set-logic ALL)\n")
	body.WriteString(em.Take())
	for _, t := range all {
		if t == nil {
			continue
		}
		body.WriteString("(assert " + em.ref(t) + ")\n")
	}
	if len(want) > 0 {
		for _, t := range want {
			em.Define(t)
		}
		body.WriteString(em.Take())
	}
	body.WriteString("(check-sat)\n")
	if len(want) > 0 {
		body.WriteString("(get-value (")
		for _, t := range want {
			body.WriteString(em.ref(t) + " ")
		}
		body.WriteString("))\n")
	}
	tmo := s.oneShotMs
	if tmo == 0 {
		tmo = 4 * s.timeoutMs
	}
	rb := s.retryBin
	if rb == "" {
		rb = s.bin
	}
	cmd := exec.Command(solverExe(rb), oneShotArgs(rb, tmo)...)
	cmd.Stdin = strings.NewReader(body.String())
	var out bytes.Buffer
	cmd.Stdout = &out
	done := make(chan error, 1)
	if err := cmd.Start(); err != nil {
		return Unknown
	}
	go func() { done <- cmd.Wait() }()
	select {
	case <-done:
	case <-time.After(time.Duration(tmo)*time.Millisecond + 5*time.Second):
		cmd.Process.Kill()
		<-done
	}
	s.stats.Nanos += int64(time.Since(t0))
	s.stats.Queries++
	res := Unknown
	lines := strings.Split(out.String(), "\n")
	for i, line := range lines {
		line = strings.TrimSpace(line)
		if line == "unsat" {
			res = Unsat
			break
		}
		if line == "sat" {
			res = Sat
			if wantModel {
				model := map[*Term]*big.Int{}
				if len(want) > 0 {
					rest := strings.Join(lines[i+1:], "\n")
					vals, err := parseValues(rest, len(want))
					if err != nil || strings.Contains(rest, "(error") {
						s.stats.Errors++
						res = Unknown
						break
					}
					for j, t := range want {
						model[t] = vals[j]
					}
				}
				s.osModel = model
			}
			break
		}
		if strings.HasPrefix(line, "(error") {
			s.stats.Errors++
			return Unknown
		}
	}
	if d := time.Since(t0); d > 3*time.Second && slowLog != nil {
		slowLog(d, res, func() string { c := "one-shot retry"; if s.context != nil { c += " " + s.context() }; return c })
	}
	if queryLog != nil && s.context != nil {
		fmt.Fprintf(queryLog, "%.3f %s one-shot %s\n", time.Since(t0).Seconds(), res, s.context())
	}
	return res
}
