package main

// One-shot re-decision of a query the incremental solver answered "unknown".
//
// Incremental mode disables part of the solvers' preprocessing (notably for
// mixed bit-vector / nonlinear-integer queries: gas*price products).  When the
// long-lived process gives up, the same query -- all assertions of the path
// plus the extra literal, with only the definitions it needs -- is sent to a
// fresh non-incremental process.  Only definite answers are used: unsat, or sat
// where no model is needed; anything else stays "unknown" (a machinery fault,
// never a pass).

import (
	"bytes"
	"fmt"
	"os/exec"
	"strings"
	"time"
)

func oneShotArgs(bin string, timeoutMs int) []string {
	switch {
	case bin == "cvc5-bvint":
		return []string{"--lang=smt2", "--solve-bv-as-int=sum", fmt.Sprintf("--tlimit=%d", timeoutMs)}
	case strings.Contains(bin, "cvc5"):
		return []string{"--lang=smt2", fmt.Sprintf("--tlimit=%d", timeoutMs)}
	default:
		return []string{"-in", "-smt2", fmt.Sprintf("-t:%d", timeoutMs)}
	}
}

// oneShot decides asserted ∧ extra in a fresh process.
func (s *Solver) oneShot(extra *Term) SatResult {
	t0 := time.Now()
	em := NewEmitter()
	var body strings.Builder
	all := append(append([]*Term{}, s.asserted...), extra)
	for _, t := range all {
		if t == nil {
			continue
		}
		em.Define(t)
	}
	body.WriteString("(set-logic ALL)\n")
	body.WriteString(em.Take())
	for _, t := range all {
		if t == nil {
			continue
		}
		body.WriteString("(assert " + em.ref(t) + ")\n")
	}
	body.WriteString("(check-sat)\n")
	tmo := s.oneShotMs
	if tmo == 0 {
		tmo = 4 * s.timeoutMs
	}
	rb := s.retryBin
	if rb == "" {
		rb = s.bin
	}
	cmd := exec.Command(solverExe(rb), oneShotArgs(rb, tmo)...)
	cmd.Stdin = strings.NewReader(body.String())
	var out bytes.Buffer
	cmd.Stdout = &out
	done := make(chan error, 1)
	if err := cmd.Start(); err != nil {
		return Unknown
	}
	go func() { done <- cmd.Wait() }()
	select {
	case <-done:
	case <-time.After(time.Duration(tmo)*time.Millisecond + 5*time.Second):
		cmd.Process.Kill()
		<-done
	}
	s.stats.Nanos += int64(time.Since(t0))
	s.stats.Queries++
	res := Unknown
	for _, line := range strings.Split(out.String(), "\n") {
		line = strings.TrimSpace(line)
		if line == "unsat" {
			res = Unsat
			break
		}
		if line == "sat" {
			res = Sat
			break
		}
		if strings.HasPrefix(line, "(error") {
			s.stats.Errors++
			return Unknown
		}
	}
	if d := time.Since(t0); d > 3*time.Second && slowLog != nil {
		slowLog(d, res, func() string { c := "one-shot retry"; if s.context != nil { c += " " + s.context() }; return c })
	}
	return res
}
