package main

// Diamond merging for arms that read and write memory (suite option
// "merge_stores").  ops.go tryMerge only merges arms of pure scalar
// arithmetic; loops like bloombits.Generator.AddBloom
//
//	if bloom[j]&mask != 0 { b.blooms[i][k] |= bit }
//
// have a load-modify-store arm and a symbolic condition on each of their 2048
// iterations.  Here an arm may also contain address computations, loads and
// stores of scalars.  It is executed speculatively:
//   - any decision that would need the solver (branch, run-time check,
//     concretization on a non-constant), any Go panic and any unsupported
//     construct inside the arm cancels the merge: memory is rolled back and the
//     ordinary forking execution takes over;
//   - stores are logged; after both arms ran (each from the same initial
//     memory) every written slot becomes ite(c, value after the true arm,
//     value after the false arm), unwritten sides keeping the old value.
// The result is exactly the two-path semantics, without the fork.

import (
	"go/token"

	"golang.org/x/tools/go/ssa"
)

type storeRec struct {
	slot *Value
	old  Value
}

// logStore is called by Path.store while an arm is executed speculatively.
func (p *Path) logStore(ptr Ptr, v Value) {
	if ptr.Sym != nil {
		panic(mergeFail{})
	}
	if _, ok := v.(*Term); !ok {
		panic(mergeFail{})
	}
	s := p.slot(ptr)
	if _, ok := (*s).(*Term); !ok {
		panic(mergeFail{})
	}
	*p.storeLog = append(*p.storeLog, storeRec{s, *s})
}

func memArmInstr(in ssa.Instruction) bool {
	if pureInstr(in) {
		return true
	}
	switch x := in.(type) {
	case *ssa.FieldAddr, *ssa.IndexAddr, *ssa.Store, *ssa.Field, *ssa.Index:
		return true
	case *ssa.UnOp:
		return x.Op == token.MUL && !x.CommaOk
	}
	return false
}

func memArm(b *ssa.BasicBlock, from *ssa.BasicBlock) (join *ssa.BasicBlock, ok bool) {
	if len(b.Preds) != 1 || b.Preds[0] != from {
		return nil, false
	}
	n := len(b.Instrs)
	if n == 0 || n > 24 {
		return nil, false
	}
	if _, isJ := b.Instrs[n-1].(*ssa.Jump); !isJ {
		return nil, false
	}
	for _, in := range b.Instrs[:n-1] {
		if !memArmInstr(in) {
			return nil, false
		}
	}
	return b.Succs[0], true
}

// runArm executes the arm speculatively and returns the slots it wrote with
// their final values; memory is restored to the state before the arm.
func (p *Path) runArm(fr *frame, a *ssa.BasicBlock) (written map[*Value]Value, order []*Value, old map[*Value]Value, ok bool) {
	var log []storeRec
	savedLog, savedNoFork, savedCur := p.storeLog, p.noFork, fr.cur
	nfr, depth := len(p.frames), p.depth
	p.storeLog, p.noFork = &log, true
	ok = true
	func() {
		defer func() {
			if r := recover(); r != nil {
				switch r.(type) {
				case mergeFail, *goPanic, pathAbort:
					ok = false
					p.frames = p.frames[:nfr]
					p.depth = depth
				default:
					p.storeLog, p.noFork = savedLog, savedNoFork
					panic(r)
				}
			}
		}()
		for _, ai := range a.Instrs[:len(a.Instrs)-1] {
			fr.cur = ai
			p.visit(fr, ai)
		}
	}()
	p.storeLog, p.noFork = savedLog, savedNoFork
	fr.cur = savedCur
	written, old = map[*Value]Value{}, map[*Value]Value{}
	for _, r := range log {
		if _, seen := old[r.slot]; !seen {
			old[r.slot] = r.old
			order = append(order, r.slot)
		}
	}
	for _, s := range order {
		written[s] = *s
	}
	// roll back (reverse order restores the oldest value last)
	for i := len(log) - 1; i >= 0; i-- {
		*log[i].slot = log[i].old
	}
	return
}

func (p *Path) tryMergeMem(fr *frame, in *ssa.If, c *Term) bool {
	blk := fr.block
	tb, fb := blk.Succs[0], blk.Succs[1]
	var join *ssa.BasicBlock
	var arms [2]*ssa.BasicBlock // nil = direct edge
	jt, okT := memArm(tb, blk)
	jf, okF := memArm(fb, blk)
	switch {
	case okT && okF && jt == jf:
		join, arms[0], arms[1] = jt, tb, fb
	case okT && jt == fb:
		join, arms[0] = fb, tb
	case okF && jf == tb:
		join, arms[1] = tb, fb
	default:
		return false
	}
	if len(join.Preds) != 2 {
		return false
	}
	var phis []*ssa.Phi
	for _, ji := range join.Instrs {
		ph, ok := ji.(*ssa.Phi)
		if !ok {
			break
		}
		phis = append(phis, ph)
	}
	predOf := func(arm *ssa.BasicBlock) *ssa.BasicBlock {
		if arm == nil {
			return blk
		}
		return arm
	}
	// run both arms from the same memory; phi inputs are read right after each arm
	type armRes struct {
		written map[*Value]Value
		order   []*Value
		old     map[*Value]Value
		phi     []Value
	}
	var res [2]armRes
	for k, a := range arms {
		if a != nil {
			w, o, old, ok := p.runArm(fr, a)
			if !ok {
				return false
			}
			res[k] = armRes{written: w, order: o, old: old}
		}
		res[k].phi = make([]Value, len(phis))
		for i, ph := range phis {
			for e, pred := range join.Preds {
				if pred == predOf(a) {
					v, ok := p.tryGet(fr, ph.Edges[e])
					if !ok {
						return false
					}
					res[k].phi[i] = v
				}
			}
			if res[k].phi[i] == nil {
				return false
			}
		}
	}
	vals := make([]Value, len(phis))
	for i := range phis {
		merged, ok := p.tryIte(c, res[0].phi[i], res[1].phi[i])
		if !ok {
			return false
		}
		vals[i] = merged
	}
	// commit memory
	done := map[*Value]bool{}
	for k := 0; k < 2; k++ {
		for _, s := range res[k].order {
			if done[s] {
				continue
			}
			done[s] = true
			oldv := res[k].old[s]
			tv, fv := oldv, oldv
			if v, ok := res[0].written[s]; ok {
				tv = v
			}
			if v, ok := res[1].written[s]; ok {
				fv = v
			}
			*s = p.tt.Ite(c, tv.(*Term), fv.(*Term))
		}
	}
	for i, ph := range phis {
		p.set(fr, ph, vals[i])
	}
	p.hr.merges++
	fr.prev, fr.block = predOf(arms[0]), join
	p.runJoinTail(fr, join, len(phis))
	return true
}

// tryGet is Path.get that reports an unset value instead of aborting.
func (p *Path) tryGet(fr *frame, v ssa.Value) (val Value, ok bool) {
	defer func() {
		if r := recover(); r != nil {
			if _, isAb := r.(pathAbort); isAb {
				val, ok = nil, false
				return
			}
			panic(r)
		}
	}()
	return p.get(fr, v), true
}
