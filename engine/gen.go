package main

// Suite generators: Go source derived from the *current* source tree on every
// run (suite field "generate").  A generator sees the loaded program (first
// load, harness overlay included) and returns overlay files; the engine then
// loads the tree a second time with those files added.  Generated files live
// in memory only (generatedOverlay) and are materialised into the per-run temp
// directory for native replay.

import (
	"fmt"
	"os"
	"path/filepath"
)

// generatedOverlay: absolute path under repoDir -> source.
var generatedOverlay = map[string][]byte{}

type generator func(e *Engine) (map[string][]byte, error)

var generators = map[string]generator{}

// generatorNotes: findings of the generators that belong into the evidence
// (appended to the suite's assumptions by main).
var generatorNotes []string

func runGenerators(e *Engine, names []string) error {
	for _, n := range names {
		g, ok := generators[n]
		if !ok {
			return fmt.Errorf("unknown generator %q", n)
		}
		files, err := g(e)
		if err != nil {
			return fmt.Errorf("generator %s: %v", n, err)
		}
		for rel, src := range files {
			generatedOverlay[filepath.Join(repoDir, rel)] = src
			if d := os.Getenv("VERIF_GEN_DUMP"); d != "" {
				out := filepath.Join(d, rel)
				os.MkdirAll(filepath.Dir(out), 0o755)
				os.WriteFile(out, src, 0o644)
			}
		}
	}
	return nil
}

// materialiseGenerated writes a generated overlay file into dir and returns its path.
func materialiseGenerated(dir, path string, seq int) (string, bool) {
	src, ok := generatedOverlay[path]
	if !ok {
		return "", false
	}
	out := filepath.Join(dir, fmt.Sprintf("gen%d_%s", seq, filepath.Base(path)))
	if err := os.WriteFile(out, src, 0o644); err != nil {
		return "", false
	}
	return out, true
}

// suiteOfHarness finds the suite that lists the harness entry (used by -replay
// to re-create generated sources).
func suiteOfHarness(entry string) *Suite {
	files, _ := filepath.Glob(filepath.Join(verifDir, "suites", "*.json"))
	for _, f := range files {
		s, err := loadSuite(f)
		if err != nil {
			continue
		}
		for _, h := range s.Harnesses {
			if h.Entry == entry {
				return s
			}
		}
	}
	return nil
}

// loadWithGenerators: LoadEngine, then (if the suite has generators) generate and load again.
func loadWithGenerators(pats []string, gens []string, verbose bool) (*Engine, error) {
	eng, err := LoadEngine(pats, filepath.Join(verifDir, "harness"))
	if err != nil || len(gens) == 0 {
		return eng, err
	}
	eng.verbose = verbose
	if err := runGenerators(eng, gens); err != nil {
		return nil, err
	}
	return LoadEngine(pats, filepath.Join(verifDir, "harness"))
}
