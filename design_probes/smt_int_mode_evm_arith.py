import time, z3, sys
def run(name, s, expect=None, to=60000):
    s.set("timeout", to)
    t=time.time(); r=s.check(); dt=time.time()-t
    print(f"{name}: {r} {dt:.2f}s", "(expected %s)"%expect if expect else ""); sys.stdout.flush()
T=1<<256; H=1<<255
def U256(v): return v % T
def S256(v): return z3.If(v < H, v, v - T)
def Abs(v): return z3.If(v<0,-v,v)
def impl_sdiv(x,y, mutant=False):
    sx,sy=S256(x),S256(y)
    prod = sx*sy
    n = z3.If(prod < 0, -1, 1)
    if mutant: n = z3.If(sx < 0, -1, 1)
    res = (Abs(sx) / Abs(sy)) * n
    return z3.If(sy==0, 0, U256(res))
def spec_sdiv(x,y):
    # YP: 0 if y==0; -2^255 if x=-2^255 and y=-1; else sgn(x/y)*floor(|x/y|)  -> as two's complement
    sx,sy=S256(x),S256(y)
    sgn = z3.If(z3.Xor(sx<0, sy<0), -1, 1)
    q = sgn*(Abs(sx)/Abs(sy))
    return z3.If(sy==0, 0, z3.If(q<0, q+T, z3.If(q>=T, q-T, q)) )
x,y,z=z3.Ints('x y z')
dom=[x>=0,x<T,y>=0,y<T,z>=0,z<T]
s=z3.Solver(); s.add(dom); s.add(impl_sdiv(x,y)!=spec_sdiv(x,y)); run("sdiv-int-equiv", s, "unsat")
s=z3.Solver(); s.add(dom); s.add(impl_sdiv(x,y,True)!=spec_sdiv(x,y)); run("sdiv-int-mutant", s, "sat")
# mulmod
impl = z3.If(z>0, U256((x*y)%z), 0)
spec = z3.If(z==0, 0, (x*y)%z)
s=z3.Solver(); s.add(dom); s.add(impl!=spec); run("mulmod-int-equiv", s, "unsat")
impl_m = z3.If(z>0, (U256(x*y))%z, 0)
s=z3.Solver(); s.add(dom); s.add(impl_m!=spec); run("mulmod-int-mutant(U256 before mod)", s, "sat")
# addmod
impl = z3.If(z>0, U256((x+y)%z), 0); spec=z3.If(z==0,0,(x+y)%z)
s=z3.Solver(); s.add(dom); s.add(impl!=spec); run("addmod-int-equiv", s, "unsat")
# sub
impl = U256(x-y); spec = z3.If(x>=y, x-y, x-y+T)
s=z3.Solver(); s.add(dom); s.add(impl!=spec); run("sub-int-equiv", s, "unsat")
# mul
impl = U256(x*y); spec=(x*y)%T
s=z3.Solver(); s.add(dom); s.add(impl!=spec); run("mul-int-equiv", s, "unsat")
s=z3.Solver(); s.add(dom); s.add(x*y!=spec); run("mul-int-mutant(no U256)", s, "sat")
