import time, z3, sys
def run(name, s, expect=None, to=60000):
    s.set("timeout", to)
    t=time.time(); r=s.check(); dt=time.time()-t
    print(f"{name}: {r} {dt:.2f}s", "(expected %s)"%expect if expect else ""); sys.stdout.flush()
W=264
M256=(1<<256)-1
def U256(v): return v & z3.BitVecVal(M256,W)
def S256(v): # v in [0,2^256)
    return z3.If(z3.ULT(v, z3.BitVecVal(1<<255,W)), v, v - z3.BitVecVal(1<<256,W))
def absW(v): return z3.If(v<0, -v, v)
def impl_sdiv(x,y):
    sx,sy=S256(x),S256(y)
    # sign of product: without computing product, Mul(x,y).Sign()<0
    neg = z3.Xor(sx<0, sy<0)  # product sign (both nonzero... if x==0 product 0 -> n=1)
    neg = z3.And(neg, sx!=0)
    q = z3.UDiv(absW(sx), absW(sy))
    res = z3.If(neg, -q, q)
    return z3.If(sy==0, z3.BitVecVal(0,W), U256(res))
def spec_sdiv(x,y):
    a=z3.Extract(255,0,x); b=z3.Extract(255,0,y)
    r = z3.If(b==0, z3.BitVecVal(0,256), a / b)   # bvsdiv
    return z3.ZeroExt(W-256, r)
for bits in (256, 64, 16):
    x,y=z3.BitVecs('x y',W)
    s=z3.Solver()
    s.add(z3.ULE(x,M256), z3.ULE(y,M256))
    if bits<256:
        # sign-extended small values: S256 value within [-2^(bits-1), 2^(bits-1))
        lim=1<<(bits-1)
        s.add(S256(x) < lim, S256(x) >= -lim, S256(y) < lim, S256(y) >= -lim)
    s.add(impl_sdiv(x,y)!=spec_sdiv(x,y))
    run(f"sdiv-equiv-{bits}", s, "unsat", 60000)
