import time, z3, sys
def run(name,s,expect=None,to=120000):
    s.set("timeout",to); t=time.time(); r=s.check(); print(f"{name}: {r} {time.time()-t:.2f}s (expected {expect})"); sys.stdout.flush(); return r
w=z3.BitVec('w',64)
sq64=w*w
sq128=z3.ZeroExt(64,w)*z3.ZeroExt(64,w)
# current code bound: newMemSize <= 0xffffffffe0 -> words <= 0x7ffffffff
s=z3.Solver(); s.add(z3.ULE(w, 0x7ffffffff)); s.add(z3.ZeroExt(64,sq64)!=sq128); 
if run("memgas square wraps under current bound", s, "sat")==z3.sat: print("   w=%#x"%s.model()[w].as_long())
# fixed bound: newMemSize <= 0x1FFFFFFFE0 -> words <= 0xFFFFFFFF
s=z3.Solver(); s.add(z3.ULE(w, 0xFFFFFFFF)); s.add(z3.ZeroExt(64,sq64)!=sq128); run("memgas square exact under fixed bound (z3 bv)", s, "unsat", 120000)
# full fee formula: fee = w*3 + w*w/512 ; compare 64-bit vs 128-bit evaluation
def fee(w_, W):
    return w_*z3.BitVecVal(3,W) + z3.UDiv(w_*w_, z3.BitVecVal(512,W))
s=z3.Solver(); s.add(z3.ULE(w, 0xFFFFFFFF)); s.add(z3.ZeroExt(64,fee(w,64))!=fee(z3.ZeroExt(64,w),128)); run("memgas fee exact under fixed bound (z3 bv)", s, "unsat", 120000)
# Int formulation with bv2int
wi=z3.BV2Int(w)
s=z3.Solver(); s.add(z3.ULE(w, 0xFFFFFFFF)); s.add(z3.BV2Int(fee(w,64)) != wi*3 + (wi*wi)/512); run("memgas fee vs Int formula (z3 bv2int)", s, "unsat", 60000)
