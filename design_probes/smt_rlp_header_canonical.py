# Monolithic probe of the C11-K obligation: readKind (raw.go) vs an independent canonical-RLP header spec,
# buffer of symbolic length n<=N with symbolic bytes (SMT array), as the engine would emit after path merging.
import time, z3, sys
def bv(v,w=64): return z3.BitVecVal(v,w)
def run(name,s,expect=None,to=120000):
    s.set("timeout",to); t=time.time(); r=s.check(); print(f"{name}: {r} {time.time()-t:.2f}s (expected {expect})"); sys.stdout.flush(); return r
buf=z3.Array('buf', z3.BitVecSort(64), z3.BitVecSort(8))
n=z3.BitVec('n',64)
def B(i): return z3.Select(buf, bv(i))
def z64(b): return z3.ZeroExt(56,b)
# ---- implementation semantics transcribed path-by-path from raw.go readKind/readSize (what SSA execution yields)
def impl(mutant=None):
    b0=B(0)
    # returns (ok, kind, tagsize, contentsize) as terms
    def readSize(slen):  # slen concrete 1..8, reading buf[1..]
        eof = z3.UGT(bv(slen), n-1)
        s=bv(0)
        for i in range(slen): s = (s<<8) | z64(B(1+i))
        if mutant=="no-lead-zero": bad = z3.ULT(s,bv(56))
        elif mutant=="lt55": bad = z3.Or(z3.ULT(s,bv(55)), B(1)==0)
        else: bad = z3.Or(z3.ULT(s,bv(56)), B(1)==0)
        return z3.And(z3.Not(eof), z3.Not(bad)), s
    cases=[]
    # b<0x80
    cases.append((z3.ULT(b0,0x80), z3.BoolVal(True), 0, bv(0), bv(1)))
    # short string
    cs=z64(b0-0x80)
    canon = z3.Not(z3.And(cs==1, z3.UGT(n,bv(1)), z3.ULT(B(1),0x80)))
    if mutant=="no-single-byte-rule": canon=z3.BoolVal(True)
    cases.append((z3.And(z3.UGE(b0,0x80), z3.ULT(b0,0xB8)), canon, 1, bv(1), cs))
    for k in range(1,9):
        ok,s=readSize(k)
        cases.append((b0==0xB7+k, ok, 1, bv(k+1), s))
    cases.append((z3.And(z3.UGE(b0,0xC0), z3.ULT(b0,0xF8)), z3.BoolVal(True), 2, bv(1), z64(b0-0xC0)))
    for k in range(1,9):
        ok,s=readSize(k)
        cases.append((b0==0xF7+k, ok, 2, bv(k+1), s))
    ok=z3.BoolVal(False); kind=z3.IntVal(0); ts=bv(0); cs_=bv(0)
    for (g,o,kd,t,c) in cases:
        fits = z3.ULE(c, n - t)
        ok = z3.If(g, z3.And(o, fits), ok); kind=z3.If(g, kd, kind); ts=z3.If(g,t,ts); cs_=z3.If(g,c,cs_)
    return z3.And(n!=0, ok), kind, ts, cs_
# ---- independent spec: exists unique (kind, payload length L, header) s.t. canonical encoding of header is a prefix and fits
def spec():
    b0=B(0)
    # canonical header for (kind,L): L<56 -> 1 byte; else 1+k bytes big-endian minimal
    def be(k):  # big-endian value of bytes 1..k
        s=bv(0)
        for i in range(k): s=(s<<8)|z64(B(1+i))
        return s
    alts=[]
    # single byte: value < 0x80 is its own encoding, kind Byte(0), tagsize 0, size 1
    alts.append((z3.ULT(b0,0x80), 0, bv(0), bv(1)))
    for base,kind,longbase in ((0x80,1,0xB7),(0xC0,2,0xF7)):
        for k in range(0,9):
            if k==0:
                L=z64(b0-base)
                g=z3.And(z3.UGE(b0,base), z3.ULE(b0,base+55))
                if kind==1:
                    # a 1-byte string whose byte <0x80 must be encoded as itself
                    g=z3.And(g, z3.Not(z3.And(L==1, z3.UGT(n,bv(1)), z3.ULT(B(1),0x80))))
                alts.append((g,kind,bv(1),L))
            else:
                L=be(k)
                minimal = z3.And(z3.UGE(L,bv(56)), B(1)!=0)   # needs >=56 and no leading zero byte => k minimal
                g=z3.And(b0==longbase+k, z3.UGE(n,bv(1+k)), minimal)
                alts.append((g,kind,bv(1+k),L))
    ok=z3.BoolVal(False); kind=z3.IntVal(0); ts=bv(0); cs=bv(0)
    for (g,kd,t,L) in alts:
        fits=z3.And(z3.UGE(n,t), z3.ULE(L, n-t))
        ok=z3.If(g, fits, ok); kind=z3.If(g,kd,kind); ts=z3.If(g,t,ts); cs=z3.If(g,L,cs)
    return z3.And(n!=0, ok), kind, ts, cs
for N in (12, 20, 64, 1<<20):
    iok,ik,it,ic=impl(); sok,sk,st,sc=spec()
    s=z3.Solver(); s.add(z3.ULE(n,bv(N)))
    s.add(z3.Or(iok!=sok, z3.And(iok, z3.Or(ik!=sk, it!=st, ic!=sc))))
    run(f"rlp-header-equiv N={N}", s, "unsat")
for m in ("no-lead-zero","lt55","no-single-byte-rule"):
    iok,ik,it,ic=impl(m); sok,sk,st,sc=spec()
    s=z3.Solver(); s.add(z3.ULE(n,bv(70)))
    s.add(z3.Or(iok!=sok, z3.And(iok, z3.Or(ik!=sk, it!=st, ic!=sc))))
    r=run(f"rlp-header-mutant {m}", s, "sat")
    if r==z3.sat:
        mdl=s.model(); nn=mdl.eval(n).as_long()
        print("   n=",nn," bytes=",[mdl.eval(B(i),model_completion=True).as_long() for i in range(min(nn,10))])
