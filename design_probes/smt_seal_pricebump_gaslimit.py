import time, z3, sys
def run(name,s,expect=None,to=60000):
    s.set("timeout",to); t=time.time(); r=s.check(); print(f"{name}: {r} {time.time()-t:.2f}s (expected {expect})"); sys.stdout.flush(); return r
T=1<<256
d,res=z3.Ints('d res')
dom=[res>=0,res<T]
impl_accept = z3.And(d>0, z3.Not(res > T/d))
spec_accept = z3.And(d>0, res <= T/d)
s=z3.Solver(); s.add(dom); s.add(impl_accept!=spec_accept); run("seal iff (same term)", s, "unsat")
mut_accept = z3.And(d>0, z3.Not(res >= T/d))
s=z3.Solver(); s.add(dom); s.add(mut_accept!=spec_accept)
if run("seal mutant >=", s, "sat")==z3.sat: print("   ", s.model())
# spec phrased multiplicatively (independent): res*d <= T  (equivalent to res <= floor(T/d) for d>0)
spec2 = z3.And(d>0, res*d <= T)
s=z3.Solver(); s.add(dom); s.add(impl_accept!=spec2); run("seal iff vs multiplicative spec", s, "unsat")
# price bump
old,new,bump=z3.Ints('old new bump')
dom=[old>=0,new>=0,bump>=0,bump<2**63]
impl_rej = z3.Or(old>=new, (old*(100+bump))/100 > new)
spec_acc = z3.And(new>old, new*100 >= old*(100+bump) - ((old*(100+bump))%100))
s=z3.Solver(); s.add(dom); s.add(z3.Not(impl_rej)!=spec_acc); run("price bump iff", s, "unsat")
# gas limit bound with int64 casts (BV64)
p,h=z3.BitVecs('p h',64)
diff = p-h
diff = z3.If(diff<0, -diff, diff)  # signed
limit = z3.UDiv(p, z3.BitVecVal(1024,64))
impl_ok = z3.And(z3.ULE(h,0x7fffffffffffffff), z3.Not(z3.Or(z3.UGE(diff,limit), z3.ULT(h,5000))))
pi,hi=z3.BV2Int(p),z3.BV2Int(h)
# spec in wider BV (80 bit) to avoid bv2int
P,H=z3.ZeroExt(16,p),z3.ZeroExt(16,h)
ad = z3.If(z3.UGE(P,H),P-H,H-P)
spec_ok = z3.And(z3.ULE(H,0x7fffffffffffffff), z3.ULT(ad, z3.UDiv(P,z3.BitVecVal(1024,80))), z3.UGE(H,5000))
s=z3.Solver(); s.add(z3.ULE(p,0x7fffffffffffffff)); s.add(impl_ok!=spec_ok); run("gas limit bound iff (parent<=2^63-1)", s, "unsat")
s=z3.Solver(); s.add(impl_ok!=spec_ok)
if run("gas limit bound iff (parent arbitrary)", s, "?")==z3.sat: print("   p=%#x h=%#x"%(s.model()[p].as_long(), s.model()[h].as_long()))
