import time, z3, sys
def run(name, s, expect=None, to=60000):
    s.set("timeout", to)
    t=time.time(); r=s.check(); dt=time.time()-t
    print(f"{name}: {r} {dt:.2f}s", "(expected %s)"%expect if expect else ""); sys.stdout.flush()
    return r
W=520
def C(v): return z3.BitVecVal(v,W)
M=(1<<256)-1
def U256(v): return v & C(M)
def S256(v): return z3.If(z3.ULT(v, C(1<<255)), v, v - C(1<<256))
shift,value=z3.BitVecs('shift value',W)
dom=[z3.ULE(shift,C(M)), z3.ULE(value,C(M))]
def impl_sar(shift,value,fixed=False):
    sv=S256(value)
    big = z3.UGE(shift, C(256))
    pos = (sv>=0) if fixed else (sv>0)
    r_big = z3.If(pos, C(0), U256(C(-1 % (1<<W))))
    r = U256(sv >> shift)   # arithmetic
    return z3.If(big, r_big, r)
def spec_sar(shift,value):
    v=z3.Extract(255,0,value); sh=z3.Extract(255,0,shift)
    r = v >> sh   # bvashr on 256 bits; for sh>=256 gives all sign bits
    return z3.ZeroExt(W-256,r)
s=z3.Solver(); s.add(dom); s.add(impl_sar(shift,value)!=spec_sar(shift,value))
if run("sar-current", s, "sat")==z3.sat:
    m=s.model(); print("  cex shift=%x value=%x"%(m[shift].as_long() if m[shift] is not None else 0, m[value].as_long() if m[value] is not None else 0))
s=z3.Solver(); s.add(dom); s.add(impl_sar(shift,value,True)!=spec_sar(shift,value)); run("sar-fixed", s, "unsat")
# signextend
back,num=z3.BitVecs('back num',W)
dom=[z3.ULE(back,C(M)), z3.ULE(num,C(M))]
def impl_se(back,num):
    bit = back*8+7
    mask = (C(1)<<bit) - C(1)
    isneg = ((num >> bit) & C(1)) == C(1)
    r = z3.If(isneg, num | ~mask, num & mask)
    return z3.If(z3.ULT(back,C(31)), U256(r), num)
def spec_se(back,num):
    n=z3.Extract(255,0,num)
    res=n
    for k in range(31):
        ext = z3.SignExt(256-8*(k+1), z3.Extract(8*(k+1)-1,0,n))
        res = z3.If(z3.Extract(255,0,back)==k, ext, res)
    return z3.ZeroExt(W-256,res)
s=z3.Solver(); s.add(dom); s.add(impl_se(back,num)!=spec_se(back,num)); run("signextend", s, "unsat")
