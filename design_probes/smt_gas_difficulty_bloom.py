import time, z3
def run(name, s, expect=None, to=60000):
    s.set("timeout", to)
    t=time.time(); r=s.check(); dt=time.time()-t
    print(f"{name}: {r} {dt:.2f}s", "(expected %s)"%expect if expect else "")

# (f) gas accounting distributivity in Int
gas, left, p, bal = z3.Ints('gas left p bal')
s=z3.Solver()
s.add(gas>=0, left>=0, left<=gas, p>=0, bal>=gas*p, gas < 2**64, p < 2**256)
after = bal - gas*p + left*p
spec = bal - (gas-left)*p
s.add(after != spec)
run("f-int-distrib", s, "unsat")

# (f') same in BV 320
W=330
gas, left, p, bal = [z3.BitVec(n,W) for n in ('gas','left','p','bal')]
s=z3.Solver()
s.add(z3.ULT(gas, 2**64), z3.ULE(left,gas), z3.ULT(p,2**256), z3.ULT(bal,2**256))
after = bal - gas*p + left*p
spec = bal - (gas-left)*p
s.add(after != spec)
run("f-bv330-distrib", s, "unsat", 30000)

# (e) difficulty Int: mutant detection -99 vs -98
t, pt, pd = z3.Ints('t pt pd')
def diff(lo):
    x = 1 - (t-pt)/10
    x = z3.If(x < lo, lo, x)
    y = pd/2048
    r = pd + y*x
    return z3.If(r < 99999999, 99999999, r)
s=z3.Solver()
s.add(t>pt, pt>=0, pd>=99999999, pd < 2**256, t < 2**64)
s.add(diff(-99) != diff(-98))
run("e-int-mutant", s, "sat")
s=z3.Solver()
s.add(t>pt, pt>=0, pd>=99999999, pd < 2**256, t < 2**64)
# equivalence of two syntactically different formulations: x*y vs y*x and max placement
x = 1 - (t-pt)/10
x2 = z3.If(x >= -99, x, z3.IntVal(-99))
r2 = pd + x2*(pd/2048)
r2 = z3.If(r2 >= 99999999, r2, 99999999)
s.add(diff(-99) != r2)
run("e-int-equiv", s, "unsat")

# (i) bloom 2048
B=2048
h = z3.BitVec('h', 48)
other = z3.BitVec('other', B)
def bit(i):
    hi = z3.Extract(47-16*i, 40-16*i, h); lo = z3.Extract(39-16*i, 32-16*i, h)
    idx = (z3.ZeroExt(B-8, lo) + (z3.ZeroExt(B-8, hi) << 8)) & 2047
    return z3.BitVecVal(1,B) << idx
r = bit(0)|bit(1)|bit(2)
bloom = other | r
s=z3.Solver()
s.add((bloom & r) != r)
run("i-bloom-nofalseneg", s, "unsat")
s=z3.Solver()
s.add(((other | bit(0)|bit(1)) & r) == r, other==0)
run("i-bloom-mutant(drop third bit) sat?", s, "sat")
