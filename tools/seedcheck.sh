#!/bin/bash
# seedcheck.sh <ID> <outdir> [check-harness-filter]
# Confirms a seeded change in a fresh scratch worktree of /repo HEAD:
#   demo passes without the change, fails with it; existing tests of the touched
#   packages pass with it; then runs the /verif check against the changed tree.
# Stores the result under /verif/seeded/<ID>/ (patch.diff, demo, meta.json).
set -u
ID=$1; OUT=$2; NAME=${3:-$ID}; PROP=${4:-$ID}
export GOFLAGS=-mod=mod GOPROXY=off
WT=/tmp/sc-$NAME
git -C /repo worktree remove --force $WT 2>/dev/null
git -C /repo worktree add --detach $WT HEAD -q || exit 2
trap 'git -C /repo worktree remove --force '$WT' 2>/dev/null' EXIT
DEMOLOC=$(python3 -c "import json;print(json.load(open('$OUT/meta.json'))['demo_location'])")
DEMOCMD=$(python3 -c "import json;print(json.load(open('$OUT/meta.json'))['demo_cmd'])")
PKGS=$(python3 -c "
import json,os
m=json.load(open('$OUT/meta.json'))
print(' '.join(sorted({'./'+os.path.dirname(f)+'/' for f in m['files_changed']})))")
DEMOSRC=$(ls $OUT/*demo*_test.go $OUT/demo_test.go 2>/dev/null | head -1)
cp "$DEMOSRC" $WT/$DEMOLOC
cd $WT
echo "== demo WITHOUT change"; (eval "$DEMOCMD") > /tmp/sc-$NAME.clean.log 2>&1; R_CLEAN=$?; tail -3 /tmp/sc-$NAME.clean.log
git apply $OUT/patch.diff || { echo "patch does not apply"; exit 2; }
echo "== demo WITH change"; (eval "$DEMOCMD") > /tmp/sc-$NAME.mut.log 2>&1; R_MUT=$?; tail -5 /tmp/sc-$NAME.mut.log
rm -f $WT/$DEMOLOC
echo "== existing tests WITH change: $PKGS"; go test -vet=off -count=1 -p 4 $PKGS > /tmp/sc-$NAME.tests.log 2>&1; R_TESTS=$?; tail -4 /tmp/sc-$NAME.tests.log
echo "== /verif check against the change"
cd /verif
(VERIF_REPO=$WT timeout 3000 ./bin/gosym -prop $PROP -j ${J:-8} > /tmp/sc-$NAME.check.log 2>&1); R_CHECK=$?
grep -E "^(VIOLATION|KNOWN-FINDING|MACHINERY-FAULT|OK)" /tmp/sc-$NAME.check.log | cut -c1-260 | head -8
echo "RESULT id=$NAME demo_clean_exit=$R_CLEAN demo_mut_exit=$R_MUT tests_exit=$R_TESTS check_exit=$R_CHECK"
mkdir -p /verif/seeded/$NAME
cp $OUT/patch.diff /verif/seeded/$NAME/patch.diff
cp "$DEMOSRC" /verif/seeded/$NAME/$(basename $DEMOLOC)
python3 - <<EOF
import json
m=json.load(open('$OUT/meta.json'))
vio=[l.strip() for l in open('/tmp/sc-$NAME.check.log') if l.startswith('VIOLATION') or l.startswith('  harness=')][:4]
out={"property":"$PROP","breaks":m.get("what_breaks"),"needs_to_manifest":m.get("needs_to_manifest"),
 "files_changed":m.get("files_changed"),"demo_location":m.get("demo_location"),"demo_cmd":m.get("demo_cmd"),
 "author":"independent sub-agent given only the property text and a scratch worktree",
 "confirmed_by_lead":{"base_commit":"$(git -C /repo rev-parse --short HEAD)","demo_without_change_exit":$R_CLEAN,"demo_with_change_exit":$R_MUT,
   "existing_tests_with_change":{"cmd":"go test -vet=off -count=1 $PKGS","exit":$R_TESTS}},
 "check":{"cmd":"VERIF_REPO=<worktree with patch> bin/gosym -prop $PROP","exit":$R_CHECK,"detected":$R_CHECK==1,"report":vio}}
json.dump(out,open('/verif/seeded/$NAME/meta.json','w'),indent=1)
EOF
