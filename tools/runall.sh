#!/bin/bash
# runall.sh [tier] [ids...] : run the registered checks sequentially in /verif against /repo,
# printing exit code and wall time per property (evidence files are rewritten by each run).
cd /verif
TIER=${1:-quick}; shift
IDS=${@:-C01 C02 C03 C04 C05 C06 C07 C08 C09 C10 C11 C12 C13 C14 C15 C16 C17 C18 C19 C20}
for i in $IDS; do
  t0=$(date +%s)
  timeout ${TMO:-3000} ./bin/gosym -prop $i -tier $TIER > /tmp/runall-$i.log 2>&1
  rc=$?
  t1=$(date +%s)
  echo "$i exit=$rc wall=$((t1-t0))s $(grep -c '^KNOWN-FINDING' /tmp/runall-$i.log) known, $(grep -c '^VIOLATION' /tmp/runall-$i.log) violations, $(grep -c '^MACHINERY' /tmp/runall-$i.log) faults"
done
