#!/usr/bin/env python3
"""Regenerates /verif/MANIFEST.json from the table below (claimed checks) and
properties.jsonl (everything not claimed goes to not_applicable with a reason)."""
import json, os

V = "/verif"
TECH = "bounded symbolic execution of the real Go code (go/ssa regenerated from /repo each run) to SMT-LIB2, decided by %s; a query the long-lived solver process leaves undecided is re-asked once in a fresh non-incremental process (which also delivers the model where one is needed) and is a machinery fault (exit 2) if still undecided; counterexamples replayed natively"

def tech(i):
    solver = "z3 4.8.12"
    try:
        suite = json.load(open(os.path.join(V, "suites", i + ".json")))
        if '"solver_mode": "fresh"' in json.dumps(suite):
            return (TECH % solver).replace("a query the long-lived solver process leaves undecided is re-asked once in a fresh non-incremental process (which also delivers the model where one is needed) and is a machinery fault (exit 2) if still undecided",
                                           "harnesses in 'fresh' solver mode decide every query non-incrementally after a (reset), elsewhere an undecided query is re-asked once in a fresh non-incremental process; still undecided = machinery fault (exit 2)")
        if suite.get("solver") == "cvc5-bvint":
            solver = "cvc5 1.0 with bit-vectors translated to integer arithmetic (--solve-bv-as-int=sum; gas*price products)"
    except OSError:
        pass
    return TECH % solver

# id -> (level text, level note, design ref)
CLAIMED = {
 "C11": ("Bounded symbolic model checking of the RLP primitives: rlp.Split/readKind/readSize/puthead/putint/intsize/headsize are executed from their SSA form on a buffer with symbolic header bytes (lengths 0..hdr and the boundary lengths 56..59, 64, 257..259, 300) and the solver shows for every such input that acceptance implies the real encoder reproduces the consumed prefix byte for byte (one encoding per value), that rejection returns the input, that no Go run-time panic is reachable, and that encoder output round-trips; unsat = holds for all inputs within the bound.",
         "Bounds: header window 10 (quick) / 12 (thorough) symbolic bytes, content beyond the window is zero padding (readKind never inspects it), sizes <= 300. Outside: reflection-generated typed encoders/decoders, io.Reader streams without known length. Trusted: go/ssa, the engine's instruction semantics (validated per run by executing sampled paths natively and comparing observations), z3.",
         "DESIGN.md §5 C11"),
 "C08": ("Bounded symbolic model checking of the EVM word instructions: the real op* functions (with the real stack, intPool and common/math helpers) are executed on fully symbolic 256-bit operands; BV-mode ops (ADD SUB NOT LT GT SLT SGT EQ ISZERO AND OR XOR BYTE SHL SHR SAR SIGNEXTEND) are compared with SMT-LIB bit-vector operators, Int-mode ops (MUL DIV SDIV MOD SMOD ADDMOD MULMOD) with the Yellow-Paper integer definitions; also stack discipline, 256-bit result range and intPool aliasing. unsat = equal for all 2^256-valued operands.",
         "math/big is an SMT theory (Int or two's-complement BV with width obligations), not executed. Known finding C08-SAR-zero-shift-ge-256 is reported as KNOWN-FINDING. Outside: SHA3 digest, gas tables and memory ops (until their harnesses are added), multi-instruction programs. Trusted: go/ssa, engine semantics (validated natively on sampled paths each run), z3.",
         "DESIGN.md §5 C08"),
}

REASON_PENDING = "check under construction in this session (harness planned in DESIGN.md §5); not yet registered because it has not run clean on the unchanged tree"

def main():
    props = [json.loads(l) for l in open(os.path.join(V, "properties.jsonl"))]
    extra = {}
    p = os.path.join(V, "tools", "manifest_extra.json")
    if os.path.exists(p):
        extra = json.load(open(p))
    claimed = dict(CLAIMED)
    for k, v in extra.get("claimed", {}).items():
        claimed[k] = tuple(v)
    na_reason = extra.get("not_applicable", {})
    checks = []
    for pr in props:
        i = pr["id"]
        if i not in claimed:
            continue
        text, note, ref = claimed[i]
        checks.append({
            "property_id": i,
            "quick_cmd": f"bin/gosym -prop {i} -tier quick",
            "thorough_cmd": f"bin/gosym -prop {i} -tier thorough",
            "evidence_file": f"/verif/evidence/{i}.json",
            "replay_cmd_template": "bin/gosym -replay {path}",
            "engine": "gosym",
            "level_claimed": {"category": "model_checking", "text": text, "design_ref": ref},
            "level_note": note,
            "technique": tech(i),
        })
    m = {
        "version": 1,
        "setup_cmd": "cd /verif/engine && GOFLAGS=-mod=mod GOPROXY=off go build -o ../bin/gosym .",
        "hooks": {"guard": "verif",
                  "enable": "none needed: harnesses are injected with go/packages Overlay and go test -overlay; nothing is written into /repo",
                  "baseline_off_cmd": "cd /repo && GOFLAGS=-mod=mod go test -vet=off -count=1 -timeout 25m ./...",
                  "source_commits": [], "add_only": True},
        "engines": [{"name": "gosym", "path": "/verif/engine",
                     "serves_properties": [c["property_id"] for c in checks],
                     "kind_free_text": "SSA -> SMT-LIB2 bounded symbolic executor for Go (own implementation on golang.org/x/tools/go/ssa v0.29.0), z3 4.8.12 back end, native replay and per-run translator validation"}],
        "checks": checks,
        "not_applicable": [{"property_id": pr["id"], "reason": na_reason.get(pr["id"], REASON_PENDING)}
                           for pr in props if pr["id"] not in claimed],
        "notes": "Every check reloads /repo's working tree (SSA) on each run; exit 0 = all obligations unsat within the registered bounds (KNOWN-FINDING lines allowed), 1 = replay-confirmed VIOLATION, 2 = machinery fault (unknown/unsupported/vacuous), never reported as success.",
    }
    json.dump(m, open(os.path.join(V, "MANIFEST.json"), "w"), indent=1)
    print("claimed:", [c["property_id"] for c in checks])

main()
